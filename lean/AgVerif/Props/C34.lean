/-
C34 — APK file access returns the archive's entries.
Property theorems only (helper lemmas live in AgVerif/Proof/ApkFiles.lean).

Model: AgVerif.ApkFiles (the two regular expressions of get_dex_names / is_multidex compiled by
hand, filter / count / lookup over an abstract entry list).  The model describes the tree with
fixes/C34-dex-name-regex.diff applied.  Reading the zip container (apkInspector) is NOT modelled:
`entries` is a parameter; that part is covered by correspondence with Python's zipfile only.
All theorems quantify over every name / every list of names / every entry list.
-/
import AgVerif.Proof.ApkFiles
namespace AgVerif.C34
open AgVerif.ApkFiles

/-- The pattern texts and the matching method the hand-compiled predicates were derived from are
    the ones in the source (Gen/ApkRegex.lean is regenerated from the working tree each run):
    any change there breaks this theorem and forces `dexMatch`/`multidexMatch` to be re-derived. -/
theorem regex_pinned :
    Gen.dexRegex = "classes([0-9]*)\\.dex" ∧ Gen.dexRegexMethod = "fullmatch" ∧
    Gen.multidexRegex = "classes([0-9]+)?\\.dex" ∧ Gen.multidexRegexMethod = "fullmatch" := by
  decide

/-- `get_dex_names` accepts exactly `classes`, zero or more ASCII digits, `.dex`. -/
theorem dex_name_spec (n : Name) :
    dexMatch n = true ↔
      ∃ ds : List Char, (∀ c ∈ ds, c.isDigit = true) ∧ n = "classes".toList ++ ds ++ ".dex".toList :=
  dexMatch_iff n

/-- `is_multidex`'s pattern (optional non-empty digit group) accepts exactly the same names. -/
theorem multidex_match_spec (n : Name) :
    multidexMatch n = true ↔
      ∃ ds : List Char, (∀ c ∈ ds, c.isDigit = true) ∧ n = "classes".toList ++ ds ++ ".dex".toList := by
  rw [multidexMatch_eq_dexMatch]; exact dexMatch_iff n

/-- the two methods agree on what a DEX name is -/
theorem dex_multidex_agree (n : Name) : dexMatch n = multidexMatch n :=
  (multidexMatch_eq_dexMatch n).symm

/-- The multidex flag is "more than one DEX name listed". -/
theorem multidex_spec (names : List Name) :
    isMultidex names = true ↔ 1 < (dexNames names).length := by
  have : (fun n => multidexMatch n) = fun n => dexMatch n := funext multidexMatch_eq_dexMatch
  simp only [isMultidex, dexNames, decide_eq_true_eq]
  rw [show multidexMatch = dexMatch from this]

/-- The DEX listing is the listing of all files filtered by ANY decision procedure for the
    specification: same elements, same multiplicity, archive order. -/
theorem dex_names_spec (names : List Name) (p : Name → Bool) (hp : ∀ n, p n = true ↔ IsDexName n) :
    dexNames names = names.filter p := by
  have : dexMatch = p := by
    funext n
    rw [Bool.eq_iff_iff, dexMatch_iff, hp]
  simp only [dexNames, this]

/-- Archive order is kept: the DEX listing is a subsequence of the file listing. -/
theorem dex_names_sublist (names : List Name) : (dexNames names).Sublist names :=
  List.filter_sublist

/-- A name is listed iff it is an entry and satisfies the specification. -/
theorem dex_names_mem (names : List Name) (n : Name) :
    n ∈ dexNames names ↔ n ∈ names ∧ IsDexName n := by
  simp only [dexNames, List.mem_filter, dexMatch_iff]

/-- the count of listed names is the count of entries satisfying the specification -/
theorem dex_names_count (names : List Name) (n : Name) (h : IsDexName n) :
    (dexNames names).count n = names.count n := by
  simp only [dexNames]
  rw [List.count_filter]
  exact (dexMatch_iff n).2 h

/-- Root level only: a name with a directory separator is never a DEX name. -/
theorem nested_never_dex (n : Name) (h : '/' ∈ n) : dexMatch n = false := by
  apply Bool.eq_false_iff.2
  intro hm
  have := ((dexMatch_iff n).1 hm).chars '/' h
  revert this; decide

/-- Every character of a DEX name is an ASCII digit or a letter of `classes.dex`
    (no newline, no space, no Unicode digit, no upper case), and it has at least 11 characters. -/
theorem dex_name_alphabet (n : Name) (h : dexMatch n = true) :
    (∀ c ∈ n, c.isDigit = true ∨ c ∈ "clase.dx".toList) ∧ 11 ≤ n.length :=
  ⟨((dexMatch_iff n).1 h).chars, ((dexMatch_iff n).1 h).length⟩

/-- The look-alikes the unfixed patterns (`^classes(\d*).dex$` + match, `^classes(\d+)?.dex$` +
    search) accepted are rejected by both predicates. -/
theorem lookalikes_rejected :
    ∀ s ∈ ["classesXdex", "classes/dex", "classes.dex\n", "classes٣.dex", "classes３.dex", "classes².dex",
           "Classes.dex", "classes.dex ", " classes.dex", "\nclasses.dex", "classes.DEX", "classes-1.dex",
           "classes1.dex\n", "classes1xdex", "a/classes.dex", "classes.dex/x", "xclasses.dex",
           "classes.dexx", "classes..dex", "classes1.2.dex", "classe.dex", "classes.de", "", "classes",
           ".dex", "classes1", "classes+1.dex", "classes 1.dex"],
      dexMatch s.toList = false ∧ multidexMatch s.toList = false := by
  decide

/-- The names that must be accepted are accepted (non-vacuity of the specification, both forms). -/
theorem dex_names_accepted :
    ∀ s ∈ ["classes.dex", "classes2.dex", "classes10.dex", "classes0.dex", "classes007.dex",
           "classes1234567890.dex", "classes1.dex"],
      dexMatch s.toList = true ∧ multidexMatch s.toList = true := by
  decide

/-- (about the dict itself: an association list with DISTINCT keys; for the archive with possibly
    repeated names see `archive_get_file_spec` below) Reading a key returns its value. -/
theorem get_file_spec (entries : List (Name × Bytes)) (n : Name) (b : Bytes)
    (hmem : (n, b) ∈ entries) (hnd : (getFiles entries).Nodup) :
    getFile entries n = .ok b :=
  getFile_of_mem entries n b hmem hnd

/-- Whatever `get_file` returns is the content of an entry of that name (no distinctness needed). -/
theorem get_file_sound (entries : List (Name × Bytes)) (n : Name) (b : Bytes)
    (h : getFile entries n = .ok b) : (n, b) ∈ entries :=
  getFile_ok_mem entries n b h

/-- A missing entry raises FileNotPresent — and only a missing entry does. -/
theorem missing_raises (entries : List (Name × Bytes)) (n : Name) :
    n ∉ getFiles entries ↔ getFile entries n = .error .fileNotPresent := by
  constructor
  · exact getFile_of_not_mem entries n
  · intro h hin
    obtain ⟨⟨m, b⟩, he, rfl⟩ := List.mem_map.1 hin
    -- the first entry of that name is returned: not an error
    clear hin
    induction entries with
    | nil => cases he
    | cons e rest ih =>
      obtain ⟨m', b'⟩ := e
      by_cases hm : m' = m
      · simp [getFile, hm] at h
      · simp only [getFile] at h
        rw [if_neg hm] at h
        cases he with
        | head => exact hm rfl
        | tail _ hin => exact ih hin h

/-- `get_all_dex` yields `get_file` of each listed DEX name in archive order; under distinct names
    these are exactly the contents of the entries whose name satisfies the specification, in
    archive order, none of them an error. -/
theorem get_all_dex_spec (entries : List (Name × Bytes)) :
    getAllDex entries = (dexNames (getFiles entries)).map (getFile entries) ∧
    ((getFiles entries).Nodup →
      getAllDex entries = (entries.filter (fun e => dexMatch e.1)).map (fun e => .ok e.2)) :=
  ⟨rfl, fun hnd => map_getFile_filter dexMatch entries entries (fun _ h => h) hnd⟩

/-- the number of blobs `get_all_dex` yields decides the multidex flag -/
theorem multidex_all_dex (entries : List (Name × Bytes)) :
    isMultidex (getFiles entries) = true ↔ 1 < (getAllDex entries).length := by
  rw [multidex_spec]; simp [getAllDex]

/-! ### the archive as its central directory — names MAY repeat (independent Spec/ApkFiles.lean)

`cd` is the sequence of central-directory file headers (name, uncompressed content of the member) in
directory order.  `dictOf cd` is the name-keyed dict apkInspector builds from it (`d[name] = entry` per
header); the real `get_files` / `get_file` / `get_dex_names` / `get_all_dex` / `is_multidex` are the
functions above applied to that dict.  No `Nodup` hypothesis: for a repeated name the behaviour is
spelled out by the specification (`listed`: once, at its first position; `contentOf`: the LAST
header's content) and tied to the real code and to `zipfile` by the `duplicates` correspondence stream.
Decoding the zip container into `cd` (apkInspector, zlib) remains OUTSIDE the model. -/

/-- `get_files` lists every header name exactly once, in first-occurrence order. -/
theorem archive_files_spec (cd : List (Name × Bytes)) :
    getFiles (dictOf cd) = Spec.ApkFiles.listed (cd.map Prod.fst) ∧
    (getFiles (dictOf cd)).Nodup ∧ (getFiles (dictOf cd)).Sublist (cd.map Prod.fst) ∧
    (∀ n, n ∈ getFiles (dictOf cd) ↔ n ∈ cd.map Prod.fst) ∧
    ((cd.map Prod.fst).Nodup → getFiles (dictOf cd) = cd.map Prod.fst) := by
  rw [dictOf_keys]
  exact ⟨rfl, listed_nodup _, listed_sublist _, mem_listed _, listed_of_nodup _⟩

/-- `get_file n` returns the content the specification assigns to `n` — that of the LAST header named
    `n` — and raises FileNotPresent exactly when no header carries the name. No distinctness needed. -/
theorem archive_get_file_spec (cd : List (Name × Bytes)) (n : Name) :
    getFile (dictOf cd) n =
      match Spec.ApkFiles.contentOf cd n with
      | some b => .ok b
      | none => .error .fileNotPresent :=
  dictOf_getFile cd n

/-- what `contentOf` means: the last header of a name decides (any headers before, none after). -/
theorem archive_last_header_wins (pre post : List (Name × Bytes)) (n : Name) (b : Bytes)
    (h : n ∉ post.map Prod.fst) :
    getFile (dictOf (pre ++ (n, b) :: post)) n = .ok b := by
  rw [dictOf_getFile, contentOf_last pre post n b h]

/-- a name without header raises FileNotPresent, and only such a name does (names may repeat). -/
theorem archive_missing_raises (cd : List (Name × Bytes)) (n : Name) :
    getFile (dictOf cd) n = .error .fileNotPresent ↔ n ∉ cd.map Prod.fst := by
  rw [dictOf_getFile, ← contentOf_eq_none]
  cases Spec.ApkFiles.contentOf cd n <;> simp

/-- `get_dex_names` / `is_multidex` / `get_all_dex` over a central directory with repeated names: the
    DEX names are the listed names satisfying the specification, each once, in first-occurrence
    order; `get_all_dex` yields for each of them the content of its LAST header, never an error;
    a DEX name repeated in the directory counts ONCE for the multidex flag. -/
theorem archive_dex_spec (cd : List (Name × Bytes)) :
    (∀ n, n ∈ dexNames (getFiles (dictOf cd)) ↔ n ∈ cd.map Prod.fst ∧ Spec.ApkFiles.IsDexName n) ∧
    (dexNames (getFiles (dictOf cd))).Nodup ∧
    (dexNames (getFiles (dictOf cd))).Sublist (cd.map Prod.fst) ∧
    getAllDex (dictOf cd) = (dexNames (Spec.ApkFiles.listed (cd.map Prod.fst))).map (fun n =>
      match Spec.ApkFiles.contentOf cd n with
      | some b => .ok b
      | none => .error .fileNotPresent) ∧
    (∀ r ∈ getAllDex (dictOf cd), r ≠ .error .fileNotPresent) ∧
    (isMultidex (getFiles (dictOf cd)) = true ↔
      1 < ((Spec.ApkFiles.listed (cd.map Prod.fst)).filter dexMatch).length) := by
  refine ⟨?_, ?_, ?_, getAllDex_dictOf cd, ?_, ?_⟩
  · intro n
    rw [dex_names_mem, dictOf_keys, mem_listed]; rfl
  · rw [dictOf_keys]; exact (listed_nodup _).sublist (dex_names_sublist _)
  · rw [dictOf_keys]; exact (dex_names_sublist _).trans (listed_sublist _)
  · rw [getAllDex_dictOf]
    intro r hr
    obtain ⟨n, hn, rfl⟩ := List.mem_map.1 hr
    have hmem : n ∈ cd.map Prod.fst := (mem_listed _ n).1 ((dex_names_sublist _).subset hn)
    cases h : Spec.ApkFiles.contentOf cd n with
    | some b => simp
    | none => exact absurd hmem ((contentOf_eq_none cd n).1 h)
  · rw [multidex_spec, dictOf_keys]; rfl

/-! ### non-vacuity -/

example : (getFiles sample).Nodup := by decide
example : dexNames (getFiles sample) = ["classes10.dex".toList, "classes.dex".toList, "classes2.dex".toList] := by
  decide
example : isMultidex (getFiles sample) = true := by decide
example : isMultidex (getFiles (sample.take 3)) = false := by decide
example : getAllDex sample = [.ok [1, 2], .ok [100, 101, 120], .ok []] := by
  rw [(get_all_dex_spec sample).2 (by decide)]; rfl
example : getFile sample "classes.dex".toList = .ok [100, 101, 120] :=
  get_file_spec sample _ _ (by decide) (by decide)
example : getFile sample "classes.dex\n".toList = .error .fileNotPresent :=
  (missing_raises sample _).1 (by decide)
example : IsDexName "classes42.dex".toList := ⟨"42".toList, by decide, by decide⟩
example : ¬ IsDexName "classes/dex".toList := fun h => by
  have := (dex_name_spec _).2 h; revert this; decide
example : '/' ∈ "res/classes.dex".toList := by decide

/-- a central directory with repeated names (also a repeated DEX name) -/
def dupDir : List (Name × Bytes) :=
  [("a".toList, [1]), ("classes.dex".toList, [10]), ("b".toList, [2, 2]), ("a".toList, [3, 3, 3]),
   ("classes.dex".toList, [20, 20]), ("a".toList, [])]
example : getFiles (dictOf dupDir) = ["a".toList, "classes.dex".toList, "b".toList] := by decide
example : getFile (dictOf dupDir) "a".toList = .ok [] := rfl
example : getFile (dictOf dupDir) "a".toList = .ok [] :=
  archive_last_header_wins (dupDir.take 5) [] "a".toList [] (by decide)
example : getAllDex (dictOf dupDir) = [.ok [20, 20]] := by rfl
example : isMultidex (getFiles (dictOf dupDir)) = false := by decide
example : getFile (dictOf dupDir) "c".toList = .error .fileNotPresent :=
  (archive_missing_raises dupDir _).2 (by decide)

end AgVerif.C34
