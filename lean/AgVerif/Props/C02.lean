/-
C02 — Linear-sweep disassembly recovers the instruction stream and always terminates.
Property theorems only (lemmas: AgVerif/Proof/Sweep.lean, AgVerif/Proof/Insn*.lean).

Model: AgVerif.Sweep (Model/Sweep.lean) — `LinearSweepAlgorithm.get_instructions` with fixes/C02-*.diff applied,
payload classes, on top of the instruction model of C01.  `sweepFrom` is defined by well-founded recursion on
`maxIdx - idx`; Lean accepts the definition (no fuel) because every built object has positive length
(`item_len_pos`), so the sweep terminates on every input by construction.
-/
import AgVerif.Proof.Sweep
import AgVerif.Proof.SweepSound
namespace AgVerif.C02
open AgVerif.Insn AgVerif.Sweep AgVerif.Gen

/-- Termination argument: every object one loop iteration builds has positive length (instructions: the generated
    `length` table; `Instruction00x.length = 0` is harmless because its constructor always raises). -/
theorem item_len_pos (odex : Bool) (bs : List Nat) (maxIdx idx : Nat) (it : Item)
    (h : step odex bs maxIdx idx = some it) : 0 < it.length := step_len_pos h

/-- The loop is the total function `sweepFrom`: it satisfies the loop equation of the Python code for every input. -/
theorem sweep_loop_equation (odex : Bool) (bs : List Nat) (maxIdx idx : Nat) :
    sweepFrom odex bs maxIdx idx =
      if idx < maxIdx then
        match step odex bs maxIdx idx with
        | none => ([], .invalid idx)
        | some it => ((idx, it) :: (sweepFrom odex bs maxIdx (idx + it.length)).1,
                      (sweepFrom odex bs maxIdx (idx + it.length)).2)
      else ([], .done) := sweepFrom_eq odex bs maxIdx idx

/-- For ARBITRARY code bytes, declared size and start index: every yielded item starts at or after the start index,
    lies entirely inside the code (`≤ min(2·size, len)`), is exactly what one loop iteration builds at its offset,
    and — for instruction items — re-encodes to the bytes at its offset. -/
theorem sweep_sound_partial (odex : Bool) (size : Nat) (bs : List Nat) (idx : Nat) (hb : AllBytes bs) :
    ∀ p ∈ (sweep odex size bs idx).1,
      idx ≤ p.1 ∧ p.1 + p.2.length ≤ maxIdxOf size bs ∧ maxIdxOf size bs ≤ bs.length ∧
      step odex bs (maxIdxOf size bs) p.1 = some p.2 ∧
      (∀ f x, p.2 = .insn f x → p.2.raw = some ((bs.drop p.1).take p.2.length)) := by
  intro p hp
  have h := sweepFrom_sound odex bs (maxIdxOf size bs) _ idx (Nat.le_refl _) p hp
  refine ⟨h.1, h.2.1, ?_, h.2.2, ?_⟩
  · unfold maxIdxOf; split <;> omega
  · intro f x hfx
    have hs := h.2.2
    rw [hfx] at hs ⊢
    exact (insn_raw hb hs).1

/-- The full soundness statement: payload items too re-encode to the bytes at their offset.
    Proved: `sweep_sound` / `sweep_sound_full_proved`. -/
def sweep_sound_full : Prop :=
  ∀ (odex : Bool) (size : Nat) (bs : List Nat) (idx : Nat), AllBytes bs →
    ∀ p ∈ (sweep odex size bs idx).1,
      p.1 + p.2.length ≤ maxIdxOf size bs ∧ p.2.raw = some ((bs.drop p.1).take p.2.length)

/-- For ARBITRARY code bytes, declared size, start index and ODEX flag: every yielded item — instruction,
    packed-switch, sparse-switch or fill-array-data payload (any size, odd array lengths with their padding byte
    included) — starts at or after the start index, lies entirely inside the code, is what one loop iteration builds at
    its offset, and `get_raw()` of it does not raise and returns exactly the bytes at its offset. -/
theorem sweep_sound (odex : Bool) (size : Nat) (bs : List Nat) (idx : Nat) (hb : AllBytes bs) :
    ∀ p ∈ (sweep odex size bs idx).1,
      idx ≤ p.1 ∧ p.1 + p.2.length ≤ maxIdxOf size bs ∧ maxIdxOf size bs ≤ bs.length ∧
      step odex bs (maxIdxOf size bs) p.1 = some p.2 ∧
      p.2.raw = some ((bs.drop p.1).take p.2.length) := by
  intro p hp
  have h := sweepFrom_sound odex bs (maxIdxOf size bs) _ idx (Nat.le_refl _) p hp
  have hmax : maxIdxOf size bs ≤ bs.length := by unfold maxIdxOf; split <;> omega
  exact ⟨h.1, h.2.1, hmax, h.2.2, step_raw hb hmax h.2.2⟩

theorem sweep_sound_full_proved : sweep_sound_full := by
  intro odex size bs idx hb p hp
  have h := sweep_sound odex size bs idx hb p hp
  exact ⟨h.2.1, h.2.2.2.2⟩

/-- Payload round trip on its own: what a payload constructor reads from a buffer that holds the whole payload,
    `get_raw()` writes back byte for byte. -/
theorem payload_roundtrip (buff : List Nat) (it : Item) (hb : AllBytes buff) (h : Built buff it)
    (hlen : it.length ≤ buff.length) : it.raw = some (buff.take it.length) :=
  built_raw hb h hlen

/-- Anything else is reported as an invalid instruction: the sweep ends either normally or with InvalidInstruction
    at an offset inside the code where no object can be built. -/
theorem sweep_outcome (odex : Bool) (size : Nat) (bs : List Nat) (idx : Nat) :
    (sweep odex size bs idx).2 = .done ∨
    ∃ o, (sweep odex size bs idx).2 = .invalid o ∧ idx ≤ o ∧ o < maxIdxOf size bs ∧
      step odex bs (maxIdxOf size bs) o = none :=
  sweepFrom_outcome odex bs (maxIdxOf size bs) _ idx (Nat.le_refl _)

/-- Exact recovery: if each item of a program is what the loop builds at its prefix-sum offset and the items fill the
    declared code exactly, disassembly yields exactly those items, in order, at their true byte offsets, and consumes
    exactly the declared size.  (The hypothesis `StepsOK` is decidable for a concrete program; that the bytes of
    *every* validly assembled item satisfy it — encode-then-decode — is not proved in Lean: `_partial`.) -/
theorem sweep_assembled_partial (odex : Bool) (size : Nat) (bs : List Nat) (prog : List Item)
    (hok : StepsOK odex bs (maxIdxOf size bs) 0 prog) (hlen : totalLen prog = maxIdxOf size bs) :
    sweep odex size bs 0 = (withOffsets 0 prog, .done) :=
  sweepFrom_exact odex bs (maxIdxOf size bs) prog 0 hok (by omega)

/-! ### non-vacuity and the repaired witnesses -/

-- D2: `ff 01 00 00` is const-method-type v1 (opcode 0xff with a register byte)
example : step false [0xff, 0x01, 0x00, 0x00] 4 0 = some (.insn .f21c ⟨.f21c, 0xff, [1, 0]⟩) := by rfl
-- D3: a packed-switch payload of declared size 100 in 12 bytes of code is invalid
example : step false [0x00, 0x01, 0x64, 0x00, 0, 0, 0, 0, 0, 0, 0, 0] 12 0 = none := by rfl
-- D4: an odd trailing byte is invalid
example : step false [0x00, 0x00, 0x00] 3 2 = none := by rfl
-- fill-array-data payload with 3 one-byte elements: the padding byte is part of the item and of its raw bytes
example : step false [0x00, 0x03, 0x01, 0x00, 0x03, 0x00, 0x00, 0x00, 7, 8, 9, 0xAA] 12 0 = some (.fill 1 3 [7, 8, 9, 0xAA]) := by rfl
example : (Item.fill 1 3 [7, 8, 9, 0xAA]).raw = some [0x00, 0x03, 0x01, 0x00, 0x03, 0x00, 0x00, 0x00, 7, 8, 9, 0xAA] := by decide
-- a program: nop; packed-switch-payload with one target; return-void
example : sweep false 9 [0, 0, 0x00, 0x01, 0x01, 0x00, 5, 0, 0, 0, 0xfd, 0xff, 0xff, 0xff, 0x0e, 0x00, 0x0e, 0x00] 0 =
    ([(0, .insn .f10x ⟨.f10x, 0, []⟩), (2, .packed 1 5 [-3]), (14, .insn .f10x ⟨.f10x, 0x0e, []⟩),
      (16, .insn .f10x ⟨.f10x, 0x0e, []⟩)], .done) :=
  sweep_assembled_partial false 9 _ [.insn .f10x ⟨.f10x, 0, []⟩, .packed 1 5 [-3], .insn .f10x ⟨.f10x, 0x0e, []⟩,
      .insn .f10x ⟨.f10x, 0x0e, []⟩]
    ⟨by decide, by rfl, by decide, by rfl, by decide, by rfl, by decide, by rfl, trivial⟩ (by rfl)

end AgVerif.C02
