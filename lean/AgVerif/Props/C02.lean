/-
C02 — Linear-sweep disassembly recovers the instruction stream and always terminates.
Property theorems only (lemmas: AgVerif/Proof/Sweep.lean, AgVerif/Proof/Insn*.lean).

Model: AgVerif.Sweep (Model/Sweep.lean) — `LinearSweepAlgorithm.get_instructions` with fixes/C02-*.diff applied,
payload classes, on top of the instruction model of C01.  `sweepFrom` is defined by well-founded recursion on
`maxIdx - idx`; Lean accepts the definition (no fuel) because every built object has positive length
(`item_len_pos`), so the sweep terminates on every input by construction.
-/
import AgVerif.Proof.Sweep
import AgVerif.Proof.SweepSound
import AgVerif.Proof.SweepAssembled
import AgVerif.Proof.SweepLookup
import AgVerif.Proof.SweepClosure
import AgVerif.Proof.SweepPayloadSpec
namespace AgVerif.C02
open AgVerif.Insn AgVerif.Sweep AgVerif.Gen AgVerif.Spec

/-- Termination argument: every object one loop iteration builds has positive length (instructions: the generated
    `length` table; `Instruction00x.length = 0` is harmless because its constructor always raises). -/
theorem item_len_pos (odex : Bool) (bs : List Nat) (maxIdx idx : Nat) (it : Item)
    (h : step odex bs maxIdx idx = some it) : 0 < it.length := step_len_pos h

/-- The loop is the total function `sweepFrom`: it satisfies the loop equation of the Python code for every input. -/
theorem sweep_loop_equation (odex : Bool) (bs : List Nat) (maxIdx idx : Nat) :
    sweepFrom odex bs maxIdx idx =
      if idx < maxIdx then
        match step odex bs maxIdx idx with
        | none => ([], .invalid idx)
        | some it => ((idx, it) :: (sweepFrom odex bs maxIdx (idx + it.length)).1,
                      (sweepFrom odex bs maxIdx (idx + it.length)).2)
      else ([], .done) := sweepFrom_eq odex bs maxIdx idx

/-- For ARBITRARY code bytes, declared size and start index: every yielded item starts at or after the start index,
    lies entirely inside the code (`≤ min(2·size, len)`), is exactly what one loop iteration builds at its offset,
    and — for instruction items — re-encodes to the bytes at its offset. -/
theorem sweep_sound_partial (odex : Bool) (size : Nat) (bs : List Nat) (idx : Nat) (hb : AllBytes bs) :
    ∀ p ∈ (sweep odex size bs idx).1,
      idx ≤ p.1 ∧ p.1 + p.2.length ≤ maxIdxOf size bs ∧ maxIdxOf size bs ≤ bs.length ∧
      step odex bs (maxIdxOf size bs) p.1 = some p.2 ∧
      (∀ f x, p.2 = .insn f x → p.2.raw = some ((bs.drop p.1).take p.2.length)) := by
  intro p hp
  have h := sweepFrom_sound odex bs (maxIdxOf size bs) _ idx (Nat.le_refl _) p hp
  refine ⟨h.1, h.2.1, ?_, h.2.2, ?_⟩
  · unfold maxIdxOf; split <;> omega
  · intro f x hfx
    have hs := h.2.2
    rw [hfx] at hs ⊢
    exact (insn_raw hb hs).1

/-- The full soundness statement: payload items too re-encode to the bytes at their offset.
    Proved: `sweep_sound` / `sweep_sound_full_proved`. -/
def sweep_sound_full : Prop :=
  ∀ (odex : Bool) (size : Nat) (bs : List Nat) (idx : Nat), AllBytes bs →
    ∀ p ∈ (sweep odex size bs idx).1,
      p.1 + p.2.length ≤ maxIdxOf size bs ∧ p.2.raw = some ((bs.drop p.1).take p.2.length)

/-- For ARBITRARY code bytes, declared size, start index and ODEX flag: every yielded item — instruction,
    packed-switch, sparse-switch or fill-array-data payload (any size, odd array lengths with their padding byte
    included) — starts at or after the start index, lies entirely inside the code, is what one loop iteration builds at
    its offset, and `get_raw()` of it does not raise and returns exactly the bytes at its offset. -/
theorem sweep_sound (odex : Bool) (size : Nat) (bs : List Nat) (idx : Nat) (hb : AllBytes bs) :
    ∀ p ∈ (sweep odex size bs idx).1,
      idx ≤ p.1 ∧ p.1 + p.2.length ≤ maxIdxOf size bs ∧ maxIdxOf size bs ≤ bs.length ∧
      step odex bs (maxIdxOf size bs) p.1 = some p.2 ∧
      p.2.raw = some ((bs.drop p.1).take p.2.length) := by
  intro p hp
  have h := sweepFrom_sound odex bs (maxIdxOf size bs) _ idx (Nat.le_refl _) p hp
  have hmax : maxIdxOf size bs ≤ bs.length := by unfold maxIdxOf; split <;> omega
  exact ⟨h.1, h.2.1, hmax, h.2.2, step_raw hb hmax h.2.2⟩

theorem sweep_sound_full_proved : sweep_sound_full := by
  intro odex size bs idx hb p hp
  have h := sweep_sound odex size bs idx hb p hp
  exact ⟨h.2.1, h.2.2.2.2⟩

/-- Payload round trip on its own: what a payload constructor reads from a buffer that holds the whole payload,
    `get_raw()` writes back byte for byte. -/
theorem payload_roundtrip (buff : List Nat) (it : Item) (hb : AllBytes buff) (h : Built buff it)
    (hlen : it.length ≤ buff.length) : it.raw = some (buff.take it.length) :=
  built_raw hb h hlen

/-- Anything else is reported as an invalid instruction: the sweep ends either normally or with InvalidInstruction
    at an offset inside the code where no object can be built. -/
theorem sweep_outcome (odex : Bool) (size : Nat) (bs : List Nat) (idx : Nat) :
    (sweep odex size bs idx).2 = .done ∨
    ∃ o, (sweep odex size bs idx).2 = .invalid o ∧ idx ≤ o ∧ o < maxIdxOf size bs ∧
      step odex bs (maxIdxOf size bs) o = none :=
  sweepFrom_outcome odex bs (maxIdxOf size bs) _ idx (Nat.le_refl _)

/-- Exact recovery: if each item of a program is what the loop builds at its prefix-sum offset and the items fill the
    declared code exactly, disassembly yields exactly those items, in order, at their true byte offsets, and consumes
    exactly the declared size.  (The hypothesis `StepsOK` is decidable for a concrete program; that the bytes of
    *every* validly assembled item satisfy it — encode-then-decode — is not proved in Lean: `_partial`.) -/
theorem sweep_assembled_partial (odex : Bool) (size : Nat) (bs : List Nat) (prog : List Item)
    (hok : StepsOK odex bs (maxIdxOf size bs) 0 prog) (hlen : totalLen prog = maxIdxOf size bs) :
    sweep odex size bs 0 = (withOffsets 0 prog, .done) :=
  sweepFrom_exact odex bs (maxIdxOf size bs) prog 0 hok (by omega)

/-- EXACT RECOVERY, every assembled program.  `Valid prog` (decidable) asks of each item that it is an instruction of
    the class the opcode table names for its opcode with attributes in the field ranges of the format document
    (`ValidInsn`; nop padding is the instruction `nop`), or a packed-switch / sparse-switch / fill-array-data payload
    whose element lists have the declared size and whose values fit their fields (`ValidPayload`; fill-array data is
    `size * width` bytes rounded up to even, padding byte included).  No alignment is required, so the statement covers
    in particular the 4-byte aligned payloads of the Dalvik format.  Then: assembling never fails, yields
    `totalLen prog` (an even number of) bytes, and disassembling these bytes — even when followed by further bytes
    `post` — with the declared size `totalLen prog / 2` code units returns exactly the program's items, in order, at
    their prefix-sum byte offsets, and ends normally: it consumes exactly the declared size. -/
theorem sweep_assembled (prog : List Item) (hv : Valid prog = true) :
    ∃ bs, assemble prog = some bs ∧ AllBytes bs ∧ bs.length = totalLen prog ∧ totalLen prog % 2 = 0 ∧
      ∀ post, sweep false (totalLen prog / 2) (bs ++ post) 0 = (withOffsets 0 prog, .done) :=
  sweep_assembled_all prog hv

/-- one valid item: the loop iteration rebuilds it from its `get_raw()` bytes followed by anything
    (encode-then-decode at the level of the sweep; instructions: C01 `encode_decode`) -/
theorem build_of_raw (it : Item) (hv : ValidItem it = true) :
    ∃ bytes, it.raw = some bytes ∧ bytes.length = it.length ∧ AllBytes bytes ∧ 2 ≤ bytes.length ∧
      ∀ rest, build false (bytes ++ rest) = some it :=
  build_raw it hv

/-- The yielded list of EVERY sweep is its item list laid out from the start index (the recorded offsets are the
    running `idx += get_length()` of `off_to_pos` / `get_ins_off`), and every yielded item has positive length, so the
    offsets are strictly increasing. -/
theorem sweep_offsets (odex : Bool) (size : Nat) (bs : List Nat) (idx : Nat) :
    (sweep odex size bs idx).1 = withOffsets idx ((sweep odex size bs idx).1.map Prod.snd) ∧
    ∀ p ∈ (sweep odex size bs idx).1, 0 < p.2.length :=
  sweepFrom_withOffsets odex bs (maxIdxOf size bs) _ idx (Nat.le_refl _)

/-- `DCode.off_to_pos`, for the instruction list of ANY code (`DCode` sweeps from 0): the offset that is the sum of
    the lengths of the first `n` instructions (`offsetOf`) maps to position `n`; every other offset maps to -1. -/
theorem off_to_pos_spec (odex : Bool) (size : Nat) (bs : List Nat) :
    let items := (sweep odex size bs 0).1
    let prog := items.map Prod.snd
    (∀ n, n < prog.length → offToPos items (offsetOf prog n) = (n : Int)) ∧
    (∀ off, (∀ n, n < prog.length → off ≠ offsetOf prog n) → offToPos items off = -1) := by
  intro items prog
  obtain ⟨hlay, hpos⟩ := sweep_offsets odex size bs 0
  have hpos' : ∀ it ∈ prog, 0 < it.length := by
    intro it hit
    obtain ⟨p, hp, rfl⟩ := List.mem_map.mp hit
    exact hpos p hp
  refine ⟨fun n hn => ?_, fun off h => ?_⟩
  · show offToPos (sweep odex size bs 0).1 _ = _
    rw [hlay]; exact (offToPos_hit prog n hpos' hn).1
  · show offToPos (sweep odex size bs 0).1 _ = _
    rw [hlay]; exact (offToPos_miss prog off h).1

/-- `DCode.get_ins_off`: the instruction at prefix-sum offset `offsetOf prog n` is the `n`-th one; `None` for every
    other offset. -/
theorem get_ins_off_spec (odex : Bool) (size : Nat) (bs : List Nat) :
    let items := (sweep odex size bs 0).1
    let prog := items.map Prod.snd
    (∀ n (hn : n < prog.length), getInsOff items (offsetOf prog n) = some prog[n]) ∧
    (∀ off, (∀ n, n < prog.length → off ≠ offsetOf prog n) → getInsOff items off = none) := by
  intro items prog
  obtain ⟨hlay, hpos⟩ := sweep_offsets odex size bs 0
  have hpos' : ∀ it ∈ prog, 0 < it.length := by
    intro it hit
    obtain ⟨p, hp, rfl⟩ := List.mem_map.mp hit
    exact hpos p hp
  refine ⟨fun n hn => ?_, fun off h => ?_⟩
  · show getInsOff (sweep odex size bs 0).1 _ = _
    rw [hlay]; exact (offToPos_hit prog n hpos' hn).2
  · show getInsOff (sweep odex size bs 0).1 _ = _
    rw [hlay]; exact (offToPos_miss prog off h).2

/-- `Valid` is not narrower than what disassembly can produce: the item list of every non-ODEX sweep, over arbitrary
    bytes, is a valid program.  With `sweep_assembled`: the valid programs are exactly the possible sweep results. -/
theorem sweep_yields_valid (size : Nat) (bs : List Nat) (idx : Nat) (hb : AllBytes bs) :
    Valid ((sweep false size bs idx).1.map Prod.snd) = true :=
  sweep_valid size bs idx hb

/-- Disassemble-then-assemble, arbitrary bytes, ODEX or not: the items a sweep from offset 0 yields re-assemble
    (concatenated `get_raw()`) to exactly the code bytes consumed — the first `totalLen` bytes of the buffer. -/
theorem disassemble_then_assemble (odex : Bool) (size : Nat) (bs : List Nat) (hb : AllBytes bs) :
    assemble ((sweep odex size bs 0).1.map Prod.snd) =
      some (bs.take (totalLen ((sweep odex size bs 0).1.map Prod.snd))) :=
  assemble_sweep odex size bs hb

/-- A sweep that ends normally consumed exactly the declared code: the item lengths sum to `min(2·size, len) - idx`. -/
theorem sweep_done_consumes_all (odex : Bool) (size : Nat) (bs : List Nat) (idx : Nat)
    (hidx : idx ≤ maxIdxOf size bs) (hd : (sweep odex size bs idx).2 = .done) :
    idx + totalLen ((sweep odex size bs idx).1.map Prod.snd) = maxIdxOf size bs :=
  sweepFrom_done_total odex bs (maxIdxOf size bs) _ idx (Nat.le_refl _) hidx hd

/-! ### the payload codec against the independent layout specification (Spec/DalvikPayload.lean)

`assemble`, `Item.raw` and the payload constructors are all model code; the three theorems below anchor them to the
byte layout of the Dalvik bytecode document (ident, size, first_key / keys, targets, element_width, data, padding),
written in a file that imports nothing. -/

/-- `get_raw()` of every well-formed payload item is exactly the document's layout of the payload it denotes
    (field order, widths, little-endian two's complement, padding byte after odd array data), that payload is
    well-formed, and `get_length()` is the document's number of code units. -/
theorem payload_raw_eq_spec (it : Item) (hv : ValidPayload it = true) :
    ∃ p pad, payloadOf it = some (p, pad) ∧ DalvikPayload.WellFormed p ∧ DalvikPayload.PaddingOK p pad ∧
      it.raw = some (DalvikPayload.payloadBytes pad p) ∧ it.length = 2 * DalvikPayload.units p :=
  payload_raw_eq_spec_all it hv

/-- The classes decode the specification's bytes: for EVERY well-formed specification payload and admissible padding,
    one loop iteration on its document layout followed by any bytes builds the item holding exactly its contents
    (`itemOf`: size = number of targets / keys, first_key, keys, targets, element_width, size, data ++ padding), of
    the document's length. -/
theorem spec_payload_decodes (p : DalvikPayload.Payload) (pad : List Nat) (hw : DalvikPayload.WellFormed p)
    (hp : DalvikPayload.PaddingOK p pad) (rest : List Nat) :
    build false (DalvikPayload.payloadBytes pad p ++ rest) = some (itemOf pad p) ∧
      (itemOf pad p).length = 2 * DalvikPayload.units p ∧
      (DalvikPayload.payloadBytes pad p).length = 2 * DalvikPayload.units p :=
  spec_payload_decodes_all p pad hw hp rest

/-- Through the sweep, arbitrary bytes: every payload item a (non-ODEX) sweep yields denotes a well-formed
    specification payload whose document layout is exactly the code bytes at the item's offset. -/
theorem sweep_payload_layout (size : Nat) (bs : List Nat) (idx : Nat) (hb : AllBytes bs) :
    ∀ q ∈ (sweep false size bs idx).1, ∀ p pad, payloadOf q.2 = some (p, pad) →
      DalvikPayload.WellFormed p ∧ DalvikPayload.PaddingOK p pad ∧
      (bs.drop q.1).take q.2.length = DalvikPayload.payloadBytes pad p ∧ q.2.length = 2 * DalvikPayload.units p := by
  intro q hq p pad hpo
  have hvalid := sweep_valid size bs idx hb
  have hvi : ValidItem q.2 = true :=
    List.all_eq_true.mp hvalid q.2 (List.mem_map.mpr ⟨q, hq, rfl⟩)
  have hvp : ValidPayload q.2 = true := by
    cases hq2 : q.2 with
    | insn f x => rw [hq2] at hpo; simp [payloadOf] at hpo
    | packed a b c => rw [hq2] at hvi; exact hvi
    | sparse a b c => rw [hq2] at hvi; exact hvi
    | fill a b c => rw [hq2] at hvi; exact hvi
  obtain ⟨p', pad', hpo', hw, hpad, hraw, hlen⟩ := payload_raw_eq_spec_all q.2 hvp
  rw [hpo] at hpo'
  simp only [Option.some.injEq, Prod.mk.injEq] at hpo'
  obtain ⟨rfl, rfl⟩ := hpo'
  have hs := (sweep_sound false size bs idx hb q hq).2.2.2.2
  rw [hraw] at hs
  simp only [Option.some.injEq] at hs
  exact ⟨hw, hpad, hs.symm, hlen⟩

/-! ### non-vacuity and the repaired witnesses -/

-- D2: `ff 01 00 00` is const-method-type v1 (opcode 0xff with a register byte)
example : step false [0xff, 0x01, 0x00, 0x00] 4 0 = some (.insn .f21c ⟨.f21c, 0xff, [1, 0]⟩) := by rfl
-- D3: a packed-switch payload of declared size 100 in 12 bytes of code is invalid
example : step false [0x00, 0x01, 0x64, 0x00, 0, 0, 0, 0, 0, 0, 0, 0] 12 0 = none := by rfl
-- D4: an odd trailing byte is invalid
example : step false [0x00, 0x00, 0x00] 3 2 = none := by rfl
-- fill-array-data payload with 3 one-byte elements: the padding byte is part of the item and of its raw bytes
example : step false [0x00, 0x03, 0x01, 0x00, 0x03, 0x00, 0x00, 0x00, 7, 8, 9, 0xAA] 12 0 = some (.fill 1 3 [7, 8, 9, 0xAA]) := by rfl
example : (Item.fill 1 3 [7, 8, 9, 0xAA]).raw = some [0x00, 0x03, 0x01, 0x00, 0x03, 0x00, 0x00, 0x00, 7, 8, 9, 0xAA] := by decide
-- a program: nop; packed-switch-payload with one target; return-void
example : sweep false 9 [0, 0, 0x00, 0x01, 0x01, 0x00, 5, 0, 0, 0, 0xfd, 0xff, 0xff, 0xff, 0x0e, 0x00, 0x0e, 0x00] 0 =
    ([(0, .insn .f10x ⟨.f10x, 0, []⟩), (2, .packed 1 5 [-3]), (14, .insn .f10x ⟨.f10x, 0x0e, []⟩),
      (16, .insn .f10x ⟨.f10x, 0x0e, []⟩)], .done) :=
  sweep_assembled_partial false 9 _ [.insn .f10x ⟨.f10x, 0, []⟩, .packed 1 5 [-3], .insn .f10x ⟨.f10x, 0x0e, []⟩,
      .insn .f10x ⟨.f10x, 0x0e, []⟩]
    ⟨by decide, by rfl, by decide, by rfl, by decide, by rfl, by decide, by rfl, trivial⟩ (by rfl)

-- a valid program with all item kinds: nop; const/4 v1,-1; packed-switch payload; sparse-switch payload;
-- fill-array-data payload (3 one-byte elements + padding byte); invoke-virtual {v1,v2}, meth@3; const-method-type (ff) v1
example : Valid [.insn .f10x ⟨.f10x, 0, []⟩, .insn .f11n ⟨.f11n, 0x12, [1, -1]⟩, .packed 2 5 [-3, 7],
    .sparse 1 [9] [-2], .fill 1 3 [7, 8, 9, 0], .insn .f35c ⟨.f35c, 0x6e, [2, 3, 1, 2, 0, 0, 0]⟩,
    .insn .f21c ⟨.f21c, 0xff, [1, 0]⟩] = true := by decide +kernel

-- the specification layout of a packed-switch payload (first_key 5, one target -3) and of odd-length array data
example : DalvikPayload.payloadBytes [] (.packedSwitch 5 [-3]) =
    [0x00, 0x01, 0x01, 0x00, 5, 0, 0, 0, 0xfd, 0xff, 0xff, 0xff] := by decide
example : DalvikPayload.payloadBytes [0xAA] (.fillArrayData 1 3 [7, 8, 9]) =
    [0x00, 0x03, 0x01, 0x00, 0x03, 0x00, 0x00, 0x00, 7, 8, 9, 0xAA] := by decide
example : DalvikPayload.WellFormed (.sparseSwitch [1, -2] [8, 12]) ∧
    DalvikPayload.PaddingOK (.sparseSwitch [1, -2] [8, 12]) [] := by
  simp [DalvikPayload.WellFormed, DalvikPayload.PaddingOK, DalvikPayload.isInt]
example : itemOf [0xAA] (.fillArrayData 1 3 [7, 8, 9]) = .fill 1 3 [7, 8, 9, 0xAA] := rfl

end AgVerif.C02
