/-
C27 — Resource values are formatted with Android's meaning.
Property theorems only (lemmas: AgVerif/Proof/ResValue.lean).

Model: AgVerif.ResValue (`complexToFloat`, `format_value`, `get_resource_dimen`,
`get_resource_color`, with fixes/C27-signed-mantissa-exact-radix.diff), computing with the
constants regenerated from the working tree (AgVerif.Gen.ResValues).
Spec: AgVerif.Spec.ResValue (ResourceTypes.h `Res_value`, android.util.TypedValue).
All values are exact: a float is (-1)^neg · num / den.  Theorems quantify over every `data`
(all naturals, in particular all 2^32 words) and every type.
-/
import AgVerif.Proof.ResValue
import AgVerif.Proof.PyResValue
namespace AgVerif.C27
open AgVerif.ResValue AgVerif.Spec.ResValue AgVerif.Gen.ResValues

/-! ### the generated tables are Android's -/

/-- The generated `TYPE_*` constants are Android's `Res_value` data types. -/
theorem type_table_android : typeTable = androidTypes := by decide

/-- RADIX_MULTS are exactly 2^-8, 2^-15, 2^-23, 2^-31 (MANTISSA_MULT · 2^-{0,7,15,23}). -/
theorem radix_exact :
    radixMults = [(1, 2 ^ 8), (1, 2 ^ 15), (1, 2 ^ 23), (1, 2 ^ 31)] := by decide

/-- The unit tables and the unit mask are Android's. -/
theorem units_android :
    Gen.ResValues.dimensionUnits = Spec.ResValue.dimensionUnits
    ∧ Gen.ResValues.fractionUnits = Spec.ResValue.fractionUnits ∧ complexUnitMask = 15 := by decide

/-- Every type (all naturals, not only the named ones) takes the branch of `format_value` that
    Android's `coerceToString` takes. -/
theorem dispatch_total (t : Nat) : branch t = kind t := rfl

/-! ### complex values: dimensions and fractions -/

/-- `complexToFloat` returns, for every data word, the signed 24-bit mantissa over 2^shift
    (as the unreduced fraction mantissa·2^8 / (2^shift·2^8)), negative exactly when the mantissa is. -/
theorem complex_value (d : Nat) :
    complexToFloat d
      = some (.fin (decide (complexNum d < 0)) ((complexNum d).natAbs * 2 ^ 8) (complexDen d * 2 ^ 8)) :=
  complexToFloat_eq d

/-- Soundness of the exact-rational reading of the binary64 computation: the numerators that
    occur (also after `* 100`) fit the 53-bit significand and the exponents are tiny. -/
theorem complex_binary64 (d : Nat) :
    Binary64Exact ((complexNum d).natAbs * 2 ^ 8) (radixShift (d / 2 ^ 4 % 4) + 8)
    ∧ Binary64Exact ((complexNum d).natAbs * 2 ^ 8 * 100) (radixShift (d / 2 ^ 4 % 4) + 8) := by
  have hb := mantissa_bound d
  have hs : radixShift (d / 2 ^ 4 % 4) ≤ 23 := by
    unfold radixShift; split <;> omega
  unfold Binary64Exact complexNum
  omega

/-- `%f` depends on the value only, not on the fraction that represents it. -/
theorem fmtF6_value_only (neg : Bool) (n d k : Nat) (hk : 0 < k) :
    fmtF6 neg (n * k) (d * k) = fmtF6 neg n d :=
  fmtF6_scale neg n d k hk

/-- `%f` rounds to a nearest multiple of 10^-6 … -/
theorem fmtF6_nearest (n d : Nat) (hd : 0 < d) :
    2 * (n * 1000000 - roundHalfEven (n * 1000000) d * d) ≤ d
    ∧ 2 * (roundHalfEven (n * 1000000) d * d - n * 1000000) ≤ d :=
  roundHalfEven_nearest (n * 1000000) d hd

/-- … and ties go to the even digit. -/
theorem fmtF6_ties_even (n d : Nat) (h : 2 * (n * 1000000 % d) = d) :
    roundHalfEven (n * 1000000) d % 2 = 0 :=
  roundHalfEven_tie _ _ h

/-- The design's `complex_spec`: a dimension whose unit Android defines is printed as the AOSP
    value mantissa / 2^shift, rounded to six decimals, followed by Android's unit string. -/
theorem complex_spec (lookup : Nat → String) (d : Nat) (u : String)
    (hu : Spec.ResValue.dimensionUnits[unit d]? = some u) :
    formatValue lookup TYPE_DIMENSION d
      = .ok (fmtF6 (decide (complexNum d < 0)) (complexNum d).natAbs (complexDen d) ++ u) := by
  have hb : branch TYPE_DIMENSION = .dimension := by decide
  unfold formatValue complexString
  rw [hb]
  simp only
  rw [complexToFloat_eq, unit_index]
  have : Gen.ResValues.dimensionUnits = Spec.ResValue.dimensionUnits := units_android.1
  rw [this]
  unfold unit at hu
  rw [hu]
  simp only [fmtF]
  rw [fmtF6_scale _ _ _ _ (by decide)]
  rfl

/-- Fractions: the AOSP value times 100, six decimals, `%` or `%p`. -/
theorem fraction_spec (lookup : Nat → String) (d : Nat) (u : String)
    (hu : Spec.ResValue.fractionUnits[unit d]? = some u) :
    formatValue lookup TYPE_FRACTION d
      = .ok (fmtF6 (decide (complexNum d < 0)) ((complexNum d).natAbs * 100) (complexDen d) ++ u) := by
  have hb : branch TYPE_FRACTION = .fraction := by decide
  unfold formatValue complexString
  rw [hb]
  simp only
  rw [complexToFloat_eq, unit_index]
  have : Gen.ResValues.fractionUnits = Spec.ResValue.fractionUnits := units_android.2.1
  rw [this]
  unfold unit at hu
  rw [hu]
  simp only [Option.map, times100, fmtF]
  have : (mantissa d).natAbs * 2 ^ 8 * 100 = (mantissa d).natAbs * 100 * 2 ^ 8 := by
    rw [Nat.mul_assoc, Nat.mul_comm (2 ^ 8), ← Nat.mul_assoc]
  rw [this, fmtF6_scale _ _ _ _ (by decide)]
  rfl

/-- Unit nibbles Android does not define are an `IndexError` (outside the property). -/
theorem complex_undefined_unit (lookup : Nat → String) (d : Nat) :
    (Spec.ResValue.dimensionUnits[unit d]? = none → formatValue lookup TYPE_DIMENSION d = .error .index)
    ∧ (Spec.ResValue.fractionUnits[unit d]? = none → formatValue lookup TYPE_FRACTION d = .error .index) := by
  have hb : branch TYPE_DIMENSION = .dimension := by decide
  have hb' : branch TYPE_FRACTION = .fraction := by decide
  have e1 : Gen.ResValues.dimensionUnits = Spec.ResValue.dimensionUnits := units_android.1
  have e2 : Gen.ResValues.fractionUnits = Spec.ResValue.fractionUnits := units_android.2.1
  unfold unit
  constructor <;> intro hu <;> unfold formatValue complexString
  · rw [hb]; simp only; rw [complexToFloat_eq, unit_index, e1, hu]
  · rw [hb']; simp only; rw [complexToFloat_eq, unit_index, e2, hu]; rfl

/-- `get_resource_dimen` reports the same exact value and unit (the code prints the float's repr). -/
theorem dimen_getter_spec (d : Nat) (u : String) (hu : Spec.ResValue.dimensionUnits[unit d]? = some u) :
    getResourceDimen d
      = .value (.fin (decide (complexNum d < 0)) ((complexNum d).natAbs * 2 ^ 8) (complexDen d * 2 ^ 8)) u := by
  unfold getResourceDimen
  rw [complexToFloat_eq, unit_index]
  have : Gen.ResValues.dimensionUnits = Spec.ResValue.dimensionUnits := units_android.1
  rw [this]
  unfold unit at hu
  rw [hu]
  rfl

/-! ### integers, booleans, colours, references, strings, floats -/

/-- The design's `int_dec_signed`: `fmt_int` is the two's-complement reading of the 32-bit word. -/
theorem int_dec_signed (d : Nat) (h : d < 2 ^ 32) :
    fmtInt d = int32 d ∧ int32 d = (BitVec.ofNat 32 d).toInt := by
  constructor
  · unfold fmtInt int32
    have : 0x7FFFFFFF &&& d = d % 2 ^ 31 := by
      rw [Nat.and_comm]; simpa using AgVerif.Bits.and_mask d 31
    rw [this]
    simp only
    split <;> split <;> omega
  · unfold int32
    rw [BitVec.toInt_eq_toNat_cond]
    simp only [BitVec.toNat_ofNat]
    split <;> split <;> omega

/-- Every type in FIRST_INT..LAST_INT that is not hex, boolean or a colour prints that signed number. -/
theorem int_dec_rendering (lookup : Nat → String) (t d : Nat) (hk : kind t = .intDec) :
    formatValue lookup t d = .ok (toString (fmtInt d)) := by
  unfold formatValue; rw [dispatch_total, hk]

/-- The design's `android_prefix_iff`: the `android:` prefix appears exactly for package id 1. -/
theorem android_prefix_iff (d : Nat) : fmtPackage d = "android:" ↔ isFramework d := by
  unfold fmtPackage isFramework
  rw [AgVerif.Bits.shr]
  by_cases h : d / 2 ^ 24 = 1
  · simp [h]
  · simp only [h, if_false, iff_false]; decide

theorem reference_rendering (lookup : Nat → String) (d : Nat) :
    formatValue lookup TYPE_REFERENCE d = .ok ("@" ++ fmtPackage d ++ hexW true 8 d) := rfl

theorem attribute_rendering (lookup : Nat → String) (d : Nat) :
    formatValue lookup TYPE_ATTRIBUTE d = .ok ("?" ++ fmtPackage d ++ hexW true 8 d) := rfl

theorem hex_rendering (lookup : Nat → String) (d : Nat) :
    formatValue lookup TYPE_INT_HEX d = .ok ("0x" ++ hexW true 8 d) := rfl

theorem color_rendering (lookup : Nat → String) (t d : Nat) (hk : kind t = .color) :
    formatValue lookup t d = .ok ("#" ++ hexW true 8 d) := by
  unfold formatValue; rw [dispatch_total, hk]

theorem boolean_rendering (lookup : Nat → String) (d : Nat) :
    formatValue lookup TYPE_INT_BOOLEAN d = .ok (if d = 0 then "false" else "true") := rfl

theorem string_rendering (lookup : Nat → String) (d : Nat) :
    formatValue lookup TYPE_STRING d = .ok (lookup d) := rfl

/-- The eight characters printed for a 32-bit word are its eight base-16 digits, most
    significant first: they have the value `d`, and each is a digit below 16. -/
theorem hex8_digits (d : Nat) (h : d < 2 ^ 32) :
    padZeros 8 (hexDigits d) = fixedDigits 8 d ∧ (fixedDigits 8 d).length = 8
    ∧ hexVal (fixedDigits 8 d) = d ∧ ∀ y ∈ fixedDigits 8 d, y < 16 := by
  refine ⟨padZeros_hexDigits 8 d (by decide) (by omega), fixedDigits_length 8 d, ?_, fixedDigits_lt 8 d⟩
  rw [hexVal_fixedDigits]; omega

/-- digit → character tables of `%X` and `{:x}` -/
theorem hex_chars :
    (List.range 16).map (hexChar true) = "0123456789ABCDEF".toList
    ∧ (List.range 16).map (hexChar false) = "0123456789abcdef".toList := by decide +kernel

/-- `TYPE_FLOAT`: for every 32-bit word that is not an infinity or NaN the printed value is the
    IEEE-754 binary32 value of the bits. -/
theorem float_bits_ieee (lookup : Nat → String) (d : Nat) (h : d < 2 ^ 32) (s : Bool) (n k : Nat)
    (hv : binary32 d = some (s, n, k)) :
    formatValue lookup TYPE_FLOAT d = .ok (fmtF6 s n k) := by
  have hb : branch TYPE_FLOAT = .float := by decide
  unfold formatValue
  rw [hb]
  simp only
  rw [if_pos h]
  unfold floatBits binary32 at *
  have e1 : (d >>> 31) &&& 1 = d / 2 ^ 31 % 2 := by
    rw [AgVerif.Bits.shr]; exact AgVerif.Bits.and_mask (d / 2 ^ 31) 1
  have e2 : (d >>> 23) &&& 0xFF = d / 2 ^ 23 % 256 := by
    rw [AgVerif.Bits.shr, AgVerif.Bits.and_FF]
  have e3 : d &&& 0x7FFFFF = d % 2 ^ 23 := by simpa using AgVerif.Bits.and_mask d 23
  simp only [e1, e2, e3] at *
  split at hv
  · simp at hv
  · rename_i h255
    rw [if_neg h255]
    split at hv
    · rename_i h0; rw [if_pos h0]; simp only [Option.some.injEq, Prod.mk.injEq] at hv; obtain ⟨rfl, rfl, rfl⟩ := hv; simp only [fmtF]
    · rename_i h0
      rw [if_neg h0]
      split at hv
      · rename_i h150; rw [if_pos h150]; simp only [Option.some.injEq, Prod.mk.injEq] at hv; obtain ⟨rfl, rfl, rfl⟩ := hv; simp only [fmtF]
      · rename_i h150; rw [if_neg h150]; simp only [Option.some.injEq, Prod.mk.injEq] at hv; obtain ⟨rfl, rfl, rfl⟩ := hv; simp only [fmtF]

/-- `get_resource_color` prints the four bytes of the word, most significant first. -/
theorem color_getter_bytes (d : Nat) :
    getResourceColor d
      = "#" ++ hexW false 2 (d / 2 ^ 24 % 256) ++ hexW false 2 (d / 2 ^ 16 % 256)
          ++ hexW false 2 (d / 2 ^ 8 % 256) ++ hexW false 2 (d % 256) := by
  unfold getResourceColor
  simp only [AgVerif.Bits.shr, AgVerif.Bits.and_FF]

/-- Tie to the source: the integer and string constants of `complexToFloat`, `format_value`,
    `get_resource_dimen` and `get_resource_color`, regenerated from the working tree, are the ones
    the model was transliterated from (masks, shifts, format strings). -/
theorem source_constants :
    complexToFloatConsts = [.inl 0xFFFFFF00, .inl 0x80000000, .inl 0x100000000, .inl 4, .inl 3]
    ∧ formatValueConsts
      = [.inr "<string>", .inr "android:", .inl 24, .inl 1, .inr "", .inl 0x7FFFFFFF, .inl 0x80000000,
         .inl 0x7FFFFFFF, .inr "?{}{:08X}", .inr "@{}{:08X}", .inr "%f", .inr "=f", .inr "=L", .inl 0,
         .inr "0x%08X", .inl 0, .inr "false", .inr "true", .inr "{:f}{}", .inr "{:f}{}", .inl 100,
         .inr "#%08X", .inr "%d", .inr "<0x{:X}, type 0x{:02X}>"]
    ∧ getResourceDimenConsts = [.inr "{}{}", .inr "Out of range dimension unit index for {}: {}"]
    ∧ getResourceColorConsts
      = [.inr "#{:02x}{:02x}{:02x}{:02x}", .inl 24, .inl 0xFF, .inl 16, .inl 0xFF, .inl 8, .inl 0xFF,
         .inl 0xFF] := by
  decide

/-! ### non-vacuity and landmarks -/

-- -5px (the witness of D13): mantissa 0xFFFFFB, radix 0, unit 0
example : complexNum 0xFFFFFB00 = -5 ∧ complexDen 0xFFFFFB00 = 1
    ∧ Spec.ResValue.dimensionUnits[unit 0xFFFFFB00]? = some "px" := by decide
example : formatValue (fun _ => "") TYPE_DIMENSION 0xFFFFFB00 = .ok "-5.000000px" := by rfl
-- mantissa 0x7FFFFF at radix 1 (16p7): 65535.9921875 → tie-free rounding to 65535.992188
example : formatValue (fun _ => "") TYPE_DIMENSION 0x7FFFFF10 = .ok "65535.992188px" := by rfl
-- 1/128 = 0.0078125 is an exact tie at the sixth decimal: half-even gives …12
example : formatValue (fun _ => "") TYPE_DIMENSION 0x00000110 = .ok "0.007812px" := by rfl
example : 2 * (1 * 1000000 % 128) = 128 := by decide
example : formatValue (fun _ => "") TYPE_FRACTION 0x7FFFFF31 = .ok "99.999988%p" := by rfl
example : Spec.ResValue.dimensionUnits[unit 0x00000507]? = none := by decide
example : kind 0x13 = .intDec ∧ kind 0x1d = .color ∧ kind 7 = .none := by decide
example : formatValue (fun _ => "") TYPE_INT_DEC 0xFFFFFFFF = .ok "-1" := by rfl
example : isFramework 0x01020002 ∧ ¬ isFramework 0x7F020002 := by unfold isFramework; omega
example : binary32 0x3F800000 = some (false, 2 ^ 23, 2 ^ 23) := by decide
example : formatValue (fun _ => "") TYPE_FLOAT 0xBF800000 = .ok "-1.000000" := by rfl

/-! ### the property as one statement, against the specification's `coerce` / `coerceText`

`Spec.ResValue.coerce` (the meaning Android gives to a typed value, per type) and `coerceText` (its text
in the conventions the property fixes) are defined in a file that imports nothing and never mention the
model.  The per-type theorems above are instances; `format_value_android` is the whole dispatch. -/

/-- The reviewer's chain lemma: for a 32-bit word `%08X` prints exactly its eight base-16 digits,
    most significant first, through the digit table of `hex_chars` (so `reference/attribute/hex/
    color_rendering` get their content from `android_prefix_iff`, `hex8_digits` and `hex_chars`). -/
theorem hexW_eight_digits (d : Nat) (h : d < 2 ^ 32) :
    hexW true 8 d = String.ofList ((fixedDigits 8 d).map (hexChar true)) :=
  hexW_eight d h

/-- The two independent formulations of "nearest multiple of 10⁻⁶, ties to even" coincide. -/
theorem rounding_formulations_agree (n d : Nat) (hd : 0 < d) :
    roundMicro n d = roundHalfEven (n * 1000000) d :=
  roundMicro_eq n d hd

/-- **C27, every type and every 32-bit data word**: whenever the specification defines a text for
    (type, data) — strings, references and attributes with the `android:` prefix, finite floats,
    dimensions and fractions with a defined unit, hex, boolean, colours, signed decimals — `format_value`
    returns exactly that text (and does not raise). -/
theorem format_value_android (lookup : Nat → String) (t d : Nat) (h : d < 2 ^ 32) (s : String)
    (hs : coerceText lookup (coerce t d) = some s) :
    formatValue lookup t d = .ok s := by
  have hx := hexW_hex8Text d h
  have inv := kind_inv t
  unfold coerce at hs
  unfold formatValue
  rw [dispatch_total]
  cases hk : kind t <;> rw [hk] at hs <;> simp only at hs ⊢
  · -- string
    simp only [coerceText, Option.some.injEq] at hs; rw [← hs]
  · -- attribute
    simp only [coerceText, Option.some.injEq] at hs
    rw [← hs, hx]; unfold fmtPackage; rw [AgVerif.Bits.shr]
    by_cases hp : d / 2 ^ 24 = 1 <;> simp [hp]
  · -- reference
    simp only [coerceText, Option.some.injEq] at hs
    rw [← hs, hx]; unfold fmtPackage; rw [AgVerif.Bits.shr]
    by_cases hp : d / 2 ^ 24 = 1 <;> simp [hp]
  · -- float
    rw [if_pos h, floatBits_arith]
    cases hb : binary32 d with
    | none => rw [hb] at hs; simp [coerceText] at hs
    | some v =>
      obtain ⟨sg, n, k⟩ := v
      rw [hb] at hs
      simp only [coerceText, Option.some.injEq] at hs
      rw [← hs, roundMicro_eq n k (binary32_den_pos d sg n k hb)]
      simp only [fmtF, fmtF6_microText, String.append_empty]
  · -- int hex
    simp only [coerceText, Option.some.injEq] at hs; rw [← hs, hx]
  · -- boolean
    simp only [coerceText, Option.some.injEq] at hs
    rw [← hs]; by_cases hz : d = 0 <;> simp [hz]
  · -- dimension
    have ht := inv.2.2.2.2.2.2.1 hk; subst ht
    unfold complexMicro at hs
    cases hu : Spec.ResValue.dimensionUnits[unit d]? with
    | none => rw [hu] at hs; simp [coerceText] at hs
    | some u =>
      rw [hu] at hs
      simp only [coerceText, Option.some.injEq] at hs
      have := complex_spec lookup d u hu
      have hk' : kind TYPE_DIMENSION = .dimension := hk
      unfold formatValue at this
      rw [dispatch_total, hk'] at this
      simp only at this
      rw [this, ← hs, Nat.mul_one, roundMicro_eq _ _ (complexDen_pos d), fmtF6_microText]
  · -- fraction
    have ht := inv.2.2.2.2.2.2.2 hk; subst ht
    unfold complexMicro at hs
    cases hu : Spec.ResValue.fractionUnits[unit d]? with
    | none => rw [hu] at hs; simp [coerceText] at hs
    | some u =>
      rw [hu] at hs
      simp only [coerceText, Option.some.injEq] at hs
      have := fraction_spec lookup d u hu
      have hk' : kind TYPE_FRACTION = .fraction := hk
      unfold formatValue at this
      rw [dispatch_total, hk'] at this
      simp only at this
      rw [this, ← hs, roundMicro_eq _ _ (complexDen_pos d), fmtF6_microText]
  · -- colour
    simp only [coerceText, Option.some.injEq] at hs; rw [← hs, hx]
  · -- decimal
    simp only [coerceText, Option.some.injEq] at hs
    rw [← hs, (int_dec_signed d h).1]
  · -- untyped
    simp [coerceText] at hs

/-- Where the specification defines no text: what the code does, for every word.
    * `TYPE_FLOAT` infinities and NaNs (exponent field 255): the meaning is `nonFinite` and the code
      prints CPython's `inf` / `-inf` / `nan` (no sign on NaN).  Android spells these `Infinity`/`NaN`;
      the spelling is outside the property and is tied to CPython by the correspondence only. -/
theorem float_nonfinite (lookup : Nat → String) (d : Nat) (h : d < 2 ^ 32) (he : d / 2 ^ 23 % 256 = 255) :
    coerce TYPE_FLOAT d = .nonFinite (decide (d / 2 ^ 31 % 2 = 1)) (decide (d % 2 ^ 23 ≠ 0))
    ∧ formatValue lookup TYPE_FLOAT d
        = .ok (if d % 2 ^ 23 = 0 then (if d / 2 ^ 31 % 2 = 1 then "-inf" else "inf") else "nan") := by
  have hb : binary32 d = none := by unfold binary32; simp only; rw [if_pos he]
  have hbr : branch TYPE_FLOAT = .float := by decide
  have hk : kind TYPE_FLOAT = .float := by decide
  constructor
  · unfold coerce; rw [hk]; simp only; rw [hb]
  · unfold formatValue; rw [hbr]; simp only
    rw [if_pos h, floatBits_arith, hb]
    simp only
    by_cases hf : d % 2 ^ 23 = 0
    · rw [if_pos hf, if_pos hf]
      by_cases hsg : d / 2 ^ 31 % 2 = 1 <;> simp [hsg, fmtF]
    · rw [if_neg hf, if_neg hf]; rfl

example : coerceText (fun _ => "") (coerce TYPE_DIMENSION 0xFFFFFB00) = some "-5.000000px" := by decide +kernel
example : coerceText (fun _ => "") (coerce TYPE_REFERENCE 0x01020002) = some "@android:01020002" := by decide +kernel
example : coerce TYPE_FLOAT 0x7F800000 = .nonFinite false false ∧ coerce TYPE_FLOAT 0xFFC00000 = .nonFinite true true := by
  decide +kernel
example : 0x7F800000 / 2 ^ 23 % 256 = 255 ∧ 0x7F800000 < 2 ^ 32 := by decide
example : coerce 7 5 = .untyped ∧ coerce TYPE_DIMENSION 0x507 = .undefinedUnit := by decide +kernel

/-! ### the source, translated, is the model
AgVerif.Gen.PyResValue.complexToFloat is generated on each run from the Python source by
gen/py2lean.py (statement by statement).  Floating point is not interpreted by the translator:
the function returns the symbolic product `float(mantissa) * RADIX_MULTS[index]`. -/

/-- The integer part of `complexToFloat` as translated from the source (mask 0xFFFFFF00, sign test
    0x80000000, correction by 2^32, radix index `(x >> 4) & 3`) is the model's, for every word. -/
theorem gen_complexToFloat_eq (x : Nat) :
    Gen.PyResValue.complexToFloat (x : Int)
      = some ⟨"RADIX_MULTS", signedMantissa x, (((x >>> 4) &&& 3 : Nat) : Int)⟩ :=
  PyResValue.gen_complexToFloat_eq x

/-- The model's `complexToFloat` is the translated source followed by the interpretation of the
    symbolic product through the RADIX table generated from the source (`PyResValue.interp`). -/
theorem src_complexToFloat (x : Nat) :
    (Gen.PyResValue.complexToFloat (x : Int)).bind PyResValue.interp = complexToFloat x := by
  rw [gen_complexToFloat_eq, PyResValue.complexToFloat_interp]; rfl

example : Gen.PyResValue.complexToFloat 0xFFFFFF31 = some ⟨"RADIX_MULTS", -256, 3⟩ := by decide

end AgVerif.C27
