/-
C27 — Resource values are formatted with Android's meaning.   (first stage; see below)
-/
import AgVerif.Model.ResValue
import AgVerif.Spec.ResValue
namespace AgVerif.C27
open AgVerif.ResValue AgVerif.Spec.ResValue AgVerif.Gen.ResValues

/-- The generated `TYPE_*` constants are Android's `Res_value` data types. -/
theorem type_table_android : typeTable = androidTypes := by decide

/-- RADIX_MULTS are exactly 2^-8, 2^-15, 2^-23, 2^-31 (MANTISSA_MULT · 2^-{0,7,15,23}). -/
theorem radix_exact :
    radixMults = [(1, 2 ^ 8), (1, 2 ^ 15), (1, 2 ^ 23), (1, 2 ^ 31)] := by decide

end AgVerif.C27
