/-
C31 — Manifest queries report what the manifest declares.   Property theorems only.

Model: AgVerif.Manifest (Model/Manifest.lean) over the abstract XML tree of C26; `completePermissions`, `completeFeatures`,
`completeLibraries` … are generated from the call sites in androguard/core/apk/__init__.py.
Spec: AgVerif.Spec.Manifest (`ManifestModel`, `toXml`, Android's class-name completion `complete`).
Proved on the abstract tree; that the tree is the one encoded in the APK is C26 + zip reading (correspondence and oracle only).
-/
import AgVerif.Proof.Manifest
import AgVerif.Proof.ManifestLauncher
import AgVerif.Proof.ManifestFile
import AgVerif.Proof.ManifestInt
import AgVerif.Proof.ManifestEnc
set_option linter.unusedSimpArgs false
namespace AgVerif.C31
open AgVerif.Manifest AgVerif.Spec.Manifest AgVerif.Proof.Manifest AgVerif.Gen.AxmlConsts
open AgVerif.Axml (Str Node Attr lit printAxml)
open AgVerif.Spec.Axml (Enc SNode wfDoc encodeAxml treeOf StrOk)

/-- `_format_value` is Android's name completion: leading dot / no dot / otherwise unchanged -/
theorem format_value_spec (pkg v : Str) : formatValue (some pkg) v = complete pkg v := by
  unfold formatValue complete
  by_cases h0 : v = [] ∨ pkg = []
  · have : v.isEmpty = true ∨ pkg.isEmpty = true := by
      rcases h0 with h | h <;> simp [h]
    simp [h0, this]
  · have h1 : ¬ (v.isEmpty = true ∨ pkg.isEmpty = true) := by
      simp only [List.isEmpty_iff]; exact h0
    simp only [h1, h0, if_false]
    by_cases hd : v.head? = some 0x2E
    · simp [(findDot_zero v).2 hd, hd]
    · by_cases hm : 0x2E ∈ v
      · have hn : findDot v ≠ none := fun e => (findDot_none v).1 e hm
        have hz : findDot v ≠ some 0 := fun e => hd ((findDot_zero v).1 e)
        cases hf : findDot v with
        | none => exact absurd hf hn
        | some k =>
          cases k with
          | zero => exact absurd hf hz
          | succ k => simp [hd, hm]
      · simp [(findDot_none v).2 hm, hd, hm]

/-- without a package (attribute missing) nothing is completed -/
theorem format_value_no_package (v : Str) : formatValue none v = v := rfl

/-- requested permissions are reported without duplicates … -/
theorem permissions_nodup (xml : Option Node) : (analyse xml).permissions.Nodup := by
  simp only [analyse]
  split
  · simp
  · split
    · simp
    · exact dedup_nodup _

/-- … and a permission name is never completed with the package name, nor are feature and library names
    (call sites read from the source: this theorem fails to check on a tree where they are completed) -/
theorem literal_names_not_completed :
    completePermissions = false ∧ completeFeatures = false ∧ completeLibraries = false ∧
    completeActivities = true ∧ completeServices = true ∧ completeReceivers = true ∧ completeProviders = true := by
  decide

/-- the effective target SDK: target if it is an integer, else (absent or empty) min, else 1; not an integer -> 1 -/
theorem effective_target_spec (a : Analysis) :
    (∀ s v, a.sdk attrTargetSdk = .val s → s ≠ [] → pyInt s = .ok v → a.effectiveTarget = some (.ok v)) ∧
    (∀ s v, a.sdk attrTargetSdk = .none → a.sdk attrMinSdk = .val s → pyInt s = .ok v → a.effectiveTarget = some (.ok v)) ∧
    (a.sdk attrTargetSdk = .none → a.sdk attrMinSdk = .none → a.effectiveTarget = some (.ok 1)) ∧
    (∀ s, a.sdk attrTargetSdk = .val s → s ≠ [] → pyInt s = .valueError → a.effectiveTarget = some (.ok 1)) := by
  refine ⟨?_, ?_, ?_, ?_⟩
  · intro s v h hs hp
    have : s.isEmpty = false := by simpa using hs
    simp [Analysis.effectiveTarget, h, this, hp]
  · intro s v h hm hp
    simp [Analysis.effectiveTarget, h, hm, hp]
  · intro h hm
    simp [Analysis.effectiveTarget, h, hm]
  · intro s h hs hp
    have : s.isEmpty = false := by simpa using hs
    simp [Analysis.effectiveTarget, h, this, hp]

/-- the main activity: none when no activity is MAIN+LAUNCHER, the completed name when there is one, and otherwise
    one of the completed names -/
theorem main_activity_spec (a : Analysis) :
    (a.mainActivities = [] → a.mainActivity = none) ∧
    (∀ x, a.mainActivities = [x] → a.mainActivity = some (formatValue a.package x)) ∧
    (∀ r, a.mainActivity = some r → r ∈ a.mainActivities.map (formatValue a.package)) ∧
    (a.mainActivities ≠ [] → a.mainActivity ≠ none) := by
  refine ⟨?_, ?_, ?_, ?_⟩
  · intro h; simp [Analysis.mainActivity, h]
  · intro x h; simp [Analysis.mainActivity, h]
  · intro r h
    unfold Analysis.mainActivity at h
    split at h
    · simp at h
    · rename_i x hx; simp at h; simp [hx, h]
    · rename_i xs _ _
      simp only at h
      split at h
      · rename_i g hg
        simp only [Option.some.injEq] at h; subst h
        have := minStr_mem _ _ hg
        simp only [List.mem_filter] at this
        exact (mem_dedup _ _).1 this.1
      · exact (mem_dedup _ _).1 (minStr_mem _ _ h)
  · intro h
    cases hxs : a.mainActivities with
    | nil => exact absurd hxs h
    | cons y ys =>
      cases ys with
      | nil => simp [Analysis.mainActivity, hxs]
      | cons z zs =>
        simp only [Analysis.mainActivity, hxs]
        have hne : dedup ((y :: z :: zs).map (formatValue a.package)) ≠ [] := by
          intro e
          have : formatValue a.package y ∈ dedup ((y :: z :: zs).map (formatValue a.package)) := by
            rw [mem_dedup]; simp
          rw [e] at this; simp at this
        obtain ⟨m, hm⟩ := minStr_ne_nil _ hne
        split
        · simp
        · rw [hm]; simp

/-! ### queries on the XML of a manifest model -/

/-- the package and the version strings are the declared ones -/
theorem queries_spec_package (m : ManifestModel) (h : WF m) :
    (analyse (some (toXml m))).package = some m.package ∧
    (analyse (some (toXml m))).versionCode = .val m.versionCode ∧
    (analyse (some (toXml m))).versionName = .val m.versionName := by
  obtain ⟨hp, hc, hn, _⟩ := h
  have e1 : m.versionCode.isEmpty = false := by simpa using hc
  have e2 : m.versionName.isEmpty = false := by simpa using hn
  refine ⟨?_, ?_, ?_⟩ <;>
    simp [analyse, toXml, elOf, firstAttrValue, allAttrValues, findTags, attrOr, getAttr, nsAndroid, e1, e2, hc, hn, hp,
      List.filterMap_cons, List.find?_cons,
      show (lit attrPackage == lit attrVersionCode) = false by decide,
      show (lit attrPackage == lit attrVersionName) = false by decide,
      show (lit attrVersionCode == lit attrVersionName) = false by decide,
      show (lit attrVersionName == lit attrVersionCode) = false by decide,
      show (lit attrVersionCode == lit attrPackage) = false by decide,
      show (lit attrVersionName == lit attrPackage) = false by decide,
      show (([] : Str) == lit NS_ANDROID_URI) = false by decide,
      show ((lit NS_ANDROID_URI) == ([] : Str)) = false by decide]

/-! ### queries on the XML of a manifest model (`queries_spec`) -/

theorem root_of_model (m : ManifestModel) : (analyse (some (toXml m))).root = elOf (toXml m) := by
  simp [analyse, toXml, elOf]

/-- `get_activities()` on the XML of a model: the declared names completed by Android's rule, in document order -/
theorem queries_spec_activities (m : ManifestModel) (h : WF m) :
    (analyse (some (toXml m))).activities = m.activities.map (complete m.package) := by
  have hpk := (queries_spec_package m h).1
  obtain ⟨_, _, _, hall⟩ := h
  have hs : ∀ n ∈ m.activities, n ≠ [] := fun n hn => hall n (by simp [hn])
  unfold Analysis.activities Analysis.components
  rw [hpk, root_of_model]
  simp only [toXml, elOf, allAttrValues, findTags, findall, findallNs, List.isEmpty_nil, Bool.true_and,
    show (lit tagManifest == lit tagActivity) = false by decide, Bool.false_eq_true, if_false,
    descList_append, descList, descNode, descList_leaves', List.filter_append, List.filter_cons, List.filter_nil,
    filterNs_leafEls, filter_leafEls_same, filter_leafEls_diff tagUsesPermission tagActivity (by decide), filter_leafEls_diff tagUsesFeature tagActivity (by decide), filter_leafEls_diff tagService tagActivity (by decide), filter_leafEls_diff tagReceiver tagActivity (by decide), filter_leafEls_diff tagProvider tagActivity (by decide), filter_leafEls_diff tagUsesLibrary tagActivity (by decide),
    show (lit "application" == lit tagActivity) = false by decide,
    show (([] : Str) == nsAndroid) = false by decide, Bool.false_and, Bool.and_false,
    List.append_nil, List.nil_append]
  rw [values_leafEls (some m.package) completeActivities tagActivity m.activities hs]
  simp [completeActivities, format_value_spec]

/-- `get_services()` on the XML of a model: the declared names completed by Android's rule, in document order -/
theorem queries_spec_services (m : ManifestModel) (h : WF m) :
    (analyse (some (toXml m))).services = m.services.map (complete m.package) := by
  have hpk := (queries_spec_package m h).1
  obtain ⟨_, _, _, hall⟩ := h
  have hs : ∀ n ∈ m.services, n ≠ [] := fun n hn => hall n (by simp [hn])
  unfold Analysis.services Analysis.components
  rw [hpk, root_of_model]
  simp only [toXml, elOf, allAttrValues, findTags, findall, findallNs, List.isEmpty_nil, Bool.true_and,
    show (lit tagManifest == lit tagService) = false by decide, Bool.false_eq_true, if_false,
    descList_append, descList, descNode, descList_leaves', List.filter_append, List.filter_cons, List.filter_nil,
    filterNs_leafEls, filter_leafEls_same, filter_leafEls_diff tagUsesPermission tagService (by decide), filter_leafEls_diff tagUsesFeature tagService (by decide), filter_leafEls_diff tagActivity tagService (by decide), filter_leafEls_diff tagReceiver tagService (by decide), filter_leafEls_diff tagProvider tagService (by decide), filter_leafEls_diff tagUsesLibrary tagService (by decide),
    show (lit "application" == lit tagService) = false by decide,
    show (([] : Str) == nsAndroid) = false by decide, Bool.false_and, Bool.and_false,
    List.append_nil, List.nil_append]
  rw [values_leafEls (some m.package) completeServices tagService m.services hs]
  simp [completeServices, format_value_spec]

/-- `get_receivers()` on the XML of a model: the declared names completed by Android's rule, in document order -/
theorem queries_spec_receivers (m : ManifestModel) (h : WF m) :
    (analyse (some (toXml m))).receivers = m.receivers.map (complete m.package) := by
  have hpk := (queries_spec_package m h).1
  obtain ⟨_, _, _, hall⟩ := h
  have hs : ∀ n ∈ m.receivers, n ≠ [] := fun n hn => hall n (by simp [hn])
  unfold Analysis.receivers Analysis.components
  rw [hpk, root_of_model]
  simp only [toXml, elOf, allAttrValues, findTags, findall, findallNs, List.isEmpty_nil, Bool.true_and,
    show (lit tagManifest == lit tagReceiver) = false by decide, Bool.false_eq_true, if_false,
    descList_append, descList, descNode, descList_leaves', List.filter_append, List.filter_cons, List.filter_nil,
    filterNs_leafEls, filter_leafEls_same, filter_leafEls_diff tagUsesPermission tagReceiver (by decide), filter_leafEls_diff tagUsesFeature tagReceiver (by decide), filter_leafEls_diff tagActivity tagReceiver (by decide), filter_leafEls_diff tagService tagReceiver (by decide), filter_leafEls_diff tagProvider tagReceiver (by decide), filter_leafEls_diff tagUsesLibrary tagReceiver (by decide),
    show (lit "application" == lit tagReceiver) = false by decide,
    show (([] : Str) == nsAndroid) = false by decide, Bool.false_and, Bool.and_false,
    List.append_nil, List.nil_append]
  rw [values_leafEls (some m.package) completeReceivers tagReceiver m.receivers hs]
  simp [completeReceivers, format_value_spec]

/-- `get_providers()` on the XML of a model: the declared names completed by Android's rule, in document order -/
theorem queries_spec_providers (m : ManifestModel) (h : WF m) :
    (analyse (some (toXml m))).providers = m.providers.map (complete m.package) := by
  have hpk := (queries_spec_package m h).1
  obtain ⟨_, _, _, hall⟩ := h
  have hs : ∀ n ∈ m.providers, n ≠ [] := fun n hn => hall n (by simp [hn])
  unfold Analysis.providers Analysis.components
  rw [hpk, root_of_model]
  simp only [toXml, elOf, allAttrValues, findTags, findall, findallNs, List.isEmpty_nil, Bool.true_and,
    show (lit tagManifest == lit tagProvider) = false by decide, Bool.false_eq_true, if_false,
    descList_append, descList, descNode, descList_leaves', List.filter_append, List.filter_cons, List.filter_nil,
    filterNs_leafEls, filter_leafEls_same, filter_leafEls_diff tagUsesPermission tagProvider (by decide), filter_leafEls_diff tagUsesFeature tagProvider (by decide), filter_leafEls_diff tagActivity tagProvider (by decide), filter_leafEls_diff tagService tagProvider (by decide), filter_leafEls_diff tagReceiver tagProvider (by decide), filter_leafEls_diff tagUsesLibrary tagProvider (by decide),
    show (lit "application" == lit tagProvider) = false by decide,
    show (([] : Str) == nsAndroid) = false by decide, Bool.false_and, Bool.and_false,
    List.append_nil, List.nil_append]
  rw [values_leafEls (some m.package) completeProviders tagProvider m.providers hs]
  simp [completeProviders, format_value_spec]

/-- `get_libraries()` on the XML of a model: exactly the declared names (no package completion) -/
theorem queries_spec_libraries (m : ManifestModel) (h : WF m) :
    (analyse (some (toXml m))).libraries = m.libraries := by
  have hpk := (queries_spec_package m h).1
  obtain ⟨_, _, _, hall⟩ := h
  have hs : ∀ n ∈ m.libraries, n ≠ [] := fun n hn => hall n (by simp [hn])
  unfold Analysis.libraries Analysis.components
  rw [hpk, root_of_model]
  simp only [toXml, elOf, allAttrValues, findTags, findall, findallNs, List.isEmpty_nil, Bool.true_and,
    show (lit tagManifest == lit tagUsesLibrary) = false by decide, Bool.false_eq_true, if_false,
    descList_append, descList, descNode, descList_leaves', List.filter_append, List.filter_cons, List.filter_nil,
    filterNs_leafEls, filter_leafEls_same, filter_leafEls_diff tagUsesPermission tagUsesLibrary (by decide), filter_leafEls_diff tagUsesFeature tagUsesLibrary (by decide), filter_leafEls_diff tagActivity tagUsesLibrary (by decide), filter_leafEls_diff tagService tagUsesLibrary (by decide), filter_leafEls_diff tagReceiver tagUsesLibrary (by decide), filter_leafEls_diff tagProvider tagUsesLibrary (by decide),
    show (lit "application" == lit tagUsesLibrary) = false by decide,
    show (([] : Str) == nsAndroid) = false by decide, Bool.false_and, Bool.and_false,
    List.append_nil, List.nil_append]
  rw [values_leafEls (some m.package) completeLibraries tagUsesLibrary m.libraries hs]
  simp [completeLibraries]

/-- `get_features()` on the XML of a model: exactly the declared names (no package completion) -/
theorem queries_spec_features (m : ManifestModel) (h : WF m) :
    (analyse (some (toXml m))).features = m.features := by
  have hpk := (queries_spec_package m h).1
  obtain ⟨_, _, _, hall⟩ := h
  have hs : ∀ n ∈ m.features, n ≠ [] := fun n hn => hall n (by simp [hn])
  unfold Analysis.features Analysis.components
  rw [hpk, root_of_model]
  simp only [toXml, elOf, allAttrValues, findTags, findall, findallNs, List.isEmpty_nil, Bool.true_and,
    show (lit tagManifest == lit tagUsesFeature) = false by decide, Bool.false_eq_true, if_false,
    descList_append, descList, descNode, descList_leaves', List.filter_append, List.filter_cons, List.filter_nil,
    filterNs_leafEls, filter_leafEls_same, filter_leafEls_diff tagUsesPermission tagUsesFeature (by decide), filter_leafEls_diff tagActivity tagUsesFeature (by decide), filter_leafEls_diff tagService tagUsesFeature (by decide), filter_leafEls_diff tagReceiver tagUsesFeature (by decide), filter_leafEls_diff tagProvider tagUsesFeature (by decide), filter_leafEls_diff tagUsesLibrary tagUsesFeature (by decide),
    show (lit "application" == lit tagUsesFeature) = false by decide,
    show (([] : Str) == nsAndroid) = false by decide, Bool.false_and, Bool.and_false,
    List.append_nil, List.nil_append]
  rw [values_leafEls (some m.package) completeFeatures tagUsesFeature m.features hs]
  simp [completeFeatures]

/-- `get_permissions()` on the XML of a model: exactly the declared permission names, each once -/
theorem queries_spec_permissions (m : ManifestModel) (h : WF m) :
    (analyse (some (toXml m))).permissions = dedup m.permissions ∧
    ∀ n, n ∈ (analyse (some (toXml m))).permissions ↔ n ∈ m.permissions := by
  have hpk := (queries_spec_package m h).1
  obtain ⟨_, _, _, hall⟩ := h
  have hs : ∀ n ∈ m.permissions, n ≠ [] := fun n hn => hall n (by simp [hn])
  have e : (analyse (some (toXml m))).permissions = dedup m.permissions := by
    have hp : (analyse (some (toXml m))).permissions =
        dedup (allAttrValues (elOf (toXml m)) (analyse (some (toXml m))).package (lit tagUsesPermission) (lit attrName) completePermissions) := by
      simp [analyse, toXml, elOf]
    rw [hp, hpk]
    simp only [toXml, elOf, allAttrValues, findTags, findall, findallNs, List.isEmpty_nil, Bool.true_and,
    show (lit tagManifest == lit tagUsesPermission) = false by decide, Bool.false_eq_true, if_false,
    descList_append, descList, descNode, descList_leaves', List.filter_append, List.filter_cons, List.filter_nil,
    filterNs_leafEls, filter_leafEls_same, filter_leafEls_diff tagUsesFeature tagUsesPermission (by decide), filter_leafEls_diff tagActivity tagUsesPermission (by decide), filter_leafEls_diff tagService tagUsesPermission (by decide), filter_leafEls_diff tagReceiver tagUsesPermission (by decide), filter_leafEls_diff tagProvider tagUsesPermission (by decide), filter_leafEls_diff tagUsesLibrary tagUsesPermission (by decide),
    show (lit "application" == lit tagUsesPermission) = false by decide,
    show (([] : Str) == nsAndroid) = false by decide, Bool.false_and, Bool.and_false,
    List.append_nil, List.nil_append]
    rw [values_leafEls (some m.package) completePermissions tagUsesPermission m.permissions hs]
    simp [completePermissions]
  exact ⟨e, fun n => by rw [e, mem_dedup]⟩

/-! ## the full manifest (Spec/ManifestFull.lean): uses-sdk, maxSdkVersion, activity aliases, enabled flags, intent filters -/

/-- the simple model above is the full one without uses-sdk, aliases, flags and filters: same XML -/
theorem simple_model_is_full (m : ManifestModel) : m.full.toXml = toXml m := by
  simp [ManifestModel.full, AppManifest.toXml, toXml, el, named, leaf, att, optAtt, Tag.str, AName.str, Val.render,
    UsesPermission.toXml, Activity.toXml, Activity.tag, Function.comp_def]
  rfl

/-- every listed list / value query on the XML of a well-formed manifest answers what the manifest declares: package, version
    code and name, permissions (each once) and uses-permission with maxSdkVersion, activities / services / receivers / providers
    completed by Android's rule (aliases are not activities), libraries, features, min / target / max SDK, effective target -/
theorem queries_on_model (m : AppManifest) (h : m.WF) : answersOfAnalysis (analyse (some m.toXml)) = m.answers :=
  answers_toXml m h

/-- `get_min_sdk_version` / `get_target_sdk_version` / `get_max_sdk_version`: the attribute of `<uses-sdk>` as written, Python
    `None` when the element or the attribute is missing -/
theorem queries_spec_sdk (m : AppManifest) (h : m.WF) :
    (analyse (some m.toXml)).sdk attrMinSdk = optFirst (m.sdkVal (·.min)) ∧
    (analyse (some m.toXml)).sdk attrTargetSdk = optFirst (m.sdkVal (·.target)) ∧
    (analyse (some m.toXml)).sdk attrMaxSdk = optFirst (m.sdkVal (·.max)) :=
  sdk_toXml m h.2.2.2.1

/-- `uses_permissions`: every `<uses-permission>` with its maxSdkVersion as an integer, `None` when absent or not an integer -/
theorem queries_spec_uses_permissions (m : AppManifest) :
    (analyse (some m.toXml)).usesPermissions = m.permissions.map fun p => (some p.name, (p.maxSdk.map Val.render).bind intOrNone) :=
  usesPermissions_toXml m

/-- the effective target SDK of a manifest: the declared target, else the declared min, else 1; a value that is not an
    integer counts as 1 -/
theorem effective_target_of_model (m : AppManifest) (h : m.WF) :
    (∀ s, m.sdkVal (·.target) = some s → (analyse (some m.toXml)).effectiveTarget = some (intOrOne s)) ∧
    (∀ s, m.sdkVal (·.target) = none → m.sdkVal (·.min) = some s → (analyse (some m.toXml)).effectiveTarget = some (intOrOne s)) ∧
    (m.sdkVal (·.target) = none → m.sdkVal (·.min) = none → (analyse (some m.toXml)).effectiveTarget = some (.ok 1)) := by
  rw [effectiveTarget_toXml m h.2.2.2.1]
  refine ⟨?_, ?_, ?_⟩
  · intro s hs; simp [AppManifest.answers, hs]
  · intro s ht hs; simp [AppManifest.answers, ht, hs]
  · intro ht hs; simp [AppManifest.answers, ht, hs]

/-- integer attribute values: Python `int()` of the printer's decimal rendering of an int_dec value is that (two's complement)
    integer, so integer maxSdkVersion / SDK values are reported as the declared integers -/
theorem int_value_roundtrip (d : Nat) (h : d < 2 ^ 32) :
    pyInt (Val.int d).render = .ok (int32 d) ∧ intOrOne (Val.int d).render = .ok (int32 d) ∧
    intOrNone (Val.int d).render = some (.ok (int32 d)) :=
  ⟨pyInt_render_int d h, intOrOne_render_int d h, intOrNone_render_int d h⟩

/-- … in particular the effective target of a manifest with an integer targetSdkVersion (or, without target, an integer
    minSdkVersion) is that integer -/
theorem effective_target_int (m : AppManifest) (h : m.WF) (s : UsesSdk) (hs : m.usesSdk = some s) (d : Nat) (hd : d < 2 ^ 32) :
    (s.target = some (.int d) → (analyse (some m.toXml)).effectiveTarget = some (.ok (int32 d))) ∧
    (s.target = none → s.min = some (.int d) → (analyse (some m.toXml)).effectiveTarget = some (.ok (int32 d))) := by
  obtain ⟨h1, h2, _⟩ := effective_target_of_model m h
  constructor
  · intro ht
    rw [h1 (Val.int d).render (by simp [AppManifest.sdkVal, hs, ht]), intOrOne_render_int d hd]
  · intro ht hm
    rw [h2 (Val.int d).render (by simp [AppManifest.sdkVal, hs, ht]) (by simp [AppManifest.sdkVal, hs, hm]), intOrOne_render_int d hd]

/-- the constructor: `APK()` does not raise on a manifest whose declared target / min SDK values are integers (or absent), and
    raises `ValueError` (from `int()` when the permission tables are loaded) when the declared target is not an integer -/
theorem ctor_of_model (m : AppManifest) (h : m.WF) :
    ((∀ s, m.sdkVal (·.target) = some s → ∃ v, pyInt s = .ok v) → (∀ s, m.sdkVal (·.min) = some s → ∃ v, pyInt s = .ok v) →
      (analyse (some m.toXml)).ctorRaises = some false) ∧
    (∀ s, m.sdkVal (·.target) = some s → pyInt s = .valueError → (analyse (some m.toXml)).ctorRaises = some true) := by
  obtain ⟨h1, h2, _⟩ := queries_spec_sdk m h
  have hroot : ((analyse (some m.toXml)).root.isSome && !(analyse (some m.toXml)).isManifest) = false := by
    rw [analyse_toXml]; rfl
  have hne : ∀ (f : UsesSdk → Option Val) (s : Str), (f = (·.target) ∨ f = (·.min)) → m.sdkVal f = some s → s.isEmpty = false := by
    intro f s hf hs
    simp only [AppManifest.sdkVal, Option.map_eq_some_iff, Option.bind_eq_some_iff] at hs
    obtain ⟨v, ⟨u, hu, hv⟩, rfl⟩ := hs
    have := h.2.2.2.1 u (by simp [hu]) v (by rcases hf with rfl | rfl <;> simp [UsesSdk.vals, hv])
    simpa using this
  have hload : ∀ (o : Option Str), (∀ s, o = some s → s.isEmpty = false) → (∀ s, o = some s → ∃ v, pyInt s = .ok v) →
      apiLoadRaises (optFirst o) = some false := by
    intro o he hi
    cases o with
    | none => rfl
    | some s =>
      obtain ⟨v, hv⟩ := hi s rfl
      simp [optFirst, apiLoadRaises, he s rfl, hv]
  constructor
  · intro ht hm
    simp only [Analysis.ctorRaises, hroot, Bool.false_eq_true, if_false, h1, h2,
      hload _ (fun s hs => hne _ s (Or.inl rfl) hs) ht, hload _ (fun s hs => hne _ s (Or.inr rfl) hs) hm]
  · intro s hs hv
    simp only [Analysis.ctorRaises, hroot, Bool.false_eq_true, if_false, h2, hs, optFirst, apiLoadRaises,
      hne _ s (Or.inl rfl) hs, hv]

/-- `get_main_activities` on EVERY manifest with non-empty names (no assumption on how MAIN and LAUNCHER are spread over
    intent filters): exactly the names under which an enabled activity / alias declares the action MAIN and an enabled activity /
    alias declares the category LAUNCHER (`AppManifest.IsMainName`, androguard's documented notion: the intersection of the two
    name sets), each once.  This is the interpretation of "main activity" taken by this property. -/
theorem main_activities_of_model (m : AppManifest) (h : m.WF0) :
    (∀ n, n ∈ (analyse (some m.toXml)).mainActivities ↔ m.IsMainName n) ∧
    (analyse (some m.toXml)).mainActivities.Nodup :=
  ⟨fun n => mem_mainActivities_byName m h n, mainActivities_nodup _⟩

/-- androguard's by-name notion against Android's launcher rule (MAIN and LAUNCHER in ONE filter of an enabled component,
    `Activity.isMain`): every launcher activity is reported on every manifest; and the two notions coincide on the manifests that
    are `LauncherCoherent` (the last clause of `AppManifest.WF`). -/
theorem main_name_vs_launcher_rule (m : AppManifest) :
    (∀ a ∈ m.activities, a.isMain = true → m.IsMainName a.name) ∧
    (m.LauncherCoherent → ∀ n, m.IsMainName n ↔ ∃ a ∈ m.activities, a.isMain = true ∧ a.name = n) :=
  ⟨fun a ha hm => perFilter_isMainName m a ha hm, fun hco n => isMainName_iff_perFilter m hco n⟩

/-- `WF` is `WF0` plus launcher coherence -/
theorem wf_split (m : AppManifest) : m.WF ↔ m.WF0 ∧ m.LauncherCoherent := wf_iff m

/-- hence, on coherent manifests: exactly the names of the enabled activities and aliases that have a filter with action MAIN and
    category LAUNCHER, each once -/
theorem main_activities_per_filter (m : AppManifest) (h : m.WF) :
    (∀ n, n ∈ (analyse (some m.toXml)).mainActivities ↔ ∃ a ∈ m.activities, a.isMain = true ∧ a.name = n) ∧
    (analyse (some m.toXml)).mainActivities.Nodup := by
  refine ⟨fun n => ?_, mainActivities_nodup _⟩
  rw [mem_mainActivities m h]
  simp [AppManifest.mainNames, List.mem_map, List.mem_filter, and_assoc]

/-- the order of `get_main_activity`'s `sorted`: lexicographic by code point, a strict total order -/
theorem str_order :
    (∀ a, strLt a a = false) ∧ (∀ a b c, strLt a b = true → strLt b c = true → strLt a c = true) ∧
    (∀ a b, strLt a b = false → strLt b a = false → a = b) :=
  ⟨strLt_irrefl, strLt_trans, strLt_total⟩

/-- deterministic tie-break, any tree: whatever the iteration order of the set of main activities, `get_main_activity` returns
    the least completed name among those that are also `get_activities()` names, or among all of them when none is -/
theorem main_activity_tiebreak (a : Analysis) (r : Str) (h : a.mainActivity = some r) :
    r ∈ candidates (a.mainActivities.map (formatValue a.package)) a.activities ∧
    ∀ y ∈ candidates (a.mainActivities.map (formatValue a.package)) a.activities, strLt y r = false :=
  mainActivity_least a r h

/-- `get_main_activity` of a manifest: `None` without a launcher activity; otherwise the least completed launcher name among
    the declared `<activity>` names, or among all launcher names (aliases) when none of them is a declared activity -/
theorem main_activity_of_model (m : AppManifest) (h : m.WF) :
    (m.mainNames = [] → (analyse (some m.toXml)).mainActivity = none) ∧
    (m.mainNames ≠ [] → ∃ r, (analyse (some m.toXml)).mainActivity = some r ∧
      r ∈ candidates (m.mainNames.map (complete m.package)) m.answers.activities ∧
      ∀ y ∈ candidates (m.mainNames.map (complete m.package)) m.answers.activities, strLt y r = false) :=
  mainActivity_toXml m h

/-! ## from the bytes of AndroidManifest.xml (composition with C26 `axml_roundtrip_norm`)

`docOf ln m` (Spec/ManifestFile.lean) is the binary XML document aapt writes for the manifest `m`: `android` prefix declared on the
root, every attribute but `package` in the android namespace, typed values (string / int_dec / boolean / reference), no text.
`encodeAxml E d` (Spec/AxmlFile.lean) are its bytes under the encoding choice `E` (UTF-8 or UTF-16 pool, narrow or wide length
prefixes, any pool order, with or without resource map — the map carries the resource ids of the system attributes).  `wfDoc` is the
decidable domain of C26: every string in the pool and fit for it, XML names and XML strings, a resource map that does not rename an
attribute, file shorter than 2^32 bytes.  The zip layer (apkInspector reading AndroidManifest.xml out of the archive) stays outside
these theorems: it is tied by the correspondence only. -/

/-- the tree of the manifest's document, with the value strings the printer produces, is the XML of the manifest -/
theorem manifest_doc_tree (opq : Nat → Nat → Str) (ln : Nat) (m : AppManifest) (hf : m.fits = true) :
    treeOf opq (docOf ln m) = m.toXml :=
  treeOf_docOf opq ln m hf

/-- the printer on the file of a manifest is valid and returns the XML of the manifest, for every encoding choice -/
theorem manifest_file_tree (opq : Nat → Nat → Str) (E : Enc) (ln : Nat) (m : AppManifest) (hf : m.fits = true)
    (hdoc : wfDoc opq E (docOf ln m) = true) :
    printAxml opq (encodeAxml E (docOf ln m)) = .ok (true, some m.toXml) :=
  print_manifest opq E ln m hf hdoc

/-- File-level composition: for every well-formed manifest `m` whose document is well formed under the encoding choice `E`,
    printing the bytes and analysing the tree answers every listed query with what `m` declares: the list / value queries
    (`AppManifest.answers`), the main activities (launcher rule, each once) and the main activity (least-name tie-break). -/
theorem manifest_queries_on_file (opq : Nat → Nat → Str) (E : Enc) (ln : Nat) (m : AppManifest) (hm : m.WF) (hf : m.fits = true)
    (hdoc : wfDoc opq E (docOf ln m) = true) :
    ∃ a, analyseFile opq (encodeAxml E (docOf ln m)) = .ok a ∧
      answersOfAnalysis a = m.answers ∧
      (∀ n, n ∈ a.mainActivities ↔ ∃ act ∈ m.activities, act.isMain = true ∧ act.name = n) ∧ a.mainActivities.Nodup ∧
      (m.mainNames = [] → a.mainActivity = none) ∧
      (m.mainNames ≠ [] → ∃ r, a.mainActivity = some r ∧
        r ∈ candidates (m.mainNames.map (complete m.package)) m.answers.activities ∧
        ∀ y ∈ candidates (m.mainNames.map (complete m.package)) m.answers.activities, strLt y r = false) := by
  refine ⟨analyse (some m.toXml), ?_, queries_on_model m hm, (main_activities_per_filter m hm).1, (main_activities_per_filter m hm).2,
    (main_activity_of_model m hm).1, (main_activity_of_model m hm).2⟩
  simp [analyseFile, manifest_file_tree opq E ln m hf hdoc]

/-- the domain, spelled out on the manifest and the encoding choice: the document `docOf ln m` satisfies C26's `wfDoc` under `E`
    as soon as the line number and the integer / reference data are uint32 (`fits`), the string values are strings of XML
    characters (`legal`), every string of the document is in the pool and the pool's strings fit its flavour, the resource map
    renames neither an android attribute (`resOk`) nor `package`, and the file is shorter than 2^32 bytes.  (XML-legal tag and
    attribute names, one attribute per name, the single namespace declaration hold by construction of `docOf`.) -/
theorem manifest_doc_wf (opq : Nat → Nat → Str) (E : Enc) (ln : Nat) (m : AppManifest) (hln : ln < 2 ^ 32) (hf : m.fits = true)
    (hl : m.legal = true) (hr : ∀ n, resOk E n = true) (hp : resOkPackage E = true)
    (hs : ∀ s ∈ stringsOf (docOf ln m), s ∈ E.strings) (hpool : ∀ s ∈ E.strings, StrOk E.utf8 s)
    (hids : ∀ i ∈ E.resIds.getD [], i < 2 ^ 32) (hsz : (encodeAxml E (docOf ln m)).length < 2 ^ 32) :
    wfDoc opq E (docOf ln m) = true :=
  wfDoc_docOf opq E ln m hln hf hl hr hp hs hpool hids hsz

/-- … and such an encoding choice always exists: the canonical one (android attribute names first, then the strings of the
    document; resource map = the resource ids of those names), UTF-8 or UTF-16, narrow or wide prefixes.  So for every
    well-formed manifest with XML-string values whose strings fit the pool flavour and whose file is shorter than 2^32 bytes, the
    printer followed by the analysis answers every listed query with what the manifest declares. -/
theorem manifest_queries_on_canonical_file (opq : Nat → Nat → Str) (utf8 wide : Bool) (ln : Nat) (m : AppManifest) (hm : m.WF)
    (hf : m.fits = true) (hl : m.legal = true) (hln : ln < 2 ^ 32) (hstr : ∀ s ∈ stringsOf (docOf ln m), StrOk utf8 s)
    (hsz : (encodeAxml (canonEnc utf8 wide (docOf ln m)) (docOf ln m)).length < 2 ^ 32) :
    ∃ a, analyseFile opq (encodeAxml (canonEnc utf8 wide (docOf ln m)) (docOf ln m)) = .ok a ∧
      answersOfAnalysis a = m.answers ∧
      (∀ n, n ∈ a.mainActivities ↔ ∃ act ∈ m.activities, act.isMain = true ∧ act.name = n) ∧ a.mainActivities.Nodup ∧
      (m.mainNames = [] → a.mainActivity = none) ∧
      (m.mainNames ≠ [] → ∃ r, a.mainActivity = some r ∧
        r ∈ candidates (m.mainNames.map (complete m.package)) m.answers.activities ∧
        ∀ y ∈ candidates (m.mainNames.map (complete m.package)) m.answers.activities, strLt y r = false) :=
  manifest_queries_on_file opq _ ln m hm hf (wfDoc_canon opq utf8 wide ln m hln hf hl hstr hsz)

/-! Non-vacuity -/
example : WF ⟨lit "com.x", lit "7", lit "1.0", [lit "android.permission.INTERNET", lit "WRITE"], [], [lit ".Main"], [lit "Svc"], [], [], []⟩ := by
  refine ⟨by decide, by decide, by decide, ?_⟩
  intro n hn
  simp only [List.append_nil, List.mem_append, List.mem_cons, List.not_mem_nil, or_false] at hn
  rcases hn with ((rfl | rfl) | rfl) | rfl <;> decide
example : complete (lit "com.x") (lit ".Main") = lit "com.x.Main" ∧ complete (lit "com.x") (lit "Main") = lit "com.x.Main" ∧
    complete (lit "com.x") (lit "a.B") = lit "a.B" := by decide
example : pyInt (lit " 33 ") = .ok 33 ∧ pyInt (lit "Q") = .valueError ∧ pyInt (lit "1_0") = .ok 10 := by decide


/-- com.x: two activities (one launcher, one disabled launcher), a launcher alias, two permissions (one with maxSdkVersion,
    one repeated), uses-sdk with integer min / target, a reference as version code -/
def exManifest : AppManifest :=
  { package := lit "com.x", versionCode := some (.int 7), versionName := some (lit "1.0"),
    usesSdk := some ⟨some (.int 21), some (.int 33), none⟩,
    permissions := [⟨lit "android.permission.INTERNET", none⟩, ⟨lit "WRITE", some (.int 28)⟩, ⟨lit "WRITE", some (.str (lit "x"))⟩],
    features := [lit "nfc"],
    activities := [⟨false, lit ".Main", none, none, [⟨[lit actionMain], [lit categoryLauncher, lit "android.intent.category.DEFAULT"]⟩]⟩,
      ⟨false, lit "Off", some (.bool false), none, [⟨[lit actionMain], [lit categoryLauncher]⟩]⟩,
      ⟨true, lit "a.Alias", some (.bool true), some (lit ".Main"), [⟨[lit "android.intent.action.VIEW"], []⟩, ⟨[lit actionMain], [lit categoryLauncher]⟩]⟩],
    services := [lit "Svc"], receivers := [], providers := [lit ".P"], libraries := [lit "org.apache.http.legacy"] }
example : exManifest.WF := by decide +kernel
example : exManifest.mainNames = [lit ".Main", lit "a.Alias"] := by decide +kernel
example : (analyse (some exManifest.toXml)).mainActivity = some (lit "com.x.Main") := by decide +kernel
example : exManifest.answers.effectiveTarget = some (.ok 33) ∧ exManifest.answers.permissions = [lit "android.permission.INTERNET", lit "WRITE"] ∧
    exManifest.answers.usesPermissions = [(some (lit "android.permission.INTERNET"), none), (some (lit "WRITE"), some (.ok 28)), (some (lit "WRITE"), none)] ∧
    exManifest.answers.activities = [lit "com.x.Main", lit "com.x.Off"] := by decide +kernel
example : exManifest.fits = true ∧ exManifest.legal = true := by decide
/-- the resource ids the canonical encoding puts in the resource map are the ids of those attributes in the table generated
    from androguard's data (Gen/AxmlConsts `sysAttrNames`) -/
theorem attr_res_ids : ∀ n ∈ allANames, AgVerif.Axml.sysAttrName (attrResId n) = some n.str := by decide +kernel
/-- the example manifest's document is well formed under the canonical encoding choice (UTF-8, narrow prefixes; UTF-16 below) -/
theorem exManifest_doc_wf : wfDoc (fun _ _ => []) (canonEnc true false (docOf 1 exManifest)) (docOf 1 exManifest) = true := by decide +kernel
example : ∃ a, analyseFile (fun _ _ => []) (encodeAxml (canonEnc true false (docOf 1 exManifest)) (docOf 1 exManifest)) = .ok a ∧
    answersOfAnalysis a = exManifest.answers :=
  let ⟨a, h1, h2, _⟩ := manifest_queries_on_file _ _ 1 exManifest (by decide +kernel) (by decide) exManifest_doc_wf
  ⟨a, h1, h2⟩
/-- a second, differently shaped manifest: no versions, uses-sdk with string values and a reference, non-ASCII package,
    no activities; UTF-16 pool without forced wide prefixes -/
def exManifest2 : AppManifest :=
  { package := [0x63, 0xFC, 0x2E, 0x78], versionCode := none, versionName := none,
    usesSdk := some ⟨some (.str (lit "21")), none, some (.ref 0x7f050001)⟩,
    permissions := [], features := [], activities := [], services := [lit ".S"], receivers := [lit "R"], providers := [], libraries := [] }
example : exManifest2.WF ∧ exManifest2.fits = true := by decide +kernel
example : wfDoc (fun _ _ => []) (canonEnc false false (docOf 3 exManifest2)) (docOf 3 exManifest2) = true := by decide +kernel
example : exManifest2.answers.effectiveTarget = some (.ok 21) ∧ exManifest2.answers.maxSdk = .val (lit "@7F050001") ∧
    exManifest2.answers.services = [[0x63, 0xFC, 0x2E, 0x78, 0x2E, 0x53]] := by decide +kernel
/-- a manifest that is not launcher-coherent (MAIN in one filter, LAUNCHER in another): it satisfies `WF0`, so
    `main_activities_of_model` applies; androguard's by-name notion reports "Split" although no single filter is a launcher
    filter (Android's rule would report none): the two notions differ exactly here -/
def exSplit : AppManifest := { exManifest with activities :=
  [⟨false, lit "Split", none, none, [⟨[lit actionMain], []⟩, ⟨[lit "android.intent.action.VIEW"], [lit categoryLauncher]⟩]⟩] }
example : exSplit.WF0 ∧ ¬ exSplit.LauncherCoherent ∧ ¬ exSplit.WF := by decide +kernel
example : exSplit.IsMainName (lit "Split") ∧ exSplit.mainNames = [] := by
  refine ⟨⟨⟨_, List.mem_singleton.2 rfl, by decide, by decide, rfl⟩, ⟨_, List.mem_singleton.2 rfl, by decide, by decide, rfl⟩⟩, by decide⟩
example : (analyse (some exSplit.toXml)).mainActivities = [lit "Split"] := by decide +kernel

end AgVerif.C31
