import AgVerif.Model.Manifest
namespace AgVerif.C31
open AgVerif.Axml AgVerif.Manifest

theorem stub : formatValue none [] = [] := by rfl

end AgVerif.C31
