import AgVerif.Model.Paths
import AgVerif.Spec.Portable
import AgVerif.Proof.PathsClean
/-!
C38 — cleaned file names are portable.  Model: `AgVerif.Paths.cleanFileName` (the FIXED
clean_file_name of fixes/C38-clean-file-name-limits.diff; POSIX, force_nt = False).
`isfile` is ANY predicate on paths (the file system), `fuel` any loop budget, `filename` and the
replacement string ANY strings.  Every theorem speaks about the name part `(split r).2` of a result
`r`, which by `same_directory` is exactly the cleaned name the function produced.
-/
namespace AgVerif.C38
open AgVerif.Paths AgVerif.PathsClean AgVerif.Spec.Portable

/-- the literal texts the hand-compiled model was derived from -/
theorem gen_pins :
    Gen.Paths.cleanPatterns =
      [("search", "[<>:\"/\\\\|?* .\\x00-\\x1f]"), ("match", "(CON|PRN|AUX|NUL|COM[1-9]|LPT[1-9])"),
       ("sub", "[<>:\"/\\\\|?*\\x00-\\x1f]"), ("sub", "[ .]$"), ("sub", "[ .]$")]
    ∧ Gen.Paths.suffixFormat = "_{}" ∧ Gen.Paths.pathMaxLength = 230 ∧ Gen.Paths.extDivisor = 2
    -- the uniqueness loop asks about exactly the path that is returned (the model's `isfile` is a
    -- predicate on the returned string `join2 path candidate`)
    ∧ Gen.Paths.pathBinding = "path, fname = os.path.split(filename)"
    ∧ Gen.Paths.uniqueProbe = "os.path.isfile(os.path.join(path, fname))"
    ∧ Gen.Paths.returnExpr = "os.path.join(path, fname)" :=
  ⟨rfl, rfl, rfl, rfl, rfl, rfl, rfl⟩

/-- the generated character classes contain everything the specification forbids, and the class the
    replacement string is checked against contains both other classes -/
theorem classes_cover_spec (c : Char) :
    (Forbidden c → reservedChar c = true) ∧ (BadEnd c → trailingChar c = true) ∧
    (reservedChar c = true → badReplaceChar c = true) ∧ (trailingChar c = true → badReplaceChar c = true) :=
  ⟨reserved_of_forbidden c, trailing_of_badEnd c, bad_of_reserved c, bad_of_trailing c⟩

/-- the result stays in the input's directory, and its name part is the cleaned name -/
theorem same_directory (isfile : Path → Bool) (fuel : Nat) (filename : Path) (unique : Bool)
    (rep : List Char) (r : Path) (h : cleanFileName isfile fuel filename unique rep = .ok r) :
    (split r).1 = (split filename).1 ∧ r = join2 (split filename).1 (split r).2 := by
  obtain ⟨_, f, hr, hc, _⟩ := cleanFileName_ok _ _ _ _ _ _ h
  have := split_join2 filename f (sep_not_mem_of_clean f hc)
  rw [hr, this]; exact ⟨rfl, rfl⟩

/-- no reserved and no control character in the name -/
theorem no_reserved_chars (isfile : Path → Bool) (fuel : Nat) (filename : Path) (unique : Bool)
    (rep : List Char) (r : Path) (h : cleanFileName isfile fuel filename unique rep = .ok r) :
    NoForbidden (split r).2 := by
  obtain ⟨_, f, hr, hc, _⟩ := cleanFileName_ok _ _ _ _ _ _ h
  have := split_join2 filename f (sep_not_mem_of_clean f hc)
  rw [hr, this]; exact noForbidden_of_clean f hc

/-- the name does not end with a space or a dot -/
theorem not_trailing_space_dot (isfile : Path → Bool) (fuel : Nat) (filename : Path) (unique : Bool)
    (rep : List Char) (r : Path) (h : cleanFileName isfile fuel filename unique rep = .ok r) :
    GoodEnd (split r).2 := by
  obtain ⟨_, f, hr, hc, ht, _⟩ := cleanFileName_ok _ _ _ _ _ _ h
  have := split_join2 filename f (sep_not_mem_of_clean f hc)
  rw [hr, this]; exact goodEnd_of_noTrail f ht

/-- the name has at most 230 characters (also after the uniqueness suffix, for any number of files) -/
theorem length_le_230 (isfile : Path → Bool) (fuel : Nat) (filename : Path) (unique : Bool)
    (rep : List Char) (r : Path) (h : cleanFileName isfile fuel filename unique rep = .ok r) :
    (split r).2.length ≤ 230 := by
  obtain ⟨_, f, hr, hc, _, hl, _⟩ := cleanFileName_ok _ _ _ _ _ _ h
  have := split_join2 filename f (sep_not_mem_of_clean f hc)
  rw [hr, this]; exact hl

/-- with uniqueness requested the result does not name an existing file -/
theorem unique_fresh (isfile : Path → Bool) (fuel : Nat) (filename : Path)
    (rep : List Char) (r : Path) (h : cleanFileName isfile fuel filename true rep = .ok r) :
    isfile r = false := by
  obtain ⟨_, f, _, _, _, _, hu⟩ := cleanFileName_ok _ _ _ _ _ _ h
  exact hu rfl

/-- the uniqueness loop terminates: when the existing files are among a list `files` of fewer than
    10^100 paths, `files.length + 2` tests suffice (the candidates are pairwise different, pigeonhole);
    the function then returns a name for every input and every allowed replacement string -/
theorem unique_terminates (isfile : Path → Bool) (files : List Path)
    (hfiles : ∀ p, isfile p = true → p ∈ files) (hsmall : files.length < 10 ^ 100)
    (fuel : Nat) (hfuel : files.length + 2 ≤ fuel) (filename : Path) (unique : Bool)
    (rep : List Char) (hrep : validReplace rep = true) :
    ∃ r, cleanFileName isfile fuel filename unique rep = .ok r := by
  have hr := goodRep_of_valid rep hrep
  unfold cleanFileName
  simp only [hrep, Bool.not_true, Bool.false_eq_true, if_false]
  cases unique with
  | false => exact ⟨_, rfl⟩
  | true =>
    simp only [if_true]
    have := uniqueLoop_terminates isfile files hfiles hsmall (split filename).1 rep
      (cleanBase rep (split filename).2) hr (clean_cleanBase _ _ hr) (noTrail_cleanBase _ _ hr) fuel hfuel
    cases hl : uniqueLoop isfile (split filename).1 rep (cleanBase rep (split filename).2) fuel 0
        (cleanBase rep (split filename).2) with
    | none => exact absurd hl this
    | some f => exact ⟨_, rfl⟩

/-- a replacement string that is empty or contains a reserved character, a space or a dot is refused -/
theorem bad_replace_refused (isfile : Path → Bool) (fuel : Nat) (filename : Path) (unique : Bool)
    (rep : List Char) (h : validReplace rep = false) :
    cleanFileName isfile fuel filename unique rep = .valueError := by
  simp [cleanFileName, h]

/-! non-vacuity: concrete hostile inputs run through the model -/

-- D21 (1): an extension of 300 characters; the result is cut like a name without extension
example : (cleanFileName (fun _ => false) 2 ('a' :: '.' :: List.replicate 300 'b') false ['_']) =
    .ok ('a' :: '.' :: List.replicate 228 'b') := by decide +kernel
-- D21 (2): the cut exposes a space at position 230
example : (cleanFileName (fun _ => false) 2 (List.replicate 229 'a' ++ [' ', 'b']) false ['_']) =
    .ok (List.replicate 229 'a' ++ ['_']) := by decide +kernel
-- D21 (3): a 230 character name that exists: the suffix replaces the end of the name
example : (cleanFileName (fun p => p == 'd' :: '/' :: List.replicate 230 'a') 3
      ('d' :: '/' :: List.replicate 230 'a') true ['_']) =
    .ok ('d' :: '/' :: List.replicate 228 'a' ++ ['_', '0']) := by decide +kernel
-- reserved characters, a device name, a trailing dot
example : (cleanFileName (fun _ => false) 2 "x/COM1<a>:b. ".toList false ['_']) = .ok "x/COM1_a__b. _".toList := by
  decide
example : validReplace ['_'] = true ∧ validReplace [] = false ∧ validReplace ['_', '/'] = false := by decide
-- the hypotheses of `unique_terminates` are satisfiable: a directory holding the two files d/a and d/a_0
example : ∃ r, cleanFileName (fun p => p == "d/a".toList || p == "d/a_0".toList) 4 "d/a".toList true ['_'] = .ok r :=
  unique_terminates _ ["d/a".toList, "d/a_0".toList]
    (by intro p h; simp only [Bool.or_eq_true, beq_iff_eq] at h; rcases h with h | h <;> simp [h])
    (by simp) 4 (by simp) _ _ _ (by decide)
example : cleanFileName (fun p => p == "d/a".toList || p == "d/a_0".toList) 4 "d/a".toList true ['_'] =
    .ok "d/a_1".toList := by decide

end AgVerif.C38
