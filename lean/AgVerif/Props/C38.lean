import AgVerif.Model.Paths
namespace AgVerif.C38
open AgVerif.Paths

/-- the literal texts the hand-compiled model was derived from -/
theorem gen_pins :
    Gen.Paths.cleanPatterns =
      [("search", "[<>:\"/\\\\|?* .\\x00-\\x1f]"), ("match", "(CON|PRN|AUX|NUL|COM[1-9]|LPT[1-9])"),
       ("sub", "[<>:\"/\\\\|?*\\x00-\\x1f]"), ("sub", "[ .]$"), ("sub", "[ .]$")]
    ∧ Gen.Paths.suffixFormat = "_{}" ∧ Gen.Paths.pathMaxLength = 230 ∧ Gen.Paths.extDivisor = 2 :=
  ⟨rfl, rfl, rfl, rfl⟩

end AgVerif.C38
