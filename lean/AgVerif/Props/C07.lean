/-
C07 — DEX parsing does not depend on the order of the map list.
Property theorems only (lemmas: AgVerif/Proof/LoadOrder.lean).

Model: AgVerif.LoadOrder (`kahn` = TypeMapItem.determine_load_order, `sortByKey` = Python's stable
`sorted(key=…)`, `loadWith` = the loop of MapList.__init__ over an arbitrary item parser).
Generated: AgVerif.Gen.MapDeps (`members`, `deps` by AST; `loadOrder` = what the real
determine_load_order() returned on this run).

What is proved: the ordering logic, for every map list and EVERY item parser `step`; and, for the
concrete file-level loader model of C05 (Model/DexFile.lean: `step`, `loadEntries`, `parseDex`),
 * the frame property of every modelled item parser against the dependency table of the source
   (`step_frame`, `deps_adequate`, sharpness `reads_all_needed`, equivalence
   `frame_iff_deps_adequate`, refutations for mutated tables `deps_mutants_refuted`),
 * `deps_final_when_read`: when an item parser runs, the tables of its declared dependencies are
   final (frame + adequacy + sorted load order),
 * permutation invariance of `parseDex` at file level, errors included (`parse_perm_invariant`),
   under the decidable hypothesis that no item decodes differently after the map list was
   rewritten — which follows when no item is read from the bytes of the map entries
   (`parse_perm_invariant_disjoint`) — and that this hypothesis cannot be dropped
   (`parse_perm_needs_items`).
For the extended loader (Model/DexFileX.lean: encoded arrays, annotation items / sets / set-ref-lists /
directories, the full ClassDefItem.reload) the frame property and adequacy are `stepX_frame_sharp`,
`depsX_adequate`, `stepX_frame`, and the ordering theorem instantiates to `maplistX_perm_invariant`.
What is not proved here: that the real `parse` of the item types WITHOUT a parser in the models
(debug info, call sites, method handles, hidden-api data) reads only what its declared dependencies
provide — for those the dependency table stays the code's own claim, validated by the
correspondence `dexperm` of harness/props/c07.py; the file-level geometric theorems
(`parse_perm_invariant…`) are stated for the base loader `parseDex`.  `parse_perm_invariant_disjoint` replaces the `sameItems` hypothesis by a
geometric one on the original file (`items_local`: the decoders are local); an item section that
starts below the map list and FAILS to decode is outside that criterion (it may have read into
the map list), there `sameItems` has to be checked directly.
-/
import AgVerif.Proof.LoadOrder
import AgVerif.Gen.MapDeps
import AgVerif.Proof.DexDeps
import AgVerif.Proof.DexPerm
import AgVerif.Proof.DexGeom
import AgVerif.Proof.DexFinal
import AgVerif.Proof.DexXFrame
import AgVerif.Proof.DexXFinal
import AgVerif.Proof.DexXPerm
namespace AgVerif.C07
open AgVerif.LoadOrder AgVerif.Gen.MapDeps

/-- Kahn's loop on the dependency table of the source terminates without
    'recursive loading dependency', returns exactly the dict the real function returned on this
    run, and numbers every member of TypeMapItem (so `load_order[mi.get_type()]` has no KeyError). -/
theorem kahn_total :
    kahn deps = .ok loadOrder ∧ loadOrderError = false ∧
    ∀ m ∈ members, (rank loadOrder m.2).isSome = true := by
  decide +kernel

/-- general: the loop needs at most one iteration per key (for every table, cyclic or not). -/
theorem kahn_fuel_sufficient (d : Deps) : kahn d ≠ .outOfFuel :=
  kahnLoop_fuel d.length d [] (Nat.le_refl _)

/-- the table is closed (every dependency is itself a key), its keys are exactly the members of
    TypeMapItem, once each. -/
theorem deps_closed :
    (∀ e ∈ deps, ∀ d ∈ e.2, d ∈ deps.map (·.1)) ∧ deps.map (·.1) = members.map (·.2) ∧
    (deps.map (·.1)).Nodup := by
  decide +kernel

/-- every declared dependency of a type is loaded strictly before the type. -/
theorem load_order_topological :
    ∀ e ∈ deps, ∀ d ∈ e.2, ∃ rd rt, rank loadOrder d = some rd ∧ rank loadOrder e.1 = some rt ∧ rd < rt := by
  have h : ∀ e ∈ deps, ∀ d ∈ e.2,
      (match rank loadOrder d, rank loadOrder e.1 with
        | some rd, some rt => decide (rd < rt)
        | _, _ => false) = true := by decide +kernel
  intro e he d hd
  have := h e he d hd
  split at this
  · rename_i rd rt h1 h2
    exact ⟨rd, rt, h1, h2, by simpa using this⟩
  · simp at this

/-- two different types never get the same rank. -/
theorem order_injective :
    ∀ a ∈ loadOrder, ∀ b ∈ loadOrder, a.2 = b.2 → a.1 = b.1 := by
  decide +kernel

/-- the stable sort returns a sorted permutation of its input (any list, any key). -/
theorem sort_sorted_perm {α} (key : α → Nat) (l : List α) :
    (sortByKey key l).Perm l ∧ (sortByKey key l).Pairwise (fun a b => key a ≤ key b) :=
  ⟨sortByKey_perm key l, sortByKey_sorted key l⟩

/-- a stable sort by a key that is injective on the list is permutation-invariant. -/
theorem sort_perm_invariant {α} (key : α → Nat) (l₁ l₂ : List α)
    (hp : l₁.Perm l₂) (hk : (l₁.map key).Nodup) : sortByKey key l₁ = sortByKey key l₂ :=
  sortByKey_perm_invariant key l₁ l₂ hp hk

/-- the order in which MapList.__init__ parses the items is the same for every permutation of a
    map list with pairwise distinct types (any rank table that is injective, e.g. `loadOrder`). -/
theorem order_entries_perm_invariant (order : List (Nat × Nat))
    (hinj : ∀ a ∈ order, ∀ b ∈ order, a.2 = b.2 → a.1 = b.1)
    (es₁ es₂ : List MapEntry) (hp : es₁.Perm es₂) (hd : (es₁.map (·.type)).Nodup) :
    orderEntries order es₁ = orderEntries order es₂ := by
  unfold orderEntries
  rw [all_perm _ es₁ es₂ hp]
  split
  · rename_i hall
    rw [← all_perm _ es₁ es₂ hp] at hall
    congr 1
    apply sortByKey_perm_invariant _ _ _ hp
    rw [List.Nodup, List.pairwise_map]
    rw [List.Nodup, List.pairwise_map] at hd
    refine List.Pairwise.imp_of_mem ?_ hd
    intro a b ha hb hne heq
    simp only [List.all_eq_true] at hall
    have h1 := hall a ha
    have h2 := hall b hb
    cases ha' : rank order a.type with
    | none => simp [ha'] at h1
    | some ra =>
      cases hb' : rank order b.type with
      | none => simp [hb'] at h2
      | some rb =>
        simp only [ha', hb', Option.getD_some] at heq
        subst heq
        exact hne (hinj _ (rank_some_mem _ _ _ ha') _ (rank_some_mem _ _ _ hb') rfl)
  · rfl

/-- C07 in the model: for every item parser `step` (in particular the file-level parser of C05,
    AgVerif.DexFile.step), every initial ClassManager state and every two map lists that are
    permutations of each other with pairwise distinct types, MapList.__init__ ends in the same
    state (or raises the same error). -/
theorem maplist_perm_invariant {σ ε} (keyErr : ε) (step : σ → MapEntry → Except ε σ) (init : σ)
    (es₁ es₂ : List MapEntry) (hp : es₁.Perm es₂) (hd : (es₁.map (·.type)).Nodup) :
    loadWith loadOrder keyErr step init es₁ = loadWith loadOrder keyErr step init es₂ := by
  unfold loadWith
  rw [order_entries_perm_invariant loadOrder order_injective es₁ es₂ hp hd]

/-- … and that common order is the load order: in the list that is parsed, every item whose type
    is a declared dependency of another item's type comes strictly earlier. -/
theorem parsed_in_dependency_order (es ordered : List MapEntry)
    (h : orderEntries loadOrder es = some ordered) :
    ordered.Perm es ∧
    ordered.Pairwise (fun a b => (rank loadOrder a.type).getD 0 ≤ (rank loadOrder b.type).getD 0) := by
  unfold orderEntries at h
  split at h
  · simp only [Option.some.injEq] at h
    subst h
    exact ⟨sortByKey_perm _ _, sortByKey_sorted _ _⟩
  · simp at h

/-! Non-vacuity: a real map list (12 entries of a generated file), reversed, has distinct types
    and is parsed in the same order; and Kahn reports a cyclic table instead of looping. -/
def exampleMap : List MapEntry :=
  [⟨0, 1, 0⟩, ⟨1, 17, 112⟩, ⟨2, 9, 180⟩, ⟨3, 2, 216⟩, ⟨4, 3, 240⟩, ⟨5, 3, 264⟩, ⟨6, 1, 288⟩,
   ⟨0x1001, 2, 320⟩, ⟨0x2002, 17, 334⟩, ⟨0x2001, 2, 444⟩, ⟨0x2000, 1, 484⟩, ⟨0x1000, 1, 508⟩]

example : (exampleMap.map (·.type)).Nodup ∧ exampleMap.reverse.Perm exampleMap :=
  ⟨by decide, List.reverse_perm _⟩
example : (orderEntries loadOrder exampleMap.reverse).map (·.map (·.type)) =
    some [0, 0x1000, 0x2002, 1, 2, 4, 0x1001, 3, 5, 0x2000, 0x2001, 6] := by decide +kernel
example : orderEntries loadOrder exampleMap.reverse = orderEntries loadOrder exampleMap := by
  decide +kernel
example : kahn [(1, [2]), (2, [1])] = .recursive := by decide
example : kahn [(1, [2]), (2, [])] = .ok [(2, 0), (1, 1)] := by decide
example : sortByKey (fun p : Nat × Nat => p.1) [(2, 0), (1, 1), (2, 2), (1, 3)] =
    [(1, 1), (1, 3), (2, 0), (2, 2)] := by decide   -- stable

/-- non-vacuity: header (map_off = 0x44), one string "A" at 0x38, its string id at 0x3C, one type id
    at 0x40, map list (4 entries) at 0x44 -/
def exampleFile : DexFile.Bytes :=
  [0, 0, 0, 0, 0, 0, 0, 0, 0, 0, 0, 0, 0, 0, 0, 0, 0, 0, 0, 0, 0, 0, 0, 0, 0, 0, 0, 0, 0, 0, 0, 0, 0, 0, 0, 0, 0, 0, 0, 0, 0, 0, 0, 0, 0, 0, 0, 0, 0, 0, 0, 0,
   68, 0, 0, 0, 1, 65, 0, 0, 56, 0, 0, 0, 0, 0, 0, 0, 4, 0, 0, 0,
   1, 0, 0, 0, 1, 0, 0, 0, 60, 0, 0, 0, 2, 0, 0, 0, 1, 0, 0, 0, 64, 0, 0, 0,
   2, 32, 0, 0, 1, 0, 0, 0, 56, 0, 0, 0, 0, 16, 0, 0, 1, 0, 0, 0, 68, 0, 0, 0]

def exampleFileMap : List MapEntry := [⟨1, 1, 0x3C⟩, ⟨2, 1, 0x40⟩, ⟨0x2002, 1, 0x38⟩, ⟨0x1000, 1, 0x44⟩]

/-- header (map_off = 0x38) and a map list of two entries whose STRING_DATA entry points at the
    first map entry itself -/
def overlapFile : DexFile.Bytes :=
  [0, 0, 0, 0, 0, 0, 0, 0, 0, 0, 0, 0, 0, 0, 0, 0, 0, 0, 0, 0, 0, 0, 0, 0, 0, 0, 0, 0, 0, 0, 0, 0, 0, 0, 0, 0, 0, 0, 0, 0, 0, 0, 0, 0, 0, 0, 0, 0, 0, 0, 0, 0,
   56, 0, 0, 0, 2, 0, 0, 0, 2, 32, 0, 0, 1, 0, 0, 0, 60, 0, 0, 0, 0, 16, 0, 0, 1, 0, 0, 0, 56, 0, 0, 0]

/-! ## The concrete loader: `AgVerif.DexFile.step` / `parseDex` (the file-level model of C05)

Tables of the ClassManager are named by the map type that fills them (`DexFrame.sameTable`,
`agreeOn D cm₁ cm₂` = the two states hold the same tables for all types in `D`);
`closure deps T` = the types reachable from `T` in the dependency table of the source;
`reads T` = the tables the modelled item parser of `T` looks at; `FrameOK file e cm₁ cm₂` = the runs
of `step file · e` from `cm₁` and `cm₂` raise the same exception, or both succeed, write the same
table for `e.type` and leave every other table of their state as it was.
Map types without an item parser in Model/DexFile.lean (annotations, debug info, encoded arrays,
call sites, method handles, hidden-api data) leave the model state unchanged: for them the
dependency claims stay covered by the correspondence `dexperm` only. -/
open AgVerif.DexFile AgVerif.DexFrame AgVerif.DexPerm AgVerif.DexGeom

/-- (1) frame, against the table of the source: the item parser of every entry depends on the
    ClassManager only through the tables of the (transitively) declared dependencies of its type.
    This is the theorem that stops building when the table of the source drops a real dependency
    (`deps_adequate` fails, and by `frame_iff_deps_adequate` the statement itself becomes false). -/
theorem step_frame (file : Bytes) (e : MapEntry) (cm₁ cm₂ : CM)
    (h : agreeOn (closure deps e.type) cm₁ cm₂) : FrameOK file e cm₁ cm₂ :=
  step_frame_of_adequate deps deps_adequate.1 file e cm₁ cm₂ h

/-- (1') frame, sharp form: agreement on `reads e.type` is enough … -/
theorem step_frame_sharp (file : Bytes) (e : MapEntry) (cm₁ cm₂ : CM)
    (h : agreeOn (reads e.type) cm₁ cm₂) : FrameOK file e cm₁ cm₂ :=
  step_frame_reads file e cm₁ cm₂ h

/-- … and nothing in `reads` can be left out: for each pair there are two states that differ in
    that one table only and an item on which the parser's output (or failure) differs. -/
theorem reads_all_needed : ∀ T ∈ modelled, ∀ D ∈ reads T, ∃ file e cm₁ cm₂, e.type = T ∧
    (∀ t, t ≠ D → sameTable t cm₁ cm₂) ∧ ¬ FrameOK file e cm₁ cm₂ :=
  fun T hT D hD => ⟨witFile, ⟨T, 1, 0⟩, witCM, clear D witCM, rfl,
    fun t ht => clear_sameTable D t witCM ht, fun h => reads_exact T hT D hD h.writeSame⟩

/-- (3) the generated dependency table contains, up to transitivity, every (T, D) such that the
    modelled parser of T reads table D (and TYPE_ID → STRING_DATA, which the real TypeIdItem reads). -/
theorem deps_adequate : adequate deps ∧ 0x2002 ∈ closure deps 0x0002 := DexFrame.deps_adequate

/-- for ANY dependency table the frame property is equivalent to adequacy -/
theorem frame_iff_deps_adequate (d : Deps) :
    (∀ file e cm₁ cm₂, agreeOn (closure d e.type) cm₁ cm₂ → FrameOK file e cm₁ cm₂) ↔ adequate d :=
  frame_iff_adequate d

/-- refutation for mutated tables (`refDeps` = a fixed copy of today's table, adequate): without
    CLASS_DEF → CLASS_DATA (or STRING_ID → STRING_DATA, TYPE_ID → STRING_ID, METHOD_ID → PROTO_ID,
    PROTO_ID → TYPE_LIST) the frame property is false … -/
theorem deps_mutants_refuted :
    adequate refDeps ∧
    ∀ p ∈ [(0x0006, 0x2000), (0x0001, 0x2002), (0x0002, 0x0001), (0x0005, 0x0003), (0x0003, 0x1001)],
    ¬ ∀ file e cm₁ cm₂, agreeOn (closure (dropDep refDeps p.1 p.2) e.type) cm₁ cm₂ → FrameOK file e cm₁ cm₂ := by
  have h := deps_mutants_inadequate
  refine ⟨refDeps_adequate, ?_⟩
  intro p hp
  rw [frame_iff_adequate]
  simp only [List.mem_cons, List.not_mem_nil, or_false] at hp
  rcases hp with rfl | rfl | rfl | rfl | rfl
  · exact h.1
  · exact h.2.1
  · exact h.2.2.1
  · exact h.2.2.2.1
  · exact h.2.2.2.2

/-- … whereas (CLASS_DEF, TYPE_ID) is implied by CLASS_DEF → TYPE_LIST → TYPE_ID, and the direct
    entries alone (without transitivity) do not cover the reads. -/
theorem deps_transitivity_needed :
    adequate (dropDep refDeps 0x0006 0x0002) ∧ ¬ (∀ T ∈ modelled, ∀ D ∈ reads T, D ∈ direct refDeps T) :=
  ⟨deps_redundant_pair, deps_direct_not_enough⟩

/-- why the load order is the right one for the concrete loader: at the moment MapList.__init__ runs
    the item parser of an entry `e` (state `s`, reached after the entries `pre` sorted before it),
    the tables of all transitively declared dependencies of `e.type` are already what they are in
    the final state `fin` — no later item parser writes them — and therefore (frame) parsing the
    items of `e` against the final state would write the same table: every item is resolved
    against complete tables.  For every file, every map list (duplicate types allowed) and every
    initial state. -/
theorem deps_final_when_read (file : Bytes) (es pre post : List MapEntry) (e : MapEntry) (init s fin : CM)
    (hord : orderEntries loadOrder es = some (pre ++ e :: post))
    (hpre : foldSteps (step file) init pre = .ok s)
    (hfin : foldSteps (step file) init (pre ++ e :: post) = .ok fin) :
    agreeOn (closure deps e.type) s fin ∧ FrameOK file e s fin :=
  deps_final file es pre post e init s fin hord hpre hfin

/-- (2) C07 for the concrete loader model, file level.  `file` is any byte list whose header field
    map_off (at 0x34) points behind itself to a map list that reads as `es` with pairwise distinct
    types; `es'` is any permutation of `es`; `withMap file mapOff es'` is the file with the entries
    of the map list overwritten by `es'`.  If no item decodes differently after the overwriting
    (`sameItems`, a decidable comparison of the raw item decoders, entry by entry: it holds when no
    item is read from the bytes of the map list itself), then `parseDex` returns the same view — or
    the same error: a failing item decoder, a failing lookup and a KeyError in the load order are
    all covered. -/
theorem parse_perm_invariant (file : Bytes) (mapOff : Nat) (rest : Bytes) (es es' : List MapEntry)
    (hbytes : ∀ b ∈ file, b < 256)
    (hhdr : u32 (file.drop 0x34) = some (mapOff, rest)) (hoff : 0x34 ≤ mapOff)
    (hmap : readMap file mapOff = .ok es)
    (hperm : es'.Perm es) (hdistinct : (es.map (·.type)).Nodup)
    (hitems : ∀ e ∈ es, sameItems (withMap file mapOff es') file e) :
    parseDex (withMap file mapOff es') = parseDex file :=
  parse_withMap file mapOff rest es es' hbytes hhdr hoff hmap hperm
    (maplist_perm_invariant "KeyError" (step _) {} es' es hperm
      ((hperm.map (·.type)).nodup_iff.mpr hdistinct)) hitems

/-- the item decoders are local: if `g` has the length of `f`, the same first `a` bytes and the same
    bytes from `b` on, then every map entry that is `clearOf` the range [a, b) — its type has no item
    parser in the model, or its items start at or behind `b`, or they decode successfully in `f` from
    bytes below `a` (`itemsEnd`) — has the same raw items in both files. -/
theorem items_local (f g : Bytes) (a b : Nat) (hlen : g.length = f.length) (hpre : g.take a = f.take a)
    (hpost : ∀ o, b ≤ o → g.drop o = f.drop o) (e : MapEntry) (hc : clearOf f a b e) : sameItems g f e :=
  sameItems_of_clear f g a b hlen hpre hpost e hc

/-- (2), geometric form: `parse_perm_invariant` with the hypothesis about the items replaced by a
    decidable condition on the ORIGINAL file only: no entry reads its items from the bytes
    [map_off + 4, map_off + 4 + 12·n) that hold the n map entries. -/
theorem parse_perm_invariant_disjoint (file : Bytes) (mapOff : Nat) (rest : Bytes) (es es' : List MapEntry)
    (hbytes : ∀ b ∈ file, b < 256)
    (hhdr : u32 (file.drop 0x34) = some (mapOff, rest)) (hoff : 0x34 ≤ mapOff)
    (hmap : readMap file mapOff = .ok es)
    (hperm : es'.Perm es) (hdistinct : (es.map (·.type)).Nodup)
    (hclear : ∀ e ∈ es, clearOf file (mapOff + 4) (mapOff + 4 + 12 * es.length) e) :
    parseDex (withMap file mapOff es') = parseDex file :=
  parse_perm_invariant file mapOff rest es es' hbytes hhdr hoff hmap hperm hdistinct
    (sameItems_withMap file mapOff es es' hbytes hmap hperm hclear)

/-- the same for two arbitrary files: equal map_off, map lists that are permutations of each other
    (distinct types), same raw items ⇒ same parse result. -/
theorem parse_perm_invariant_files (f g : Bytes) (mapOff : Nat) (rf rg : Bytes) (es es' : List MapEntry)
    (hf : u32 (f.drop 0x34) = some (mapOff, rf)) (hg : u32 (g.drop 0x34) = some (mapOff, rg))
    (hmf : readMap f mapOff = .ok es) (hmg : readMap g mapOff = .ok es')
    (hperm : es'.Perm es) (hdistinct : (es.map (·.type)).Nodup)
    (hitems : ∀ e ∈ es, sameItems g f e) : parseDex g = parseDex f := by
  refine parseDex_congr f g mapOff rf rg es es' hf hg hmf hmg ?_
  rw [show loadEntries g es' = loadEntries g es from
    maplist_perm_invariant "KeyError" (step g) {} es' es hperm
      ((hperm.map (·.type)).nodup_iff.mpr hdistinct)]
  exact loadEntries_file_congr g f es hitems

/-- the hypothesis about the items cannot be dropped: a file whose string data item lies inside its
    own map list satisfies everything else, and swapping its two map entries changes the parsed
    string (0x20 becomes 0x10). -/
theorem parse_perm_needs_items : ∃ (file : Bytes) (mapOff : Nat) (rest : Bytes) (es es' : List MapEntry),
    (∀ b ∈ file, b < 256) ∧ u32 (file.drop 0x34) = some (mapOff, rest) ∧ 0x34 ≤ mapOff ∧
    readMap file mapOff = .ok es ∧ es'.Perm es ∧ (es.map (·.type)).Nodup ∧
    parseDex file = .ok ⟨[[0x20]], []⟩ ∧ parseDex (withMap file mapOff es') = .ok ⟨[[0x10]], []⟩ :=
  ⟨overlapFile, 0x38, overlapFile.drop 0x38, [⟨0x2002, 1, 0x3C⟩, ⟨0x1000, 1, 0x38⟩],
    [⟨0x1000, 1, 0x38⟩, ⟨0x2002, 1, 0x3C⟩], by decide +kernel, by decide +kernel, by decide,
    by decide +kernel, List.Perm.swap _ _ _, by decide, by decide +kernel, by decide +kernel⟩

/-! ## The extended loader: `AgVerif.DexFile.stepX` (Model/DexFileX.lean)

The item parsers of ENCODED_ARRAY_ITEM, ANNOTATION_ITEM (EncodedValue's eager lookups of strings, types,
fields and methods), ANNOTATION_SET_ITEM, ANNOTATION_SET_REF_LIST, ANNOTATIONS_DIRECTORY_ITEM (offsets
are only stored) and the whole ClassDefItem.reload (annotations directory, static values,
set_static_fields).  `sameTableX` / `agreeOnX` / `FrameOKX` / `readsX` extend the vocabulary above to the
five new tables (the CLASS_DEF parser also owns the per-class extension and the record of
set_static_fields calls). -/

/-- frame for the extended item parsers, sharp form: `stepX file · e` depends on the ClassManager only
    through the tables in `readsX e.type` (for an encoded array or annotation item: string ids, string
    data, type ids, field ids, method ids; for a class def additionally the annotations directories and
    the encoded arrays), fails alike or writes the same table, and leaves all other tables alone -/
theorem stepX_frame_sharp (file : Bytes) (e : MapEntry) (cx₁ cx₂ : CMx)
    (h : agreeOnX (readsX e.type) cx₁ cx₂) : FrameOKX file e cx₁ cx₂ :=
  stepX_frame_reads file e cx₁ cx₂ h

/-- what the extended item parsers read is covered, up to transitivity, by the dependency table of
    the source: ENCODED_ARRAY_ITEM and ANNOTATION_ITEM → STRING_ID, STRING_DATA, TYPE_ID, FIELD_ID,
    METHOD_ID; CLASS_DEF → … , ENCODED_ARRAY_ITEM, ANNOTATIONS_DIRECTORY_ITEM.  The theorem stops
    building when the table of the source drops one of them. -/
theorem depsX_adequate : adequateX deps := readsX_adequate

/-- frame against the table of the source, extended loader -/
theorem stepX_frame (file : Bytes) (e : MapEntry) (cx₁ cx₂ : CMx)
    (h : agreeOnX (closure deps e.type) cx₁ cx₂) : FrameOKX file e cx₁ cx₂ :=
  stepX_frame_of_adequate deps readsX_adequate file e cx₁ cx₂ h

/-- C07 for the extended loader: MapList.__init__ with the extended item parsers ends in the same
    state (or raises the same error) for every two map lists that are permutations of each other with
    pairwise distinct types -/
theorem maplistX_perm_invariant (file : Bytes) (es₁ es₂ : List MapEntry) (hp : es₁.Perm es₂)
    (hd : (es₁.map (·.type)).Nodup) : loadEntriesX file es₁ = loadEntriesX file es₂ :=
  maplist_perm_invariant "KeyError" (stepX file) {} es₁ es₂ hp hd

/-- why the load order is right for the extended item parsers too: when MapList.__init__ runs the
    parser of an entry (e.g. the encoded arrays, whose values are resolved eagerly), the tables of all
    transitively declared dependencies of its type are already final, and parsing it against the final
    state writes the same table.  For every file, map list (duplicate types allowed) and initial state. -/
theorem depsX_final_when_read (file : Bytes) (es pre post : List MapEntry) (e : MapEntry) (init s fin : CMx)
    (hord : orderEntries loadOrder es = some (pre ++ e :: post))
    (hpre : foldSteps (stepX file) init pre = .ok s)
    (hfin : foldSteps (stepX file) init (pre ++ e :: post) = .ok fin) :
    agreeOnX (closure deps e.type) s fin ∧ FrameOKX file e s fin :=
  depsX_final file es pre post e init s fin hord hpre hfin

/-- C07 for the extended loader, file level: two files with the same map_off whose map lists are
    permutations of each other (distinct types) and whose raw items are the same (`sameItemsX`: every
    extended item decoder gives the same result in both files — for the two sections with encoded
    values, whatever the ClassManager lookups return) give the same `parseDexX` result: the same
    extended view (classes, members, static values, init values, annotations) or the same error. -/
theorem parseDexX_perm_invariant_files (f g : Bytes) (mapOff : Nat) (rf rg : Bytes) (es es' : List MapEntry)
    (hf : u32 (f.drop 0x34) = some (mapOff, rf)) (hg : u32 (g.drop 0x34) = some (mapOff, rg))
    (hmf : readMap f mapOff = .ok es) (hmg : readMap g mapOff = .ok es')
    (hperm : es'.Perm es) (hdistinct : (es.map (·.type)).Nodup)
    (hitems : ∀ e ∈ es, sameItemsX g f e) : parseDexX g = parseDexX f := by
  refine parseDexX_congr f g mapOff rf rg es es' hf hg hmf hmg ?_
  rw [show loadEntriesX g es' = loadEntriesX g es from
    maplistX_perm_invariant g es' es hperm ((hperm.map (·.type)).nodup_iff.mpr hdistinct)]
  exact loadEntriesX_file_congr g f es hitems

example : readsX 0x2005 = [0x0001, 0x2002, 0x0002, 0x0004, 0x0005] ∧ 0x2005 ∈ readsX 0x0006 ∧ 0x2006 ∈ readsX 0x0006 ∧
    (∀ D ∈ readsX 0x2005, D ∈ closure deps 0x2005) := by decide +kernel

/-! Non-vacuity for the concrete loader: `exampleFile` with its map list reversed satisfies every
    hypothesis of `parse_perm_invariant`, is a different file, and parses to one string and no class;
    two states that agree on the declared dependencies of METHOD_ID but not elsewhere. -/
example : (∀ b ∈ exampleFile, b < 256) ∧ u32 (exampleFile.drop 0x34) = some (0x44, exampleFile.drop 0x38) ∧
    readMap exampleFile 0x44 = .ok exampleFileMap ∧ (exampleFileMap.map (·.type)).Nodup ∧
    (∀ e ∈ exampleFileMap, sameItems (withMap exampleFile 0x44 exampleFileMap.reverse) exampleFile e) ∧
    withMap exampleFile 0x44 exampleFileMap.reverse ≠ exampleFile ∧
    parseDex exampleFile = .ok ⟨[[0x41]], []⟩ := by decide +kernel
example : (∀ e ∈ exampleFileMap, clearOf exampleFile (0x44 + 4) (0x44 + 4 + 12 * exampleFileMap.length) e) ∧
    ¬ clearOf overlapFile (0x38 + 4) (0x38 + 4 + 12 * 2) ⟨0x2002, 1, 0x3C⟩ := by decide +kernel
example : orderEntries loadOrder [⟨2, 1, 0x40⟩, ⟨1, 1, 0x3C⟩, ⟨0x2002, 1, 0x38⟩] =
      some ([⟨0x2002, 1, 0x38⟩, ⟨1, 1, 0x3C⟩] ++ ⟨2, 1, 0x40⟩ :: []) ∧
    foldSteps (step exampleFile) {} [⟨0x2002, 1, 0x38⟩, ⟨1, 1, 0x3C⟩] =
      .ok { strData := some [(0x38, [0x41])], stringIds := some [0x38] } ∧
    foldSteps (step exampleFile) {} ([⟨0x2002, 1, 0x38⟩, ⟨1, 1, 0x3C⟩] ++ ⟨2, 1, 0x40⟩ :: []) =
      .ok { strData := some [(0x38, [0x41])], stringIds := some [0x38], typeIds := some [0] } := by
  decide +kernel
example : agreeOn (closure deps 0x0005) witCM (clear 0x2000 witCM) ∧ witCM ≠ clear 0x2000 witCM := by
  decide +kernel

end AgVerif.C07
