/-
C07 — DEX parsing does not depend on the order of the map list.
Property theorems only (lemmas: AgVerif/Proof/LoadOrder.lean).

Model: AgVerif.LoadOrder (`kahn` = TypeMapItem.determine_load_order, `sortByKey` = Python's stable
`sorted(key=…)`, `loadWith` = the loop of MapList.__init__ over an arbitrary item parser).
Generated: AgVerif.Gen.MapDeps (`members`, `deps` by AST; `loadOrder` = what the real
determine_load_order() returned on this run).

What is proved: the ordering logic, for every map list and EVERY item parser `step`.
What is not proved here: that the real `parse` of each item type reads only what its declared
dependencies provide and nothing from the map_list region of the file — the dependency table is
the code's own claim; it is validated by the correspondence `dexperm` of harness/props/c07.py.
-/
import AgVerif.Proof.LoadOrder
import AgVerif.Gen.MapDeps
namespace AgVerif.C07
open AgVerif.LoadOrder AgVerif.Gen.MapDeps

/-- Kahn's loop on the dependency table of the source terminates without
    'recursive loading dependency', returns exactly the dict the real function returned on this
    run, and numbers every member of TypeMapItem (so `load_order[mi.get_type()]` has no KeyError). -/
theorem kahn_total :
    kahn deps = .ok loadOrder ∧ loadOrderError = false ∧
    ∀ m ∈ members, (rank loadOrder m.2).isSome = true := by
  decide +kernel

/-- general: the loop needs at most one iteration per key (for every table, cyclic or not). -/
theorem kahn_fuel_sufficient (d : Deps) : kahn d ≠ .outOfFuel :=
  kahnLoop_fuel d.length d [] (Nat.le_refl _)

/-- the table is closed (every dependency is itself a key), its keys are exactly the members of
    TypeMapItem, once each. -/
theorem deps_closed :
    (∀ e ∈ deps, ∀ d ∈ e.2, d ∈ deps.map (·.1)) ∧ deps.map (·.1) = members.map (·.2) ∧
    (deps.map (·.1)).Nodup := by
  decide +kernel

/-- every declared dependency of a type is loaded strictly before the type. -/
theorem load_order_topological :
    ∀ e ∈ deps, ∀ d ∈ e.2, ∃ rd rt, rank loadOrder d = some rd ∧ rank loadOrder e.1 = some rt ∧ rd < rt := by
  have h : ∀ e ∈ deps, ∀ d ∈ e.2,
      (match rank loadOrder d, rank loadOrder e.1 with
        | some rd, some rt => decide (rd < rt)
        | _, _ => false) = true := by decide +kernel
  intro e he d hd
  have := h e he d hd
  split at this
  · rename_i rd rt h1 h2
    exact ⟨rd, rt, h1, h2, by simpa using this⟩
  · simp at this

/-- two different types never get the same rank. -/
theorem order_injective :
    ∀ a ∈ loadOrder, ∀ b ∈ loadOrder, a.2 = b.2 → a.1 = b.1 := by
  decide +kernel

/-- the stable sort returns a sorted permutation of its input (any list, any key). -/
theorem sort_sorted_perm {α} (key : α → Nat) (l : List α) :
    (sortByKey key l).Perm l ∧ (sortByKey key l).Pairwise (fun a b => key a ≤ key b) :=
  ⟨sortByKey_perm key l, sortByKey_sorted key l⟩

/-- a stable sort by a key that is injective on the list is permutation-invariant. -/
theorem sort_perm_invariant {α} (key : α → Nat) (l₁ l₂ : List α)
    (hp : l₁.Perm l₂) (hk : (l₁.map key).Nodup) : sortByKey key l₁ = sortByKey key l₂ :=
  sortByKey_perm_invariant key l₁ l₂ hp hk

/-- the order in which MapList.__init__ parses the items is the same for every permutation of a
    map list with pairwise distinct types (any rank table that is injective, e.g. `loadOrder`). -/
theorem order_entries_perm_invariant (order : List (Nat × Nat))
    (hinj : ∀ a ∈ order, ∀ b ∈ order, a.2 = b.2 → a.1 = b.1)
    (es₁ es₂ : List MapEntry) (hp : es₁.Perm es₂) (hd : (es₁.map (·.type)).Nodup) :
    orderEntries order es₁ = orderEntries order es₂ := by
  unfold orderEntries
  rw [all_perm _ es₁ es₂ hp]
  split
  · rename_i hall
    rw [← all_perm _ es₁ es₂ hp] at hall
    congr 1
    apply sortByKey_perm_invariant _ _ _ hp
    rw [List.Nodup, List.pairwise_map]
    rw [List.Nodup, List.pairwise_map] at hd
    refine List.Pairwise.imp_of_mem ?_ hd
    intro a b ha hb hne heq
    simp only [List.all_eq_true] at hall
    have h1 := hall a ha
    have h2 := hall b hb
    cases ha' : rank order a.type with
    | none => simp [ha'] at h1
    | some ra =>
      cases hb' : rank order b.type with
      | none => simp [hb'] at h2
      | some rb =>
        simp only [ha', hb', Option.getD_some] at heq
        subst heq
        exact hne (hinj _ (rank_some_mem _ _ _ ha') _ (rank_some_mem _ _ _ hb') rfl)
  · rfl

/-- C07 in the model: for every item parser `step` (in particular the file-level parser of C05,
    AgVerif.DexFile.step), every initial ClassManager state and every two map lists that are
    permutations of each other with pairwise distinct types, MapList.__init__ ends in the same
    state (or raises the same error). -/
theorem maplist_perm_invariant {σ ε} (keyErr : ε) (step : σ → MapEntry → Except ε σ) (init : σ)
    (es₁ es₂ : List MapEntry) (hp : es₁.Perm es₂) (hd : (es₁.map (·.type)).Nodup) :
    loadWith loadOrder keyErr step init es₁ = loadWith loadOrder keyErr step init es₂ := by
  unfold loadWith
  rw [order_entries_perm_invariant loadOrder order_injective es₁ es₂ hp hd]

/-- … and that common order is the load order: in the list that is parsed, every item whose type
    is a declared dependency of another item's type comes strictly earlier. -/
theorem parsed_in_dependency_order (es ordered : List MapEntry)
    (h : orderEntries loadOrder es = some ordered) :
    ordered.Perm es ∧
    ordered.Pairwise (fun a b => (rank loadOrder a.type).getD 0 ≤ (rank loadOrder b.type).getD 0) := by
  unfold orderEntries at h
  split at h
  · simp only [Option.some.injEq] at h
    subst h
    exact ⟨sortByKey_perm _ _, sortByKey_sorted _ _⟩
  · simp at h

/-! Non-vacuity: a real map list (12 entries of a generated file), reversed, has distinct types
    and is parsed in the same order; and Kahn reports a cyclic table instead of looping. -/
def exampleMap : List MapEntry :=
  [⟨0, 1, 0⟩, ⟨1, 17, 112⟩, ⟨2, 9, 180⟩, ⟨3, 2, 216⟩, ⟨4, 3, 240⟩, ⟨5, 3, 264⟩, ⟨6, 1, 288⟩,
   ⟨0x1001, 2, 320⟩, ⟨0x2002, 17, 334⟩, ⟨0x2001, 2, 444⟩, ⟨0x2000, 1, 484⟩, ⟨0x1000, 1, 508⟩]

example : (exampleMap.map (·.type)).Nodup ∧ exampleMap.reverse.Perm exampleMap :=
  ⟨by decide, List.reverse_perm _⟩
example : (orderEntries loadOrder exampleMap.reverse).map (·.map (·.type)) =
    some [0, 0x1000, 0x2002, 1, 2, 4, 0x1001, 3, 5, 0x2000, 0x2001, 6] := by decide +kernel
example : orderEntries loadOrder exampleMap.reverse = orderEntries loadOrder exampleMap := by
  decide +kernel
example : kahn [(1, [2]), (2, [1])] = .recursive := by decide
example : kahn [(1, [2]), (2, [])] = .ok [(2, 0), (1, 1)] := by decide
example : sortByKey (fun p : Nat × Nat => p.1) [(2, 0), (1, 1), (2, 2), (1, 3)] =
    [(1, 1), (1, 3), (2, 0), (2, 2)] := by decide   -- stable

end AgVerif.C07
