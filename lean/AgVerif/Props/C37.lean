import AgVerif.Model.Paths
import AgVerif.Proof.PathsNorm
import AgVerif.Proof.PathsClean
/-!
C37 — decompile output stays inside the output directory.  Model: `AgVerif.Paths.classDir`,
`javaFile`, `methodBase` (the three kinds of path `export_apps_to_format` creates, FIXED code of
fixes/C37-decompile-output-containment.diff) over the model of posixpath and of clean_file_name.

`Inside out p`: the path `p`, normalised as `os.path.normpath` does, has the same kind of root as
`out` and the normalised components of `out` as a prefix of its components; `StrictlyInside` also
excludes `out` itself.  The theorems hold for EVERY output path (relative, absolute, with `..`),
class name, method short string, file-system state `isfile` and loop budget.
-/
namespace AgVerif.C37
open AgVerif.Paths

/-- what the hand-written model was derived from -/
theorem gen_pins :
    Gen.Paths.exportPatterns = [("[/\\\\]", "_")] ∧
    Gen.Paths.droppedSegments = [[], ['.'], ['.', '.']] ∧
    Gen.Paths.javaSuffix = ".java".toList ∧ Gen.Paths.agSuffix = ".ag".toList :=
  ⟨rfl, by decide, by decide, by decide⟩

/-- the folder of a class lies inside the output directory (it is the directory itself for `L;`) -/
theorem class_dir_inside (out cls d : List Char) (h : classDir out cls = some d) : Inside out d :=
  AgVerif.Paths.class_dir_inside out cls d h

/-- the `.java` file of a class lies strictly inside the output directory -/
theorem java_file_inside (out cls j : List Char) (h : javaFile out cls = some j) : StrictlyInside out j :=
  AgVerif.Paths.java_file_inside out cls j h

/-- every method file `<cleaned name>.<ext>` (`.ag`, `.png`, `.jpg`, `.raw` …) lies strictly inside -/
theorem method_file_inside (isfile : Path → Bool) (fuel : Nat) (out cls short b ext : List Char)
    (hext : ext ≠ [] ∧ sep ∉ ext ∧ '.' ∉ ext)
    (h : methodBase isfile fuel out cls short = some (.ok b)) :
    StrictlyInside out (b ++ '.' :: ext) := by
  unfold methodBase at h
  cases hd : classDir out cls with
  | none => simp [hd] at h
  | some d =>
    simp [hd] at h
    obtain ⟨_, f, hb, hc, _⟩ := AgVerif.PathsClean.cleanFileName_ok _ _ _ _ _ _ h
    rw [hb]
    exact method_target_inside_classDir out cls d short f ext hd
      (AgVerif.PathsClean.sep_not_mem_of_clean f hc) hext

/-- C37 in one statement: whatever the class name and the method's short string are, the folder, the
    `.java` file and the method files the export creates are inside the output directory -/
theorem outputs_inside (isfile : Path → Bool) (fuel : Nat) (out cls short : List Char) :
    (∀ d, classDir out cls = some d → Inside out d) ∧
    (∀ j, javaFile out cls = some j → StrictlyInside out j) ∧
    (∀ b ext, ext ≠ [] ∧ sep ∉ ext ∧ '.' ∉ ext → methodBase isfile fuel out cls short = some (.ok b) →
      StrictlyInside out (b ++ '.' :: ext)) :=
  ⟨fun d h => class_dir_inside out cls d h, fun j h => java_file_inside out cls j h,
   fun b ext hext h => method_file_inside isfile fuel out cls short b ext hext h⟩

/-- the same on strings: `normpath(out) + "/"` is a proper prefix of the normalised path of every
    created file, and `normpath(out)` a prefix of the normalised class folder (output directory with
    at least one component after normalisation, e.g. any absolute directory other than the root) -/
theorem outputs_inside_normpath (isfile : Path → Bool) (fuel : Nat) (out cls short : List Char)
    (hout : normComps out ≠ []) :
    (∀ d, classDir out cls = some d → initialSlashes out ≠ 0 → normpath out <+: normpath d) ∧
    (∀ j, javaFile out cls = some j → normpath out ++ [sep] <+: normpath j) ∧
    (∀ b ext, ext ≠ [] ∧ sep ∉ ext ∧ '.' ∉ ext → methodBase isfile fuel out cls short = some (.ok b) →
      normpath out ++ [sep] <+: normpath (b ++ '.' :: ext)) :=
  ⟨fun d h habs => normpath_prefix_of_inside out d habs (class_dir_inside out cls d h),
   fun j h => normpath_sep_prefix_of_strictlyInside out j hout (java_file_inside out cls j h),
   fun b ext hext h => normpath_sep_prefix_of_strictlyInside out _ hout
     (method_file_inside isfile fuel out cls short b ext hext h)⟩

/-- the class-name part alone: only real path components survive -/
theorem valid_class_name_safe (cn v : List Char) (h : validClassName cn = some v) :
    ∃ cs, (∀ c ∈ cs, SafeComp c) ∧ v = join [] cs :=
  validClassName_safe cn v h

/-! non-vacuity: hostile names through the model (D20 and the method-name variant) -/

example : classDir "/t/out".toList "L../../x;".toList = some "/t/out/x".toList := by decide
example : javaFile "/t/out".toList "L../../x;".toList = some "/t/out/x.java".toList := by decide
example : classDir "/t/out".toList "L/etc//./passwd/;".toList = some "/t/out/etc/passwd".toList := by decide
example : classDir "out".toList "L;".toList = some "out/".toList ∧ validClassName [] = none := by decide
example : methodBase (fun _ => false) 2 "/t/out".toList "Lp/Cls;".toList "Cls /../../../../../y ()V".toList =
    some (.ok "/t/out/p/Cls/Cls _.._.._.._.._.._y ()V".toList) := by decide
example : normpath "/t/out/../../x".toList = "/x".toList ∧ normComps "/t/out".toList = ["t".toList, "out".toList] := by
  decide

end AgVerif.C37
