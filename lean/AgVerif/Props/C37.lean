import AgVerif.Model.Paths
import AgVerif.Proof.PathsNorm
import AgVerif.Proof.PathsBelow
import AgVerif.Proof.PathsClean
/-!
C37 — decompile output stays inside the output directory.  Model: `AgVerif.Paths.classDir`,
`javaFile`, `methodBase` (the three kinds of path `export_apps_to_format` creates, FIXED code of
fixes/C37-decompile-output-containment.diff) over the model of posixpath and of clean_file_name.

`Inside out p`: the path `p`, normalised as `os.path.normpath` does, has the same kind of root as
`out` and the normalised components of `out` as a prefix of its components; `StrictlyInside` also
excludes `out` itself.  `Inside` is a PREFIX test and says nothing when `out` normalises to no component
(".", "", "a/.."); the statement of record is therefore the strong form `outputs_below` further down
(`Below`: components of `out` followed by real components only).  The theorems hold for EVERY output path (relative, absolute, with `..`),
class name, method short string, file-system state `isfile` and loop budget.
-/
namespace AgVerif.C37
open AgVerif.Paths

/-- what the hand-written model was derived from -/
theorem gen_pins :
    Gen.Paths.exportPatterns = [("[/\\\\]", "_")] ∧
    Gen.Paths.droppedSegments = [[], ['.'], ['.', '.']] ∧
    Gen.Paths.javaSuffix = ".java".toList ∧ Gen.Paths.agSuffix = ".ag".toList :=
  ⟨rfl, by decide, by decide, by decide⟩

/-- the folder of a class lies inside the output directory (it is the directory itself for `L;`) -/
theorem class_dir_inside (out cls d : List Char) (h : classDir out cls = some d) : Inside out d :=
  AgVerif.Paths.class_dir_inside out cls d h

/-- the `.java` file of a class lies strictly inside the output directory -/
theorem java_file_inside (out cls j : List Char) (h : javaFile out cls = some j) : StrictlyInside out j :=
  AgVerif.Paths.java_file_inside out cls j h

/-- every method file `<cleaned name>.<ext>` (`.ag`, `.png`, `.jpg`, `.raw` …) lies strictly inside -/
theorem method_file_inside (isfile : Path → Bool) (fuel : Nat) (out cls short b ext : List Char)
    (hext : ext ≠ [] ∧ sep ∉ ext ∧ '.' ∉ ext)
    (h : methodBase isfile fuel out cls short = some (.ok b)) :
    StrictlyInside out (b ++ '.' :: ext) := by
  unfold methodBase at h
  cases hd : classDir out cls with
  | none => simp [hd] at h
  | some d =>
    simp [hd] at h
    obtain ⟨_, f, hb, hc, _⟩ := AgVerif.PathsClean.cleanFileName_ok _ _ _ _ _ _ h
    rw [hb]
    exact method_target_inside_classDir out cls d short f ext hd
      (AgVerif.PathsClean.sep_not_mem_of_clean f hc) hext

/-- C37 in one statement: whatever the class name and the method's short string are, the folder, the
    `.java` file and the method files the export creates are inside the output directory -/
theorem outputs_inside (isfile : Path → Bool) (fuel : Nat) (out cls short : List Char) :
    (∀ d, classDir out cls = some d → Inside out d) ∧
    (∀ j, javaFile out cls = some j → StrictlyInside out j) ∧
    (∀ b ext, ext ≠ [] ∧ sep ∉ ext ∧ '.' ∉ ext → methodBase isfile fuel out cls short = some (.ok b) →
      StrictlyInside out (b ++ '.' :: ext)) :=
  ⟨fun d h => class_dir_inside out cls d h, fun j h => java_file_inside out cls j h,
   fun b ext hext h => method_file_inside isfile fuel out cls short b ext hext h⟩

/-- the same on strings: `normpath(out) + "/"` is a proper prefix of the normalised path of every
    created file, and `normpath(out)` a prefix of the normalised class folder (output directory with
    at least one component after normalisation, e.g. any absolute directory other than the root) -/
theorem outputs_inside_normpath (isfile : Path → Bool) (fuel : Nat) (out cls short : List Char)
    (hout : normComps out ≠ []) :
    (∀ d, classDir out cls = some d → initialSlashes out ≠ 0 → normpath out <+: normpath d) ∧
    (∀ j, javaFile out cls = some j → normpath out ++ [sep] <+: normpath j) ∧
    (∀ b ext, ext ≠ [] ∧ sep ∉ ext ∧ '.' ∉ ext → methodBase isfile fuel out cls short = some (.ok b) →
      normpath out ++ [sep] <+: normpath (b ++ '.' :: ext)) :=
  ⟨fun d h habs => normpath_prefix_of_inside out d habs (class_dir_inside out cls d h),
   fun j h => normpath_sep_prefix_of_strictlyInside out j hout (java_file_inside out cls j h),
   fun b ext hext h => normpath_sep_prefix_of_strictlyInside out _ hout
     (method_file_inside isfile fuel out cls short b ext hext h)⟩

/-! ### the strong form (audit follow-up)

`Inside out p` is a prefix test; when the output directory normalises to NO component (`-o .`, `""`,
`a/..`) the empty list is a prefix of everything and `Inside "." "../x"` holds (`inside_is_weak_for_dot`).
`Below out p` closes that hole: the normalised components of `p` are exactly those of `out` followed by
real components (non-empty, no '/', not "." and not ".."), so no `..` can follow the output directory,
whatever it is. -/

/-- class folder: `normComps d = normComps out ++ cs`, every component of `cs` a real one -/
theorem class_dir_below (out cls d : List Char) (h : classDir out cls = some d) : Below out d :=
  AgVerif.Paths.class_dir_below out cls d h

/-- `.java` file: … and at least one such component -/
theorem java_file_below (out cls j : List Char) (h : javaFile out cls = some j) : StrictlyBelow out j :=
  AgVerif.Paths.java_file_below out cls j h

/-- method files -/
theorem method_file_below (isfile : Path → Bool) (fuel : Nat) (out cls short b ext : List Char)
    (hext : ext ≠ [] ∧ sep ∉ ext ∧ '.' ∉ ext)
    (h : methodBase isfile fuel out cls short = some (.ok b)) :
    StrictlyBelow out (b ++ '.' :: ext) := by
  unfold methodBase at h
  cases hd : classDir out cls with
  | none => simp [hd] at h
  | some d =>
    simp [hd] at h
    obtain ⟨_, f, hb, hc, _⟩ := AgVerif.PathsClean.cleanFileName_ok _ _ _ _ _ _ h
    rw [hb]
    exact method_target_below_classDir out cls d short f ext hd
      (AgVerif.PathsClean.sep_not_mem_of_clean f hc) hext

/-- C37, strong form, one statement: for EVERY output directory string — including ".", "" and
    "a/.." — the normalised path of everything the export creates is the normalised output directory
    followed only by real path components (never "..", ".", empty, never containing '/'), with the
    same root kind; files have at least one such component -/
theorem outputs_below (isfile : Path → Bool) (fuel : Nat) (out cls short : List Char) :
    (∀ d, classDir out cls = some d → Below out d) ∧
    (∀ j, javaFile out cls = some j → StrictlyBelow out j) ∧
    (∀ b ext, ext ≠ [] ∧ sep ∉ ext ∧ '.' ∉ ext → methodBase isfile fuel out cls short = some (.ok b) →
      StrictlyBelow out (b ++ '.' :: ext)) :=
  ⟨fun d h => class_dir_below out cls d h, fun j h => java_file_below out cls j h,
   fun b ext hext h => method_file_below isfile fuel out cls short b ext hext h⟩

/-- `Below` implies the prefix form, and pins down everything after the prefix -/
theorem below_spec (out p : Path) (h : Below out p) :
    Inside out p ∧ (∀ c ∈ (normComps p).drop (normComps out).length, SafeComp c) ∧
    (normComps out = [] → ∀ c ∈ normComps p, c ≠ dotdot ∧ c ≠ dot ∧ c ≠ [] ∧ sep ∉ c) :=
  ⟨h.inside, h.tail_safe, h.no_dotdot_of_empty⟩

/-- for `-o .` (or "" or "a/.."): no created path normalises to something containing a ".." component -/
theorem outputs_no_dotdot_when_out_is_dot (isfile : Path → Bool) (fuel : Nat) (out cls short : List Char)
    (hout : normComps out = []) :
    (∀ d, classDir out cls = some d → dotdot ∉ normComps d) ∧
    (∀ j, javaFile out cls = some j → dotdot ∉ normComps j) ∧
    (∀ b ext, ext ≠ [] ∧ sep ∉ ext ∧ '.' ∉ ext → methodBase isfile fuel out cls short = some (.ok b) →
      dotdot ∉ normComps (b ++ '.' :: ext)) := by
  refine ⟨fun d h hm => ?_, fun j h hm => ?_, fun b ext hext h hm => ?_⟩
  · exact ((class_dir_below out cls d h).no_dotdot_of_empty hout _ hm).1 rfl
  · exact ((java_file_below out cls j h).below.no_dotdot_of_empty hout _ hm).1 rfl
  · exact ((method_file_below isfile fuel out cls short b ext hext h).below.no_dotdot_of_empty hout _ hm).1 rfl

/-- the weakness the audit found in the prefix form, and that `Below` does not share it -/
theorem inside_is_weak_for_dot : Inside ".".toList "../x".toList ∧ ¬ Below ".".toList "../x".toList := by
  constructor
  · exact ⟨by decide, by decide⟩
  · rintro ⟨cs, hs, h, _⟩
    have e : normComps "../x".toList = ["..".toList, "x".toList] := by decide
    have e0 : normComps ".".toList = [] := by decide
    rw [e, e0, List.nil_append] at h
    have := hs "..".toList (by rw [← h]; simp)
    exact this.2.2.2 (by decide)

/-- the class-name part alone: only real path components survive -/
theorem valid_class_name_safe (cn v : List Char) (h : validClassName cn = some v) :
    ∃ cs, (∀ c ∈ cs, SafeComp c) ∧ v = join [] cs :=
  validClassName_safe cn v h

/-! non-vacuity: hostile names through the model (D20 and the method-name variant) -/

example : classDir "/t/out".toList "L../../x;".toList = some "/t/out/x".toList := by decide
example : javaFile "/t/out".toList "L../../x;".toList = some "/t/out/x.java".toList := by decide
example : classDir "/t/out".toList "L/etc//./passwd/;".toList = some "/t/out/etc/passwd".toList := by decide
example : classDir "out".toList "L;".toList = some "out/".toList ∧ validClassName [] = none := by decide
example : methodBase (fun _ => false) 2 "/t/out".toList "Lp/Cls;".toList "Cls /../../../../../y ()V".toList =
    some (.ok "/t/out/p/Cls/Cls _.._.._.._.._.._y ()V".toList) := by decide
-- output directory "." (normalises to no component): the hostile names stay below it, nothing is "..";
-- the witnesses of `Below`/`StrictlyBelow` are the components listed
example : classDir ".".toList "L../../x;".toList = some "./x".toList ∧
    normComps ".".toList = [] ∧ normComps "./x".toList = ["x".toList] := by decide
example : javaFile ".".toList "L../../x;".toList = some "./x.java".toList ∧
    normComps "./x.java".toList = ["x.java".toList] := by decide
example : methodBase (fun _ => false) 2 ".".toList "L../p/..;".toList "Cls /../../y ()V".toList =
    some (.ok "./p/Cls _.._.._y ()V".toList) ∧
    normComps "./p/Cls _.._.._y ()V.ag".toList = ["p".toList, "Cls _.._.._y ()V.ag".toList] := by decide
example : classDir "a/..".toList "L../x;".toList = some "a/../x".toList ∧ normComps "a/../x".toList = ["x".toList] := by
  decide
example : normpath "/t/out/../../x".toList = "/x".toList ∧ normComps "/t/out".toList = ["t".toList, "out".toList] := by
  decide

end AgVerif.C37
