/-
C24 — Type descriptors are rendered as the right Java type names.
Property theorems only (lemmas: AgVerif/Proof/TypeName.lean).

Models: AgVerif.TypeName.utilGetType (decompiler/util.get_type with fixes/C24-java-lang-prefix.diff) and
AgVerif.TypeName.dexGetType (core/dex get_type); every literal and both TYPE_DESCRIPTOR tables come from
AgVerif.Gen.TypeDesc, regenerated from the source on every run.
Spec: AgVerif.Spec.TypeName (DEX TypeDescriptor grammar with SimpleNameChar, Java names, `Denotes`).
`WFDesc d` is decidable: the specification's own descriptor reader accepts `d`.
All theorems quantify over every well-formed descriptor (any class name, any number of dimensions).
-/
import AgVerif.Proof.TypeName
namespace AgVerif.C24
open AgVerif.TypeName AgVerif.Spec.TypeName

/-- `WFDesc` is exactly the grammar: the descriptors accepted are the texts of well-formed types, and
    the reader returns that type. -/
theorem wf_desc_iff (d : List Char) : WFDesc d ↔ ∃ t : Ty, t.wf = true ∧ descOf t = d := by
  unfold WFDesc
  constructor
  · intro h
    obtain ⟨t, ht⟩ := Option.isSome_iff_exists.mp h
    exact ⟨t, parseDesc_sound d t ht⟩
  · rintro ⟨t, hw, rfl⟩
    rw [parseDesc_complete t hw]; rfl

/-- decompiler/util.get_type on a well-formed type: exactly the dotted name with only the `java.lang.`
    prefix of DIRECT java.lang members dropped, one `[]` per dimension. -/
theorem util_get_type_exact (t : Ty) (h : t.wf = true) :
    utilGetType (descOf t) none = .ok (canonicalName t) := by
  unfold utilGetType
  cases t with
  | void => exact util_void _ none
  | prim p => exact util_field (.prim p) rfl _ (by simp [Ty.dims])
  | cls segs => exact util_field (.cls segs) (by simpa [Ty.wf] using h) _ (by simp [Ty.dims])
  | arr t =>
    exact util_field (.arr t) (by simpa [Ty.wf] using h) _
      (Nat.lt_succ_of_lt (dims_lt_length (.arr t)))

/-- The property for the decompiler's renderer: every well-formed descriptor is rendered, without
    error, as a name that denotes its type. -/
theorem get_type_denotes (d : List Char) (h : WFDesc d) :
    ∃ t r, parseDesc d = some t ∧ utilGetType d none = .ok r ∧ Denotes r t := by
  obtain ⟨t, ht⟩ := Option.isSome_iff_exists.mp h
  obtain ⟨hw, hd⟩ := parseDesc_sound d t ht
  refine ⟨t, canonicalName t, ht, ?_, denotes_canonical t⟩
  rw [← hd]; exact util_get_type_exact t hw

/-- core/dex get_type (method information): every well-formed descriptor is rendered as the fully
    qualified Java name. -/
theorem dex_get_type_exact (t : Ty) (h : t.wf = true) : dexGetType (descOf t) none = .ok (javaName t) := by
  unfold dexGetType
  cases t with
  | void => exact dex_void _ none
  | prim p => exact dex_field (.prim p) rfl _ (by simp [Ty.dims])
  | cls segs => exact dex_field (.cls segs) (by simpa [Ty.wf] using h) _ (by simp [Ty.dims])
  | arr t =>
    exact dex_field (.arr t) (by simpa [Ty.wf] using h) _
      (Nat.lt_succ_of_lt (dims_lt_length (.arr t)))

theorem dex_get_type_denotes (d : List Char) (h : WFDesc d) :
    ∃ t r, parseDesc d = some t ∧ dexGetType d none = .ok r ∧ Denotes r t := by
  obtain ⟨t, ht⟩ := Option.isSome_iff_exists.mp h
  obtain ⟨hw, hd⟩ := parseDesc_sound d t ht
  refine ⟨t, javaName t, ht, ?_, Or.inl rfl⟩
  rw [← hd]; exact dex_get_type_exact t hw

/-- Only direct members of java.lang lose the package: a class that is not `java/lang/X` (sub-packages
    such as java/lang/reflect, look-alikes such as java/language or javax/…) keeps its full name. -/
theorem only_direct_members_shortened (segs : List (List Char)) (h : fullClassName segs = true)
    (hn : ¬ ∃ x, segs = ["java".toList, "lang".toList, x]) :
    utilGetType (descOf (.cls segs)) none = .ok (joinWith '.' segs) := by
  rw [util_get_type_exact (.cls segs) (by simpa [Ty.wf, Ty.wfField] using h)]
  rw [canonical_full segs hn]

/-- and a direct member is written by its simple name -/
theorem direct_member_shortened (x : List Char) (h : simpleName x = true) :
    utilGetType (descOf (.cls ["java".toList, "lang".toList, x])) none = .ok x := by
  have hw : (Ty.cls ["java".toList, "lang".toList, x]).wf = true := by
    simp only [Ty.wf, Ty.wfField, fullClassName, List.isEmpty_cons, Bool.not_false, Bool.true_and, List.all_cons,
      List.all_nil, Bool.and_true, h]
    decide
  rw [util_get_type_exact _ hw]
  exact congrArg Except.ok (canonical_short x)

/-- sized arrays (`get_type(atype, size)`): the element name followed by `[size]` -/
theorem util_sized_array (t : Ty) (n : Nat) (h : t.wfField = true) :
    utilGetType (descOf (.arr t)) (some n)
      = .ok (canonicalName t ++ '[' :: (pyStrNat n ++ [']'])) := by
  unfold utilGetType
  have hlen : (descOf (.arr t)).length = (descOf t).length + 1 := by simp [descOf]
  rw [hlen]
  exact util_arr_step _ t (some n) _ (util_field t h _ (Nat.lt_succ_of_lt (dims_lt_length t)))

/-- The defect that was repaired (D12): the class branch as it was before fixes/C24-java-lang-prefix.diff
    (`lstrip('java/lang/')` strips a character SET) renders `Ljava/lang/reflect/Method;` as `reflect.Method`
    and `Ljava/language/Foo;` as `uage.Foo`; neither denotes the type. -/
theorem unfixed_refuted :
    ¬ Denotes (utilClassUnfixed "Ljava/lang/reflect/Method;".toList)
        (.cls ["java".toList, "lang".toList, "reflect".toList, "Method".toList])
    ∧ ¬ Denotes (utilClassUnfixed "Ljava/language/Foo;".toList)
        (.cls ["java".toList, "language".toList, "Foo".toList])
    ∧ utilClassUnfixed "Ljava/language/Foo;".toList = "uage.Foo".toList := by
  decide

/-! Non-vacuity: concrete well-formed descriptors, and descriptors the reader rejects. -/
example : WFDesc "[[Ljava/lang/reflect/Method;".toList := by decide
example : WFDesc "Ljava/lang/String;".toList ∧ WFDesc "V".toList ∧ WFDesc "[[[J".toList ∧ WFDesc "La$b/C-d_;".toList := by
  decide
example : ¬ WFDesc "[V".toList ∧ ¬ WFDesc "Ljava/lang/;".toList ∧ ¬ WFDesc "La//b;".toList ∧ ¬ WFDesc "La.b;".toList
    ∧ ¬ WFDesc "La;b;".toList ∧ ¬ WFDesc "II".toList ∧ ¬ WFDesc "".toList ∧ ¬ WFDesc "L;".toList ∧ ¬ WFDesc "La".toList := by
  decide
example : utilGetType "[[Ljava/lang/reflect/Method;".toList none = .ok "java.lang.reflect.Method[][]".toList := by rfl
example : utilGetType "[Ljava/lang/String;".toList none = .ok "String[]".toList := by rfl
example : dexGetType "[Ljava/lang/String;".toList none = .ok "java.lang.String[]".toList := by rfl
example : fullClassName ["java".toList, "language".toList, "Foo".toList] = true
    ∧ ¬ ∃ x, ["java".toList, "language".toList, "Foo".toList] = ["java".toList, "lang".toList, x] := by
  refine ⟨by decide, ?_⟩
  rintro ⟨x, h⟩
  simp only [List.cons.injEq] at h
  exact absurd h.2.1 (by decide)

end AgVerif.C24
