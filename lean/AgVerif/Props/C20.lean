import AgVerif.Model.ReachDef
namespace AgVerif.C20
open AgVerif.ReachDef AgVerif.Spec.ReachDef

theorem placeholder_run_zero (g : Prog) (st : St) : run g 0 st = st := rfl

end AgVerif.C20
