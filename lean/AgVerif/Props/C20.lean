/-
C20 — def-use chains equal the reaching-definitions solution.
Property theorems only (lemmas: AgVerif/Proof/ReachDef{Sets,Run,Term,Spec,UD}.lean).

Model: AgVerif.ReachDef (transliteration of `BasicReachDef.__init__/run`, `reach_def_analysis`,
`build_def_use` of androguard/decompiler/dataflow.py).   Spec: AgVerif.Spec.ReachDef (explicit paths).
Every theorem quantifies over all graphs (any number of nodes, statements, registers, parameters, any
edge/catch-edge relation incl. loops, self-loops, unreachable nodes) that satisfy the decidable
well-formedness predicate `WF` (edge tables cover the nodes; targets, entry, exit are nodes).
-/
import AgVerif.Proof.ReachDefEntry
namespace AgVerif.C20
open AgVerif.ReachDef AgVerif.Spec.ReachDef

/-- The work-list loop of `BasicReachDef.run` empties within `bound g` iterations, and what it leaves is a
    solution of the data-flow equations `R[v] = A[dummy entry if v is the entry] ∪ ⋃_{p → v} A[p]`,
    `A[v] = (R[v] − killed(v)) ∪ DB(v)` at every node (dummy exit included). -/
theorem run_fixpoint (g : Prog) (hwf : WF g = true) :
    (analysis g).wl = [] ∧ (analysis g).steps ≤ bound g ∧
    ∀ v, v < nA g →
      (∀ d, d ∈ (analysis g).R v ↔ d ∈ inSet g (analysis g).A v) ∧
      (∀ d, d ∈ (analysis g).A v ↔ d ∈ outSet g v ((analysis g).R v)) := by
  have hI : Inv g (analysis g) := inv_run g (bound g)
  have hwl : (analysis g).wl = [] :=
    run_empties hwf (bound g) (init g) (inv_init g) (invT_init g) (phi_init_le g)
  refine ⟨hwl, ?_, ?_⟩
  · have : ∀ fuel st, (run g fuel st).steps ≤ st.steps + fuel := by
      intro fuel
      induction fuel with
      | zero => intro st; simp [run]
      | succ f ih =>
        intro st
        unfold run
        cases h : st.wl with
        | nil => simp
        | cons v rest =>
          simp only
          have := ih (step g st)
          rw [step_eq h] at this ⊢
          simp only at this ⊢
          omega
    have := this (bound g) (init g)
    simpa [analysis, init] using this
  · intro v hv
    have hfix := hI.fix v hv (by rw [hwl]; simp)
    exact ⟨fun d => ⟨hI.rIn v d, hfix.1 d⟩, fun d => ⟨hI.aOut v d, hfix.2 d⟩⟩

/-- The computed sets are below every pre-solution of the equations (so they are the least solution). -/
theorem run_least (g : Prog) (SR SA : Nat → Int → Prop) (hP : PreSol g SR SA) (v : Nat) (d : Int) :
    (d ∈ (analysis g).R v → SR v d) ∧ (d ∈ (analysis g).A v → SA v d) :=
  ⟨(below_run hP (bound g)).1 v d, (below_run hP (bound g)).2 v d⟩

/-- MFP = MOP: at every node of the graph, `R[v]` is exactly the set of definitions that reach the start
    of `v` along some path (normal and catch edges, parameters placed in a dummy node in front of the
    entry) without an intervening redefinition of their register. -/
theorem mfp_eq_mop (g : Prog) (hwf : WF g = true) (v : Nat) (hv : v < nOrig g) (d : Int) :
    d ∈ (analysis g).R v ↔ ∃ x, ReachesEntry g d x v := by
  obtain ⟨_, _, hsol⟩ := run_fixpoint g hwf
  have hS : Solved g (analysis g) :=
    ⟨fun w hw d hd => ((hsol w hw).1 d).2 hd, fun w hw d hd => ((hsol w hw).2 d).2 hd⟩
  constructor
  · intro hd
    obtain ⟨x, _, hr⟩ := (run_least g (SRp g) (SAp g) (paths_presol hwf) v d).1 hd hv
    exact ⟨x, hr⟩
  · rintro ⟨x, hr⟩
    exact reach_sound hwf hS hr

/-- The use-def chain of `build_def_use` is exact: `d` is linked to the use of register `x` by statement
    `u` iff definition `d` of `x` reaches that use (prior definition in the same node, or a path from
    another node / the parameters with no redefinition). -/
theorem ud_exact (g : Prog) (hwf : WF g = true) (x : Reg) (u d : Int) :
    d ∈ dictGet (buildDefUse g).1 (x, u) ↔ Reaches g d x u := by
  show d ∈ dictGet (buildUD g (analysis g).R) (x, u) ↔ Reaches g d x u
  rw [buildUD_mem]
  constructor
  · rintro ⟨v, hv, ⟨u', s⟩, hp, y, hy, hk, hd⟩
    simp only [Prod.mk.injEq] at hk
    obtain ⟨rfl, rfl⟩ := hk
    refine ⟨v, s, mem_locIns.1 hp, hy, ?_⟩
    rcases (useDefs_spec g _ v u' y d).1 hd with h | ⟨h1, h2, h3⟩
    · exact Or.inl h
    · obtain ⟨x', hx'⟩ := (mfp_eq_mop g hwf v hv d).1 h3
      have := def_unique h2 (reachesEntry_def hx')
      subst this
      exact Or.inr ⟨h1, hx'⟩
  · rintro ⟨v, s, hs, hx, h⟩
    have hv : v < nOrig g := by
      obtain ⟨ss, k, hss, _, _⟩ := hs
      exact (List.getElem?_eq_some_iff.1 hss).1
    refine ⟨v, hv, (u, s), mem_locIns.2 hs, x, hx, rfl, ?_⟩
    rw [useDefs_spec]
    rcases h with h | ⟨h1, h2⟩
    · exact Or.inl h
    · exact Or.inr ⟨h1, reachesEntry_def h2, (mfp_eq_mop g hwf v hv d).2 ⟨x, h2⟩⟩

/-- The def-use chain is the inverse of the use-def chain. -/
theorem du_inverse (g : Prog) (x : Reg) (d u : Int) :
    u ∈ dictGet (buildDefUse g).2 (x, d) ↔ d ∈ dictGet (buildDefUse g).1 (x, u) :=
  du_inverse_of_nodup (keysNodup_buildUD g _) x d u

/-- Consequence: use `u` of `x` is in the DU chain of definition `d` iff `d` reaches `u`. -/
theorem du_exact (g : Prog) (hwf : WF g = true) (x : Reg) (u d : Int) :
    u ∈ dictGet (buildDefUse g).2 (x, d) ↔ Reaches g d x u := by
  rw [du_inverse, ud_exact g hwf]

/-- Interpretation made explicit: `mfp_eq_mop`/`ud_exact` let a walk start at the node holding the
    definition even when that node cannot be reached from the entry (a definition in dead code "reaches"
    the nodes below it; this is what the code computes).  Sharper form: the definitions in `R[v]` whose
    node is reachable from the entry (and the parameters) are exactly the definitions that are the last
    definition of their register on some path dummy entry → entry → … → `v`. -/
theorem reach_def_reachable (g : Prog) (hwf : WF g = true) (v : Nat) (hv : v < nOrig g) (d : Int) :
    (∃ x, ReachesFromEntry g d x v) ↔
      d ∈ (analysis g).R v ∧ (d < 0 ∨ ∃ m x, DefinesAt g m d x ∧ Reachable g m) := by
  constructor
  · rintro ⟨x, hr⟩
    refine ⟨(mfp_eq_mop g hwf v hv d).2 ⟨x, reachesFromEntry_weaken hr⟩, ?_⟩
    obtain ⟨_, _, ⟨m, hm, hl, _⟩ | ⟨⟨k, _, hk⟩, _⟩⟩ := hr
    · exact Or.inr ⟨m, x, hl.1, hm⟩
    · exact Or.inl (by omega)
  · rintro ⟨hd, hsrc⟩
    obtain ⟨x, mids, hc, h⟩ := (mfp_eq_mop g hwf v hv d).1 hd
    refine ⟨x, mids, hc, ?_⟩
    rcases h with ⟨m, hl, hw⟩ | h
    · rcases hsrc with hneg | ⟨m', x', hdef, hreach⟩
      · have := definesAt_nonneg hl.1; omega
      · have := definesAt_node_unique hl.1 hdef
        subst this
        exact Or.inl ⟨m, hreach, hl, hw⟩
    · exact Or.inr h

/-- On a rooted graph (every node reachable from the entry — what `graph.construct` builds by a search from
    the start block) the computed sets are exactly the meet over paths from the entry. -/
theorem reach_def_rooted (g : Prog) (hwf : WF g = true) (hroot : ∀ m, m < nOrig g → Reachable g m)
    (v : Nat) (hv : v < nOrig g) (d : Int) :
    d ∈ (analysis g).R v ↔ ∃ x, ReachesFromEntry g d x v := by
  rw [reach_def_reachable g hwf v hv d]
  constructor
  · intro hd
    refine ⟨hd, ?_⟩
    obtain ⟨x, _, _, ⟨m, hl, _⟩ | ⟨⟨k, _, hk⟩, _⟩⟩ := (mfp_eq_mop g hwf v hv d).1 hd
    · exact Or.inr ⟨m, x, hl.1, hroot m (definesAt_lt hl.1)⟩
    · exact Or.inl (by omega)
  · exact fun h => h.1

/-! ### non-vacuity: a loop with a catch edge, a parameter, an unreachable node -/

/-- node 0 (unreachable): `r3 := …`; node 1 (entry): `r0 := f(r1); r2 := f(r0)`; node 2 (self-loop):
    `r0 := f(r0, r2)`; node 3 (exit): `use(r0, r1, r5)`; catch edge 1 → 3; parameters r1, r7. -/
def ex : Prog :=
  { nodes := [[⟨some 3, []⟩], [⟨some 0, [1]⟩, ⟨some 2, [0]⟩], [⟨some 0, [0, 2]⟩], [⟨none, [0, 1, 5]⟩]],
    edges := [[3], [2], [2, 3], []], cedges := [[], [3], [], []], entry := 1, exit := some 3, params := [1, 7] }

example : WF ex = true := by decide
example : (analysis ex).steps = 8 ∧ bound ex = 305 := by decide
example : (buildDefUse ex).1 =
    [((1, 1), [-1]), ((0, 2), [1]), ((0, 3), [1, 3]), ((2, 3), [2]), ((0, 4), [1, 3]), ((1, 4), [-1])] := by decide
example : (buildDefUse ex).2 = [((1, -1), [1, 4]), ((0, 1), [2, 3, 4]), ((0, 3), [3, 4]), ((2, 2), [3])] := by decide
/-- both definitions of r0 (statement 1 through the catch edge, statement 3 around the loop) reach statement 4 -/
example : Reaches ex 1 0 4 ∧ Reaches ex 3 0 4 :=
  ⟨(ud_exact ex (by decide) 0 4 1).1 (by decide), (ud_exact ex (by decide) 0 4 3).1 (by decide)⟩
/-- the parameter r1 reaches statement 4; statement 2's definition of r2 does not reach a use of r0 -/
example : Reaches ex (-1) 1 4 ∧ ¬ Reaches ex 2 0 4 :=
  ⟨(ud_exact ex (by decide) 1 4 (-1)).1 (by decide), fun h => absurd ((ud_exact ex (by decide) 0 4 2).2 h) (by decide)⟩
/-- the two notions differ on `ex`: statement 0 (in the unreachable node 0, which has an edge to node 3) is in
    `R[3]` and reaches node 3 in the sense of `ReachesEntry`, but on no path from the entry -/
example : (0 : Int) ∈ (analysis ex).R 3 ∧ ¬ ∃ x, ReachesFromEntry ex 0 x 3 := by
  refine ⟨by decide, ?_⟩
  intro h
  obtain ⟨_, hsrc⟩ := (reach_def_reachable ex (by decide) 3 (by decide) 0).1 h
  rcases hsrc with h | ⟨m, x, hdef, hreach⟩
  · omega
  · have hm : m = 0 := by
      have h0 : DefinesAt ex 0 0 3 := ⟨⟨some 3, []⟩, ⟨[⟨some 3, []⟩], 0, rfl, rfl, rfl⟩, rfl⟩
      exact definesAt_node_unique hdef h0
    subst hm
    rcases hreach with h | ⟨mids, hw⟩
    · exact absurd h (by decide)
    · obtain ⟨p, hp⟩ := walk_last_edge hw
      have : ∀ q, ¬ Edge ex q 0 := by
        intro q hq
        match q with
        | 0 | 1 | 2 | 3 => revert hq; unfold Edge ex; simp
        | q + 4 => revert hq; unfold Edge ex; simp
      exact this p hp
/-- a definition in a reachable node: statement 3 reaches node 3 on a path from the entry -/
example : ∃ x, ReachesFromEntry ex 3 x 3 :=
  (reach_def_reachable ex (by decide) 3 (by decide) 3).2
    ⟨by decide, Or.inr ⟨2, 0, ⟨⟨some 0, [0, 2]⟩, ⟨[⟨some 0, [0, 2]⟩], 0, rfl, rfl, rfl⟩, rfl⟩, Or.inr ⟨[], Or.inl ⟨[2], rfl, by simp⟩⟩⟩⟩
/-- the path set is a pre-solution for a concrete graph (hypothesis of `run_least` is satisfiable) -/
example : PreSol ex (SRp ex) (SAp ex) := paths_presol (by decide)

end AgVerif.C20
