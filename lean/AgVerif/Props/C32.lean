/-
C32 — A v1 certificate is reported only if it verifies the signature file.
Property theorems only (lemmas live in AgVerif/Proof/V1Sig.lean).

Model: AgVerif.V1Sig (APK.get_certificate_der, verify_signer_info_against_sig_file, verify_signature,
get_hash_algorithm, find_certificate, get_signature_names, get_certificates_v1), with the cryptography
(`Crypto.verify`, `Crypto.digest`) and the decoded PKCS#7 structure as parameters.  All constants and
comparison operators come from the generated AgVerif.Gen.V1SigTables, so every theorem below is re-checked
against what the source says now.

The statement "certificate `c` verifies SignerInfo `si` against the .SF" is the INDEPENDENT specification
AgVerif.Spec.V1Sig.Verifies (RFC 5652 §5.4/§11 + the v1 scheme; own digest table, own SET OF re-tagging, own
API-24 rule; imports nothing), reached through `SpecVerifies` / `SpecSelects` (Proof/V1SigSpec.lean, which proves
that the model's helpers — digest lookup over the generated table, `retag`, `contentTypeChecked`, `findCert` —
equal the specification's).  The `_model` variants state the same against the model-side predicate `Verifies`.

Every theorem quantifies over all cryptographic parameters `cr`, all inputs `inp` (any number of
certificates, SignerInfos, attributes; any bytes).  Cryptographic assumptions appear only as hypotheses.
-/
import AgVerif.Proof.V1Sig
import AgVerif.Proof.V1SigNames
import AgVerif.Proof.V1SigSpec
namespace AgVerif.C32
open AgVerif.V1Sig AgVerif.Gen

/-- the SignerInfos get_certificate_der tries (empty when `int(minSdkVersion)` raises) -/
def triedList (inp : Input) : List SignerInfo :=
  match tried inp with
  | some l => l
  | none => []

/-! ## the generated tables are the ones the v1 scheme needs -/

/-- The digest table pairs each name with the hashlib function and the `cryptography` hash class of the same
    algorithm; signer selection is `minSdkVersion < 24 → first only`; the content-type check applies from
    24; the attributes are re-tagged as SET (0x31); the two attribute OIDs are contentType / messageDigest;
    both functions derive the .SF name by the same rule. -/
theorem tables_as_specified :
    V1SigTables.hashAlgorithms =
      [("md5", "md5", "MD5"), ("sha1", "sha1", "SHA1"), ("sha224", "sha224", "SHA224"),
       ("sha256", "sha256", "SHA256"), ("sha384", "sha384", "SHA384"), ("sha512", "sha512", "SHA512")] ∧
    V1SigTables.minOp = "lt" ∧ V1SigTables.minConst = 24 ∧ V1SigTables.thenFirstOnly = true ∧
    V1SigTables.maxOp = "ge" ∧ V1SigTables.maxConst = 24 ∧ V1SigTables.retagByte = 0x31 ∧
    V1SigTables.contentTypeOid = "1.2.840.113549.1.9.3" ∧
    V1SigTables.messageDigestOid = "1.2.840.113549.1.9.4" ∧
    V1SigTables.innerCaught = ["InvalidSignature"] ∧
    V1SigTables.outerCaught = ["ValueError", "TypeError", "OSError", "InvalidSignature"] ∧
    V1SigTables.sigPrefix = "META-INF/" ∧ V1SigTables.sigExts = ["DSA", "EC", "RSA"] ∧
    V1SigTables.sigRegexData = V1SigTables.sigRegex ∧
    V1SigTables.sfRuleDer = V1SigTables.sfRuleNames := by
  decide

/-! ## soundness: what a reported certificate guarantees -/

/-- (model-side form of reported_cert_verifies)  If get_certificate_der reports certificate `c`, then one of the SignerInfos it
    tried selects `c` by issuer and serial, and `c`'s key verifies that SignerInfo's signature: over the .SF
    bytes when there are no signed attributes; otherwise over the re-tagged signed attributes, which have
    no duplicate, carry the contentType of the encapsulated content (from API 24) and a messageDigest equal
    to the digest of the .SF. -/
theorem reported_cert_verifies_model (cr : Crypto) (inp : Input) (c : Cert)
    (h : getCert cr inp = .cert c) :
    ∃ si ∈ triedList inp, si ∈ inp.signers ∧ findCert inp.certs si = some c ∧ Verifies cr inp si c := by
  unfold getCert at h
  cases hs : inp.signers with
  | nil => simp [hs] at h
  | cons s rest =>
    simp only [hs] at h
    cases ht : tried inp with
    | none => simp [ht] at h
    | some l =>
      simp only [ht] at h
      obtain ⟨pre, si, post, hl, _, hv, _⟩ := (loop_nil_cert_iff l c).mp h
      have hmem : si ∈ l := by rw [hl]; simp
      have hsub : si ∈ inp.signers := by
        unfold tried at ht
        cases hsel : selTest inp.minSdk with
        | none => simp [hsel] at ht
        | some t =>
          simp only [hsel] at ht
          split at ht
          · simp only [Option.some.injEq] at ht; rw [← ht] at hmem; exact List.mem_of_mem_take hmem
          · simp only [Option.some.injEq] at ht; rw [← ht] at hmem; exact hmem
      obtain ⟨hf, hver⟩ := verifySI_verified hv
      refine ⟨si, ?_, by rw [← hs]; exact hsub, hf, hver⟩
      unfold triedList; rw [ht]; exact hmem

/-- the reported certificate is an element of SignedData.certificates of kind `certificate` whose issuer and
    serial are the ones the SignerInfo names -/
theorem reported_cert_is_referenced (cr : Crypto) (inp : Input) (c : Cert)
    (h : getCert cr inp = .cert c) :
    c ∈ inp.certs ∧ c.isCert = true ∧ ∃ si ∈ inp.signers, c.issuer = si.issuer ∧ c.serial = si.serial := by
  obtain ⟨si, _, hsi, hf, _⟩ := reported_cert_verifies_model cr inp c h
  unfold findCert at hf
  have hm := List.mem_of_find?_eq_some hf
  have hp := List.find?_some hf
  simp only [Bool.and_eq_true, beq_iff_eq] at hp
  exact ⟨hm, hp.1.1, si, hsi, hp.1.2, hp.2⟩

/-- (model-side form of first_verified_wins)  `c` is reported exactly when the tried SignerInfos split as
    `pre ++ si :: post` where every one in `pre` fails to verify (quietly), `si` verifies with `c`, and nothing
    in `post` raises. -/
theorem first_verified_wins_model (cr : Crypto) (inp : Input) (c : Cert) (l : List SignerInfo)
    (hne : inp.signers ≠ []) (ht : tried inp = some l) :
    getCert cr inp = .cert c ↔
      ∃ pre si post, l = pre ++ si :: post ∧ (∀ s ∈ pre, verifySI cr inp s = .notVerified) ∧
        verifySI cr inp si = .verified c ∧ NoRaise cr inp post := by
  unfold getCert
  cases hs : inp.signers with
  | nil => exact absurd hs hne
  | cons s rest => simp only [ht]; exact loop_nil_cert_iff l c

/-! ## the same, against the independent specification (Spec/V1Sig.lean) -/

/-- **reported_cert_verifies.**  If get_certificate_der reports `c`, then for one of the SignerInfos it tried the sid
    selects `c` (first certificate of the set with that issuer and serial) and `c`'s key verifies the signature
    file in the sense of the specification `Spec.V1Sig.Verifies`: a supported digest; without signed attributes
    the signature is over the .SF; with them it is over their SET OF-retagged DER, they are duplicate-free, carry
    the eContentType (from API 24) and a messageDigest equal to the digest of the .SF. -/
theorem reported_cert_verifies (cr : Crypto) (inp : Input) (c : Cert)
    (h : getCert cr inp = .cert c) :
    ∃ si ∈ triedList inp, si ∈ inp.signers ∧ SpecSelects inp si c ∧ SpecVerifies cr inp si c := by
  obtain ⟨si, h1, h2, hf, hv⟩ := reported_cert_verifies_model cr inp c h
  exact ⟨si, h1, h2, (findCert_iff_spec inp si c).mp hf, (verifies_iff_spec cr inp si c).mp hv⟩

/-- **first_verified_wins.**  `c` is reported exactly when the tried SignerInfos split as `pre ++ si :: post` where
    every one in `pre` fails quietly, `si`'s sid selects `c` and `c` verifies `si` (specification), and nothing in
    `post` raises. -/
theorem first_verified_wins (cr : Crypto) (inp : Input) (c : Cert) (l : List SignerInfo)
    (hne : inp.signers ≠ []) (ht : tried inp = some l) :
    getCert cr inp = .cert c ↔
      ∃ pre si post, l = pre ++ si :: post ∧ (∀ s ∈ pre, verifySI cr inp s = .notVerified) ∧
        SpecSelects inp si c ∧ SpecVerifies cr inp si c ∧ NoRaise cr inp post := by
  rw [first_verified_wins_model cr inp c l hne ht]
  constructor
  · rintro ⟨pre, si, post, hl, hp, hv, hn⟩
    obtain ⟨h1, h2⟩ := (verifySI_verified_iff_spec cr inp si c).mp hv
    exact ⟨pre, si, post, hl, hp, h1, h2, hn⟩
  · rintro ⟨pre, si, post, hl, hp, h1, h2, hn⟩
    exact ⟨pre, si, post, hl, hp, (verifySI_verified_iff_spec cr inp si c).mpr ⟨h1, h2⟩, hn⟩

/-- one SignerInfo is accepted with `c` exactly when its sid selects `c` and `c` verifies it (specification):
    soundness and completeness of verify_signer_info_against_sig_file -/
theorem signer_verified_iff_spec (cr : Crypto) (inp : Input) (si : SignerInfo) (c : Cert) :
    verifySI cr inp si = .verified c ↔ SpecSelects inp si c ∧ SpecVerifies cr inp si c :=
  verifySI_verified_iff_spec cr inp si c

/-- If no SignerInfo/certificate pair of the file passes the specification's verification, nothing is reported. -/
theorem no_valid_pair_none (cr : Crypto) (inp : Input)
    (h : ∀ si ∈ inp.signers, ∀ c, SpecSelects inp si c → ¬ SpecVerifies cr inp si c) (c : Cert) :
    getCert cr inp ≠ .cert c := by
  intro hc
  obtain ⟨si, _, hsi, hf, hv⟩ := reported_cert_verifies cr inp c hc
  exact h si hsi c hf hv

/-! ## signer selection -/

/-- **pre_N_only_first.**  Without a minSdkVersion, or with one below 24, only the first SignerInfo matters:
    the outcome is the outcome for the PKCS#7 object cut down to its first SignerInfo … -/
theorem pre_N_only_first (cr : Crypto) (inp : Input)
    (h : inp.minSdk = .absent ∨ ∃ n, inp.minSdk = .num n ∧ n < 24) :
    getCert cr inp = getCert cr { inp with signers := inp.signers.take 1 } := by
  have hsel : selTest inp.minSdk = some true := by
    rcases h with h | ⟨n, h, hn⟩
    · rw [h]; rfl
    · rw [h]; simp [selTest, evalCmp, V1SigTables.minOp, V1SigTables.minConst, hn]
  unfold getCert tried
  cases hs : inp.signers with
  | nil => simp
  | cons s rest =>
    simp only [hsel, List.take_succ_cons, List.take_zero]
    have : V1SigTables.thenFirstOnly = true := by decide
    simp only [this, if_true]
    rfl

/-- … and is decided by that SignerInfo alone. -/
theorem pre_N_first_decides (cr : Crypto) (inp : Input) (s : SignerInfo) (rest : List SignerInfo)
    (h : inp.minSdk = .absent ∨ ∃ n, inp.minSdk = .num n ∧ n < 24) (hs : inp.signers = s :: rest) :
    getCert cr inp =
      match verifySI cr inp s with
      | .verified c => .cert c
      | .notVerified => .none
      | .raised e => if catches V1SigTables.outerCaught e then .none else .raised e := by
  have hsel : selTest inp.minSdk = some true := by
    rcases h with h | ⟨n, h, hn⟩
    · rw [h]; rfl
    · rw [h]; simp [selTest, evalCmp, V1SigTables.minOp, V1SigTables.minConst, hn]
  unfold getCert tried
  simp only [hs, hsel]
  have : V1SigTables.thenFirstOnly = true := by decide
  simp only [this, if_true, List.take_succ_cons, List.take_zero]
  unfold loop
  cases hv : verifySI cr inp s with
  | verified c => simp [loop]
  | notVerified => simp [loop]
  | raised e => simp

/-- From API 24 on every SignerInfo is tried, in file order. -/
theorem from_N_all_tried (inp : Input) (n : Int) (h : inp.minSdk = .num n) (hn : 24 ≤ n) :
    tried inp = some inp.signers := by
  unfold tried
  have : selTest inp.minSdk = some false := by
    have hlt : ¬ n < 24 := by omega
    rw [h]; simp [selTest, evalCmp, V1SigTables.minOp, V1SigTables.minConst, hlt]
  simp only [this]
  have : V1SigTables.thenFirstOnly = true := by decide
  simp [this]

/-! ## exceptions -/

/-- **any_exception_none.**  If verifying one of the tried SignerInfos raises an exception of a class listed in
    the `except` clause (ValueError, TypeError, OSError, InvalidSignature or a subclass) and no earlier one
    raised, the result is None — even when an earlier SignerInfo verified. -/
theorem any_exception_none (cr : Crypto) (inp : Input) (pre post : List SignerInfo) (si : SignerInfo) (e : Exc)
    (hne : inp.signers ≠ []) (ht : tried inp = some (pre ++ si :: post))
    (hpre : NoRaise cr inp pre) (hsi : verifySI cr inp si = .raised e)
    (hc : catches V1SigTables.outerCaught e = true) :
    getCert cr inp = .none := by
  unfold getCert
  cases hs : inp.signers with
  | nil => exact absurd hs hne
  | cons s rest =>
    simp only [ht]
    rw [loop_caught pre si post [] e hpre hsi, hc]; rfl

/-- an exception of any other class escapes from get_certificate_der unchanged -/
theorem other_exception_escapes (cr : Crypto) (inp : Input) (pre post : List SignerInfo) (si : SignerInfo) (e : Exc)
    (hne : inp.signers ≠ []) (ht : tried inp = some (pre ++ si :: post))
    (hpre : NoRaise cr inp pre) (hsi : verifySI cr inp si = .raised e)
    (hc : catches V1SigTables.outerCaught e = false) :
    getCert cr inp = .raised e := by
  unfold getCert
  cases hs : inp.signers with
  | nil => exact absurd hs hne
  | cons s rest =>
    simp only [ht]
    rw [loop_caught pre si post [] e hpre hsi, hc]; simp

/-- whenever any tried SignerInfo raises, no certificate is reported -/
theorem exception_never_cert (cr : Crypto) (inp : Input) (si : SignerInfo) (e : Exc) (c : Cert)
    (hmem : si ∈ triedList inp) (hsi : verifySI cr inp si = .raised e) :
    getCert cr inp ≠ .cert c := by
  intro h
  unfold getCert at h
  cases hs : inp.signers with
  | nil => simp [hs] at h
  | cons s rest =>
    simp only [hs] at h
    cases ht : tried inp with
    | none => simp [ht] at h
    | some l =>
      simp only [ht] at h
      unfold triedList at hmem; rw [ht] at hmem
      rcases split_first_raise cr inp l with hn | ⟨pre, s', post, e', hl, hp, hs'⟩
      · exact hn si hmem e hsi
      · rw [hl, loop_caught pre s' post [] e' hp hs'] at h
        split at h <;> simp at h

/-- a sid that names no certificate of the set, an unsupported digest algorithm, a duplicate signed attribute,
    a missing contentType or messageDigest attribute all raise ValueError (which is listed) -/
theorem malformed_signer_raises (cr : Crypto) (inp : Input) (si : SignerInfo) :
    (findCert inp.certs si = none → verifySI cr inp si = .raised valueError) ∧
    (hashLookup si.digestAlg = none → verifySI cr inp si = .raised valueError) ∧
    catches V1SigTables.outerCaught valueError = true := by
  refine ⟨?_, ?_, by decide⟩
  · intro h; unfold verifySI; rw [h]; cases hashLookup si.digestAlg <;> simp
  · intro h; unfold verifySI; rw [h]

/-! ## tampering (cryptographic assumptions are hypotheses) -/

/-- If no SignerInfo/certificate pair of the file passes the v1 verification, nothing is reported. -/
theorem no_valid_pair_none_model (cr : Crypto) (inp : Input)
    (h : ∀ si ∈ inp.signers, ∀ c, findCert inp.certs si = some c → ¬ Verifies cr inp si c) (c : Cert) :
    getCert cr inp ≠ .cert c := by
  intro hc
  obtain ⟨si, _, hsi, hf, hv⟩ := reported_cert_verifies_model cr inp c hc
  exact h si hsi c hf hv

/-- **tamper_none (.SF).**  Replace the .SF bytes by `sf'`.  ASSUMPTIONS (hypotheses, not axioms):
    (unforgeability) no signature present in the file verifies `sf'` under any key of the certificate set;
    (second-preimage resistance) no messageDigest value present in the file is a digest of `sf'`.
    Then no certificate is reported. -/
theorem tamper_none (cr : Crypto) (inp : Input) (sf' : Bytes)
    (hunf : ∀ si ∈ inp.signers, ∀ c ∈ inp.certs, ∀ cls, cr.verify c.key si.sig sf' cls ≠ .ok)
    (hdig : ∀ si ∈ inp.signers, ∀ a ∈ attrsOf si, ∀ fn, a.values.head? ≠ some (.oct (cr.digest fn sf')))
    (c : Cert) :
    getCert cr { inp with sf := sf' } ≠ .cert c := by
  apply no_valid_pair_none_model
  intro si hsi c0 hf hv
  obtain ⟨fn, cls, _, hcase⟩ := hv
  rcases hcase with ⟨_, hok⟩ | ⟨_, _, _, ⟨a, ha, _, hval⟩, _⟩
  · have hm : c0 ∈ inp.certs := List.mem_of_find?_eq_some hf
    exact hunf si hsi c0 hm cls hok
  · exact hdig si hsi a ha fn hval

/-- **tamper_none (signature value).**  If every signature in the file is replaced by one that verifies
    nothing (ASSUMPTION: an altered signature value is not a valid signature of any message under the keys of
    the certificate set), no certificate is reported. -/
theorem tamper_sig_none (cr : Crypto) (inp : Input)
    (hbad : ∀ si ∈ inp.signers, ∀ c ∈ inp.certs, ∀ msg cls, cr.verify c.key si.sig msg cls ≠ .ok) (c : Cert) :
    getCert cr inp ≠ .cert c := by
  apply no_valid_pair_none_model
  intro si hsi c0 hf hv
  have hm : c0 ∈ inp.certs := List.mem_of_find?_eq_some hf
  obtain ⟨fn, cls, _, hcase⟩ := hv
  rcases hcase with ⟨_, hok⟩ | ⟨_, _, _, _, hok⟩
  · exact hbad si hsi c0 hm _ cls hok
  · exact hbad si hsi c0 hm _ cls hok

/-- **tamper_none (signature value), below API 24.**  There only the FIRST SignerInfo counts: if its signature
    verifies nothing under the keys of the certificate set (ASSUMPTION as above), no certificate is reported,
    whatever the other SignerInfos contain. -/
theorem pre_N_first_sig_bad_none (cr : Crypto) (inp : Input) (s : SignerInfo) (rest : List SignerInfo)
    (hpre : inp.minSdk = .absent ∨ ∃ n, inp.minSdk = .num n ∧ n < 24) (hs : inp.signers = s :: rest)
    (hbad : ∀ c ∈ inp.certs, ∀ msg cls, cr.verify c.key s.sig msg cls ≠ .ok) (c : Cert) :
    getCert cr inp ≠ .cert c := by
  rw [pre_N_only_first cr inp hpre]
  apply tamper_sig_none
  intro si hsi
  simp only [hs, List.take_succ_cons, List.take_zero, List.mem_singleton] at hsi
  rw [hsi]; exact hbad

/-- **tamper_none (signed attributes).**  If the signed attributes of every SignerInfo are altered so that the
    signature no longer verifies their re-tagged encoding (ASSUMPTION: unforgeability for the altered bytes)
    — and there still are signed attributes — no certificate is reported. -/
theorem tamper_attrs_none (cr : Crypto) (inp : Input)
    (hattrs : ∀ si ∈ inp.signers, attrsOf si ≠ [])
    (hunf : ∀ si ∈ inp.signers, ∀ c ∈ inp.certs, ∀ cls, cr.verify c.key si.sig (retag si.attrsDump) cls ≠ .ok)
    (c : Cert) :
    getCert cr inp ≠ .cert c := by
  apply no_valid_pair_none_model
  intro si hsi c0 hf hv
  have hm : c0 ∈ inp.certs := List.mem_of_find?_eq_some hf
  obtain ⟨fn, cls, _, hcase⟩ := hv
  rcases hcase with ⟨he, _⟩ | ⟨_, _, _, _, hok⟩
  · exact hattrs si hsi he
  · exact hunf si hsi c0 hm cls hok

/-- **tamper_none (certificate reference).**  If the sid of the first tried SignerInfo is altered so that it names
    no certificate of the set, the result is None (for a decodable minSdkVersion); and whatever certificate an
    altered sid does select is reported only if its own key verifies (reported_cert_verifies). -/
theorem tamper_ref_none (cr : Crypto) (inp : Input) (s : SignerInfo) (rest : List SignerInfo)
    (hs : inp.signers = s :: rest) (hmin : inp.minSdk ≠ .bad) (href : findCert inp.certs s = none) :
    getCert cr inp = .none := by
  have hsel : ∃ t, selTest inp.minSdk = some t := by
    cases hm : inp.minSdk with
    | absent => exact ⟨_, rfl⟩
    | num n => exact ⟨_, rfl⟩
    | bad => exact absurd hm hmin
  obtain ⟨t, ht⟩ := hsel
  have hr := (malformed_signer_raises cr inp s).1 href
  have htried : ∃ post, tried inp = some ([] ++ s :: post) := by
    unfold tried; simp only [ht, hs]
    split
    · exact ⟨[], by simp⟩
    · exact ⟨rest, by simp⟩
  obtain ⟨post, hp⟩ := htried
  exact any_exception_none cr inp [] post s valueError (by simp [hs]) hp
    (fun _ hx => by simp at hx) hr (by decide)

/-- a messageDigest attribute that is not the digest of the .SF (under the declared algorithm) is never accepted -/
theorem digest_mismatch_not_verified (cr : Crypto) (inp : Input) (si : SignerInfo) (c : Cert)
    (hattrs : attrsOf si ≠ [])
    (hmis : ∀ a ∈ attrsOf si, ∀ fn, a.oid = V1SigTables.messageDigestOid →
        a.values.head? ≠ some (.oct (cr.digest fn inp.sf))) :
    verifySI cr inp si ≠ .verified c := by
  intro hv
  obtain ⟨_, fn, cls, _, hcase⟩ := verifySI_verified hv
  rcases hcase with ⟨he, _⟩ | ⟨_, _, _, ⟨a, ha, hoid, hval⟩, _⟩
  · exact hattrs he
  · exact hmis a ha fn hoid hval

/-- when no tried SignerInfo raises and none verifies, the result is None -/
theorem quiet_failures_none (cr : Crypto) (inp : Input) (l : List SignerInfo)
    (hne : inp.signers ≠ []) (ht : tried inp = some l)
    (h : ∀ s ∈ l, verifySI cr inp s = .notVerified) : getCert cr inp = .none := by
  unfold getCert
  cases hs : inp.signers with
  | nil => exact absurd hs hne
  | cons s rest => simp only [ht]; exact loop_none_of_all_notVerified l h

/-! ## what does not matter, and completeness -/

/-- the SignerInfo's signatureAlgorithm field is never consulted -/
theorem sigalg_ignored (cr : Crypto) (inp : Input) (si : SignerInfo) (x : String) :
    verifySI cr inp { si with sigAlg := x } = verifySI cr inp si := rfl

/-- Completeness for the common case: one SignerInfo, its sid selects `c`, `c` verifies it (specification),
    minSdkVersion decodable → exactly `c` is reported. -/
theorem valid_single_reported (cr : Crypto) (inp : Input) (si : SignerInfo) (c : Cert)
    (hs : inp.signers = [si]) (hmin : inp.minSdk ≠ .bad)
    (hf : SpecSelects inp si c) (hv : SpecVerifies cr inp si c) :
    getCert cr inp = .cert c := by
  have htried : tried inp = some [si] := by
    unfold tried
    cases hm : inp.minSdk with
    | absent => simp [selTest, hs]
    | num n => simp only [selTest, hs]; split <;> simp
    | bad => exact absurd hm hmin
  exact (first_verified_wins cr inp c [si] (by simp [hs]) htried).mpr
    ⟨[], si, [], rfl, by simp, hf, hv, fun _ hx => by simp at hx⟩

/-! ## signature block names and get_certificates_v1 -/

/-- a listed signature block has the v1 name shape and its .SF file is in the archive -/
theorem listed_block_has_sf (files : List String) (n : String) (h : n ∈ signatureNames files) :
    n ∈ files ∧ isSigName n = true ∧ sfNameNames n ∈ files := by
  unfold signatureNames at h
  simp only [List.mem_filter, Bool.and_eq_true, List.contains_iff_mem] at h
  exact ⟨h.1, h.2.1, h.2.2⟩

/-- get_certificate_der reads the same .SF file get_signature_names tested for (the "matching" .SF) -/
theorem same_sf_name (n : String) : sfNameDer n = sfNameNames n := by
  unfold sfNameDer sfNameNames
  have : V1SigTables.sfRuleDer = V1SigTables.sfRuleNames := by decide
  rw [this]

/-- the names get_signature_names considers are exactly `META-INF/` + anything + `.DSA` / `.EC` / `.RSA` -/
theorem block_name_shape (n : String) :
    isSigName n = true ↔ ∃ mid ext, ext ∈ ["DSA", "EC", "RSA"] ∧
      n.toList = "META-INF/".toList ++ mid ++ '.' :: ext.toList := by
  have h1 : V1SigTables.sigExts = ["DSA", "EC", "RSA"] := by decide
  have h2 : V1SigTables.sigPrefix = "META-INF/" := by decide
  rw [← h1, ← h2]; exact isSigName_iff n

/-- the matching .SF of a block `stem.ext` (no dot in `ext`) is `stem.SF`, for both functions -/
theorem matching_sf_name (stem ext : List Char) (h : '.' ∉ ext) :
    sfNameDer (String.ofList (stem ++ '.' :: ext)) = String.ofList (stem ++ ".SF".toList) ∧
    sfNameNames (String.ofList (stem ++ '.' :: ext)) = String.ofList (stem ++ ".SF".toList) := by
  have h1 : V1SigTables.sfRuleDer = "rsplit" := by decide
  have h2 : V1SigTables.sfRuleNames = "rsplit" := by decide
  unfold sfNameDer sfNameNames; rw [h1, h2]
  exact ⟨sfNameBy_rsplit stem ext h, sfNameBy_rsplit stem ext h⟩

/-- every certificate get_certificates_v1 returns was reported by get_certificate_der for a listed block -/
theorem certificates_v1_are_reported (per : String → Outcome) (files : List String) (cs : List Cert)
    (h : certificatesV1 per files = .ok cs) :
    ∀ c ∈ cs, ∃ n ∈ signatureNames files, per n = .cert c := by
  unfold certificatesV1 at h
  have key : ∀ (l : List String) (acc out : List Cert), certificatesV1.go per l acc = .ok out →
      ∀ c ∈ out, c ∈ acc ∨ ∃ n ∈ l, per n = .cert c := by
    intro l
    induction l with
    | nil =>
      intro acc out hgo c hc
      simp only [certificatesV1.go, Except.ok.injEq] at hgo
      subst hgo; exact Or.inl hc
    | cons n ns ih =>
      intro acc out hgo c hc
      unfold certificatesV1.go at hgo
      cases hp : per n with
      | cert c' =>
        simp only [hp] at hgo
        rcases ih _ _ hgo c hc with hm | ⟨m, hm, hpm⟩
        · simp only [List.mem_append, List.mem_singleton] at hm
          rcases hm with hm | hm
          · exact Or.inl hm
          · right; exact ⟨n, List.mem_cons_self, by rw [hp, hm]⟩
        · right; exact ⟨m, List.mem_cons_of_mem _ hm, hpm⟩
      | none =>
        simp only [hp] at hgo
        rcases ih _ _ hgo c hc with hm | ⟨m, hm, hpm⟩
        · exact Or.inl hm
        · right; exact ⟨m, List.mem_cons_of_mem _ hm, hpm⟩
      | raised e => simp [hp] at hgo
  intro c hc
  rcases key _ _ _ h c hc with hm | hx
  · simp at hm
  · exact hx

/-! ## non-vacuity -/

section Examples

def exCert : Cert := { isCert := true, issuer := 1, serial := 77, key := 5, id := 9 }
def exDecoy : Cert := { isCert := true, issuer := 1, serial := 78, key := 6, id := 10 }
def exSI : SignerInfo :=
  { issuer := 1, serial := 77, digestAlg := "sha256", attrs := none, attrsDump := [], sigAlg := "rsa", sig := [1, 2, 3] }
def exAttrSI : SignerInfo :=
  { issuer := 1, serial := 77, digestAlg := "sha1",
    attrs := some [⟨"1.2.840.113549.1.9.3", [.str "data"]⟩, ⟨"1.2.840.113549.1.9.4", [.oct [0xAA]]⟩],
    attrsDump := [0xA0, 3, 7, 7, 7], sigAlg := "dsa", sig := [4, 5] }
/-- key 5 signed [1,2,3] over the .SF [10,11] and [4,5] over the re-tagged attributes; every other query is an
    InvalidSignature -/
def exCrypto : Crypto :=
  { verify := fun k s m _ =>
      if k = 5 ∧ ((s = [1, 2, 3] ∧ m = [10, 11]) ∨ (s = [4, 5] ∧ m = [0x31, 3, 7, 7, 7])) then .ok
      else .exc ["InvalidSignature", "Exception"],
    digest := fun _ m => if m = [10, 11] then [0xAA] else [0xBB] }
def exInput : Input :=
  { encap := .str "data", certs := [exDecoy, exCert], signers := [exSI], sf := [10, 11], minSdk := .num 21, maxSdk := none }

/-- a certificate is reported (hypothesis of reported_cert_verifies, first_verified_wins) -/
example : getCert exCrypto exInput = .cert exCert := by decide
/-- with signed attributes, API 24+, a failing first SignerInfo and a verifying second one -/
example : getCert exCrypto { exInput with signers := [{ exSI with sig := [9] }, exAttrSI], minSdk := .num 24 }
    = .cert exCert := by decide
/-- the same file below API 24: only the first SignerInfo is tried (pre_N_only_first) -/
example : getCert exCrypto { exInput with signers := [{ exSI with sig := [9] }, exAttrSI], minSdk := .num 23 }
    = .none := by decide
/-- a verified first SignerInfo followed by one whose sid names no certificate: None (any_exception_none) -/
example : getCert exCrypto { exInput with signers := [exSI, { exSI with serial := 1 }], minSdk := .num 30 }
    = .none := by decide
/-- altered .SF (hypotheses of tamper_none hold for exCrypto): nothing reported -/
example : getCert exCrypto { exInput with sf := [10, 12] } = .none := by decide
/-- altered sid that selects the decoy certificate: the decoy's key does not verify -/
example : getCert exCrypto { exInput with signers := [{ exSI with serial := 78 }] } = .none := by decide
/-- an undecodable minSdkVersion raises -/
example : getCert exCrypto { exInput with minSdk := .bad } = .raised valueError := by decide
/-- the hypotheses of valid_single_reported are satisfiable: the specification holds of a concrete object,
    without signed attributes … -/
example : SpecSelects exInput exSI exCert ∧ SpecVerifies exCrypto exInput exSI exCert :=
  ⟨⟨[exDecoy], [], rfl, by decide, by decide, by decide, by decide⟩,
   ⟨"sha256", "SHA256", by decide, Or.inl ⟨by decide, by decide⟩⟩⟩
/-- … and with signed attributes (contentType = data, messageDigest = digest of the .SF, signature over 0x31 ‖ tail) -/
example : SpecVerifies exCrypto exInput exAttrSI exCert :=
  ⟨"sha1", "SHA1", by decide, Or.inr ⟨by decide, by decide,
    fun _ => ⟨_, List.mem_cons_self, by decide, by decide⟩,
    ⟨_, List.mem_cons_of_mem _ List.mem_cons_self, by decide, by decide⟩, by decide⟩⟩
/-- the specification rejects the altered .SF of the tamper example -/
example : ¬ SpecVerifies exCrypto { exInput with sf := [10, 12] } exSI exCert := by
  rintro ⟨fn, cls, _, h⟩
  rcases h with ⟨_, hok⟩ | ⟨hne, _⟩
  · revert hok; simp [exCrypto, exCert, exSI]
  · exact hne (by decide)
/-- the block of defect D23: its matching .SF is META-INF/.SF for both functions -/
example : sfNameDer "META-INF/.RSA" = "META-INF/.SF" ∧ sfNameNames "META-INF/.RSA" = "META-INF/.SF" := by decide
/-- signature block names -/
example : signatureNames ["META-INF/MANIFEST.MF", "META-INF/CERT.SF", "META-INF/CERT.RSA", "META-INF/X.EC", "a.RSA"]
    = ["META-INF/CERT.RSA"] := by decide

end Examples

end AgVerif.C32
