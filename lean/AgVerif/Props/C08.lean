/-
C08 — try/catch tables are reported exactly.
Property theorems only (lemmas: AgVerif/Proof/Tries.lean, TriesExc.lean, TriesMain.lean,
TriesExist.lean).

Model: AgVerif.Tries — `parseCode`/`parseCodeTail` (DalvikCode.__init__, TryItem,
EncodedCatchHandlerList, EncodedCatchHandler, EncodedTypeAddrPair over the LEB128 model of
C03) and `determineException` as written (groups the tries by handler offset in first-use
order, attaches the handler whose own offset matches, emits
`[start*2, start*2+count*2-1, [type, addr*2]…, [Throwable, catch_all*2]?]`).
Spec: AgVerif.Spec.Tries — the code_item layout of the DEX format document, an abstract
`List TrySpec`, and `Encodes p ts`: plan `p` (any sharing of handler lists between try
items, any 1..5-byte LEB128 item for every number) is a well-formed encoding of `ts`.

All theorems quantify over every try list / every plan / every byte list; `getType`
(`vm.get_cm_type`) is an arbitrary function.
-/
import AgVerif.Proof.TriesMain
import AgVerif.Proof.TriesExist
namespace AgVerif.C08
open AgVerif.Tries AgVerif.Spec.Tries AgVerif.Spec.Leb

/-- C08, main statement.  For every well-formed try list `ts` of any length and every encoding
    `p` of it (shared or distinct handler lists, canonical or padded LEB128 items), inside any
    code item (any header, any number of instructions, any bytes after it): the constructor
    succeeds and determineException returns a list that is a permutation of the expected
    reports — the order of the ranges is the only thing not fixed (the grouping by handler
    offset reorders them); inside each report the byte range, the typed handlers in their
    order and the catch-all as `Ljava/lang/Throwable;` in last position are exactly those of
    the try (`Spec.Tries.expected`). -/
theorem tries_roundtrip (getType : Nat → String) (h : Hdr) (hw : h.WF) (units : Nat)
    (hu : units < 2 ^ 32) (insns : List Nat) (hi : insns.length = units * 2) (p : Plan)
    (ts : List TrySpec) (he : Encodes p ts) (rest : List Nat) :
    ∃ c out, parseCode (codeItem h units insns p ++ rest) = .ok c ∧
      determineException getType c = .ok out ∧ out.Perm (ts.map (expected getType)) := by
  have hc := parseCode_enc h hw units hu insns hi p ts he rest
  obtain ⟨out, ho, hp⟩ := roundtrip_core getType (codeOf h units insns p) p ts he rfl rfl rfl
  exact ⟨_, out, hc, ho, hp⟩

/-- Every well-formed try list (numbers that fit their fields, at least one handler per try,
    handler offsets that fit the 16-bit handler_off field) HAS an encoding — one handler list
    per try, canonical LEB128 — so `tries_roundtrip` speaks about every such list: written
    that way into any code item it is reported exactly. -/
theorem tries_roundtrip_all (getType : Nat → String) (h : Hdr) (hw : h.WF) (units : Nat)
    (hu : units < 2 ^ 32) (insns : List Nat) (hi : insns.length = units * 2)
    (ts : List TrySpec) (hts : WFTries ts)
    (hsmall : ∀ o ∈ (planDistinct ts).offsets, o < 2 ^ 16) (rest : List Nat) :
    Encodes (planDistinct ts) ts ∧
    ∃ c out, parseCode (codeItem h units insns (planDistinct ts) ++ rest) = .ok c ∧
      determineException getType c = .ok out ∧ out.Perm (ts.map (expected getType)) :=
  ⟨planDistinct_encodes ts hts hsmall,
    tries_roundtrip getType h hw units hu insns hi _ ts (planDistinct_encodes ts hts hsmall) rest⟩

/-- What determineException reports for EVERY code object with at least one try (no
    well-formedness assumed): the try items in an order that is a permutation of
    `get_tries()`, each paired with the handlers of `get_handlers()` whose own offset equals
    the try's handler offset counted from the start of the list. -/
theorem reported_is_permutation_of_tries (getType : Nat → String) (c : Code) (hpos : 0 < c.triesSize) :
    ∃ order : List TryItem, order.Perm c.tries ∧
      determineException getType c =
        mapE (rangeOf getType)
          (order.map fun t => (t, c.handlers.filter (fun h => h.off = t.handlerOff + c.handlersOff))) :=
  determineException_eq getType c hpos

/-- The model's `h_off` never holds a key twice, as the Python dict it stands for: grouping any
    try list yields pairwise different keys and attaching handlers does not change the keys, so
    "the entry with key k" (`h_off[k]`) is well defined at every step. -/
theorem handler_dict_keys_unique (base : Nat) (tries : List TryItem) (hs : List Handler) :
    ((attachAll (groupTries base tries) hs).map (·.1)).Nodup := by
  have : ∀ d : Dict, (attachAll d hs).map (·.1) = d.map (·.1) := by
    induction hs with
    | nil => intro d; rfl
    | cons h hs ih => intro d; simp only [attachAll, List.foldl_cons] at ih ⊢; rw [ih, dictAttach_keys]
  rw [this]
  exact groupTries_nodup base tries

/-- A method without try items reports no exceptions. -/
theorem no_tries_empty (getType : Nat → String) (c : Code) (h : c.triesSize = 0) :
    determineException getType c = .ok [] := by
  simp [determineException, h]

/-- The padding rule, for every input the constructor accepts: the `padding` attribute is read
    iff `insns_size` is odd and `tries_size > 0`. -/
theorem padding_rule (triesSize insnsSize : Nat) (bs : List Nat) (pos : Nat) (t : Tail)
    (h : parseCodeTail triesSize insnsSize bs pos = .ok t) :
    t.padding.isSome ↔ (insnsSize % 2 = 1 ∧ triesSize > 0) := by
  unfold parseCodeTail at h
  by_cases hp : insnsSize % 2 = 1 ∧ triesSize > 0
  · simp only [hp, and_self, if_true] at h
    match bs, h with
    | [], h => simp at h
    | [_], h => simp at h
    | p0 :: p1 :: r, h =>
      simp only at h
      split at h <;> try (simp at h)
      split at h <;> try (simp at h)
      split at h <;> try (simp at h)
      subst h; simp [hp]
  · simp only [hp, if_false] at h
    split at h
    · split at h <;> try (simp at h)
      split at h <;> try (simp at h)
      split at h <;> try (simp at h)
      subst h; simp [hp]
    · simp at h; subst h; simp [hp]

/-- Padding as the format specifies it: on a written code item with an exception table the
    constructor reads the padding ushort exactly when the number of code units is odd, reads
    the instruction bytes and the try items unchanged, and stops exactly at the end of the
    item — `CodeItem.__init__` parses the next code item from there. -/
theorem padding_spec (h : Hdr) (hw : h.WF) (units : Nat) (hu : units < 2 ^ 32) (insns : List Nat)
    (hi : insns.length = units * 2) (p : Plan) (ts : List TrySpec) (he : Encodes p ts)
    (rest : List Nat) :
    ∃ c, parseCode (codeItem h units insns p ++ rest) = .ok c ∧
      c.padding = (if units % 2 = 1 then some h.padding else none) ∧
      c.insns = insns ∧ c.tries = p.tries.map itemOf ∧ c.triesSize = ts.length ∧
      c.consumed = (codeItem h units insns p).length :=
  ⟨_, parseCode_enc h hw units hu insns hi p ts he rest, rfl, rfl, rfl,
    encodesAll_length p p.tries ts he.2.2.2.2.2, rfl⟩

/-- No exception table, no padding — also for an odd number of code units: the constructor
    stops right after the instructions and nothing is reported. -/
theorem no_tries_no_padding (getType : Nat → String) (h : Hdr) (hw : h.WF) (units : Nat)
    (hu : units < 2 ^ 32) (insns : List Nat) (hi : insns.length = units * 2) (rest : List Nat) :
    ∃ c, parseCode (codeItemNoTries h units insns ++ rest) = .ok c ∧ c.padding = none ∧
      c.consumed = (codeItemNoTries h units insns).length ∧ determineException getType c = .ok [] := by
  obtain ⟨h1, h2, h3, h4, _⟩ := hw
  have hlen : (codeItemNoTries h units insns).length = 16 + insns.length := by
    simp only [codeItemNoTries, le16, le32, List.length_append, List.length_cons, List.length_nil]
  refine ⟨⟨h.registers, h.ins, h.outs, 0, h.debugOff, units, insns, none, [], 0, 0, [], 16 + insns.length⟩,
    ?_, rfl, hlen.symm, by simp [determineException]⟩
  simp only [codeItemNoTries, le16, le32, List.cons_append, List.nil_append, parseCode]
  rw [u16_le16 _ h1, u16_le16 _ h2, u16_le16 _ h3, u32_le32 _ h4, u32_le32 _ hu]
  rw [List.take_left' hi, List.drop_left' hi]
  simp [parseCodeTail, u16]

/-- A try item whose handler offset is the offset of no handler of the list (outside
    `Encodes`): for every byte list the constructor accepts, determineException fails with
    IndexError — it never reports such a table with some other handler. -/
theorem dangling_handler_error (getType : Nat → String) (bs : List Nat) (c : Code)
    (hp : parseCode bs = .ok c) (hpos : 0 < c.triesSize)
    (hd : ∃ t ∈ c.tries, ∀ h ∈ c.handlers, h.off ≠ t.handlerOff + c.handlersOff) :
    determineException getType c = .error .indexError :=
  dangling_index_error getType c hpos (parseCode_consistent bs c hp) hd

/-- A buffer that ends inside the header is `struct.error`. -/
theorem short_header_error (bs : List Nat) (h : bs.length < 16) : parseCode bs = .error .structError := by
  match bs, h with
  | [], _ => rfl
  | [_], _ => rfl
  | [_, _], _ => rfl
  | [_, _, _], _ => rfl
  | [_, _, _, _], _ => rfl
  | [_, _, _, _, _], _ => rfl
  | [_, _, _, _, _, _], _ => rfl
  | [_, _, _, _, _, _, _], _ => rfl
  | [_, _, _, _, _, _, _, _], _ => rfl
  | [_, _, _, _, _, _, _, _, _], _ => rfl
  | [_, _, _, _, _, _, _, _, _, _], _ => rfl
  | [_, _, _, _, _, _, _, _, _, _, _], _ => rfl
  | [_, _, _, _, _, _, _, _, _, _, _, _], _ => rfl
  | [_, _, _, _, _, _, _, _, _, _, _, _, _], _ => rfl
  | [_, _, _, _, _, _, _, _, _, _, _, _, _, _], _ => rfl
  | [_, _, _, _, _, _, _, _, _, _, _, _, _, _, _], _ => rfl
  | _ :: _ :: _ :: _ :: _ :: _ :: _ :: _ :: _ :: _ :: _ :: _ :: _ :: _ :: _ :: _ :: _, h =>
    simp at h; omega

/-- The constants and the shape of the anchored code, as extracted from the source on this run
    (gen/triesconsts.py), are the ones the model transliterates: struct formats and read sizes,
    the padding condition, the reader calls and loop bounds of the handler classes, and in
    determineException the early exit, the catch-all condition, `value[0]`/`value[1]`, every
    multiplier (2), the range expression and the catch-all type name of the specification. -/
theorem source_constants :
    Gen.TriesConsts.codeUnpacks = [("4H2I", 16, 16), ("H", 2, 2)] ∧
    Gen.TriesConsts.tryUnpacks = [("I2H", 8, 8)] ∧
    Gen.TriesConsts.codeIfs = ["self.insns_size % 2 == 1 and self.tries_size > 0", "self.tries_size > 0"] ∧
    Gen.TriesConsts.codeFors = ["range(0, self.tries_size)"] ∧
    Gen.TriesConsts.codeCalls = ["DCode", "TryItem", "EncodedCatchHandlerList"] ∧
    Gen.TriesConsts.listCalls = ["readuleb128", "EncodedCatchHandler"] ∧
    Gen.TriesConsts.listFors = ["range(self.size)"] ∧
    Gen.TriesConsts.handlerCalls = ["readsleb128", "EncodedTypeAddrPair", "readuleb128"] ∧
    Gen.TriesConsts.handlerIfs = ["self.size <= 0"] ∧
    Gen.TriesConsts.handlerFors = ["range(0, abs(self.size))"] ∧
    Gen.TriesConsts.pairCalls = ["readuleb128", "readuleb128"] ∧
    Gen.TriesConsts.excIfs = ["m.get_code().get_tries_size() <= 0", "offset_handler in h_off",
      "handler_catch.get_off() not in h_off", "handler_catch.get_size() <= 0"] ∧
    Gen.TriesConsts.mults = [2, 2, 2, 2, 2] ∧
    Gen.TriesConsts.valueIdx = [0, 1] ∧
    Gen.TriesConsts.rangeExpr =
      "[try_value.get_start_addr() * 2, try_value.get_start_addr() * 2 + try_value.get_insn_count() * 2 - 1]" ∧
    AgVerif.Tries.throwable = AgVerif.Spec.Tries.throwable := by
  decide

/-! ### Non-vacuity

Three tries over two handler lists: the first and the third share one encoded_catch_handler
(typed handler + catch-all, `size = -1`), the second has its own (`size = 1` written with a
redundant second byte, a two-byte type index and a five-byte address).  The list size is
written with three bytes.  Seven code units, so the padding ushort is present. -/

def exHandlers : List EncHandler :=
  [⟨⟨-1, [0x7f]⟩, [⟨⟨3, [3]⟩, ⟨5, [5]⟩⟩], some ⟨7, [7]⟩⟩,
   ⟨⟨1, [0x81, 0x00]⟩, [⟨⟨200, [0xc8, 0x01]⟩, ⟨4294967295, [0xff, 0xff, 0xff, 0xff, 0x0f]⟩⟩], none⟩]

def exPlan : Plan :=
  ⟨⟨2, [0x82, 0x80, 0x00]⟩, exHandlers, [⟨0, 2, 0, 3⟩, ⟨2, 1, 1, 7⟩, ⟨4, 3, 0, 3⟩]⟩

def exTries : List TrySpec :=
  [⟨0, 2, [(3, 5)], some 7⟩, ⟨2, 1, [(200, 4294967295)], none⟩, ⟨4, 3, [(3, 5)], some 7⟩]

example : Encodes exPlan exTries := by
  refine ⟨by decide, by decide, ?_, by decide, by decide, ?_⟩
  · intro h hh
    simp only [exPlan, exHandlers, List.mem_cons, List.not_mem_nil, or_false] at hh
    rcases hh with rfl | rfl
    · refine ⟨by decide, ?_, by decide, by decide⟩
      intro q hq
      simp only [List.mem_singleton] at hq
      subst hq
      exact ⟨by decide, by decide⟩
    · refine ⟨by decide, ?_, by decide, by decide⟩
      intro q hq
      simp only [List.mem_singleton] at hq
      subst hq
      exact ⟨by decide, by decide⟩
  · exact ⟨⟨rfl, rfl, by decide, by decide, by decide, rfl, _, rfl, rfl, rfl⟩,
      ⟨rfl, rfl, by decide, by decide, by decide, rfl, _, rfl, rfl, rfl⟩,
      ⟨rfl, rfl, by decide, by decide, by decide, rfl, _, rfl, rfl, rfl⟩, trivial⟩

example : WFTries exTries := by
  refine ⟨by decide, by decide, ?_⟩
  intro t ht
  simp only [exTries, List.mem_cons, List.not_mem_nil, or_false] at ht
  rcases ht with rfl | rfl | rfl <;>
    refine ⟨by decide, by decide, by decide, by decide, ?_, by decide⟩ <;>
    intro a ha <;> simp at ha <;> omega

/-- the canonical one-list-per-try encoding of the same tries puts its handlers at 1, 5, 13 -/
example : ∀ o ∈ (planDistinct exTries).offsets, o < 2 ^ 16 := by
  have h : (planDistinct exTries).offsets = [1, 5, 13] := by
    simp [planDistinct, exTries, Plan.offsets, offsetsFrom, encHandlerOf, EncHandler.bytes, EncPair.bytes,
      uNum, sNum1, AgVerif.Leb.writeUlebNat_small, AgVerif.Leb.writeUlebNat_big]
  rw [h]; decide

def exHdr : Hdr := ⟨1, 1, 0, 0, 0⟩
def exInsns : List Nat := [0, 0, 0, 0, 0, 0, 0, 0, 0, 0, 0, 0, 0x0e, 0]

example : exHdr.WF ∧ exInsns.length = 7 * 2 := by decide

/-- the model on the bytes of that code item: the ranges come out grouped by handler
    (first, third, second) -/
example :
    (match parseCode (codeItem exHdr 7 exInsns exPlan ++ [0xaa]) with
     | .ok c => (c.padding, c.consumed, determineException (fun i => if i = 3 then "LE;" else "?") c)
     | .error e => (none, 0, .error e))
    = (some 0, 16 + 14 + 2 + 24 + 3 + 4 + 9,
       .ok [(0, 3, [("LE;", 10), ("Ljava/lang/Throwable;", 14)]),
            (8, 13, [("LE;", 10), ("Ljava/lang/Throwable;", 14)]),
            (4, 5, [("?", 8589934590)])]) := by
  rfl

/-- a dangling handler offset (4 instead of 3) in the same item -/
example :
    (match parseCode (codeItem exHdr 7 exInsns
        ⟨exPlan.listSize, exPlan.handlers, [⟨0, 2, 0, 4⟩, ⟨2, 1, 1, 7⟩]⟩) with
     | .ok c => determineException (fun _ => "?") c
     | .error e => .error e)
    = .error .indexError := by
  rfl

end AgVerif.C08
