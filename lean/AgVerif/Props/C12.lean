/-
C12 — Every instruction inside a try range carries that range's handlers.
Property theorems only (lemmas: AgVerif/Proof/Cfg.lean, AgVerif/Proof/CfgSpec.lean).

Model: AgVerif.Cfg.excOf = `Exceptions.get_exception(b.start, b.end - 1)` as the code is today
(containment test), over the blocks of `_create_basic_block`.
The full statement is FALSE of the code (defect D6, known finding `try-ends-inside-later-block`):
`exc_complete_refuted` is the kernel-checked counterexample; `exc_complete_partial` proves
completeness for every other shape; `exc_sound` is proved in full.
Hypotheses are the verifier's: instructions have ≥ 1 code unit, targets / try starts / handlers
inside the method are instruction offsets, try ranges are non-empty and pairwise disjoint.
-/
import AgVerif.Proof.CfgSucc
namespace AgVerif.C12
open AgVerif.Cfg AgVerif.Spec.Cfg AgVerif.Gen.CfgOps

/-- the instruction at byte offset `o` lies inside try range `e` -/
def Covers (e : Exc) (o : Nat) : Prop := covers e.start e.stop o

/-- No block reports a try range that covers none of its instructions: the reported range is one
    of the method's and it covers the block's first instruction. -/
theorem exc_sound {m : List Ins} {ex : List Exc} (hm : MinLen m) (hwf : WFTargets m ex)
    (hne : TriesNonEmpty ex) {b : Block} (hb : b ∈ blocks m ex) {e : Exc} (h : excOf ex b = some e) :
    e ∈ ex ∧ ∃ o ∈ blockOffsets b, Covers e o := by
  unfold excOf at h
  have he := List.mem_of_find?_eq_some h
  have hmatch := List.find?_some h
  have := match_covers_start hm hwf hne hb he hmatch
  exact ⟨he, b.start, start_mem_blockOffsets hb, this⟩

/-- Completeness, except for the one shape the code has no case for: a block containing an
    instruction covered by try range `e` reports exactly `e`, unless `e` starts before the block
    and ends before the block's last byte. -/
theorem exc_complete_partial {m : List Ins} {ex : List Exc} (hm : MinLen m) (hwf : WFTargets m ex)
    (hne : TriesNonEmpty ex) (hd : TriesDisjoint ex) {b : Block} (hb : b ∈ blocks m ex)
    {e : Exc} (he : e ∈ ex) {o : Nat} (ho : o ∈ blockOffsets b) (hc : Covers e o)
    (hshape : ¬ (e.start < (b.start : Int) ∧ e.stop < (b.stop : Int) - 1)) :
    excOf ex b = some e := by
  obtain ⟨hb1, hb2⟩ := blockOffsets_bounds hm hb ho
  obtain ⟨hc1, hc2⟩ := hc
  have hstart : e.start ≤ (b.start : Int) := by
    by_cases hlt : (b.start : Int) < e.start
    · exact absurd (try_start_not_inside hm hwf hb he hlt (by omega)) id
    · omega
  unfold excOf
  apply find?_unique _ ex e he
  · simp only [excMatch, Bool.or_eq_true, decide_eq_true_eq]
    by_cases h : (b.stop : Int) - 1 ≤ e.stop
    · right; omega
    · left; omega
  · intro e' he' hm'
    have := match_covers_start hm hwf hne hb he' hm'
    exact pairwise_eq_of_not hd e' he' e he (by omega) (by omega)

/-- "…and its handler blocks": the block `ExceptionAnalysis` attaches to a handler of a try range
    (`basic_blocks.get_basic_block(addr)`) is the block that STARTS at the handler address, whenever
    that address is the offset of an instruction; so the exception information a block reports lists,
    for each handler `(type, addr)` of its try range, `(type, addr, block starting at addr)`. -/
theorem handler_blocks {m : List Ins} {ex : List Exc} (hm : MinLen m) {e : Exc} (he : e ∈ ex)
    {h : Option Nat × Nat} (hh : h ∈ e.handlers) (ho : InsnOffsetM m h.2) :
    (getBlock (blocks m ex) (h.2 : Int)).map (·.start) = some h.2 ∧
    (h.1, h.2, some h.2) ∈ excHandlers (blocks m ex) e := by
  obtain ⟨b, _, hs, hg⟩ := handler_block_of hm he hh ho
  refine ⟨by simp [hg, hs], ?_⟩
  unfold excHandlers
  simp only [List.mem_map]
  exact ⟨h, hh, by simp [hg, hs]⟩

/-- The property's completeness half at full strength. -/
def exc_complete_full : Prop :=
  ∀ (m : List Ins) (ex : List Exc) (b : Block) (e : Exc) (o : Nat),
    MinLen m → WFTargets m ex → TriesNonEmpty ex → TriesDisjoint ex → b ∈ blocks m ex → e ∈ ex →
    o ∈ blockOffsets b → Covers e o → excOf ex b = some e

/-! Witness of D6: `nop; if-eqz v0,+3; nop; nop; nop; return-void` (offsets 0 2 6 8 10 12),
    one try range over bytes 0..9 with a catch-all handler at 12.
    The block 8..12 contains the covered instruction at 8 and reports no handlers. -/
def wM : List Ins :=
  [⟨2, 0x00, 0, 0, [], false⟩, ⟨4, 0x38, 3, 0, [], false⟩, ⟨2, 0x00, 0, 0, [], false⟩,
   ⟨2, 0x00, 0, 0, [], false⟩, ⟨2, 0x00, 0, 0, [], false⟩, ⟨2, 0x0e, 0, 0, [], false⟩]
def wE : Exc := ⟨0, 9, [(none, 12)]⟩
def wB : Block := ⟨8, [⟨2, 0x00, 0, 0, [], false⟩, ⟨2, 0x00, 0, 0, [], false⟩]⟩

theorem witness_wf : WFTargets wM [wE] := by
  intro o ho _
  have hl : leaders wM [wE] = [6, 8, -1, 0, 12] := by decide
  rw [hl] at ho
  simp only [List.mem_cons, List.not_mem_nil, or_false] at ho
  have h : o = 6 ∨ o = 8 ∨ o = 0 ∨ o = 12 := by omega
  rcases h with rfl | rfl | rfl | rfl
  · exact ⟨_, wM.take 2, wM.drop 3, rfl, rfl⟩
  · exact ⟨_, wM.take 3, wM.drop 4, rfl, rfl⟩
  · exact ⟨_, [], wM.drop 1, rfl, rfl⟩
  · exact ⟨_, wM.take 5, [], rfl, rfl⟩

/-- The full statement is false of the code as it is (known finding, see the manifest). -/
theorem exc_complete_refuted : ¬ exc_complete_full := by
  intro h
  have := h wM [wE] wB wE 8 (by unfold MinLen; decide) witness_wf
    (by unfold TriesNonEmpty; decide) (by unfold TriesDisjoint; simp) (by decide) (by simp)
    (by decide) (by unfold Covers covers; decide)
  revert this
  decide

/-! Non-vacuity of `exc_sound` / `exc_complete_partial`: the first block of the same method. -/
example : excOf [wE] ⟨0, [⟨2, 0x00, 0, 0, [], false⟩, ⟨4, 0x38, 3, 0, [], false⟩]⟩ = some wE := by decide
example : (blocks wM [wE]).map (fun b => (b.start, b.stop)) = [(0, 6), (6, 8), (8, 12), (12, 14)] := by decide
example : (blocks wM [wE]).map (excOf [wE]) = [some wE, some wE, none, none] := by decide

example : (blocks wM [wE]).map (fun b => (excOf [wE] b).map (excHandlers (blocks wM [wE]))) =
    [some [(none, 12, some 12)], some [(none, 12, some 12)], none, none] := by decide

end AgVerif.C12
