/-
C22 — Decompilation output is deterministic (hash seed, memory layout, earlier work).
Property theorems only (lemmas: AgVerif/Proof/Order.lean; model: AgVerif/Model/Order.lean;
generated site list: AgVerif/Gen/OrderSites.lean, rebuilt from androguard/decompiler/*.py each run).

Reading guide.  A Python set is enumerated in some permutation `σ` of its elements.
  * `…_order_irrelevant`  : σ₁ ~ σ₂ → f σ₁ = f σ₂                (the site cannot leak the layout)
  * `…_order_matters`     : two permutations with different results, with the exact condition
                            (the legacy sites of defect D10; kernel-checked)
  * `…_fixed_…`           : the repaired site takes no enumeration at all, and what it returns is one
                            of the enumerations the legacy code could have produced (refinement).
  * `sites_covered`       : every hash-iteration site the AST scan finds in the tree under test is one
                            of the sites proved order-irrelevant here (a new or edited site breaks this).
The whole-pipeline statement ("the text is a function of the bytecode only") is NOT a theorem here:
the rest of the decompiler is assumed deterministic given deterministic inputs (lists and dicts are
ordered in CPython); that part is covered by the search leg only.  See manifest/C22.json.
-/
import AgVerif.Proof.Order
namespace AgVerif.C22
open AgVerif.Order List

/-! ## tie to the code: the generated site list -/

/-- every hash-iteration site of the tree under test is a modelled, order-irrelevant one -/
theorem sites_covered : ∀ s ∈ Gen.OrderSites.sites, s ∈ modelled.map Prod.fst := by decide

/-- none of the order-dependent sites of defect D10 is present any more -/
theorem legacy_sites_gone :
    ∀ s ∈ Gen.OrderSites.sites, (s.file, s.func, s.expr) ∉ legacySites := by decide

/-- the ordered containers of the repairs are in place -/
theorem repairs_present : ∀ r ∈ repairs, r ∈ Gen.OrderSites.orderedSites := by decide

/-- no module-level or class-level state of the decompiler package is mutated by its functions
    (nothing is carried from one decompiled method to the next through globals) -/
theorem no_cross_method_state : Gen.OrderSites.globalMutations = [] := by decide

/-! ## A1 compute_end -/

/-- `compute_end` does not depend on the enumeration when at most one node of the interval has a
    successor outside -/
theorem compute_end_order_irrelevant {α} [BEq α] [LawfulBEq α] (sucs : α → List α) (head : α)
    {σ₁ σ₂ : List α} (h : σ₁ ~ σ₂) (h1 : (σ₁.filter (hasOutside sucs σ₁)).length ≤ 1) :
    computeEnd sucs head σ₁ = computeEnd sucs head σ₂ := by
  have hp : hasOutside sucs σ₂ = hasOutside sucs σ₁ := funext fun x => (hasOutside_perm sucs h x).symm
  simp only [computeEnd, lastSat_eq, hp]
  have hf := h.filter (hasOutside sucs σ₁)
  have : σ₁.filter (hasOutside sucs σ₁) = σ₂.filter (hasOutside sucs σ₁) := by
    match hl : σ₁.filter (hasOutside sucs σ₁), h1 with
    | [], _ => rw [hl] at hf; exact hf.symm.eq_nil.symm
    | [a], _ => rw [hl] at hf; exact (perm_singleton.mp hf.symm).symm
    | _ :: _ :: _, h1 => simp at h1
  rw [this]

/-- exact condition for the legacy site: two distinct nodes of the interval with an outside
    successor ⇒ two memory layouts give two different `end` nodes -/
theorem compute_end_order_matters {α} [BEq α] [LawfulBEq α] (p : α → Bool) (head a b : α)
    (elems : List α) (ha : a ∈ elems) (hb : b ∈ elems) (hab : a ≠ b) (pa : p a = true) (pb : p b = true) :
    ∃ σ₁ σ₂, σ₁ ~ elems ∧ σ₂ ~ elems ∧ lastSat p head σ₁ ≠ lastSat p head σ₂ := by
  refine ⟨elems.erase a ++ [a], elems.erase b ++ [b], ?_, ?_, ?_⟩
  · exact (perm_append_singleton a _).trans (perm_cons_erase ha).symm
  · exact (perm_append_singleton b _).trans (perm_cons_erase hb).symm
  · rw [lastSat_append_sat p head a _ pa, lastSat_append_sat p head b _ pb]; exact hab

/-- concrete instance on the real definition: interval {1,2}, both with a successor outside (3) -/
theorem compute_end_witness :
    computeEnd (fun n : Nat => if n = 1 then [2, 3] else if n = 2 then [3] else []) 1 [1, 2]
      ≠ computeEnd (fun n : Nat => if n = 1 then [2, 3] else if n = 2 then [3] else []) 1 [2, 1] := by
  decide

/-! ## A2 loop_nodes / loop_follow -/

/-- a set with two distinct elements has two distinct enumerations: every site that materialises
    the enumeration as a list (`list({…})`, `list(set(…))`) hands the layout to its consumer -/
theorem materialise_order_matters {α} [BEq α] [LawfulBEq α] (a b : α) (elems : List α)
    (ha : a ∈ elems) (hb : b ∈ elems) (hab : a ≠ b) :
    ∃ σ₁ σ₂, σ₁ ~ elems ∧ σ₂ ~ elems ∧ loopNodesLegacy σ₁ ≠ loopNodesLegacy σ₂ := by
  refine ⟨a :: elems.erase a, b :: elems.erase b, (perm_cons_erase ha).symm, (perm_cons_erase hb).symm, ?_⟩
  simp [loopNodesLegacy, hab]

/-- the consumer is order-sensitive: `loop_follow` on an endless loop whose nodes 1 and 2 are both
    conditionals with an exit (1: true→10 (num 5), false→11 (num 3); 2: true→12 (num 4)); the
    `if … elif …` running minimum returns node 12 for the order [1,2] and node 11 for [2,1] -/
theorem loop_follow_order_matters :
    let info : Nat → LNode := fun n =>
      if n = 1 then ⟨true, 10, 11⟩ else if n = 2 then ⟨true, 12, 1⟩ else ⟨false, 0, 0⟩
    let num : Nat → Nat := fun n => if n = 10 then 5 else if n = 11 then 3 else if n = 12 then 4 else n
    loopFollowEndless info num [1, 2] = some 12 ∧ loopFollowEndless info num [2, 1] = some 11 := by
  decide

/-- repaired: the new loop_nodes list is a function of the old list and the node map only, and it is
    one of the enumerations of the set the legacy code built -/
theorem loop_nodes_fixed_enumerates {α} [BEq α] [LawfulBEq α] (nmap : α → α) (loopNodes : List α) :
    EnumOf (loopNodes.map nmap) (loopNodesFixed nmap loopNodes) :=
  enumOf_dedup _

/-! ## A3 var_to_declare -/

/-- exact condition for the legacy site: two variables declared at one node whose declaration lines
    differ ⇒ two layouts print them in two different orders -/
theorem declarations_order_matters {α β} [BEq α] [LawfulBEq α] (render : α → β) (a b : α) (elems : List α)
    (ha : a ∈ elems) (hb : b ∈ elems) (hab : render a ≠ render b) :
    ∃ σ₁ σ₂, σ₁ ~ elems ∧ σ₂ ~ elems ∧ declLinesLegacy render σ₁ ≠ declLinesLegacy render σ₂ := by
  refine ⟨a :: elems.erase a, b :: elems.erase b, (perm_cons_erase ha).symm, (perm_cons_erase hb).symm, ?_⟩
  simp [declLinesLegacy, hab]

/-- a single declaration (or none) cannot be reordered -/
theorem declarations_order_irrelevant_of_le_one {α β} (render : α → β) {σ₁ σ₂ : List α}
    (h : σ₁ ~ σ₂) (h1 : σ₁.length ≤ 1) : declLinesLegacy render σ₁ = declLinesLegacy render σ₂ := by
  match σ₁, h1 with
  | [], _ => rw [h.symm.eq_nil]
  | [a], _ => rw [perm_singleton.mp h.symm]
  | _ :: _ :: _, h1 => simp at h1

/-- repaired: the declarations are printed in the order of the `add_variable_declaration` calls
    (first call wins), which enumerates the same set of variables -/
theorem declarations_fixed_enumerates {α β} [BEq α] [LawfulBEq α] (render : α → β) (adds : List α) :
    declLinesFixed render adds = (dedup adds).map render ∧ EnumOf adds (addAll adds) := by
  refine ⟨by simp [declLinesFixed, addAll_eq_dedup], ?_⟩
  rw [addAll_eq_dedup]; exact enumOf_dedup adds

/-! ## A4 MergeNodes -/

/-- the successor list of the merged node is the enumeration of `ldests` (two destinations that the
    node map keeps apart) — so it differs between layouts … -/
theorem merge_succs_order_matters :
    mergeSuccsLegacy (fun n : Nat => n) [3, 4] ≠ mergeSuccsLegacy (fun n : Nat => n) [4, 3] := by decide

/-- … and the difference is observable: the post-order (hence the RPO numbering every later pass
    and the writer use) of the graph 1→{3,4}, 3→5, 4→5 depends on the successor order of node 1 -/
theorem merge_succs_order_observable :
    postOrder (fun n => if n = 1 then mergeSuccsLegacy id [3, 4] else if n = 3 ∨ n = 4 then [5] else []) 1 20
      ≠ postOrder (fun n => if n = 1 then mergeSuccsLegacy id [4, 3] else if n = 3 ∨ n = 4 then [5] else []) 1 20 := by
  decide

/-- repaired: `lpreds`/`ldests` list exactly the predecessors/successors of the two merged nodes
    other than the two nodes themselves, each once, in an order fixed by the adjacency lists -/
theorem merge_collect_fixed_enumerates {α} [BEq α] [LawfulBEq α] (l1 l2 : List α) (n1 n2 : α) :
    (collectFixed l1 l2 n1 n2).Nodup ∧
      ∀ x, x ∈ collectFixed l1 l2 n1 n2 ↔ (x ∈ l1 ∨ x ∈ l2) ∧ x ≠ n1 ∧ x ≠ n2 := by
  refine ⟨(nodup_dedup _).filter _, fun x => ?_⟩
  simp [collectFixed, mem_filter, mem_dedup]

/-! ## A5 get_used_vars -/

/-- repaired: first-use order, the same set of registers/temporaries -/
theorem used_vars_fixed_enumerates {α} [BEq α] [LawfulBEq α] (lused : List α) :
    EnumOf lused (usedVarsFixed lused) := enumOf_dedup _

/-- legacy: two distinct used variables ⇒ two hash seeds list them in two orders -/
theorem used_vars_order_matters {α} [BEq α] [LawfulBEq α] (a b : α) (elems : List α)
    (ha : a ∈ elems) (hb : b ∈ elems) (hab : a ≠ b) :
    ∃ σ₁ σ₂, σ₁ ~ elems ∧ σ₂ ~ elems ∧ usedVarsLegacy σ₁ ≠ usedVarsLegacy σ₂ :=
  materialise_order_matters a b elems ha hb hab

/-! ## B the set iterations that remain -/

/-- B1: a loop whose body reads and writes only the state of the visited element -/
theorem independent_updates_order_irrelevant {α β : Type} [DecidableEq α] (g : α → β → β) (st : α → β)
    {σ₁ σ₂ : List α} (h : σ₁ ~ σ₂) : applyEach g st σ₁ = applyEach g st σ₂ := by
  unfold applyEach
  exact h.foldl_eq' (fun x _ y _ z => upd_comm z x y g) st

/-- B2: `place_declarations` — pop one definition node and fold `common_dom` over the rest.
    Hypotheses: `common_dom idom` is commutative and associative (it is the least common ancestor in
    the dominator tree; checked against the real `util.common_dom` by the correspondence). -/
theorem place_declarations_order_irrelevant {α} (op : α → α → α) (hc : ∀ a b, op a b = op b a)
    (ha : ∀ a b c, op (op a b) c = op a (op b c)) {σ₁ σ₂ : List α} (h : σ₁ ~ σ₂) :
    popFold op σ₁ = popFold op σ₂ := by
  unfold popFold
  exact h.foldl_eq' (fun x _ y _ z => popStep_comm op hc ha z x y) none

/-- B3: step 2 of `dom_lt` — a running minimum -/
theorem semi_min_order_irrelevant {α} (ev : α → Nat) (s0 : Nat) {σ₁ σ₂ : List α} (h : σ₁ ~ σ₂) :
    semiMin ev s0 σ₁ = semiMin ev s0 σ₂ := by
  unfold semiMin
  exact h.foldl_eq' (fun x _ y _ z => by omega) s0

/-- B4: `build_def_use` — the latest definition before `i` inside the node -/
theorem prior_def_order_irrelevant (i : Int) {σ₁ σ₂ : List Int} (h : σ₁ ~ σ₂) :
    priorDef i σ₁ = priorDef i σ₂ := by
  unfold priorDef
  refine h.foldl_eq' (fun x _ y _ z => ?_) (-1)
  repeat' split
  all_goals omega

/-- B5: `BasicReachDef.run` — the surviving definitions form the same set -/
theorem survivors_order_irrelevant {α} (killed : α → Bool) {σ₁ σ₂ : List α} (h : σ₁ ~ σ₂) :
    survivors killed σ₁ ~ survivors killed σ₂ ∧ ∀ x, x ∈ survivors killed σ₁ ↔ x ∈ survivors killed σ₂ :=
  ⟨h.filter _, fun _ => (h.filter _).mem_iff⟩

/-! ## non-vacuity -/

-- a permutation that is not the identity satisfies the hypotheses of the B theorems
example : applyEach (fun (x : Nat) (old : Nat) => old + x) (fun _ => 0) [1, 2, 3] 2
    = applyEach (fun (x : Nat) (old : Nat) => old + x) (fun _ => 0) [3, 1, 2] 2 :=
  congrFun (independent_updates_order_irrelevant _ _ (by decide : [1, 2, 3] ~ [3, 1, 2])) 2
example : applyEach (fun (x : Nat) (old : Nat) => old + x) (fun _ => 0) [1, 2, 3] 2 = 2 := by decide
-- `min` is an instance of the B2 hypotheses; common_dom on the chain idom n = n-1 is `min`
example : popFold Nat.min [4, 2, 7] = some 2 := by decide
example : popFold Nat.min [7, 4, 2] = popFold Nat.min [2, 7, 4] :=
  place_declarations_order_irrelevant Nat.min Nat.min_comm Nat.min_assoc (by decide)
example : commonDom (fun n => n - 1) 20 7 4 = 4 := by decide
-- common_dom on the tree 1←2, 1←3, 3←4, 3←5
example : commonDom (fun n => if n = 2 then 1 else if n = 3 then 1 else if n = 4 then 3 else if n = 5 then 3 else 0)
    20 4 5 = 3 := by decide
example : semiMin (fun x : Nat => x * 2) 9 [3, 1, 2] = 2 := by decide
example : priorDef 10 [3, 12, 7, 5] = 7 ∧ priorDef 10 [7, 5, 12, 3] = 7 := by decide
example : survivors (fun x : Nat => x == 2) [1, 2, 3] = [1, 3] := by decide
-- the A1 hypothesis is satisfiable with a real outside successor
example : ([1, 2].filter (hasOutside (fun n : Nat => if n = 2 then [3] else [2]) [1, 2])).length ≤ 1 := by decide
example : computeEnd (fun n : Nat => if n = 2 then [3] else [2]) 1 [1, 2] = 2 := by decide
-- the repaired containers on concrete data
example : loopNodesFixed (fun n : Nat => if n = 5 then 9 else n) [5, 2, 9, 2] = [9, 2] := by decide
example : addAll [3, 1, 3, 2, 1] = [3, 1, 2] := by decide
example : collectFixed [7, 1] [1, 8, 2] 1 2 = [7, 8] := by decide
example : mergeSuccsFixed (fun n : Nat => n) [2, 3] [3, 4] 1 2 = [3, 4] := by decide
example : modelled.length = 16 ∧ Gen.OrderSites.sites.length = 16 := by decide

end AgVerif.C22
