/-
C22 — Decompilation output is deterministic (hash seed, memory layout, earlier work).
Property theorems only (lemmas: AgVerif/Proof/Order.lean; model: AgVerif/Model/Order.lean;
generated site list: AgVerif/Gen/OrderSites.lean, rebuilt from androguard/decompiler/*.py each run).

Reading guide.  A Python set is enumerated in some permutation `σ` of its elements.
  * `…_order_irrelevant`  : σ₁ ~ σ₂ → f σ₁ = f σ₂                (the site cannot leak the layout)
  * `…_order_matters`     : two permutations with different results, with the exact condition
                            (the legacy sites of defect D10; kernel-checked)
  * `…_fixed_…`           : the repaired site takes no enumeration at all, and what it returns is one
                            of the enumerations the legacy code could have produced (refinement).
  * `sites_covered`       : every hash-iteration site the AST scan finds in the tree under test is one
                            of the sites proved order-irrelevant here (a new or edited site breaks this).
  * B2 deepened         : `common_dom` is proved to return the nearest common dominator on every dominator
                            tree numbered idom-first (Proof/CommonDom.lean), in particular for the `dom_lt`
                            model of C18 (any set order) with the `compute_rpo` numbers of C19
                            (Proof/RpoDom.lean): `place_declarations_order_irrelevant_domtree/_real` have no
                            algebraic hypotheses; `dom_lt_order_irrelevant` is the corollary of C18 for B3;
                            `loop_follow_order_irrelevant` is the positive half of A2 (Proof/LoopFollow.lean).
  * intervals           : `control_flow.intervals` (Model/Intervals.lean, Proof/Intervals.lean) is total and its
                            partition is order-free: `intervals_spec`, `intervals_partition_order_irrelevant`.
  * derived_sequence    : modelled line by line (Model/DerivedSeq.lean, tied by stream site-dseq); proved to
                            terminate with an explicit bound (`derived_sequence_terminates`, measure
                            `interval_graph_fewer_edges`, `interval_graph_wellformed`, `intervals_disjoint`) and to
                            depend on the numbering / predecessor-list order only in the insertion order of the
                            first-level contents (`derived_sequence_order_irrelevant`); the insertion order of
                            `graph.nodes` matters (`derived_sequence_nodes_order_matters`).
  * if_struct           : modelled whole (Model/IfStruct.lean, stream site-ifst) with the enumeration of the set
                            `unresolved` and the order of the dict `idoms` as parameters; `if_struct_order_irrelevant`
                            (+ `_rpo` for the `compute_rpo` numbers of C19), `if_follow_tie_order_matters`.
  * switch_struct       : the same for Model/SwitchStruct.lean (stream site-swst): `switch_struct_order_irrelevant`.
  * class "independent" : the link site → theorem is the hand-written label of `Order.modelled`; for the sites of
                            that class the loop bodies are now written out as functions of the visited element
                            (Model/LoopBodies.lean; `to_update_order_irrelevant`, `if_unresolved_order_irrelevant`),
                            the dom_lt bucket loop is inside the C18 model (`dom_lt_order_irrelevant`).
The whole-pipeline statement ("the text is a function of the bytecode only") is NOT a theorem here:
the rest of the decompiler is assumed deterministic given deterministic inputs (lists and dicts are
ordered in CPython); that part is covered by the search leg only.  See manifest/C22.json.
-/
import AgVerif.Proof.Order
import AgVerif.Proof.LoopFollow
import AgVerif.Proof.RpoDom
import AgVerif.Proof.Intervals
import AgVerif.Proof.DerivedSeq
import AgVerif.Proof.IfStruct
import AgVerif.Proof.SwitchStruct
import AgVerif.Model.LoopBodies
namespace AgVerif.C22
open AgVerif.Order List
open AgVerif.Spec (Reach Dominates SDom)
open AgVerif.CommonDom (NCD Ctx)

/-! ## tie to the code: the generated site list -/

/-- every hash-iteration site of the tree under test is a modelled, order-irrelevant one -/
theorem sites_covered : ∀ s ∈ Gen.OrderSites.sites, s ∈ modelled.map Prod.fst := by decide

/-- none of the order-dependent sites of defect D10 is present any more -/
theorem legacy_sites_gone :
    ∀ s ∈ Gen.OrderSites.sites, (s.file, s.func, s.expr) ∉ legacySites := by decide

/-- the ordered containers of the repairs are in place -/
theorem repairs_present : ∀ r ∈ repairs, r ∈ Gen.OrderSites.orderedSites := by decide

/-- no module-level or class-level state of the decompiler package is mutated by its functions
    (nothing is carried from one decompiled method to the next through globals) -/
theorem no_cross_method_state : Gen.OrderSites.globalMutations = [] := by decide

/-- every in-place mutation of a value fetched from a DvMethod/DvClass attribute of another object is the
    one classified in `knownAliasMutations` (a new shared-mutable-state path breaks this) … -/
theorem alias_mutations_classified :
    ∀ m ∈ Gen.OrderSites.aliasMutations, m ∈ knownAliasMutations := by decide

/-- … and the assumption that makes it harmless holds of the tree under test: the `access` lists are
    produced fresh on every call (not memoised) and stored directly, so no two DvMethod/DvClass objects
    share one (together with `no_cross_method_state`, whose list also contains every function memoised with
    lru_cache/cache that returns a mutable container) -/
theorem access_lists_are_fresh : Gen.OrderSites.accessSources = expectedAccessSources := by decide

/-- the variable state of a DvMethod cannot survive into a later `process()` call on the same object:
    the re-initialisation at the top of `process()` is unconditional (not tied to a previous call having
    produced output, which an aborted call never does) -/
theorem process_reinitialises_unconditionally :
    Gen.OrderSites.processReinit = expectedProcessReinit := by decide

/-! ## A1 compute_end -/

/-- `compute_end` does not depend on the enumeration when at most one node of the interval has a
    successor outside -/
theorem compute_end_order_irrelevant {α} [BEq α] [LawfulBEq α] (sucs : α → List α) (head : α)
    {σ₁ σ₂ : List α} (h : σ₁ ~ σ₂) (h1 : (σ₁.filter (hasOutside sucs σ₁)).length ≤ 1) :
    computeEnd sucs head σ₁ = computeEnd sucs head σ₂ := by
  have hp : hasOutside sucs σ₂ = hasOutside sucs σ₁ := funext fun x => (hasOutside_perm sucs h x).symm
  simp only [computeEnd, lastSat_eq, hp]
  have hf := h.filter (hasOutside sucs σ₁)
  have : σ₁.filter (hasOutside sucs σ₁) = σ₂.filter (hasOutside sucs σ₁) := by
    match hl : σ₁.filter (hasOutside sucs σ₁), h1 with
    | [], _ => rw [hl] at hf; exact hf.symm.eq_nil.symm
    | [a], _ => rw [hl] at hf; exact (perm_singleton.mp hf.symm).symm
    | _ :: _ :: _, h1 => simp at h1
  rw [this]

/-- exact condition for the legacy site: two distinct nodes of the interval with an outside
    successor ⇒ two memory layouts give two different `end` nodes -/
theorem compute_end_order_matters {α} [BEq α] [LawfulBEq α] (p : α → Bool) (head a b : α)
    (elems : List α) (ha : a ∈ elems) (hb : b ∈ elems) (hab : a ≠ b) (pa : p a = true) (pb : p b = true) :
    ∃ σ₁ σ₂, σ₁ ~ elems ∧ σ₂ ~ elems ∧ lastSat p head σ₁ ≠ lastSat p head σ₂ := by
  refine ⟨elems.erase a ++ [a], elems.erase b ++ [b], ?_, ?_, ?_⟩
  · exact (perm_append_singleton a _).trans (perm_cons_erase ha).symm
  · exact (perm_append_singleton b _).trans (perm_cons_erase hb).symm
  · rw [lastSat_append_sat p head a _ pa, lastSat_append_sat p head b _ pb]; exact hab

/-- concrete instance on the real definition: interval {1,2}, both with a successor outside (3) -/
theorem compute_end_witness :
    computeEnd (fun n : Nat => if n = 1 then [2, 3] else if n = 2 then [3] else []) 1 [1, 2]
      ≠ computeEnd (fun n : Nat => if n = 1 then [2, 3] else if n = 2 then [3] else []) 1 [2, 1] := by
  decide

/-! ## A2 loop_nodes / loop_follow -/

/-- a set with two distinct elements has two distinct enumerations: every site that materialises
    the enumeration as a list (`list({…})`, `list(set(…))`) hands the layout to its consumer -/
theorem materialise_order_matters {α} [BEq α] [LawfulBEq α] (a b : α) (elems : List α)
    (ha : a ∈ elems) (hb : b ∈ elems) (hab : a ≠ b) :
    ∃ σ₁ σ₂, σ₁ ~ elems ∧ σ₂ ~ elems ∧ loopNodesLegacy σ₁ ≠ loopNodesLegacy σ₂ := by
  refine ⟨a :: elems.erase a, b :: elems.erase b, (perm_cons_erase ha).symm, (perm_cons_erase hb).symm, ?_⟩
  simp [loopNodesLegacy, hab]

/-- the consumer is order-sensitive: `loop_follow` on an endless loop whose nodes 1 and 2 are both
    conditionals with an exit (1: true→10 (num 5), false→11 (num 3); 2: true→12 (num 4)); the
    `if … elif …` running minimum returns node 12 for the order [1,2] and node 11 for [2,1] -/
theorem loop_follow_order_matters :
    let info : Nat → LNode := fun n =>
      if n = 1 then ⟨true, 10, 11⟩ else if n = 2 then ⟨true, 12, 1⟩ else ⟨false, 0, 0⟩
    let num : Nat → Nat := fun n => if n = 10 then 5 else if n = 11 then 3 else if n = 12 then 4 else n
    loopFollowEndless info num [1, 2] = some 12 ∧ loopFollowEndless info num [2, 1] = some 11 := by
  decide

/-- repaired: the new loop_nodes list is a function of the old list and the node map only, and it is
    one of the enumerations of the set the legacy code built -/
theorem loop_nodes_fixed_enumerates {α} [BEq α] [LawfulBEq α] (nmap : α → α) (loopNodes : List α) :
    EnumOf (loopNodes.map nmap) (loopNodesFixed nmap loopNodes) :=
  enumOf_dedup _

/-! ## A3 var_to_declare -/

/-- exact condition for the legacy site: two variables declared at one node whose declaration lines
    differ ⇒ two layouts print them in two different orders -/
theorem declarations_order_matters {α β} [BEq α] [LawfulBEq α] (render : α → β) (a b : α) (elems : List α)
    (ha : a ∈ elems) (hb : b ∈ elems) (hab : render a ≠ render b) :
    ∃ σ₁ σ₂, σ₁ ~ elems ∧ σ₂ ~ elems ∧ declLinesLegacy render σ₁ ≠ declLinesLegacy render σ₂ := by
  refine ⟨a :: elems.erase a, b :: elems.erase b, (perm_cons_erase ha).symm, (perm_cons_erase hb).symm, ?_⟩
  simp [declLinesLegacy, hab]

/-- a single declaration (or none) cannot be reordered -/
theorem declarations_order_irrelevant_of_le_one {α β} (render : α → β) {σ₁ σ₂ : List α}
    (h : σ₁ ~ σ₂) (h1 : σ₁.length ≤ 1) : declLinesLegacy render σ₁ = declLinesLegacy render σ₂ := by
  match σ₁, h1 with
  | [], _ => rw [h.symm.eq_nil]
  | [a], _ => rw [perm_singleton.mp h.symm]
  | _ :: _ :: _, h1 => simp at h1

/-- repaired: the declarations are printed in the order of the `add_variable_declaration` calls
    (first call wins), which enumerates the same set of variables -/
theorem declarations_fixed_enumerates {α β} [BEq α] [LawfulBEq α] (render : α → β) (adds : List α) :
    declLinesFixed render adds = (dedup adds).map render ∧ EnumOf adds (addAll adds) := by
  refine ⟨by simp [declLinesFixed, addAll_eq_dedup], ?_⟩
  rw [addAll_eq_dedup]; exact enumOf_dedup adds

/-! ## A4 MergeNodes -/

/-- the successor list of the merged node is the enumeration of `ldests` (two destinations that the
    node map keeps apart) — so it differs between layouts … -/
theorem merge_succs_order_matters :
    mergeSuccsLegacy (fun n : Nat => n) [3, 4] ≠ mergeSuccsLegacy (fun n : Nat => n) [4, 3] := by decide

/-- … and the difference is observable: the post-order (hence the RPO numbering every later pass
    and the writer use) of the graph 1→{3,4}, 3→5, 4→5 depends on the successor order of node 1 -/
theorem merge_succs_order_observable :
    postOrder (fun n => if n = 1 then mergeSuccsLegacy id [3, 4] else if n = 3 ∨ n = 4 then [5] else []) 1 20
      ≠ postOrder (fun n => if n = 1 then mergeSuccsLegacy id [4, 3] else if n = 3 ∨ n = 4 then [5] else []) 1 20 := by
  decide

/-- repaired: `lpreds`/`ldests` list exactly the predecessors/successors of the two merged nodes
    other than the two nodes themselves, each once, in an order fixed by the adjacency lists -/
theorem merge_collect_fixed_enumerates {α} [BEq α] [LawfulBEq α] (l1 l2 : List α) (n1 n2 : α) :
    (collectFixed l1 l2 n1 n2).Nodup ∧
      ∀ x, x ∈ collectFixed l1 l2 n1 n2 ↔ (x ∈ l1 ∨ x ∈ l2) ∧ x ≠ n1 ∧ x ≠ n2 := by
  refine ⟨(nodup_dedup _).filter _, fun x => ?_⟩
  simp [collectFixed, mem_filter, mem_dedup]

/-! ## A5 get_used_vars -/

/-- repaired: first-use order, the same set of registers/temporaries -/
theorem used_vars_fixed_enumerates {α} [BEq α] [LawfulBEq α] (lused : List α) :
    EnumOf lused (usedVarsFixed lused) := enumOf_dedup _

/-- legacy: two distinct used variables ⇒ two hash seeds list them in two orders -/
theorem used_vars_order_matters {α} [BEq α] [LawfulBEq α] (a b : α) (elems : List α)
    (ha : a ∈ elems) (hb : b ∈ elems) (hab : a ≠ b) :
    ∃ σ₁ σ₂, σ₁ ~ elems ∧ σ₂ ~ elems ∧ usedVarsLegacy σ₁ ≠ usedVarsLegacy σ₂ :=
  materialise_order_matters a b elems ha hb hab

/-! ## B the set iterations that remain -/

/-- B1: a loop whose body reads and writes only the state of the visited element -/
theorem independent_updates_order_irrelevant {α β : Type} [DecidableEq α] (g : α → β → β) (st : α → β)
    {σ₁ σ₂ : List α} (h : σ₁ ~ σ₂) : applyEach g st σ₁ = applyEach g st σ₂ := by
  unfold applyEach
  exact h.foldl_eq' (fun x _ y _ z => upd_comm z x y g) st

/-- B2: `place_declarations` — pop one definition node and fold `common_dom` over the rest.
    Abstract form: any commutative and associative operation.  The hypotheses are discharged for the
    model of `util.common_dom` in the section "B2 deepened" below
    (`place_declarations_order_irrelevant_domtree`, `…_real`). -/
theorem place_declarations_order_irrelevant {α} (op : α → α → α) (hc : ∀ a b, op a b = op b a)
    (ha : ∀ a b c, op (op a b) c = op a (op b c)) {σ₁ σ₂ : List α} (h : σ₁ ~ σ₂) :
    popFold op σ₁ = popFold op σ₂ := by
  unfold popFold
  exact h.foldl_eq' (fun x _ y _ z => popStep_comm op hc ha z x y) none

/-- B3: step 2 of `dom_lt` — a running minimum over a pure `ev`; the real loop calls `_eval` with path
    compression: see `dom_lt_order_irrelevant` below for the whole of `dom_lt` -/
theorem semi_min_order_irrelevant {α} (ev : α → Nat) (s0 : Nat) {σ₁ σ₂ : List α} (h : σ₁ ~ σ₂) :
    semiMin ev s0 σ₁ = semiMin ev s0 σ₂ := by
  unfold semiMin
  exact h.foldl_eq' (fun x _ y _ z => by omega) s0

/-- B4: `build_def_use` — the latest definition before `i` inside the node -/
theorem prior_def_order_irrelevant (i : Int) {σ₁ σ₂ : List Int} (h : σ₁ ~ σ₂) :
    priorDef i σ₁ = priorDef i σ₂ := by
  unfold priorDef
  refine h.foldl_eq' (fun x _ y _ z => ?_) (-1)
  repeat' split
  all_goals omega

/-- B5: `BasicReachDef.run` — the surviving definitions form the same set -/
theorem survivors_order_irrelevant {α} (killed : α → Bool) {σ₁ σ₂ : List α} (h : σ₁ ~ σ₂) :
    survivors killed σ₁ ~ survivors killed σ₂ ∧ ∀ x, x ∈ survivors killed σ₁ ↔ x ∈ survivors killed σ₂ :=
  ⟨h.filter _, fun _ => (h.filter _).mem_iff⟩

/-! ## A2, positive half: when `loop_follow` is order-free -/

/-- `loop_follow` on a loop that is neither pre- nor post-tested does not depend on the enumeration of
    `nodes_in_loop` when every conditional node of the loop has at most one exit (`true` and `false`
    are not two different nodes outside the loop) and different exits carry different numbers.
    `loop_follow_order_matters` shows that the first condition cannot be dropped. -/
theorem loop_follow_order_irrelevant (info : Nat → LNode) (num : Nat → Nat) {σ₁ σ₂ : List Nat}
    (h : σ₁ ~ σ₂)
    (h1 : ∀ n ∈ σ₁, (info n).isCond = true →
      (info n).tru ∈ σ₁ ∨ (info n).fls ∈ σ₁ ∨ (info n).tru = (info n).fls)
    (hinj : ∀ a ∈ σ₁, ∀ b ∈ σ₁, ∀ x ∈ exitsOf info σ₁ a, ∀ y ∈ exitsOf info σ₁ b, num x = num y → x = y) :
    loopFollowEndless info num σ₁ = loopFollowEndless info num σ₂ :=
  loopFollowEndless_perm info num h h1 hinj

/-! ## B2 deepened: `common_dom` on a dominator tree, without algebraic hypotheses

`Ctx g t num` (Proof/CommonDom.lean) packages the hypotheses: `g.WF`, `IsDomTree g t` (t is the textbook
dominator tree), `t v = some d → num d < num v`, and `num` injective on the reachable nodes.  The two
theorems below establish it from decidable checks, and for the real `dom_lt` / `compute_rpo` models. -/

/-- the hypotheses hold for every claimed tree and numbering that pass the decidable checks -/
theorem common_dom_ctx_of_checks (g : Digraph) (t : Nat → Option Nat) (num : Nat → Nat)
    (hwf : g.wfb = true) (ht : DomRef.checkDomTree g t = true)
    (hup : ∀ v, v < g.n → ∀ d, t v = some d → num d < num v)
    (hinj : ∀ u v, u < g.n → v < g.n → Reach g.Edge g.entry u → Reach g.Edge g.entry v →
      num u = num v → u = v) : Ctx g t num :=
  CommonDom.ctx_of_checks hwf ht hup hinj

/-- in the reverse post-order of `compute_rpo` (model of C19) a strict dominator of a reachable node is
    numbered before the node: the walk `pred = idom[pred]` of `common_dom` goes towards smaller numbers -/
theorem rpo_numbers_dominators_first (g : Digraph) (hwf : g.WF) (rp : Rpo.Result)
    (h : Rpo.computeRpo g = some rp) (d v : Nat) (hv : Reach g.Edge g.entry v)
    (hd : SDom g.Edge g.entry d v) : rp.num d < rp.num v :=
  CommonDom.rpo_dom_num hwf h hv hd

/-- the hypotheses hold for what the decompiler passes to `common_dom`: the dict returned by `dom_lt`
    (model of C18, for EVERY enumeration order of its sets) and the numbers of `compute_rpo` (C19) -/
theorem common_dom_ctx_real (g : Digraph) (hwf : g.WF) (o : DomLT.Order) (ho : o.Adm)
    (r : DomLT.Result) (hr : DomLT.domLTWith o g = some r) (rp : Rpo.Result)
    (hp : Rpo.computeRpo g = some rp) : Ctx g r.idom rp.num :=
  CommonDom.ctx_real hwf o ho hr hp

/-- `common_dom(idom, a, b)` terminates without error and returns the nearest common dominator of `a`
    and `b` (it dominates both, and every common dominator dominates it) -/
theorem common_dom_is_nearest_common_dominator (g : Digraph) (t : Nat → Option Nat) (num : Nat → Nat)
    (C : Ctx g t num) (fuel a b : Nat) (ha : Reach g.Edge g.entry a) (hb : Reach g.Edge g.entry b)
    (hf : num a + num b < fuel) :
    ∃ c, commonDomG t num fuel a b = some c ∧ NCD g.Edge g.entry c [a, b] :=
  C.commonDomG_spec fuel a b ha hb hf

/-- hence it is commutative … -/
theorem common_dom_comm (g : Digraph) (t : Nat → Option Nat) (num : Nat → Nat) (C : Ctx g t num)
    (fuel a b : Nat) (ha : Reach g.Edge g.entry a) (hb : Reach g.Edge g.entry b)
    (hf : num a + num b < fuel) : commonDomG t num fuel a b = commonDomG t num fuel b a :=
  C.commonDomG_comm ha hb hf

/-- … associative … -/
theorem common_dom_assoc (g : Digraph) (t : Nat → Option Nat) (num : Nat → Nat) (C : Ctx g t num)
    (fuel a b c : Nat) (ha : Reach g.Edge g.entry a) (hb : Reach g.Edge g.entry b)
    (hc : Reach g.Edge g.entry c) (fa : 2 * num a < fuel) (fb : 2 * num b < fuel) (fc : 2 * num c < fuel) :
    (commonDomG t num fuel a b).bind (fun x => commonDomG t num fuel x c)
      = (commonDomG t num fuel b c).bind (fun y => commonDomG t num fuel a y) :=
  C.commonDomG_assoc ha hb hc fa fb fc

/-- … and idempotent (this one needs no hypothesis) -/
theorem common_dom_idem (t : Nat → Option Nat) (num : Nat → Nat) (fuel a : Nat) :
    commonDomG t num (fuel + 1) a a = some a :=
  CommonDom.commonDomG_idem t num fuel a

/-- `place_declarations`: for a non-empty set of reachable definition nodes, enumerated in any order,
    the pop-and-fold terminates without error and returns the nearest common dominator of the set -/
theorem place_declarations_returns_ncd (g : Digraph) (t : Nat → Option Nat) (num : Nat → Nat)
    (C : Ctx g t num) (fuel : Nat) (σ : List Nat) (hne : σ ≠ [])
    (hr : ∀ a ∈ σ, Reach g.Edge g.entry a) (hf : ∀ a ∈ σ, 2 * num a < fuel) :
    ∃ c, popFoldM (commonDomG t num fuel) σ = some c ∧ NCD g.Edge g.entry c σ :=
  C.popFoldM_spec fuel σ hne hr hf

/-- B2 without the algebraic hypotheses of `place_declarations_order_irrelevant` -/
theorem place_declarations_order_irrelevant_domtree (g : Digraph) (t : Nat → Option Nat) (num : Nat → Nat)
    (C : Ctx g t num) (fuel : Nat) {σ₁ σ₂ : List Nat} (h : σ₁ ~ σ₂)
    (hr : ∀ a ∈ σ₁, Reach g.Edge g.entry a) (hf : ∀ a ∈ σ₁, 2 * num a < fuel) :
    popFoldM (commonDomG t num fuel) σ₁ = popFoldM (commonDomG t num fuel) σ₂ :=
  C.popFoldM_perm fuel h hr hf

/-- end to end over the three models: two runs on the same graph, `dom_lt` enumerating `pred[w]` /
    `bucket[pw]` in the admissible orders `o₁` / `o₂` and `place_declarations` enumerating `def_nodes`
    as `σ₁` / `σ₂`, with the numbers of `compute_rpo`, choose the same declaration node -/
theorem place_declarations_order_irrelevant_real (g : Digraph) (hwf : g.WF) (o₁ o₂ : DomLT.Order)
    (h₁ : o₁.Adm) (h₂ : o₂.Adm) (r₁ r₂ : DomLT.Result) (hr₁ : DomLT.domLTWith o₁ g = some r₁)
    (hr₂ : DomLT.domLTWith o₂ g = some r₂) (rp : Rpo.Result) (hp : Rpo.computeRpo g = some rp)
    (fuel : Nat) {σ₁ σ₂ : List Nat} (h : σ₁ ~ σ₂) (hr : ∀ a ∈ σ₁, Reach g.Edge g.entry a)
    (hf : ∀ a ∈ σ₁, 2 * rp.num a < fuel) :
    popFoldM (commonDomG r₁.idom rp.num fuel) σ₁ = popFoldM (commonDomG r₂.idom rp.num fuel) σ₂ :=
  CommonDom.popFoldM_real hwf o₁ o₂ h₁ h₂ hr₁ hr₂ hp fuel h hr hf

/-! ## B3 deepened: the two set iterations of `dom_lt` -/

/-- `dom_lt` as a whole (line-by-line model with `_eval`/`_compress` and their path compression, C18):
    for any two admissible enumeration orders of `pred[w]` and `bucket[pw]` both runs terminate without
    error and return the same dict.  This replaces the purity hypothesis behind
    `semi_min_order_irrelevant` (its `ev` is a pure function) and the B1 reading of the bucket loop. -/
theorem dom_lt_order_irrelevant (o₁ o₂ : DomLT.Order) (h₁ : o₁.Adm) (h₂ : o₂.Adm) (g : Digraph)
    (hwf : g.WF) :
    ∃ r₁ r₂, DomLT.domLTWith o₁ g = some r₁ ∧ DomLT.domLTWith o₂ g = some r₂ ∧ ∀ v, r₁.dom v = r₂.dom v := by
  obtain ⟨r₁, e1, a2, a3, a4⟩ := DomLT.domLTWith_correct o₁ h₁ g hwf
  obtain ⟨r₂, e2, b2, b3, b4⟩ := DomLT.domLTWith_correct o₂ h₂ g hwf
  refine ⟨r₁, r₂, e1, e2, fun v => ?_⟩
  by_cases hv : v = g.entry
  · rw [hv, a2, b2]
  · by_cases hr : Reach g.Edge g.entry v
    · obtain ⟨d, hd, hi⟩ := a3 v hv hr
      obtain ⟨d', hd', hi'⟩ := b3 v hv hr
      rw [hd, hd', Spec.idom_unique hr hi hi']
    · rw [a4 v hr, b4 v hr]

/-! ## `intervals` / `derived_sequence`: list iteration in rpo order

`control_flow.intervals` iterates only over lists (`graph.rpo[1:]`, `graph.nodes`, adjacency lists) and
insertion-ordered dicts; it is not a hash-iteration site.  The theorems say what its result depends on:
the interval PARTITION (which nodes are headers, which nodes belong to the interval of a header) is a
function of the predecessor relation and the entry alone; the two list orders (hence the numbering)
only decide insertion orders (of `interv_heads` and of each `Interval.content`, read by site A1). -/

/-- the model of `intervals` terminates on every input (both `while` loops) -/
theorem intervals_total (preds : Nat → List Nat) (order nodes : List Nat) (entry : Nat) :
    ∃ res, Intervals.intervals preds order nodes entry = some res :=
  Intervals.intervals_total preds order nodes entry

/-- what it returns, stated without any order: the keys are exactly the headers (least set containing
    the entry and every node outside a header's interval with a predecessor inside it), each once, and a
    header is mapped to a duplicate-free list of exactly its interval (least set containing the header
    and closed under "all predecessors inside") -/
theorem intervals_spec (preds : Nat → List Nat) (order nodes : List Nat) (entry : Nat)
    (res : List (Nat × List Nat)) (h : Intervals.intervals preds order nodes entry = some res) :
    (∀ a, a ∈ res.map Prod.fst ↔ Intervals.IsHead preds order nodes entry a) ∧
    (∀ p ∈ res, ∀ x, x ∈ p.2 ↔ Intervals.Least preds order p.1 x) ∧
    (res.map Prod.fst).Nodup ∧ ∀ p ∈ res, p.2.Nodup :=
  have F := Intervals.intervals_spec preds order nodes entry res h
  ⟨F.heads, F.content, F.nodup, F.cnodup⟩

/-- the node set of one interval does not depend on the order in which `rpo[1:]` lists the nodes -/
theorem interval_content_order_irrelevant (preds : Nat → List Nat) {order₁ order₂ : List Nat}
    (h : order₁ ~ order₂) (f₁ f₂ head : Nat) (R₁ R₂ : List Nat)
    (h1 : Intervals.intervalOf preds order₁ f₁ head = some R₁)
    (h2 : Intervals.intervalOf preds order₂ f₂ head = some R₂) : R₁ ~ R₂ :=
  Intervals.intervalOf_perm preds (fun _ => h.mem_iff) f₁ f₂ head R₁ R₂ h1 h2

/-- the interval partition is a function of the graph alone: for any two orders of `rpo[1:]` and any two
    orders of `graph.nodes` both runs terminate with the same set of headers and the same node set for
    every header -/
theorem intervals_partition_order_irrelevant (preds : Nat → List Nat) {order₁ order₂ nodes₁ nodes₂ : List Nat}
    (ho : order₁ ~ order₂) (hn : nodes₁ ~ nodes₂) (entry : Nat) :
    ∃ r₁ r₂, Intervals.intervals preds order₁ nodes₁ entry = some r₁ ∧
      Intervals.intervals preds order₂ nodes₂ entry = some r₂ ∧
      r₁.map Prod.fst ~ r₂.map Prod.fst ∧
      ∀ h R₁ R₂, (h, R₁) ∈ r₁ → (h, R₂) ∈ r₂ → R₁ ~ R₂ :=
  Intervals.intervals_order_independent preds (fun _ => ho.mem_iff) (fun _ => hn.mem_iff) entry

/-! ## `derived_sequence` (control_flow.py; Model/DerivedSeq.lean, Proof/DerivedSeq.lean)

`derived_sequence` iterates `intervals` on the interval graphs until one has a single node; there is no
"nothing changed" exit in this code.  Nothing it iterates is a hash container (lists, insertion-ordered
dicts): `sites_covered` has no site in it.  What the theorems add: it terminates (also on irreducible
graphs, because `intervals` records an edge of the interval graph only when it appends the target to its
work list, so the number of recorded edges drops at every level), and what its result depends on — the
numbering (`rpo[1:]`) of the first graph and the order of its predecessor lists only decide the insertion
order inside the `Interval.content`s of the first level; the insertion order of `graph.nodes` (a list) does
matter, even for the number of intervals of the second level. -/

/-- the interval graph of ANY level whose `rpo[0]` is the entry is well-formed: node 0 is its entry, all its
    nodes are reachable (so `compute_rpo` succeeds and puts node 0 first), every other node has a recorded
    predecessor, and its number of predecessor slots is the number of recorded edges -/
theorem interval_graph_wellformed (L : DerivedSeq.Level) (h1 : L.entry ∉ L.order)
    (o : List (Nat × List Nat)) (r : List (Nat × Nat)) (h : DerivedSeq.intervalsG L = some (o, r)) :
    ∃ L' rpo, DerivedSeq.nextLevel o r L.entry = some (L', rpo) ∧ DerivedSeq.niceb L' = true ∧
      DerivedSeq.predSum L' = r.length := by
  obtain ⟨L', rpo, a, b, c⟩ := DerivedSeq.nextLevel_nice L h1 o r h
  exact ⟨L', rpo, a, DerivedSeq.niceb_of_nice b, c⟩

/-- on a well-formed level the intervals of different headers are disjoint -/
theorem intervals_disjoint (L : DerivedSeq.Level) (hL : DerivedSeq.niceb L = true)
    (o : List (Nat × List Nat)) (r : List (Nat × Nat)) (h : DerivedSeq.intervalsG L = some (o, r)) :
    ∀ p ∈ o, ∀ q ∈ o, p.1 ≠ q.1 → ∀ x ∈ p.2, x ∉ q.2 :=
  DerivedSeq.intervals_disjoint L (DerivedSeq.nice_of_niceb hL) o r h

/-- the measure that justifies the fuel: while the interval graph has more than one node it has fewer
    recorded edges than the level has predecessor slots -/
theorem interval_graph_fewer_edges (L : DerivedSeq.Level) (hL : DerivedSeq.niceb L = true)
    (o : List (Nat × List Nat)) (r : List (Nat × Nat)) (h : DerivedSeq.intervalsG L = some (o, r))
    (hlen : o.length ≠ 1) : r.length < DerivedSeq.predSum L :=
  DerivedSeq.recs_lt_predSum L (DerivedSeq.nice_of_niceb hL) o r h hlen

/-- `derived_sequence` terminates on every well-formed graph, reducible or not, after at most
    `Σ_v |all_preds v| + 1` calls of `intervals` (the fuel of the model is enough) -/
theorem derived_sequence_terminates (L : DerivedSeq.Level) (hL : DerivedSeq.niceb L = true) :
    ∃ res, DerivedSeq.derivedSequence L = some res ∧ res.length ≤ DerivedSeq.predSum L + 1 :=
  DerivedSeq.derivedSequence_terminates L hL

/-- without well-formedness of the first graph: `derived_sequence` terminates on EVERY graph whose `rpo[0]` is
    the entry (unreachable nodes, nodes without predecessors, repeated entries of `graph.nodes` allowed), after at
    most `(|nodes| + 1) · |nodes| + 2` calls of `intervals` — the first interval graph is well-formed
    (`interval_graph_wellformed`) and has at most `(|nodes| + 1) · |nodes|` edges -/
theorem derived_sequence_terminates_any (L : DerivedSeq.Level) (h1 : L.entry ∉ L.order) :
    ∃ res, DerivedSeq.derive (DerivedSeq.generalFuel L) L [] = some res ∧
      res.length ≤ (L.nodes.length + 1) * L.nodes.length + 2 := by
  obtain ⟨res, a, b⟩ := DerivedSeq.derive_total_general L h1 []
  exact ⟨res, a, by simpa [DerivedSeq.generalFuel] using b⟩

/-- ORDER IRRELEVANCE: two runs on the same `graph.nodes` whose `rpo[1:]` (i.e. the numbering) and whose
    predecessor lists are permutations of one another return the same derived sequence — same headers in the
    same order, same recorded edges, same `rpo` and entry of every interval graph, every level after the
    first identical — except that the contents of the first-level intervals are permutations -/
theorem derived_sequence_order_irrelevant (L₁ L₂ : DerivedSeq.Level) (hn : L₁.nodes = L₂.nodes)
    (he : L₁.entry = L₂.entry) (ho : L₁.order ~ L₂.order) (hp : ∀ n, L₁.preds n ~ L₂.preds n)
    (r₁ : List DerivedSeq.Step) (h : DerivedSeq.derivedSequence L₁ = some r₁) :
    ∃ s₁ s₂ t, r₁ = s₁ :: t ∧ DerivedSeq.derivedSequence L₂ = some (s₂ :: t) ∧
      List.Forall₂ (fun a b => a.1 = b.1 ∧ a.2 ~ b.2) s₁.heads s₂.heads ∧
      s₁.recs = s₂.recs ∧ s₁.rpo = s₂.rpo ∧ s₁.entry = s₂.entry :=
  DerivedSeq.derivedSequence_order_irrelevant L₁ L₂ hn he ho hp r₁ h

/-- the edges recorded for an interval graph are pairwise different, for every input: the duplicate test of
    `Graph.add_edge`, left out of the model, never fires while an interval graph is built -/
theorem interval_graph_edges_distinct (L : DerivedSeq.Level) (o : List (Nat × List Nat)) (r : List (Nat × Nat))
    (h : DerivedSeq.intervalsG L = some (o, r)) : r.Nodup :=
  DerivedSeq.records_nodup L o r h

/-- shape of the derived sequence: it ends with the first level that has a single interval -/
theorem derived_sequence_shape (L : DerivedSeq.Level) (res : List DerivedSeq.Step)
    (h : DerivedSeq.derivedSequence L = some res) :
    ∃ steps last, res = steps ++ [last] ∧ last.heads.length = 1 ∧ ∀ s ∈ steps, s.heads.length ≠ 1 := by
  obtain ⟨steps, last, e, h1, h2⟩ := DerivedSeq.derive_shape _ L [] res h
  exact ⟨steps, last, by simpa using e, h1, h2⟩

/-- the witness graph of `derived_sequence_nodes_order_matters`: 1→2, 2→3, 3→5, 5→3, 3→2, 2→4, 1→4 -/
def dsPreds : Nat → List Nat :=
  fun n => if n = 2 then [1, 3] else if n = 3 then [2, 5] else if n = 5 then [3] else if n = 4 then [2, 1] else []

/-- the insertion order of `graph.nodes` DOES matter (it is a list, so this is no nondeterminism): the same
    well-formed, reducible graph with the same numbering has 2 intervals at the second level when the nodes
    were inserted as 1,2,3,4,5 and 3 when they were inserted as 1,4,2,3,5 (the edge I(2)→I(4) is recorded
    only in the second run); replayed on the real code by the correspondence stream `site-dseq` -/
theorem derived_sequence_nodes_order_matters :
    [1, 2, 3, 4, 5] ~ [1, 4, 2, 3, 5] ∧
    DerivedSeq.niceb ⟨dsPreds, [2, 3, 5, 4], [1, 2, 3, 4, 5], 1⟩ = true ∧
    DerivedSeq.niceb ⟨dsPreds, [2, 3, 5, 4], [1, 4, 2, 3, 5], 1⟩ = true ∧
    (DerivedSeq.derivedSequence ⟨dsPreds, [2, 3, 5, 4], [1, 2, 3, 4, 5], 1⟩).map
      (fun l => l.map (fun s => s.heads.length)) = some [4, 2, 1] ∧
    (DerivedSeq.derivedSequence ⟨dsPreds, [2, 3, 5, 4], [1, 4, 2, 3, 5], 1⟩).map
      (fun l => l.map (fun s => s.heads.length)) = some [4, 3, 1] := by
  refine ⟨by decide, by decide +kernel, by decide +kernel, by decide +kernel, by decide +kernel⟩

/-! ## `if_struct` (control_flow.py; Model/IfStruct.lean, Proof/IfStruct.lean)

The follow node of a conditional is `max(ldominates, key=num)` over the dict `idoms` (whose insertion order comes
out of the set iterations of `dom_lt`), then the set `unresolved` is iterated (site B1 of the generated list). -/

/-- `if_struct` returns the same `follow['if']` attributes and the same set for every enumeration of the set
    `unresolved` (at every iteration) and every insertion order of the dict `idoms`, when the numbers of the
    keys of `idoms` are pairwise different -/
theorem if_struct_order_irrelevant (ord₁ ord₂ : List Nat → List Nat) (h₁ : ∀ l, ord₁ l ~ l) (h₂ : ∀ l, ord₂ l ~ l)
    {i₁ i₂ : List (Nat × Nat)} (hi : i₁ ~ i₂) (post : List Nat) (isCond : Nat → Bool) (nrev num : Nat → Nat)
    (hinj : ∀ a ∈ i₁.map Prod.fst, ∀ b ∈ i₁.map Prod.fst, num a = num b → a = b) :
    IfStruct.ifStruct ord₁ post isCond i₁ nrev num = IfStruct.ifStruct ord₂ post isCond i₂ nrev num :=
  IfStruct.ifStruct_order_irrelevant ord₁ ord₂ h₁ h₂ hi post isCond nrev num hinj

/-- the hypothesis holds for the numbers of `compute_rpo` (model of C19) on a graph all of whose nodes are
    reachable: they are pairwise different (`C19.rpo_perm`) -/
theorem if_struct_order_irrelevant_rpo (g : Digraph) (hwf : g.WF) (hroot : g.Rooted) (rp : Rpo.Result)
    (hr : Rpo.computeRpo g = some rp) (ord₁ ord₂ : List Nat → List Nat) (h₁ : ∀ l, ord₁ l ~ l)
    (h₂ : ∀ l, ord₂ l ~ l) {i₁ i₂ : List (Nat × Nat)} (hi : i₁ ~ i₂) (hk : ∀ p ∈ i₁, p.1 < g.n)
    (post : List Nat) (isCond : Nat → Bool) (nrev : Nat → Nat) :
    IfStruct.ifStruct ord₁ post isCond i₁ nrev rp.num = IfStruct.ifStruct ord₂ post isCond i₂ nrev rp.num := by
  apply IfStruct.ifStruct_order_irrelevant ord₁ ord₂ h₁ h₂ hi
  have hnd : ((List.range g.n).map rp.num).Nodup :=
    (C19.rpo_perm g hwf hroot rp hr).nodup_iff.mpr (List.nodup_range' (step := 1) (by omega))
  intro a ha b hb hab
  obtain ⟨p, hp, rfl⟩ := List.mem_map.mp ha
  obtain ⟨q, hq, rfl⟩ := List.mem_map.mp hb
  exact List.inj_on_of_nodup_map hnd (List.mem_range.mpr (hk p hp)) (List.mem_range.mpr (hk q hq)) hab

/-- without pairwise different numbers the order of `idoms` decides the follow node: `max` returns the first
    maximal candidate -/
theorem if_follow_tie_order_matters :
    [(2, 1), (3, 1)] ~ [(3, 1), (2, 1)] ∧
    (IfStruct.ifStruct id [1] (fun _ => true) [(2, 1), (3, 1)] (fun _ => 2) (fun _ => 7)).follow 1 = some 2 ∧
    (IfStruct.ifStruct id [1] (fun _ => true) [(3, 1), (2, 1)] (fun _ => 2) (fun _ => 7)).follow 1 = some 3 := by
  refine ⟨by decide, by decide, by decide⟩

/-! ## `switch_struct`, and the loop bodies of the class "independent" (Model/SwitchStruct.lean, Model/LoopBodies.lean) -/

/-- `switch_struct` sets the same `follow['switch']` attributes for every enumeration of its set `unresolved`
    and every insertion order of the dict `idoms` (pairwise different keys), when the numbers of the keys are
    pairwise different; exceptions (`none`) included -/
theorem switch_struct_order_irrelevant (ord₁ ord₂ : List Nat → List Nat) (h₁ : ∀ l, ord₁ l ~ l)
    (h₂ : ∀ l, ord₂ l ~ l) {i₁ i₂ : List (Nat × Option Nat)} (hi : i₁ ~ i₂) (hN : (i₁.map Prod.fst).Nodup)
    (post : List Nat) (isSwitch : Nat → Bool) (sucs : Nat → List Nat) (npreds num : Nat → Nat) (fuel : Nat)
    (hinj : ∀ a ∈ i₁.map Prod.fst, ∀ b ∈ i₁.map Prod.fst, num a = num b → a = b) :
    SwitchStruct.switchStruct ord₁ post isSwitch sucs i₁ npreds num fuel =
      SwitchStruct.switchStruct ord₂ post isSwitch sucs i₂ npreds num fuel :=
  SwitchStruct.switchStruct_order_irrelevant ord₁ ord₂ h₁ h₂ hi hN post isSwitch sucs npreds num fuel hinj

/-- `for node in to_update: node.update_attribute_with(node_map)` (split_if_nodes, simplify) with the body
    written out (`LoopBodies.updateAttr`: a function of the visited node's own attributes and of `node_map`):
    the resulting attributes do not depend on the enumeration of the set -/
theorem to_update_order_irrelevant (kind : Nat → LoopBodies.Kind) (nmap : List (Nat × Nat))
    (st : Nat → LoopBodies.Attr) {σ₁ σ₂ : List Nat} (h : σ₁ ~ σ₂) :
    LoopBodies.toUpdateLoop kind nmap st σ₁ = LoopBodies.toUpdateLoop kind nmap st σ₂ :=
  independent_updates_order_irrelevant _ st h

/-- the `for node in if_unresolved` loop of `identify_structures` with the body written out: the resulting
    `follow['if']` attributes do not depend on the enumeration of the set -/
theorem if_unresolved_order_irrelevant (num : Nat → Nat) (loopF switchF ifF : Nat → Option Nat)
    {σ₁ σ₂ : List Nat} (h : σ₁ ~ σ₂) :
    LoopBodies.finishUnresolved num loopF switchF ifF σ₁ = LoopBodies.finishUnresolved num loopF switchF ifF σ₂ :=
  independent_updates_order_irrelevant _ ifF h

/-- the repaired `Interval.compute_end` iterates the insertion-ordered dict `content` (built by `intervals`,
    Model/Intervals.lean) and no set: its result is the value of the legacy function on one particular
    enumeration, namely the LAST node in insertion order that has a successor outside the interval, and the
    header when there is none -/
theorem compute_end_fixed_enumerates {α} [BEq α] [LawfulBEq α] (sucs : α → List α) (head : α) (content : List α) :
    (∃ σ, σ ~ content ∧ computeEnd sucs head content = computeEnd sucs head σ) ∧
    (content.filter (hasOutside sucs content) = [] → computeEnd sucs head content = head) ∧
    (∀ l x, content.filter (hasOutside sucs content) = l ++ [x] → computeEnd sucs head content = x) := by
  refine ⟨⟨content, Perm.refl _, rfl⟩, fun h => ?_, fun l x h => ?_⟩
  · simp [computeEnd, lastSat_eq, h]
  · simp [computeEnd, lastSat_eq, h]

/-! ## non-vacuity -/

-- a permutation that is not the identity satisfies the hypotheses of the B theorems
example : applyEach (fun (x : Nat) (old : Nat) => old + x) (fun _ => 0) [1, 2, 3] 2
    = applyEach (fun (x : Nat) (old : Nat) => old + x) (fun _ => 0) [3, 1, 2] 2 :=
  congrFun (independent_updates_order_irrelevant _ _ (by decide : [1, 2, 3] ~ [3, 1, 2])) 2
example : applyEach (fun (x : Nat) (old : Nat) => old + x) (fun _ => 0) [1, 2, 3] 2 = 2 := by decide
-- `min` is an instance of the B2 hypotheses; common_dom on the chain idom n = n-1 is `min`
example : popFold Nat.min [4, 2, 7] = some 2 := by decide
example : popFold Nat.min [7, 4, 2] = popFold Nat.min [2, 7, 4] :=
  place_declarations_order_irrelevant Nat.min Nat.min_comm Nat.min_assoc (by decide)
example : commonDom (fun n => n - 1) 20 7 4 = 4 := by decide
-- common_dom on the tree 1←2, 1←3, 3←4, 3←5
example : commonDom (fun n => if n = 2 then 1 else if n = 3 then 1 else if n = 4 then 3 else if n = 5 then 3 else 0)
    20 4 5 = 3 := by decide
example : semiMin (fun x : Nat => x * 2) 9 [3, 1, 2] = 2 := by decide
example : priorDef 10 [3, 12, 7, 5] = 7 ∧ priorDef 10 [7, 5, 12, 3] = 7 := by decide
example : survivors (fun x : Nat => x == 2) [1, 2, 3] = [1, 3] := by decide
-- the A1 hypothesis is satisfiable with a real outside successor
example : ([1, 2].filter (hasOutside (fun n : Nat => if n = 2 then [3] else [2]) [1, 2])).length ≤ 1 := by decide
example : computeEnd (fun n : Nat => if n = 2 then [3] else [2]) 1 [1, 2] = 2 := by decide
-- the repaired containers on concrete data
example : loopNodesFixed (fun n : Nat => if n = 5 then 9 else n) [5, 2, 9, 2] = [9, 2] := by decide
example : addAll [3, 1, 3, 2, 1] = [3, 1, 2] := by decide
example : collectFixed [7, 1] [1, 8, 2] 1 2 = [7, 8] := by decide
example : mergeSuccsFixed (fun n : Nat => n) [2, 3] [3, 4] 1 2 = [3, 4] := by decide
example : modelled.length = 16 ∧ Gen.OrderSites.sites.length = 16 := by decide
-- A2 positive: the hypotheses hold for a loop {1,2,3} with the two single-exit conditionals 1 (→10) and
-- 2 (→11), and the theorem applies to a non-identity permutation
example : loopFollowEndless (fun n => if n = 1 then ⟨true, 2, 10⟩ else if n = 2 then ⟨true, 11, 3⟩ else ⟨false, 0, 0⟩)
      (fun n => if n = 10 then 7 else if n = 11 then 5 else n) [1, 2, 3]
    = loopFollowEndless (fun n => if n = 1 then ⟨true, 2, 10⟩ else if n = 2 then ⟨true, 11, 3⟩ else ⟨false, 0, 0⟩)
      (fun n => if n = 10 then 7 else if n = 11 then 5 else n) [3, 2, 1] :=
  loop_follow_order_irrelevant _ _ (by decide) (by decide) (by decide)
example : loopFollowEndless (fun n => if n = 1 then ⟨true, 2, 10⟩ else if n = 2 then ⟨true, 11, 3⟩ else ⟨false, 0, 0⟩)
    (fun n => if n = 10 then 7 else if n = 11 then 5 else n) [1, 2, 3] = some 11 := by decide

/-- B2 deepened: the diamond with a tail 0→{1,2}→3→4 plus a back edge 4→1; node ids are NOT the numbers -/
def diamond : Digraph :=
  { n := 5, entry := 0, edges := [[1, 2], [3], [3], [4], [1]], catchEdges := [[], [], [], [], []] }
def diamondIdom : Nat → Option Nat := fun v => [none, some 0, some 0, some 0, some 3].getD v none
def diamondNum : Nat → Nat := fun v => [1, 3, 2, 4, 5].getD v 0

/-- the hypotheses of the `common_dom` theorems are satisfiable by decidable checks -/
theorem diamond_ctx : Ctx diamond diamondIdom diamondNum := by
  refine common_dom_ctx_of_checks diamond diamondIdom diamondNum (by decide) (by decide) ?_ ?_
  · intro v hv d hd
    have : v = 0 ∨ v = 1 ∨ v = 2 ∨ v = 3 ∨ v = 4 := by simp only [diamond] at hv; omega
    rcases this with rfl | rfl | rfl | rfl | rfl <;> simp [diamondIdom] at hd <;> subst hd <;> decide
  · intro u v hu hv _ _ he
    have h1 : u = 0 ∨ u = 1 ∨ u = 2 ∨ u = 3 ∨ u = 4 := by simp only [diamond] at hu; omega
    have h2 : v = 0 ∨ v = 1 ∨ v = 2 ∨ v = 3 ∨ v = 4 := by simp only [diamond] at hv; omega
    rcases h1 with rfl | rfl | rfl | rfl | rfl <;> rcases h2 with rfl | rfl | rfl | rfl | rfl <;>
      first | rfl | (simp [diamondNum] at he)
example : popFoldM (commonDomG diamondIdom diamondNum 20) [4, 1, 2] = some 0 ∧
    popFoldM (commonDomG diamondIdom diamondNum 20) [2, 4, 1] = some 0 ∧
    popFoldM (commonDomG diamondIdom diamondNum 20) [4, 3] = some 3 := by decide
example : popFoldM (commonDomG diamondIdom diamondNum 20) [4, 1, 2]
    = popFoldM (commonDomG diamondIdom diamondNum 20) [2, 4, 1] := by
  refine place_declarations_order_irrelevant_domtree diamond _ _ diamond_ctx 20 (by decide) ?_ (by decide)
  intro a ha
  have hm : ∀ a ∈ [4, 1, 2], a ∈ DomRef.reachAvoid diamond (fun _ => false) := by decide
  exact ((DomRef.mem_reachAvoid diamond (Rpo.wf_of_wfb (by decide)) _ a).mp (hm a ha)).reach
-- the real models on the same graph: `dom_lt` returns that tree and `compute_rpo` those numbers
example : ((DomLT.domLT diamond).map fun r => (List.range 5).map r.idom)
    = some [none, some 0, some 0, some 0, some 3] := by decide
-- errors are explicit: a node without `idom` entry (KeyError / `None.num`) and two nodes with one number
example : commonDomG (fun _ => none) diamondNum 20 1 2 = none := by decide
example : commonDomG diamondIdom (fun _ => 7) 20 1 2 = none := by decide
-- intervals: the loop 1→2→3→2, 3→4 with a second entry 1→3 into the cycle (irreducible): three intervals;
-- a different numbering order gives the same partition with another insertion order
example : Intervals.intervals (fun n => if n = 2 then [1, 3] else if n = 3 then [2, 1] else if n = 4 then [3] else [])
    [2, 3, 4] [1, 2, 3, 4] 1 = some [(1, [1]), (2, [2]), (3, [3, 4])] := by decide
example : Intervals.intervals (fun n => if n = 2 then [1, 3] else if n = 3 then [2, 1] else if n = 4 then [3] else [])
    [4, 3, 2] [4, 3, 2, 1] 1 = some [(1, [1]), (3, [3, 4]), (2, [2])] := by decide
-- a reducible diamond with a tail collapses into one interval whose content order follows `rpo[1:]`
example : Intervals.intervals (fun n => if n = 2 ∨ n = 3 then [1] else if n = 4 then [2, 3] else [])
    [3, 2, 4] [1, 2, 3, 4] 1 = some [(1, [1, 3, 2, 4])] := by decide
-- B3 deepened: `C18.revOrder`-style admissible order different from insertion order
example : (⟨fun _ l => l.reverse, fun _ l => l.reverse⟩ : DomLT.Order).Adm :=
  fun _ _ _ => ⟨List.mem_reverse, List.mem_reverse⟩

-- derived_sequence: a reducible loop nest (1→2, 2→3, 3→4, 4→3, 4→2, 2→5) collapses in three levels
def dsNest : DerivedSeq.Level :=
  ⟨fun n => if n = 2 then [1, 4] else if n = 3 then [2, 4] else if n = 4 then [3] else if n = 5 then [2] else [],
   [2, 3, 4, 5], [1, 2, 3, 4, 5], 1⟩
example : DerivedSeq.niceb dsNest = true ∧ DerivedSeq.predSum dsNest = 6 := by decide +kernel
example : DerivedSeq.derivedSequence dsNest =
    some [⟨[(1, [1]), (2, [2, 5]), (3, [3, 4])], [(1, 2), (2, 3), (3, 2)], [0, 1, 2], 0⟩,
          ⟨[(0, [0]), (1, [1, 2])], [(0, 1)], [0, 1], 0⟩,
          ⟨[(0, [0, 1])], [], [0], 0⟩] := by decide +kernel
-- an irreducible graph (1→2, 1→3, 2⇄3): no interval of the first level has two nodes, the loop does NOT stop
-- early (there is no such exit); the edge I(2)→I(3) is not recorded (3 was pending), so the second level is a
-- single interval
def dsTri : DerivedSeq.Level :=
  ⟨fun n => if n = 2 then [1, 3] else if n = 3 then [1, 2] else [], [2, 3], [1, 2, 3], 1⟩
example : DerivedSeq.niceb dsTri = true := by decide +kernel
example : DerivedSeq.derivedSequence dsTri =
    some [⟨[(1, [1]), (2, [2]), (3, [3])], [(1, 2), (1, 3), (3, 2)], [0, 2, 1], 0⟩,
          ⟨[(0, [0, 2, 1])], [], [0], 0⟩] := by decide +kernel
-- the hypotheses of `derived_sequence_order_irrelevant`: renumbered `rpo[1:]`, reversed predecessor lists
example : (⟨dsNest.preds, [2, 3, 4, 5], dsNest.nodes, 1⟩ : DerivedSeq.Level).order ~
    (⟨fun n => (dsNest.preds n).reverse, [5, 4, 3, 2], dsNest.nodes, 1⟩ : DerivedSeq.Level).order ∧
    ∀ n, dsNest.preds n ~ (fun n => (dsNest.preds n).reverse) n :=
  ⟨by decide, fun n => (List.reverse_perm _).symm⟩

-- if_struct: post order 4,3,2,1; conditionals 1,2,3; node 4 (two predecessors) is immediately dominated by 1;
-- 3 and 2 stay unresolved until 1 gets its follow node 4 and 1.num < 2.num, 3.num < 4.num
def ifEx : IfStruct.St :=
  IfStruct.ifStruct List.reverse [4, 3, 2, 1] (fun n => n ≤ 3) [(2, 1), (3, 2), (4, 1)]
    (fun n => if n = 4 then 2 else 1) id
example : (ifEx.follow 1, ifEx.follow 2, ifEx.follow 3, ifEx.unresolved) = (some 4, some 4, some 4, []) := by
  decide

-- switch_struct: switch node 1 with successors 2, 3 that both reach 4; idoms as a dict in two insertion orders
example : (SwitchStruct.switchStruct id [4, 3, 2, 1] (fun n => n = 1) (fun n => if n = 1 then [2, 3] else if n ≤ 3 then [4] else [])
      [(1, none), (2, some 1), (3, some 1), (4, some 1)] (fun n => if n = 4 then 2 else 1) id 20).map (fun s => s.follow 1)
    = some (some 4) ∧
    [(1, none), (2, some 1), (3, some 1), (4, some 1)] ~ [(4, some 1), (3, some 1), (1, none), (2, some 1)] := by
  decide
-- update_attribute_with on a switch node: 5 ↦ 9 renames the case key and the latch, duplicates collapse in loop_nodes
example : LoopBodies.updateAttr .switch [(5, 9), (2, 9)] ⟨some 5, [none, some 2, none], [5, 2, 9], none, none, [5, 7], [(5, [1]), (7, [2])]⟩
    = ⟨some 9, [none, some 9, none], [9], none, none, [9, 7], [(7, [2]), (9, [1])]⟩ := by decide
example : LoopBodies.minFollow id (some 7) (some 3) = some 3 ∧ LoopBodies.minFollow id (some 3) (some 3) = some 3 ∧
    LoopBodies.minFollow id none none = none := by decide

end AgVerif.C22
