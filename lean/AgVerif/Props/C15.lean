/-
C15 — String and class-usage cross-references are exact (both directions: every instruction appears,
nothing else appears).  Model: AgVerif/Model/Xref.lean, specification: AgVerif/Spec/Xref.lean.
Scope of the statements: the model identifies a Python object with the key the code registers it under
(class name; (class, name, descriptor); string value).  On programs whose class names are distinct across
the added DEX files (`AgVerif.C16.DistinctClassNames`; C16 proves that the keying is injective there) this
mirrors the code.  For a program with a repeated class name the theorems below are statements about the
key-merged model only (`AgVerif.C16.duplicate_class_is_merged`): the code keeps the ClassAnalysis of the DEX
added last; that case is judged on the real code, on objects, by the duplicate-class stream of the harness.
-/
import AgVerif.Proof.XrefView

namespace AgVerif.C15
open AgVerif.Xref AgVerif.Gen

/-- the generated tests for const-string, const-class and new-instance agree with the bytecode document -/
theorem string_and_class_opcodes_agree : ∀ op : Fin 256,
    (XrefOps.kind op.val = 3 ↔ op.val ∈ Spec.constStringOps) ∧
    (XrefOps.kind op.val = 1 ↔ (op.val = Spec.constClassOp ∨ op.val = Spec.newInstanceOp)) ∧
    (XrefOps.isConstClass op.val = true ↔ op.val = Spec.constClassOp) ∧
    (XrefOps.isNewInstance op.val = true ↔ op.val = Spec.newInstanceOp) :=
  fun op => ⟨kind3_iff op, kind1_iff op, (classUse_agrees op).1, (classUse_agrees op).2⟩

/-- a (method, offset) is in the xrefs of string `s` exactly when a const-string(/jumbo) instruction at
that place loads `s` -/
theorem string_xref_exact (p : List Dex) (s : String) (m : MKey) (off : Nat) :
    (s, m, off) ∈ (analyse p).strFrom ↔ Spec.LoadsString p s m off :=
  strFrom_iff p s m off

/-- the string table: the pool strings of the added DEX files and the loaded strings -/
theorem strings_exact (p : List Dex) (s : String) :
    s ∈ (analyse p).strings ↔ Spec.InPool p s ∨ ∃ m off, Spec.LoadsString p s m off :=
  strings_iff p s

/-- new-instance on another class: the class's instantiation list and the method's list -/
theorem new_instance_exact (p : List Dex) (m : MKey) (c : String) (off : Nat) :
    ((c, m, off) ∈ (analyse p).newInstC ↔ Spec.Uses p Spec.newInstanceOp m c off) ∧
    ((m, c, off) ∈ (analyse p).newInstM ↔ Spec.Uses p Spec.newInstanceOp m c off) :=
  ⟨newInstC_iff p m c off, newInstM_iff p m c off⟩

/-- const-class on another class: the class's class-reference list and the method's list -/
theorem const_class_exact (p : List Dex) (m : MKey) (c : String) (off : Nat) :
    ((c, m, off) ∈ (analyse p).constClsC ↔ Spec.Uses p Spec.constClassOp m c off) ∧
    ((m, c, off) ∈ (analyse p).constClsM ↔ Spec.Uses p Spec.constClassOp m c off) :=
  ⟨constClsC_iff p m c off, constClsM_iff p m c off⟩

/-- a used class that no analysed DEX defines becomes exactly one external class entry -/
theorem used_class_registered (p : List Dex) (op : Nat) (m : MKey) (c : String) (off : Nat)
    (h : Spec.Uses p op m c off) :
    (Spec.DefinedC p c → dget (analyse p).classes c = some false) ∧
    (¬ Spec.DefinedC p c → dget (analyse p).classes c = some true) ∧ (keys (analyse p).classes).Nodup := by
  have : Spec.Referenced p c := Or.inr ⟨op, m, off, h⟩
  refine ⟨fun hd => ?_, fun hd => ?_, nodup_class_keys p⟩
  · rw [dget_classes]; simp [hd]
  · rw [dget_classes]; simp [hd, this]

/-- the string and class-usage tables are sets: no entry is recorded twice -/
theorem tables_are_sets (p : List Dex) :
    (analyse p).strFrom.Nodup ∧ (analyse p).newInstC.Nodup ∧ (analyse p).newInstM.Nodup ∧
    (analyse p).constClsC.Nodup ∧ (analyse p).constClsM.Nodup := by
  have h := addAll_xr_nil p
  rw [analyse_eq]
  refine ⟨?_, ?_, ?_, ?_, ?_⟩
  · show ((progDelta (addAll p).decl p).strFrom.foldl sadd (addAll p).strFrom).Nodup
    exact nodup_foldl_sadd _ _ (by rw [h.2.2.2.2.2.2.2.2.1]; exact List.nodup_nil)
  · show ((progDelta (addAll p).decl p).newInstC.foldl sadd (addAll p).newInstC).Nodup
    exact nodup_foldl_sadd _ _ (by rw [h.2.2.2.2.2.1]; exact List.nodup_nil)
  · show ((progDelta (addAll p).decl p).newInstM.foldl sadd (addAll p).newInstM).Nodup
    exact nodup_foldl_sadd _ _ (by rw [h.2.2.2.2.1]; exact List.nodup_nil)
  · show ((progDelta (addAll p).decl p).constClsC.foldl sadd (addAll p).constClsC).Nodup
    exact nodup_foldl_sadd _ _ (by rw [h.2.2.2.2.2.2.2.1]; exact List.nodup_nil)
  · show ((progDelta (addAll p).decl p).constClsM.foldl sadd (addAll p).constClsM).Nodup
    exact nodup_foldl_sadd _ _ (by rw [h.2.2.2.2.2.2.1]; exact List.nodup_nil)

/-! non-vacuity -/
def exProg : List Dex :=
  [⟨[⟨"LA;", [], [⟨"m", "()V", [(0, ⟨⟨0x1a, by decide⟩, .str "hi"⟩), (4, ⟨⟨0x1b, by decide⟩, .str "hi"⟩),
                                 (10, ⟨⟨0x22, by decide⟩, .type "LB;"⟩), (14, ⟨⟨0x1c, by decide⟩, .type "[[LX;"⟩),
                                 (18, ⟨⟨0x22, by decide⟩, .type "LA;"⟩), (22, ⟨⟨0x1c, by decide⟩, .type "[I"⟩),
                                 (26, ⟨⟨0x23, by decide⟩, .type "LB;"⟩)]⟩]⟩], ["LA;", "m"]⟩,
   ⟨[⟨"LB;", [], []⟩], ["LB;"]⟩]

example : (analyse exProg).strFrom = [("hi", ("LA;", "m", "()V"), 0), ("hi", ("LA;", "m", "()V"), 4)] := by
  decide +kernel
example : (analyse exProg).newInstC = [("LB;", ("LA;", "m", "()V"), 10)] := by decide +kernel
example : (analyse exProg).constClsC = [("LX;", ("LA;", "m", "()V"), 14)] := by decide +kernel
example : (analyse exProg).classes = [("LA;", false), ("LB;", false), ("LX;", true)] := by decide +kernel

end AgVerif.C15
