/-
C15 — String and class-usage cross-references are exact (both directions: every instruction appears,
nothing else appears).  Model: AgVerif/Model/Xref.lean, specification: AgVerif/Spec/Xref.lean.
-/
import AgVerif.Proof.XrefView

namespace AgVerif.C15
open AgVerif.Xref AgVerif.Gen

/-- the generated tests for const-string, const-class and new-instance agree with the bytecode document -/
theorem string_and_class_opcodes_agree : ∀ op : Fin 256,
    (XrefOps.kind op.val = 3 ↔ op.val ∈ Spec.constStringOps) ∧
    (XrefOps.kind op.val = 1 ↔ (op.val = Spec.constClassOp ∨ op.val = Spec.newInstanceOp)) ∧
    (XrefOps.isConstClass op.val = true ↔ op.val = Spec.constClassOp) ∧
    (XrefOps.isNewInstance op.val = true ↔ op.val = Spec.newInstanceOp) :=
  fun op => ⟨kind3_iff op, kind1_iff op, (classUse_agrees op).1, (classUse_agrees op).2⟩

/-- a (method, offset) is in the xrefs of string `s` exactly when a const-string(/jumbo) instruction at
that place loads `s` -/
theorem string_xref_exact (p : List Dex) (s : String) (m : MKey) (off : Nat) :
    (s, m, off) ∈ (analyse p).strFrom ↔ Spec.LoadsString p s m off :=
  strFrom_iff p s m off

/-- the string table: the pool strings of the added DEX files and the loaded strings -/
theorem strings_exact (p : List Dex) (s : String) :
    s ∈ (analyse p).strings ↔ Spec.InPool p s ∨ ∃ m off, Spec.LoadsString p s m off :=
  strings_iff p s

/-- new-instance on another class: the class's instantiation list and the method's list -/
theorem new_instance_exact (p : List Dex) (m : MKey) (c : String) (off : Nat) :
    ((c, m, off) ∈ (analyse p).newInstC ↔ Spec.Uses p Spec.newInstanceOp m c off) ∧
    ((m, c, off) ∈ (analyse p).newInstM ↔ Spec.Uses p Spec.newInstanceOp m c off) :=
  ⟨newInstC_iff p m c off, newInstM_iff p m c off⟩

/-- const-class on another class: the class's class-reference list and the method's list -/
theorem const_class_exact (p : List Dex) (m : MKey) (c : String) (off : Nat) :
    ((c, m, off) ∈ (analyse p).constClsC ↔ Spec.Uses p Spec.constClassOp m c off) ∧
    ((m, c, off) ∈ (analyse p).constClsM ↔ Spec.Uses p Spec.constClassOp m c off) :=
  ⟨constClsC_iff p m c off, constClsM_iff p m c off⟩

/-- a used class that no analysed DEX defines becomes exactly one external class entry -/
theorem used_class_registered (p : List Dex) (op : Nat) (m : MKey) (c : String) (off : Nat)
    (h : Spec.Uses p op m c off) :
    (Spec.DefinedC p c → dget (analyse p).classes c = some false) ∧
    (¬ Spec.DefinedC p c → dget (analyse p).classes c = some true) ∧ (keys (analyse p).classes).Nodup := by
  have : Spec.Referenced p c := Or.inr ⟨op, m, off, h⟩
  refine ⟨fun hd => ?_, fun hd => ?_, nodup_class_keys p⟩
  · rw [dget_classes]; simp [hd]
  · rw [dget_classes]; simp [hd, this]

/-! non-vacuity -/
def exProg : List Dex :=
  [⟨[⟨"LA;", [], [⟨"m", "()V", [(0, ⟨⟨0x1a, by decide⟩, .str "hi"⟩), (4, ⟨⟨0x1b, by decide⟩, .str "hi"⟩),
                                 (10, ⟨⟨0x22, by decide⟩, .type "LB;"⟩), (14, ⟨⟨0x1c, by decide⟩, .type "[[LX;"⟩),
                                 (18, ⟨⟨0x22, by decide⟩, .type "LA;"⟩), (22, ⟨⟨0x1c, by decide⟩, .type "[I"⟩),
                                 (26, ⟨⟨0x23, by decide⟩, .type "LB;"⟩)]⟩]⟩], ["LA;", "m"]⟩,
   ⟨[⟨"LB;", [], []⟩], ["LB;"]⟩]

example : (analyse exProg).strFrom = [("hi", ("LA;", "m", "()V"), 0), ("hi", ("LA;", "m", "()V"), 4)] := by
  decide +kernel
example : (analyse exProg).newInstC = [("LB;", ("LA;", "m", "()V"), 10)] := by decide +kernel
example : (analyse exProg).constClsC = [("LX;", ("LA;", "m", "()V"), 14)] := by decide +kernel
example : (analyse exProg).classes = [("LA;", false), ("LB;", false), ("LX;", true)] := by decide +kernel

end AgVerif.C15
