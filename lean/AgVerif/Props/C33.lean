/-
C33 — APK Signing Block contents are reported as encoded.
-/
import AgVerif.Proof.SigBlock
namespace AgVerif.C33
open AgVerif.SigBlock AgVerif.Spec.SigBlock AgVerif.Gen.SigBlock

/-- the constants and struct formats the code uses are those of the format documents -/
theorem consts_match_spec :
    sigMagic = magic ∧ keyV2 = idV2 ∧ keyV3 = idV3 ∧ keyV31 = idV31 ∧
    pkEocd = zipEocdSig ∧ pkCd = zipCdSig ∧
    outerFormats = ["<4s", "<HHHHII", "<4s", "<Q16s", "<Q", "<QI"] ∧ u32Formats = ["<I"] := by
  decide

end AgVerif.C33
