/-
C33 — APK Signing Block contents are reported as encoded.
Property theorems only (lemmas: AgVerif/Proof/SigBlock.lean).

Model: AgVerif.SigBlock (Model/SigBlock.lean) — transliteration of parse_v2_v3_signature,
parse_v2_signing_block, parse_v3_signing_block(v31), parse_signatures_or_digests, is_signed_v2/v3/v31,
has_duplicate_apk_signature_ids WITH fixes/C33-sigblock-sequences-v31.diff applied.
Spec: AgVerif.Spec.SigBlock — the block layout of the APK Signature Scheme documents
(`encodeBlock`, `encodeValue`, `encodeSeq`, `apkFile`, `reported`).

Note on `toModel`: the reported signer `_bytes` is NOT "as encoded": the code slices
`view[off : off + size_signer]` starting AT the length prefix, so it is the prefix plus the body
without its last four bytes (a code quirk, modelled as is; `_bytes` is not among the property's
observables — digests, certificates, SDK bounds, attributes, signatures, public keys are).

All theorems quantify over every list of pairs / signers / digests of any length and any bytes
that fit their length fields (PairWF / SignerWF / ItemWF), every prefix `pre` (the local entries),
every central directory body and every 12 bytes of EOCD counters.
-/
import AgVerif.Proof.SigBlock
namespace AgVerif.C33
open AgVerif.SigBlock AgVerif.Spec.SigBlock AgVerif.Gen.SigBlock

/-- the constants and struct formats the code uses are those of the format documents -/
theorem consts_match_spec :
    sigMagic = magic ∧ keyV2 = idV2 ∧ keyV3 = idV3 ∧ keyV31 = idV31 ∧
    pkEocd = zipEocdSig ∧ pkCd = zipCdSig ∧
    outerFormats = ["<4s", "<HHHHII", "<4s", "<Q16s", "<Q", "<QI"] ∧ u32Formats = ["<I"] := by
  decide

/-- digests / signatures: every element of the sequence is reported, in order (the fixed D16). -/
theorem lp_sequence_roundtrip (xs : List AlgItem) (hwf : ∀ x ∈ xs, ItemWF x) :
    parseSeq (encodeSeq xs) = .ok xs :=
  parseSeq_roundtrip xs hwf

/-- a v2 value reports exactly its signers: digests, certificates, attributes, signatures, key. -/
theorem signers_roundtrip_v2 (ss : List Spec.SigBlock.Signer) (hwf : ∀ s ∈ ss, SignerWF false s)
    (hlen : (encodeSigners false ss).length < 2 ^ 32) :
    parseValue false (encodeValue false ss) = .ok (ss.map (toModel false)) :=
  parseValue_roundtrip false ss hwf hlen

/-- a v3 / v3.1 value reports exactly its signers, including both pairs of SDK bounds. -/
theorem signers_roundtrip_v3 (ss : List Spec.SigBlock.Signer) (hwf : ∀ s ∈ ss, SignerWF true s)
    (hlen : (encodeSigners true ss).length < 2 ^ 32) :
    parseValue true (encodeValue true ss) = .ok (ss.map (toModel true)) :=
  parseValue_roundtrip true ss hwf hlen

/-- every ID-value pair of the block is recorded, in order, with its id and exactly its value;
    the walk raises nothing. -/
theorem pairs_roundtrip (pre : List Nat) (ps : List Pair) (cdRest mid : List Nat) (h : FileWF pre ps mid) :
    (parseOuter (apkFile pre ps cdRest mid)).err = none ∧
    (parseOuter (apkFile pre ps cdRest mid)).blocks = (reported [] ps).map ofTriple ∧
    (parseOuter (apkFile pre ps cdRest mid)).blocks.map (fun b => (b.id, b.data)) = ps := by
  rw [parseOuter_apkFile pre ps cdRest mid h]
  refine ⟨rfl, rfl, ?_⟩
  have := reported_pairs [] ps
  simpa [List.map_map, ofTriple, Function.comp_def] using this

/-- the v2 / v3 / v3.1 flags are true exactly when a pair with that id is present. -/
theorem flags_iff_present (pre : List Nat) (ps : List Pair) (cdRest mid : List Nat) (h : FileWF pre ps mid) :
    ∃ a b c, (parseOuter (apkFile pre ps cdRest mid)).flags = some (a, b, c) ∧
      (a = true ↔ ∃ p ∈ ps, p.1 = idV2) ∧ (b = true ↔ ∃ p ∈ ps, p.1 = idV3) ∧
      (c = true ↔ ∃ p ∈ ps, p.1 = idV31) := by
  rw [parseOuter_apkFile pre ps cdRest mid h]
  exact ⟨_, _, _, rfl, hasId_reported [] ps _, hasId_reported [] ps _, hasId_reported [] ps _⟩

/-- has_duplicate_apk_signature_ids is true exactly when two pairs share an id. -/
theorem duplicate_flag_spec (pre : List Nat) (ps : List Pair) (cdRest mid : List Nat) (h : FileWF pre ps mid) :
    hasDuplicate (parseOuter (apkFile pre ps cdRest mid)) = true ↔ ¬ (ps.map (·.1)).Nodup := by
  rw [parseOuter_apkFile pre ps cdRest mid h]
  simp only [hasDuplicate]
  rw [dup_reported]
  simp

/-- the signers reported for a scheme are those of the FIRST pair carrying the scheme's id
    (nothing when there is none) — for v2, v3 and v3.1 alike, whatever other pairs exist. -/
theorem first_block_selected (sc : Scheme) (pre : List Nat) (ps : List Pair) (cdRest mid : List Nat)
    (h : FileWF pre ps mid) :
    parseScheme sc (apkFile pre ps cdRest mid) =
      match ps.find? (·.1 == sc.key) with
      | none => .ok []
      | some p => parseValue sc.isV3 p.2 := by
  have hfind := find_reported [] ps sc.key
  have hflag : sc.flag (hasId ((reported [] ps).map ofTriple) keyV2,
      hasId ((reported [] ps).map ofTriple) keyV3, hasId ((reported [] ps).map ofTriple) keyV31)
      = hasId ((reported [] ps).map ofTriple) sc.key := by cases sc <;> rfl
  unfold parseScheme
  rw [parseOuter_apkFile pre ps cdRest mid h]
  simp only [hflag]
  cases hq : ps.find? (·.1 == sc.key) with
  | none =>
    have hno : hasId ((reported [] ps).map ofTriple) sc.key = false := by
      rw [Bool.eq_false_iff, Ne, hasId_reported]
      rintro ⟨p, hp, hk⟩
      have := List.find?_eq_none.mp hq p hp
      simp [hk] at this
    simp [hno]
  | some p =>
    have hp := List.find?_some hq
    have hmem := List.mem_of_find?_eq_some hq
    have hyes : hasId ((reported [] ps).map ofTriple) sc.key = true := by
      rw [hasId_reported]; exact ⟨p, hmem, by simpa using hp⟩
    rw [hq] at hfind
    simp only [hyes, Bool.not_true, Bool.false_eq_true, ↓reduceIte]
    cases hb : ((reported [] ps).map ofTriple).find? (·.id == sc.key) with
    | none => rw [hb] at hfind; simp at hfind
    | some b =>
      rw [hb] at hfind
      simp only [Option.map_some, Option.some.injEq] at hfind
      simp [hfind]

/-- end to end, v2: the first v2 pair's signers are what get_*_v2 reports -/
theorem file_signers_v2 (pre : List Nat) (ps : List Pair) (cdRest mid : List Nat) (h : FileWF pre ps mid)
    (ss : List Spec.SigBlock.Signer) (hwf : ∀ s ∈ ss, SignerWF false s)
    (hlen : (encodeSigners false ss).length < 2 ^ 32)
    (hfirst : ps.find? (·.1 == idV2) = some (idV2, encodeValue false ss)) :
    parseScheme .v2 (apkFile pre ps cdRest mid) = .ok (ss.map (toModel false)) := by
  rw [first_block_selected .v2 pre ps cdRest mid h]
  have : Scheme.v2.key = idV2 := by decide
  rw [this, hfirst]
  exact parseValue_roundtrip false ss hwf hlen

/-- end to end, v3 -/
theorem file_signers_v3 (pre : List Nat) (ps : List Pair) (cdRest mid : List Nat) (h : FileWF pre ps mid)
    (ss : List Spec.SigBlock.Signer) (hwf : ∀ s ∈ ss, SignerWF true s)
    (hlen : (encodeSigners true ss).length < 2 ^ 32)
    (hfirst : ps.find? (·.1 == idV3) = some (idV3, encodeValue true ss)) :
    parseScheme .v3 (apkFile pre ps cdRest mid) = .ok (ss.map (toModel true)) := by
  rw [first_block_selected .v3 pre ps cdRest mid h]
  have : Scheme.v3.key = idV3 := by decide
  rw [this, hfirst]
  exact parseValue_roundtrip true ss hwf hlen

/-- end to end, v3.1 — with or WITHOUT a v3 pair in the block (the fixed second half of D16) -/
theorem v31_without_v3 (pre : List Nat) (ps : List Pair) (cdRest mid : List Nat) (h : FileWF pre ps mid)
    (ss : List Spec.SigBlock.Signer) (hwf : ∀ s ∈ ss, SignerWF true s)
    (hlen : (encodeSigners true ss).length < 2 ^ 32)
    (hfirst : ps.find? (·.1 == idV31) = some (idV31, encodeValue true ss)) :
    parseScheme .v31 (apkFile pre ps cdRest mid) = .ok (ss.map (toModel true)) := by
  rw [first_block_selected .v31 pre ps cdRest mid h]
  have : Scheme.v31.key = idV31 := by decide
  rw [this, hfirst]
  exact parseValue_roundtrip true ss hwf hlen

/-- certificates and public keys as returned by get_certificates_der_* / get_public_keys_der_* -/
theorem certs_and_keys (v3 : Bool) (ss : List Spec.SigBlock.Signer) :
    certsOf (ss.map (toModel v3)) = ss.flatMap (·.certs) ∧
    pubkeysOf (ss.map (toModel v3)) = ss.map (·.pubkey) := by
  constructor
  · simp [certsOf, toModel, List.flatMap_map]
  · simp [pubkeysOf, toModel]

/-- an archive WITHOUT a signing block (the 16 bytes before the central directory are not the
    magic): all three flags are False, nothing is recorded, every scheme reports no signers. -/
theorem no_block_unsigned (sc : Scheme) (pre cdRest mid : List Nat) (hmid : mid.length = 12)
    (hpre : 24 ≤ pre.length) (hoc32 : pre.length < 2 ^ 32)
    (hmagic : pre.drop (pre.length - 16) ≠ magic) :
    parseOuter (plainFile pre cdRest mid) = ⟨some (false, false, false), [], none⟩ ∧
    parseScheme sc (plainFile pre cdRest mid) = .ok [] :=
  ⟨parseOuter_plainFile pre cdRest mid hmid hpre hoc32 hmagic,
   parseScheme_plainFile sc pre cdRest mid hmid hpre hoc32 hmagic⟩

/-- the fuel arguments of the model's loops are never exhausted, for ANY input bytes: each
    iteration of the digest/signature loop, the certificate loop, the signer loop and the pair walk
    consumes at least four bytes or fails (so `Err.fuel` is not a behaviour of the model, and the
    loops terminate within `length + 1` iterations). -/
theorem fuel_never_exhausted (s : List Nat) (budget : Nat) (v3 : Bool) (sc : Scheme) :
    parseSeq s ≠ .error .fuel ∧ parseCertsF (s.length + 1) budget s ≠ .error .fuel ∧
    parseValue v3 s ≠ .error .fuel ∧ (parseOuter s).err ≠ some .fuel ∧
    parseScheme sc s ≠ .error .fuel :=
  ⟨parseSeq_fuel_ok s, parseCertsF_fuel_ok _ _ s (by omega), parseValue_fuel_ok v3 s,
   parseOuter_fuel_ok s, parseScheme_fuel_ok sc s⟩

/-! Non-vacuity: concrete non-trivial objects satisfy the hypotheses. -/
def exSigner : Spec.SigBlock.Signer :=
  { digests := [(0x0103, [1, 2, 3]), (0x0104, [4, 5])], certs := [[0x30, 0x00], [0x30, 0x01, 0x07]],
    attrs := [], sigs := [(0x0103, [9]), (0x0104, [8, 8]), (0x0201, [])], pubkey := [0x30, 0x00],
    sdSdk := (33, 0x7fffffff), sgSdk := (33, 0x7fffffff) }

example : parseSeq (encodeSeq exSigner.digests) = .ok exSigner.digests := by decide +kernel
example : parseValue true (encodeValue true [exSigner, exSigner]) =
    .ok ([exSigner, exSigner].map (toModel true)) := by decide +kernel
example : (parseOuter (apkFile [7, 7, 7] [(idV31, encodeValue true [exSigner]), (0x42726577, [0, 0]),
      (idV31, [1])] [0, 0] (List.replicate 12 0))).flags = some (false, false, true) := by decide +kernel
example : hasDuplicate (parseOuter (apkFile [7, 7, 7] [(idV31, encodeValue true [exSigner]),
      (0x42726577, [0, 0]), (idV31, [1])] [0, 0] (List.replicate 12 0))) = true := by decide +kernel
/-- v3.1 present, v3 absent: the v3.1 signers are reported -/
example : (List.replicate 24 7).drop (24 - 16) ≠ magic := by decide
example : parseScheme .v31 (apkFile [7, 7, 7] [(0x42726577, [0, 0]), (idV31, encodeValue true [exSigner])]
      [0, 0] (List.replicate 12 0)) = .ok [toModel true exSigner] := by decide +kernel

/-! Non-vacuity of the WHOLE-FILE theorems: a concrete file satisfies `FileWF`, a concrete signer
    satisfies `SignerWF`, and the end-to-end theorems are instantiated on them (not just evaluated). -/
def exPairs : List Pair := [(0x42726577, [0, 0]), (idV31, encodeValue true [exSigner]), (idV31, [1])]
def exPairsV3 : List Pair := [(idV3, encodeValue true [exSigner, exSigner]), (idV2, [])]

theorem exSigner_wf : SignerWF true exSigner := by
  refine ⟨?_, ?_, ?_, by decide +kernel, by decide +kernel, by decide +kernel, by decide +kernel, by decide +kernel⟩
  · intro x hx; simp only [exSigner, List.mem_cons, List.not_mem_nil, or_false] at hx
    rcases hx with rfl | rfl <;> exact ⟨by decide +kernel, by decide +kernel⟩
  · intro x hx; simp only [exSigner, List.mem_cons, List.not_mem_nil, or_false] at hx
    rcases hx with rfl | rfl | rfl <;> exact ⟨by decide +kernel, by decide +kernel⟩
  · intro c hc; simp only [exSigner, List.mem_cons, List.not_mem_nil, or_false] at hc
    rcases hc with rfl | rfl <;> decide +kernel

theorem exFile_wf : FileWF [7, 7, 7] exPairs (List.replicate 12 0) := by
  refine ⟨?_, by decide +kernel, by decide +kernel⟩
  intro p hp; simp only [exPairs, List.mem_cons, List.not_mem_nil, or_false] at hp
  rcases hp with rfl | rfl | rfl <;> exact ⟨by decide +kernel, by decide +kernel⟩

theorem exFileV3_wf : FileWF [1, 2, 3, 4] exPairsV3 (List.replicate 12 9) := by
  refine ⟨?_, by decide +kernel, by decide +kernel⟩
  intro p hp; simp only [exPairsV3, List.mem_cons, List.not_mem_nil, or_false] at hp
  rcases hp with rfl | rfl <;> exact ⟨by decide +kernel, by decide +kernel⟩

/-- `v31_without_v3` instantiated: a file with an unknown pair, a v3.1 pair, a duplicate v3.1 pair and
    NO v3 pair reports exactly the first v3.1 pair's signer. -/
example : parseScheme .v31 (apkFile [7, 7, 7] exPairs [0, 0] (List.replicate 12 0)) =
    .ok [toModel true exSigner] :=
  v31_without_v3 [7, 7, 7] exPairs [0, 0] (List.replicate 12 0) exFile_wf [exSigner]
    (by intro s hs; simp only [List.mem_cons, List.not_mem_nil, or_false] at hs; subst hs; exact exSigner_wf)
    (by decide +kernel) (by decide +kernel)

/-- `file_signers_v3` instantiated on a file with two v3 signers and an (empty) v2 pair. -/
example : parseScheme .v3 (apkFile [1, 2, 3, 4] exPairsV3 [5] (List.replicate 12 9)) =
    .ok [toModel true exSigner, toModel true exSigner] :=
  file_signers_v3 [1, 2, 3, 4] exPairsV3 [5] (List.replicate 12 9) exFileV3_wf [exSigner, exSigner]
    (by intro s hs; simp only [List.mem_cons, List.not_mem_nil, or_false] at hs; rcases hs with rfl | rfl <;> exact exSigner_wf)
    (by decide +kernel) (by decide +kernel)

/-- the other whole-file theorems on the same concrete file: duplicate v3.1 id flagged, flags (0,0,1) -/
example : hasDuplicate (parseOuter (apkFile [7, 7, 7] exPairs [0, 0] (List.replicate 12 0))) = true :=
  (duplicate_flag_spec [7, 7, 7] exPairs [0, 0] (List.replicate 12 0) exFile_wf).2 (by decide +kernel)

end AgVerif.C33
