/-
C18 — The decompiler's dominator tree is the true dominator tree.
Property theorems only (lemmas: AgVerif/Proof/DomRef.lean, AgVerif/Proof/DomLT.lean).

Spec:   AgVerif.Spec (Path, Dominates, SDom, IDom — textbook definitions, Spec/Dominance.lean)
Model:  AgVerif.DomLT.domLT   = transliteration of `dom_lt` (graph.py:352-412), Lengauer–Tarjan
        AgVerif.DomRef        = simple reference (`reachAvoid`, `idomRef`) and the executable
                                certificate checker `checkDomTree`
`IsDomTree g t` (Model/DomRef.lean) says: t(entry) = none, t(v) = none for unreachable v, and t(v) is
the immediate dominator of every other reachable v, by the textbook definition.

STATUS: everything is proved for ALL well-formed graphs, including the Lengauer–Tarjan correctness
theorem for the line-by-line model of `dom_lt`: `domlt_correct` (the model terminates without
`KeyError`/`UnboundLocalError`/fuel exhaustion and returns the dominator tree).  Intermediate layers,
also stated here: `domlt_dfs_is_dtree` (Step 1 leaves a DFS tree with the forward-edge and interval
properties), `domlt_eval_spec` (`_eval` with path compression returns a minimum-`semi` vertex among the
linked tree ancestors), `domlt_semi_is_sdom` (after Steps 2–3 `semi[v]` is the number of the
semidominator: Theorem 4 of the 1979 paper), `domlt_total`, and `domLT_always_certified` (the verified
checker never rejects the model's answer).  The proofs are in Proof/DomLT_{Tree,Semi,Thm,Dfs2,Eval,
Loop,Loop3,Iter,Final}.lean.  Python iterates `pred[w]` / pops `bucket[pw]` in hash order:
the enumeration order is a parameter of the model (`Order`), `domlt_correct_any_order` proves the
theorem for every order and `domlt_order_independent` that the returned dict does not depend on it
(the driver runs insertion order).  What remains outside Lean is the tie between model and Python
code (correspondence harness).
-/
import AgVerif.Proof.DomRef
import AgVerif.Proof.DomLT
import AgVerif.Proof.DomLT_Final
namespace AgVerif.C18
open AgVerif AgVerif.Spec AgVerif.DomRef AgVerif.DomLT

/-- FULL STATEMENT (proved below: `domlt_correct`): on every well-formed graph `dom_lt` terminates without
    error and returns the dominator tree: `None` for the entry, the immediate dominator for every other
    reachable node, no key for unreachable nodes. -/
def domlt_correct_full : Prop :=
  ∀ g : Digraph, g.WF → ∃ r, domLT g = some r ∧ r.dom g.entry = some none ∧
    (∀ v, v < g.n → v ≠ g.entry → Reach g.Edge g.entry v →
      ∃ d, r.dom v = some (some d) ∧ IDom g.Edge g.entry d v) ∧
    (∀ v, v < g.n → ¬ Reach g.Edge g.entry v → r.dom v = none)

/-! ### the specification is well defined -/

/-- "every path from the entry to v contains d" ⇔ "v is unreachable once d is removed"
    (the form used by the reference and by the Python oracle) -/
theorem dominates_iff_remove (g : Digraph) (d v : Nat) :
    Dominates g.Edge g.entry d v ↔ ¬ ReachAvoiding g.Edge (fun x => x = d) g.entry v :=
  dominates_iff

/-- the immediate dominator of a reachable vertex is unique: "the" dominator tree exists at most once -/
theorem idom_unique (g : Digraph) (v d₁ d₂ : Nat) (hv : Reach g.Edge g.entry v)
    (h1 : IDom g.Edge g.entry d₁ v) (h2 : IDom g.Edge g.entry d₂ v) : d₁ = d₂ :=
  Spec.idom_unique hv h1 h2

/-- every reachable vertex other than the entry has an immediate dominator -/
theorem idom_exists (g : Digraph) (v : Nat) (hv : Reach g.Edge g.entry v) (hne : v ≠ g.entry) :
    ∃ d, IDom g.Edge g.entry d v :=
  Spec.idom_exists hv hne

/-- two dominator trees of the same graph agree on every node -/
theorem domTree_unique (g : Digraph) (t₁ t₂ : Nat → Option Nat)
    (h1 : IsDomTree g t₁) (h2 : IsDomTree g t₂) (v : Nat) (hv : v < g.n) : t₁ v = t₂ v :=
  isDomTree_unique h1 h2 v hv

/-! ### the reference and the certificate checker are correct, for all graphs -/

/-- the reference reachability (iterative DFS with fuel n+|E|+2) is sound and complete -/
theorem reach_sound_complete (g : Digraph) (hwf : g.WF) (avoid : Nat → Bool) (x : Nat) :
    x ∈ reachAvoid g avoid ↔ ReachAvoiding g.Edge (fun y => avoid y = true) g.entry x :=
  mem_reachAvoid g hwf avoid x

/-- the reference immediate dominator equals the definition -/
theorem idomRef_correct (g : Digraph) (hwf : g.WF) (v d : Nat) (hv : Reach g.Edge g.entry v)
    (hne : v ≠ g.entry) : idomRef g v = some d ↔ IDom g.Edge g.entry d v :=
  DomRef.idomRef_correct g hwf v d hv hne

/-- the executable certificate check accepts exactly the dominator tree -/
theorem cert_sound_complete (g : Digraph) (hwf : g.WF) (t : Nat → Option Nat) :
    checkDomTree g t = true ↔ IsDomTree g t :=
  checkDomTree_iff g hwf t

/-- the reference is total: it computes the dominator tree of every well-formed graph, and the checker
    accepts `t` iff `t` equals the reference on every node ("t = the dominator tree") -/
theorem cert_iff_reference (g : Digraph) (hwf : g.WF) (t : Nat → Option Nat) :
    IsDomTree g (idomRef g) ∧ (checkDomTree g t = true ↔ ∀ v, v < g.n → t v = idomRef g v) :=
  ⟨isDomTree_idomRef g hwf, checkDomTree_iff_ref g hwf t⟩

/-! ### what is proved about the model of `dom_lt` -/

/-- the entry always maps to `None` and every other key maps to a node -/
theorem domLT_shape (g : Digraph) (r : DomLT.Result) (h : domLT g = some r) :
    r.dom g.entry = some none ∧ ∀ v, v ≠ g.entry → r.dom v ≠ some none := by
  simp only [domLT, domLTWith] at h
  split at h
  · simp at h
  · split at h
    · simp at h
    · split at h
      · simp at h
      · simp at h; subst h
        refine ⟨by simp, ?_⟩
        intro v hv
        simp [hv]

/-- CERTIFIED CORRECTNESS: if the kernel-verified checker accepts the answer of the model of `dom_lt`
    on a graph, that answer is the dominator tree of the graph, in the sense of `domlt_correct_full`. -/
theorem domLT_certified (g : Digraph) (hwf : g.WF) (r : DomLT.Result) (h : domLT g = some r)
    (hc : checkDomTree g r.idom = true) :
    r.dom g.entry = some none ∧
    (∀ v, v < g.n → v ≠ g.entry → Reach g.Edge g.entry v →
      ∃ d, r.dom v = some (some d) ∧ IDom g.Edge g.entry d v) ∧
    (∀ v, v < g.n → ¬ Reach g.Edge g.entry v → r.dom v = none) := by
  have ht := (checkDomTree_iff g hwf r.idom).mp hc
  obtain ⟨he, hs⟩ := domLT_shape g r h
  refine ⟨he, ?_, ?_⟩
  · intro v hv hne hr
    obtain ⟨d, hd, hi⟩ := (ht v hv).2 hne hr
    refine ⟨d, ?_, hi⟩
    simp only [Result.idom] at hd
    cases hdv : r.dom v with
    | none => rw [hdv] at hd; simp at hd
    | some o =>
      rw [hdv] at hd; simp at hd; rw [hd]
  · intro v hv hr
    have hn := (ht v hv).1 (Or.inr hr)
    have hne : v ≠ g.entry := fun h => hr (h ▸ Reach.refl _)
    simp only [Result.idom] at hn
    cases hdv : r.dom v with
    | none => rfl
    | some o =>
      rw [hdv] at hn; simp at hn
      exact absurd (hn ▸ hdv) (hs v hne)

/-- Step 1 of `dom_lt` (the recursive DFS) terminates on every well-formed graph … -/
theorem domLT_dfs_total (g : Digraph) (hwf : g.WF) : ∃ s n, dfs g (dfsFuel g) = some (s, n) :=
  dfs_total g hwf

/-- … and leaves: `semi` = a bijection between the reachable vertices and 1..n with inverse `vertex`
    (entry ↦ 1), `parent` = a spanning tree of graph edges numbered increasingly, `pred[w]` = exactly
    the reachable predecessors of w, and every vertex its own `label` with no `ancestor`. -/
theorem domLT_dfs_facts (g : Digraph) (f : Nat) (s : St) (n : Nat) (h : dfs g f = some (s, n)) :
    DfsFacts g s n :=
  dfs_facts g f s n h

/-- `_compress(v)` terminates without `KeyError` whenever the link-eval forest is well formed for some
    rank function (every `ancestor` pointer goes to a strictly smaller rank) and the fuel exceeds
    `rank v`; it keeps the forest well formed.  (Ancestor chains strictly decrease in rank.) -/
theorem compress_terminates (rank : Nat → Nat) (f : Nat) (s : St) (v : Nat) (hF : Forest rank s)
    (hf : rank v < f) (hu : ∃ u, s.ancestor v = some (some u)) :
    ∃ s', compress f s v = some s' ∧ Forest rank s' ∧ Frame s s' :=
  compress_total rank f s v hF hf hu

/-- `_eval(v)` returns on every vertex that has been numbered (has an `ancestor` key) -/
theorem eval_terminates (rank : Nat → Nat) (f : Nat) (s : St) (v : Nat) (hF : Forest rank s)
    (hf : rank v < f) (hk : s.ancestor v ≠ none) :
    ∃ s' u, eval f s v = some (s', u) ∧ Forest rank s' ∧ Frame s s' :=
  eval_total rank f s v hF hf hk

/-- The rank is the DFS number: after Step 1 the forest is well formed for `rank = semi` (≤ n, so the
    fuel `n + 1` used by `domLT` suffices), and `_link(parent[w], w)` keeps it well formed. -/
theorem forest_rank_is_dfnum (g : Digraph) (f : Nat) (s : St) (n : Nat) (h : dfs g f = some (s, n)) :
    Forest s.semi s ∧ (∀ v, s.semi v ≤ n) ∧
    ∀ (s' : St) (w pw : Nat), Forest s.semi s' → s.parent w = some pw →
      s'.ancestor pw ≠ none → s'.ancestor w ≠ none →
      Forest s.semi { s' with ancestor := upd s'.ancestor w (some (some pw)) } := by
  have hfacts := dfs_facts g f s n h
  refine ⟨forest_after_dfs hfacts, ?_, ?_⟩
  · intro v
    by_cases hv : s.semi v = 0
    · omega
    · exact (hfacts.semi_vertex v hv).2.1
  · intro s' w pw hF hp hk1 hk2
    exact forest_link hF (hfacts.parent_lt w pw hp).2.2 hk1 hk2

/-- Historical bridge, kept because it is true and short: the full statement follows from "the checker
    never rejects the model's answer".  That hypothesis is no longer a gap: `domlt_correct` proves the
    full statement directly and `domLT_always_certified` proves the hypothesis. -/
theorem domlt_correct_of_always_certified
    (hgap : ∀ g : Digraph, g.WF → ∃ r, domLT g = some r ∧ checkDomTree g r.idom = true) :
    domlt_correct_full := by
  intro g hwf
  obtain ⟨r, hr, hc⟩ := hgap g hwf
  exact ⟨r, hr, domLT_certified g hwf r hr hc⟩

/-! ### Lengauer–Tarjan correctness of the model of `dom_lt`, for all well-formed graphs -/

/-- Step 1 leaves a DFS tree: numbering injective on exactly the reachable vertices, `parent` a
    spanning tree of edges with increasing numbers, an edge to a larger number goes to a tree
    descendant, and the numbers between a parent and its child belong to descendants of the parent. -/
theorem domlt_dfs_is_dtree (g : Digraph) (f : Nat) (s : St) (n : Nat) (h : dfs g f = some (s, n)) :
    DTree g.Edge g.entry s.semi s.parent :=
  dfs_dtree g f s n h

/-- `_eval(v)` (with `_compress`): when the link–eval forest invariant holds at level `i` (vertices
    numbered above `i` linked, `label` = a minimum-`semi` vertex of the compressed tree segment), the
    call returns without `KeyError` with fuel `> num v`, keeps the invariant, changes nothing but
    `ancestor`/`label`, and returns `v` if `v` is a root of the forest, otherwise a vertex of minimum
    `semi` among the linked tree ancestors of `v` (the forest ancestors of `v` below its root). -/
theorem domlt_eval_spec (g : Digraph) (f0 : Nat) (s0 : St) (n : Nat) (h : dfs g f0 = some (s0, n))
    (i f : Nat) (s : St) (v : Nat) (hF : FInv s0.semi s0.parent i s) (hv : s0.semi v ≠ 0)
    (hf : s0.semi v < f) :
    ∃ s' u, eval f s v = some (s', u) ∧ FInv s0.semi s0.parent i s' ∧ Same s s' ∧
      ((s0.semi v ≤ i ∧ u = v) ∨
       (i < s0.semi v ∧ i < s0.semi u ∧ Anc s0.parent u v ∧
        ∀ z, Anc s0.parent z v → i < s0.semi z → s.semi u ≤ s.semi z)) :=
  eval_spec (dfs_dtree g f0 s0 n h) i f s v hF hv hf

/-- Steps 2–3 are total on well-formed graphs (no `KeyError`, no unbound `y`, the fuel suffices) and
    afterwards `semi[v]` is the DFS number of the semidominator of `v`, for every reachable `v` other
    than the entry (Theorem 4 of the paper). -/
theorem domlt_semi_is_sdom (g : Digraph) (hwf : g.WF) (o : Order) (ho : o.Adm) (s : St) (n : Nat)
    (h : dfs g (dfsFuel g) = some (s, n)) :
    ∃ s1, steps23 o (g.n + 1) n s none = some s1 ∧
      ∀ v, v ≠ g.entry → Reach g.Edge g.entry v →
        ∃ sv, IsSemi g.Edge s.semi sv v ∧ s1.semi v = s.semi sv := by
  obtain ⟨s1, h1, hL⟩ := steps23_total hwf ho h
  refine ⟨s1, h1, ?_⟩
  intro v hne hr
  have C := ctx_of_dfs hwf h
  have hv0 : s.semi v ≠ 0 := (C.facts.semi_reach v).mpr hr
  have hv1 : s.semi v ≠ 1 := fun e =>
    hne (C.tree.inj v g.entry hv0 (by rw [e, C.facts.entry_one]))
  exact hL.core.semi_hi v (by omega)

/-- the model of `dom_lt` terminates without error on every well-formed graph -/
theorem domlt_total (g : Digraph) (hwf : g.WF) : ∃ r, domLT g = some r := by
  obtain ⟨r, h, _⟩ := domLT_correct g hwf
  exact ⟨r, h⟩

/-- LENGAUER–TARJAN CORRECTNESS: the full statement holds. -/
theorem domlt_correct : domlt_correct_full := by
  intro g hwf
  obtain ⟨r, h1, h2, h3, h4⟩ := domLT_correct g hwf
  exact ⟨r, h1, h2, fun v _ hne hr => h3 v hne hr, fun v _ hr => h4 v hr⟩

/-- … and it does not depend on the order in which Python enumerates the sets `pred[w]`
    (`for v in pred[w]`) and `bucket[pw]` (`bpw.pop()`): for EVERY enumeration order `o` (any function
    of the iteration and the set's content that yields exactly the set's elements) the model run with
    that order terminates without error and returns the dominator tree. -/
theorem domlt_correct_any_order (o : Order) (ho : o.Adm) (g : Digraph) (hwf : g.WF) :
    ∃ r, domLTWith o g = some r ∧ r.dom g.entry = some none ∧
      (∀ v, v ≠ g.entry → Reach g.Edge g.entry v →
        ∃ d, r.dom v = some (some d) ∧ IDom g.Edge g.entry d v) ∧
      (∀ v, ¬ Reach g.Edge g.entry v → r.dom v = none) :=
  domLTWith_correct o ho g hwf

/-- hence the returned dict is the same for every enumeration order (what the driver runs, insertion
    order, is representative of CPython's hash order) -/
theorem domlt_order_independent (o : Order) (ho : o.Adm) (g : Digraph) (hwf : g.WF) :
    ∃ r r', domLTWith o g = some r ∧ domLT g = some r' ∧ ∀ v, r.dom v = r'.dom v := by
  obtain ⟨r, h1, h2, h3, h4⟩ := domLTWith_correct o ho g hwf
  obtain ⟨r', g1, g2, g3, g4⟩ := domLT_correct g hwf
  refine ⟨r, r', h1, g1, ?_⟩
  intro v
  by_cases hv : v = g.entry
  · rw [hv, h2, g2]
  · by_cases hr : Reach g.Edge g.entry v
    · obtain ⟨d, hd, hi⟩ := h3 v hv hr
      obtain ⟨d', hd', hi'⟩ := g3 v hv hr
      rw [hd, hd', Spec.idom_unique hr hi hi']
    · rw [h4 v hr, g4 v hr]

/-- the same with the decidable well-formedness check as hypothesis -/
theorem domlt_correct_wfb (g : Digraph) (hwf : g.wfb = true) :
    ∃ r, domLT g = some r ∧ IsDomTree g r.idom := by
  obtain ⟨r, h1, h2, h3, h4⟩ := domLT_correct g (Rpo.wf_of_wfb hwf)
  refine ⟨r, h1, ?_⟩
  intro v _
  constructor
  · rintro (hv | hv)
    · simp [Result.idom, hv, h2]
    · simp [Result.idom, h4 v hv]
  · intro hne hr
    obtain ⟨d, hd, hi⟩ := h3 v hne hr
    exact ⟨d, by simp [Result.idom, hd], hi⟩

/-- the verified certificate checker never rejects the answer of the model of `dom_lt` -/
theorem domLT_always_certified (g : Digraph) (hwf : g.WF) :
    ∃ r, domLT g = some r ∧ checkDomTree g r.idom = true := by
  obtain ⟨r, h1, h2, h3, h4⟩ := domLT_correct g hwf
  refine ⟨r, h1, (checkDomTree_iff g hwf r.idom).mpr ?_⟩
  intro v _
  constructor
  · rintro (hv | hv)
    · simp [Result.idom, hv, h2]
    · simp [Result.idom, h4 v hv]
  · intro hne hr
    obtain ⟨d, hd, hi⟩ := h3 v hne hr
    exact ⟨d, by simp [Result.idom, hd], hi⟩

/-! ### non-vacuity -/

/-- the graph of the Lengauer–Tarjan paper used in tests/test_decompiler_dominator.py (r=0, a=1 … l=12) -/
def tarjan : Digraph :=
  { n := 13, entry := 0,
    edges := [[1, 2, 3], [4], [1, 4, 5], [6, 7], [12], [8], [9], [9, 10], [5, 11], [11], [9], [9, 0], [8]],
    catchEdges := [[], [], [], [], [], [], [], [], [], [], [], [], []] }

example : tarjan.wfb = true := by decide
/-- the model computes the dominators the paper gives -/
example : ((domLT tarjan).map fun r => (List.range 13).map r.idom)
    = some [none, some 0, some 0, some 0, some 0, some 0, some 3, some 3, some 0, some 0, some 7, some 0, some 4] := by
  decide
/-- an irreducible graph 0→1, 0→2, 1⇄2 with a self loop and a catch edge 1 ⇢ 3 -/
def irr : Digraph :=
  { n := 4, entry := 0, edges := [[1, 2], [2], [1, 2], []], catchEdges := [[], [3], [], []] }
example : ((domLT irr).map fun r => (List.range 4).map r.idom) = some [none, some 0, some 0, some 1] := by decide
example : IsDomTree irr (fun v => [none, some 0, some 0, some 1].getD v none) :=
  (cert_sound_complete irr (Rpo.wf_of_wfb (by decide)) _).mp (by decide)
/-- the hypotheses of the correctness theorem are satisfiable: it applies to both graphs (one with a
    cycle through the entry, one irreducible with a self loop, a catch edge and … no unreachable node) -/
example : ∃ r, domLT tarjan = some r ∧ IsDomTree tarjan r.idom := domlt_correct_wfb tarjan (by decide)
example : ∃ r, domLT irr = some r ∧ IsDomTree irr r.idom := domlt_correct_wfb irr (by decide)
/-- an admissible enumeration order other than insertion order: `pred[w]` reversed, `bucket[pw]`
    reversed in every other iteration -/
def revOrder : Order :=
  { pred := fun _ l => l.reverse, bucket := fun i l => if i % 2 = 0 then l.reverse else l }
example : revOrder.Adm := fun i l x => ⟨List.mem_reverse, by
  show x ∈ (if i % 2 = 0 then l.reverse else l) ↔ x ∈ l
  split
  · exact List.mem_reverse
  · exact Iff.rfl⟩
example : ((domLTWith revOrder tarjan).map fun r => (List.range 13).map r.idom)
    = some [none, some 0, some 0, some 0, some 0, some 0, some 3, some 3, some 0, some 0, some 7, some 0, some 4] := by
  decide
/-- a graph with an unreachable node 2 (and an edge from it into the reachable part) -/
def unr : Digraph := { n := 3, entry := 0, edges := [[1], [0], [1]], catchEdges := [[], [], []] }
example : ∃ r, domLT unr = some r ∧ IsDomTree unr r.idom := domlt_correct_wfb unr (by decide)
example : ((domLT unr).map fun r => (List.range 3).map r.dom) = some [some none, some (some 0), none] := by
  decide

end AgVerif.C18
