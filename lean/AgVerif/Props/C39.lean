/-
C39 — API-level resources follow the documented fallback rule.
Property theorems only (lemmas: AgVerif/Proof/ApiLevel.lean).

Model: AgVerif.ApiLevel (load_permissions / load_permission_mappings /
load_api_specific_resource_module, WITH fixes/C39-api-level-zero.diff).
Spec: AgVerif.Spec.ApiLevel.IsFallback (membership and order only).
Generated: AgVerif.Gen.ApiLevels (directory listings, DEFAULT_API) — `genRepo`.
Every theorem about levels quantifies over EVERY integer request and every directory listing
satisfying the stated (decidable) hypotheses; the `gen_*` theorems discharge the hypotheses for
the listing that is in the repository now.
-/
import AgVerif.Proof.ApiLevel
import AgVerif.Model.ApiLevelRepo
namespace AgVerif.C39
open AgVerif.ApiLevel AgVerif.Spec.ApiLevel AgVerif.Gen.ApiLevels

/-- load_permissions selects, for every integer, the level the documented rule selects. -/
theorem choose_spec (files levels : List Nat) (hne : levels ≠ []) (hc : Canonical files levels)
    (n : Int) (fuel : Nat) (hf : 2 ≤ fuel) :
    ∃ l, chooseFuel fuel files levels n = .level l ∧ IsFallback levels n l := by
  obtain ⟨f, rfl⟩ : ∃ f, fuel = f + 2 := ⟨fuel - 2, by omega⟩
  obtain ⟨l, hl, hmem, hcase⟩ := chooseFuel_cases f files levels n hne hc
  refine ⟨l, hl, hmem, ?_⟩
  rcases hcase with ⟨hfile, heq⟩ | ⟨hfile, hgt, rfl⟩ | ⟨hfile, hlt, rfl⟩ | ⟨hfile, _, _, hln, hmax⟩
  · exact Or.inl ⟨⟨l, hmem, heq⟩, heq⟩
  · refine Or.inr (Or.inl ⟨not_avail_of_not_file files levels n hc hfile, hgt, ?_⟩)
    intro k hk _; exact le_maxL levels k hk
  · refine Or.inr (Or.inr ⟨not_avail_of_not_file files levels n hc hfile, ?_, ?_⟩)
    · intro k hk; have := minL_le levels k hk; omega
    · intro k hk; exact minL_le levels k hk
  · exact Or.inr (Or.inl ⟨not_avail_of_not_file files levels n hc hfile, hln, hmax⟩)

/-- the rule determines the level: the specification is a function of (levels, request) -/
theorem fallback_unique (levels : List Nat) (n : Int) (l l' : Nat)
    (h : IsFallback levels n l) (h' : IsFallback levels n l') : l = l' := by
  obtain ⟨hm, hc⟩ := h
  obtain ⟨hm', hc'⟩ := h'
  rcases hc with ⟨ha, he⟩ | ⟨hna, hlt, hmx⟩ | ⟨hna, hall, hmn⟩ <;>
  rcases hc' with ⟨ha', he'⟩ | ⟨hna', hlt', hmx'⟩ | ⟨hna', hall', hmn'⟩
  · omega
  · exact absurd ha hna'
  · exact absurd ha hna'
  · exact absurd ha' hna
  · have := hmx l' hm' hlt'; have := hmx' l hm hlt; omega
  · have := hall' l hm; omega
  · exact absurd ha' hna
  · have := hall l' hm'; omega
  · have := hmn l' hm'; have := hmn' l hm; omega

/-- The four cases of the statement, one by one, for every integer request. -/
theorem choose_four_cases (files levels : List Nat) (hne : levels ≠ []) (hc : Canonical files levels)
    (n : Int) (fuel : Nat) (hf : 2 ≤ fuel) :
    ∃ l, chooseFuel fuel files levels n = .level l ∧
      -- (1) available: exactly that level
      (Avail levels n → (l : Int) = n) ∧
      -- (2) above the available range: the highest available level
      (¬ Avail levels n → (∀ k, k ∈ levels → (k : Int) < n) → IsMax levels l) ∧
      -- (3) below the available range: the lowest available level
      (¬ Avail levels n → (∀ k, k ∈ levels → n < (k : Int)) → IsMin levels l) ∧
      -- (4) in a gap: the highest available level below the request
      (¬ Avail levels n → (∃ k, k ∈ levels ∧ (k : Int) < n) →
          l ∈ levels ∧ (l : Int) < n ∧ ∀ k, k ∈ levels → (k : Int) < n → k ≤ l) := by
  obtain ⟨l, hl, hmem, hcase⟩ := choose_spec files levels hne hc n fuel hf
  refine ⟨l, hl, ?_, ?_, ?_, ?_⟩
  · intro ha
    rcases hcase with ⟨_, he⟩ | ⟨hna, _⟩ | ⟨hna, _⟩
    · exact he
    · exact absurd ha hna
    · exact absurd ha hna
  · intro hna hall
    rcases hcase with ⟨ha, _⟩ | ⟨_, _, hmx⟩ | ⟨_, hall', _⟩
    · exact absurd ha hna
    · exact ⟨hmem, fun k hk => hmx k hk (hall k hk)⟩
    · have := hall l hmem; have := hall' l hmem; omega
  · intro hna hall
    rcases hcase with ⟨ha, _⟩ | ⟨_, hlt, _⟩ | ⟨_, _, hmn⟩
    · exact absurd ha hna
    · have := hall l hmem; omega
    · exact ⟨hmem, hmn⟩
  · intro hna ⟨k, hk, hkn⟩
    rcases hcase with ⟨ha, _⟩ | ⟨_, hlt, hmx⟩ | ⟨_, hall', _⟩
    · exact absurd ha hna
    · exact ⟨hmem, hlt, hmx⟩
    · have := hall' k hk; omega

/-- The recursion of load_permissions lands on an existing level: with a canonical listing the
    result never depends on the stack depth (two frames suffice) and is never RecursionError,
    ValueError or "no levels". -/
theorem choose_terminates (files levels : List Nat) (hne : levels ≠ []) (hc : Canonical files levels)
    (n : Int) (fuel : Nat) (hf : 2 ≤ fuel) :
    chooseFuel fuel files levels n = chooseFuel 2 files levels n ∧
    ∃ l, l ∈ levels ∧ chooseFuel fuel files levels n = .level l := by
  obtain ⟨l, hl, hfb⟩ := choose_spec files levels hne hc n fuel hf
  obtain ⟨l2, hl2, hfb2⟩ := choose_spec files levels hne hc n 2 (Nat.le_refl 2)
  have := fallback_unique levels n l l2 hfb hfb2
  subst this
  exact ⟨by rw [hl, hl2], l, hfb.1, hl⟩

/-- …and the hypothesis is needed: with a non-canonical name (`permissions_04.json`: level 4 but
    no file `permissions_4.json`) a request above the range ends in `max()` of an empty sequence
    (ValueError) at every stack depth instead of on a level. -/
theorem choose_noncanonical_fails (fuel : Nat) : chooseFuel (fuel + 2) [] [4] 5 = .valueError := by
  rfl

/-- The listing that is in the repository now is canonical and non-empty, no level has an empty
    permission dictionary, and the default level has a mapping file (complete check of the
    generated tables). -/
theorem gen_canonical :
    Canonical permFiles permLevels ∧ permLevels ≠ [] ∧ permEmpty = [] ∧
    mapNames.contains (toString defaultApi) = true ∧ mapEmpty = [] := by
  decide

/-- load_api_specific_resource_module('aosp_permissions', n) for an integer n: the data of the
    level the rule selects (any repository whose listing is canonical and whose permission
    dictionaries are non-empty). -/
theorem module_perm_spec (r : Repo) (hne : r.permLevels ≠ []) (hc : Canonical r.permFiles r.permLevels)
    (he : r.permEmpty = []) (n : Int) :
    ∃ l, chooseModule r .perms (.int n) = .perm l ∧ IsFallback r.permLevels n l := by
  obtain ⟨l, hl, hfb⟩ := choose_spec r.permFiles r.permLevels hne hc n 1000 (by omega)
  refine ⟨l, ?_, hfb⟩
  simp [chooseModule, chooseModuleWith, Api.missing, load, loadPermissions, Api.toInt?, chooseLevel, hl, he]

/-- no level given (None): the default level is requested -/
theorem module_perm_default (r : Repo) (res : Resource) :
    chooseModule r res .none = chooseModule r res (.int r.defaultApi) := by
  simp [chooseModule, chooseModuleWith, Api.missing]

/-- the statement for the repository as it is now, for EVERY integer request -/
theorem gen_module_perm_spec (n : Int) :
    ∃ l, chooseModule genRepo .perms (.int n) = .perm l ∧ IsFallback permLevels n l :=
  module_perm_spec genRepo gen_canonical.2.1 gen_canonical.1 gen_canonical.2.2.1 n

/-- Permission mappings: the requested level's file when it exists (and is not `{}`), otherwise
    the default level's file, otherwise `{}` — for every argument (None, int, str). -/
theorem mapping_fallback (r : Repo) (a : Api) :
    chooseModule r .maps a =
      if r.hasMap (r.effective a).fmt then .map (r.effective a).fmt
      else if r.hasMap (toString r.defaultApi) then .map (toString r.defaultApi)
      else .empty := by
  have key : ∀ b : Api, loadMappings r b = if r.hasMap b.fmt then .map b.fmt else .empty := by
    intro b
    unfold loadMappings Repo.hasMap
    rcases Bool.eq_false_or_eq_true (r.mapNames.contains b.fmt) with h1 | h1 <;>
      rcases Bool.eq_false_or_eq_true (r.mapEmpty.contains b.fmt) with h2 | h2 <;>
      simp only [h1, h2] <;> rfl
  show (match load r .maps (r.effective a) with
        | .empty => load r .maps (Api.int r.defaultApi)
        | ret => ret) = _
  simp only [load, key]
  rcases Bool.eq_false_or_eq_true (r.hasMap (r.effective a).fmt) with h | h
  · rw [h]; rfl
  · rw [h]; rfl

/-- Every read of DEFAULT_API in load_api_specific_resource_module goes through the ACTIVE configuration
    `CONF` (= Configuration(), whose backing dict may be replaced), never through the module-level
    template `default_conf` — so `r.defaultApi` of the model is the default level of the configuration in
    force, and `mapping_fallback`/`module_perm_default` speak about that one (AST regenerated each run). -/
theorem default_read_from_active_conf :
    defaultReads ≠ [] ∧ defaultReads.all (fun o => o == "CONF") = true := by
  decide

/-- the fallback follows the configuration: for any default level d that has a non-empty mapping file, a
    request for a level without one loads d's mapping (every repository, every argument) -/
theorem mapping_fallback_follows_config (r : Repo) (d : Int) (a : Api)
    (hmiss : ({ r with defaultApi := d } : Repo).hasMap (({ r with defaultApi := d } : Repo).effective a).fmt = false)
    (hd : ({ r with defaultApi := d } : Repo).hasMap (toString d) = true) :
    chooseModule { r with defaultApi := d } .maps a = .map (toString d) := by
  rw [mapping_fallback, hmiss]
  simp only [Bool.false_eq_true, if_false]
  rw [hd]; rfl

/-- in the repository as it is now a mapping request never comes back empty -/
theorem gen_mapping_total (a : Api) :
    ∃ name, chooseModule genRepo .maps a = .map name ∧ name ∈ mapNames := by
  have hd : genRepo.hasMap (toString genRepo.defaultApi) = true := by decide
  rw [mapping_fallback genRepo a]
  rcases Bool.eq_false_or_eq_true (genRepo.hasMap (genRepo.effective a).fmt) with hh | hh
  · refine ⟨_, by rw [hh]; rfl, ?_⟩
    simp only [Repo.hasMap, Bool.and_eq_true] at hh
    simpa [genRepo] using hh.1
  · refine ⟨toString genRepo.defaultApi, by rw [hh, hd]; rfl, by decide⟩

/-- A level given as a decimal string and the same level given as an integer load the same data
    (fixed code). -/
theorem string_int_agree (r : Repo) (res : Resource) (n : Int) :
    chooseModule r res (.str (toString n)) = chooseModule r res (.int n) := by
  have hm : (Api.str (toString n)).missing = false := toString_int_ne_empty n
  have hm2 : (Api.int n).missing = false := rfl
  have ht : (toString n).toInt? = some n := toInt_toString n
  have hl : load r res (.str (toString n)) = load r res (.int n) := by
    cases res
    · simp only [load, loadPermissions, Api.toInt?, ht]
    · rfl
  unfold chooseModule chooseModuleWith
  rw [hm, hm2]
  simp only [Bool.false_eq_true, if_false]
  rw [hl]

/-- What the fix prevents (defect D22): with `if not api` the integer 0 selects the default level
    while the string "0" selects the lowest one. -/
theorem string_int_agree_unfixed_refuted :
    ¬ ∀ n : Int, chooseModuleOld genRepo .perms (.str (toString n)) = chooseModuleOld genRepo .perms (.int n) := by
  intro h
  have h0 := h 0
  have hs : chooseModuleOld genRepo .perms (.str (toString (0 : Int))) = .perm 4 := by
    have hm : (Api.str (toString (0 : Int))).missingOld = false := toString_int_ne_empty 0
    have ht : (toString (0 : Int)).toInt? = some 0 := toInt_toString 0
    simp only [chooseModuleOld, chooseModuleWith, hm, Bool.false_eq_true, if_false, load, loadPermissions,
      Api.toInt?, ht]
    decide
  have hi : chooseModuleOld genRepo .perms (.int 0) = .perm 16 := by decide
  rw [hs, hi] at h0
  exact absurd h0 (by decide)

/-! Non-vacuity: concrete objects satisfying the hypotheses, and the rule on concrete requests. -/
example : Canonical [5, 6, 7, 10] [10, 7, 6, 5] ∧ ([10, 7, 6, 5] : List Nat) ≠ [] := by decide
example : chooseFuel 2 [5, 6, 7, 10] [10, 7, 6, 5] 8 = .level 7 := by decide      -- docstring example
example : chooseFuel 2 [5, 6, 7, 10] [10, 7, 6, 5] 28 = .level 10 := by decide
example : chooseFuel 2 [5, 6, 7, 10] [10, 7, 6, 5] (-3) = .level 5 := by decide
example : IsFallback [10, 7, 6, 5] 8 7 := by
  refine ⟨by decide, Or.inr (Or.inl ⟨?_, by decide, ?_⟩)⟩
  · rintro ⟨k, hk, he⟩; simp at hk; omega
  · intro k hk hlt; simp at hk; omega
example : chooseModule genRepo .perms (.int 0) = .perm 4 := by decide
example : chooseModule genRepo .perms (.int 20) = .perm 19 := by decide
example : chooseModule genRepo .maps (.int 20) = .map "16" := by decide
example : chooseModule genRepo .maps (.int 21) = .map "21" := by decide
example : chooseModule { genRepo with defaultApi := 19 } .maps (.int 20) = .map "19" := by decide

end AgVerif.C39
