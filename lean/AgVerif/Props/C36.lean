/-
C36 — Concurrent sessions on one database get distinct identifiers.
Property theorems only (lemmas and invariants: AgVerif/Proof/Session.lean).

Model: AgVerif.Session — N sessions, each a (read count; insert id=count) program, on shared state
`ids`; a schedule is ANY list of session indices (who takes the next step); an insert fails on a
duplicate primary key.  Spec: AgVerif.Spec.Session (IsSchedule, Overlap, AllCreatedDistinct).

`stepRetry` is the code WITH fixes/C36-session-id-retry.diff and carries the main theorems
(`retry_*`): for every N, every initial row count b and every schedule.  `stepOld` is the unfixed
code: its full statement is refuted and the failing schedules are characterised exactly
(`race_iff`) — what the fix prevents.  `stepAtomic` is the reference repair of the design.
Assumption (trusted base): SQLite executes one COUNT / one INSERT atomically and enforces the
primary key.  That the table holds exactly the ids 0..rows-1 is NOT left to prose: it is the invariant
`Dense` (`dense_invariant`: true of the empty table, preserved by every step), the hypothesis `DenseIds`
of `retry_ok_on_dense_table`, and `gap_livelocks` shows what happens without it.  Databases also modified
by other writers (deleted rows, foreign inserts) are outside the claim.
-/
import AgVerif.Proof.Session
import AgVerif.Gen.SessionLoop
namespace AgVerif.C36
open AgVerif.Session AgVerif.Spec.Session

/-! ## the unfixed protocol (count, then insert; an IntegrityError leaves the constructor) -/

/-- Sessions created one after the other succeed with identifiers b, b+1, … (what the tests see). -/
theorem sequential_ok (N b : Nat) :
    (run stepOld (sequential N) (St.init b)).ids = List.range (b + N) ∧
    (∀ i, i < N → (run stepOld (sequential N) (St.init b)).outcome i = some (b + i)) ∧
    IsSchedule N (sequential N) := by
  have hsched : IsSchedule N (sequential N) := by
    induction N with
    | zero => exact ⟨by simp [sequential], by simp⟩
    | succ n ih =>
      obtain ⟨a, c⟩ := ih
      have hs : sequential (n + 1) = sequential n ++ [n, n] := rfl
      constructor
      · intro i hi
        rw [hs] at hi
        rcases List.mem_append.1 hi with h | h
        · have := a i h; omega
        · simp at h; omega
      · intro i hi
        rw [hs, List.count_append]
        by_cases hin : i = n
        · subst hin
          have : (sequential i).count i = 0 := List.count_eq_zero.2 (fun h => by have := a i h; omega)
          simp [this]
        · have := c i (by omega)
          have h0 : List.count i [n, n] = 0 := List.count_eq_zero.2 (by simp [hin])
          omega
  obtain ⟨h1, h2, _⟩ := sequential_state stepOld stepOld_idle stepOld_accept N b
  exact ⟨h1, fun i hi => by simp [St.outcome, h2 i hi], hsched⟩

/-- The full statement is false of the unfixed code: two sessions, schedule r₀ r₁ i₀ i₁. -/
theorem all_schedules_distinct_refuted :
    ¬ ∀ N b σ, IsSchedule N σ → AllCreatedDistinct N (run stepOld σ (St.init b)).outcome := by
  intro h
  obtain ⟨hc, _⟩ := h 2 0 [0, 1, 0, 1] (by decide)
  obtain ⟨k, hk⟩ := hc 1 (by decide)
  have hnone : (run stepOld [0, 1, 0, 1] (St.init 0)).outcome 1 = none := by decide
  rw [hnone] at hk
  cases hk

/-- Exactly which schedules fail, for every N, every b and every interleaving of the 2N steps:
    some session's insert raises IntegrityError iff some read falls between another session's read
    and insert. -/
theorem race_iff (N b : Nat) (σ : List Nat) (hσ : IsSchedule N σ) :
    (∃ i, i < N ∧ ∃ k, (run stepOld σ (St.init b)).pc i = .failed k) ↔ Overlap σ := by
  have inv := oldInv_run b σ
  have cnt : ∀ i, σ.count i = 0 ∨ σ.count i = 2 := by
    intro i
    by_cases hi : i < N
    · exact Or.inr (hσ.2 i hi)
    · exact Or.inl (List.count_eq_zero.2 (fun h => hi (hσ.1 i h)))
  constructor
  · rintro ⟨i, _, k, hk⟩
    by_contra hno
    exact (inv.noov hno).1 i k hk
  · intro hov
    rcases inv.ov hov with ⟨i, k, h⟩ | ⟨i, k, h, _⟩ | ⟨i, _, ki, _, _, h, _⟩
    · refine ⟨i, ?_, k, h⟩
      have := inv.t_failed i k h
      by_contra hi
      have : σ.count i = 0 := List.count_eq_zero.2 (fun hm => hi (hσ.1 i hm))
      omega
    · have := inv.t_counted i k h; rcases cnt i with c | c <;> omega
    · have := inv.t_counted i ki h; rcases cnt i with c | c <;> omega

/-- Even the unfixed code never hands out one identifier twice (the primary key sees to that);
    what it gets wrong is that a session is not created. -/
theorem old_identifiers_distinct (b : Nat) (σ : List Nat) (i j k : Nat)
    (hi : (run stepOld σ (St.init b)).outcome i = some k)
    (hj : (run stepOld σ (St.init b)).outcome j = some k) : i = j := by
  have inv := oldInv_run b σ
  have conv : ∀ i, (run stepOld σ (St.init b)).outcome i = some k → (run stepOld σ (St.init b)).pc i = .done k := by
    intro i h
    unfold St.outcome at h
    split at h
    · simp only [Option.some.injEq] at h; subst h; assumption
    · cases h
  exact inv.done_inj i j k (conv i hi) (conv j hj)

/-! ## the fixed protocol (retry on IntegrityError) — main theorems -/

/-- Safety under EVERY schedule (any list of steps of N sessions, complete or not): no constructor
    ever raises, the identifiers handed out are pairwise distinct, and the table always holds exactly
    the ids 0 … b+(number of sessions created)-1. -/
theorem retry_safe (N b : Nat) (σ : List Nat) (hσ : ∀ i, i ∈ σ → i < N) :
    (∀ i k, (run stepRetry σ (St.init b)).pc i ≠ .failed k) ∧
    (∀ i j k, (run stepRetry σ (St.init b)).outcome i = some k →
              (run stepRetry σ (St.init b)).outcome j = some k → i = j) ∧
    (run stepRetry σ (St.init b)).ids = List.range (b + (run stepRetry σ (St.init b)).log.length) := by
  have inv := retryInv_run N b σ hσ
  refine ⟨inv.no_failed, ?_, by rw [← inv.len_eq]; exact inv.ids_range⟩
  intro i j k hi hj
  have conv : ∀ i, (run stepRetry σ (St.init b)).outcome i = some k → (run stepRetry σ (St.init b)).pc i = .done k := by
    intro i h
    unfold St.outcome at h
    split at h
    · simp only [Option.some.injEq] at h; subst h; assumption
    · cases h
  exact inv.done_inj i j k (conv i hi) (conv j hj)

/-- Progress bound: however the others are interleaved, a session is created after at most 2N of
    its own steps (each rejected insert is paid for by another session's successful one, and there
    are at most N-1 of those). -/
theorem retry_bounded (N b : Nat) (σ : List Nat) (hσ : ∀ i, i ∈ σ → i < N) (i : Nat) (hi : i < N)
    (hsteps : 2 * N ≤ σ.count i) :
    ∃ k, (run stepRetry σ (St.init b)).pc i = .done k := by
  have inv := retryInv_run N b σ hσ
  generalize run stepRetry σ (St.init b) = s at inv
  have hlog : (∀ k, s.pc i ≠ .done k) → s.log.length + 1 ≤ N := by
    intro hnd
    have hnot : i ∉ s.log := fun h => by
      obtain ⟨_, k, hk⟩ := inv.log_done i h
      exact hnd k hk
    have hn : (i :: s.log).Nodup := List.nodup_cons.2 ⟨hnot, inv.log_nodup⟩
    have := nodup_lt_length_le (i :: s.log) N hn (by
      intro j hj
      rcases List.mem_cons.1 hj with rfl | h
      · exact hi
      · exact (inv.log_done j h).1)
    simpa using this
  cases hp : s.pc i with
  | idle =>
    have h1 := inv.steps_idle i hp
    have h2 := inv.idle_bound i hp
    have h3 := hlog (by intro k' e; rw [hp] at e; cases e)
    omega
  | counted k =>
    have h1 := inv.steps_counted i k hp
    have h2 := inv.counted_bound i k hp
    have h3 := hlog (by intro k' e; rw [hp] at e; cases e)
    have h4 := inv.len_eq
    omega
  | failed k => exact absurd hp (inv.no_failed i k)
  | done k => exact ⟨k, rfl⟩

/-- THE PROPERTY for the fixed code: for every N, every initial row count b and every schedule in
    which each session gets its (at most 2N) steps, every session is created and receives an
    identifier no other session has; the table then holds exactly 0 … b+N-1. -/
theorem retry_all_schedules_ok (N b : Nat) (σ : List Nat) (hσ : ∀ i, i ∈ σ → i < N)
    (hfair : ∀ i, i < N → 2 * N ≤ σ.count i) :
    AllCreatedDistinct N (run stepRetry σ (St.init b)).outcome ∧
    (run stepRetry σ (St.init b)).ids = List.range (b + N) := by
  have hdone : ∀ i, i < N → ∃ k, (run stepRetry σ (St.init b)).pc i = .done k :=
    fun i hi => retry_bounded N b σ hσ i hi (hfair i hi)
  obtain ⟨_, hinj, hids⟩ := retry_safe N b σ hσ
  have inv := retryInv_run N b σ hσ
  refine ⟨⟨?_, fun i j k _ _ h1 h2 => hinj i j k h1 h2⟩, ?_⟩
  · intro i hi
    obtain ⟨k, hk⟩ := hdone i hi
    exact ⟨k, by simp [St.outcome, hk]⟩
  · rw [hids]
    have hle : (run stepRetry σ (St.init b)).log.length ≤ N :=
      nodup_lt_length_le _ N inv.log_nodup (fun i hi => (inv.log_done i hi).1)
    have hge : N ≤ (run stepRetry σ (St.init b)).log.length := by
      have hsub : List.range N ⊆ (run stepRetry σ (St.init b)).log := by
        intro i hi
        obtain ⟨k, hk⟩ := hdone i (List.mem_range.1 hi)
        exact inv.done_in_log i k hk
      simpa using List.Nodup.length_le_of_subset List.nodup_range hsub
    have : (run stepRetry σ (St.init b)).log.length = N := by omega
    rw [this]

/-- sessions created one after the other behave as before the fix: identifiers b, b+1, …, no retry -/
theorem retry_sequential_ok (N b : Nat) :
    (run stepRetry (sequential N) (St.init b)).ids = List.range (b + N) ∧
    (∀ i, i < N → (run stepRetry (sequential N) (St.init b)).outcome i = some (b + i)) := by
  obtain ⟨h1, h2, _⟩ := sequential_state stepRetry stepRetry_idle stepRetry_accept N b
  exact ⟨h1, fun i hi => by simp [St.outcome, h2 i hi]⟩

/-! ## identifier assigned inside one atomic statement (reference repair) -/

/-- With the identifier assigned by a single atomic statement every schedule in which each session
    takes its step creates all sessions with pairwise distinct identifiers. -/
theorem atomic_all_schedules_ok (N b : Nat) (σ : List Nat) (hall : ∀ i, i < N → 1 ≤ σ.count i) :
    AllCreatedDistinct N (run stepAtomic σ (St.init b)).outcome := by
  have inv := atomicInv_run b σ
  generalize run stepAtomic σ (St.init b) = s at inv
  have conv : ∀ i k, s.outcome i = some k → s.pc i = .done k := by
    intro i k h
    unfold St.outcome at h
    split at h
    · simp only [Option.some.injEq] at h; subst h; assumption
    · cases h
  refine ⟨?_, fun i j k _ _ h1 h2 => inv.done_inj i j k (conv i k h1) (conv j k h2)⟩
  intro i hi
  cases hp : s.pc i with
  | idle => have := inv.t_idle i hp; have := hall i hi; omega
  | counted k => exact absurd hp (inv.not_counted i k)
  | failed k => exact absurd hp (inv.not_failed i k)
  | done k => exact ⟨k, by simp [St.outcome, hp]⟩

/-! ## density of the table: proved of this code, needed by the theorems -/

/-- `Dense`: the primary keys in the table are exactly 0 … rows-1 (and no session holds a count above the
    row number).  It holds for the empty table and for `St.init b`, and EVERY step of EVERY session of this
    code — fixed or unfixed — preserves it, from any dense state: for a database that only this code writes
    to, density is an invariant, not an assumption. -/
theorem dense_invariant :
    Dense (St.start []) ∧ (∀ b, Dense (St.init b)) ∧
    (∀ s x, Dense s → Dense (stepRetry s x)) ∧ (∀ s x, Dense s → Dense (stepOld s x)) ∧
    (∀ σ s, Dense s → Dense (run stepRetry σ s)) :=
  ⟨dense_start [] (by decide), dense_init, dense_stepRetry, dense_stepOld, dense_run stepRetry dense_stepRetry⟩

/-- THE PROPERTY, hypothesis explicit: sessions starting on ANY table whose primary keys are dense
    (`DenseIds ids₀`, not a particular `St.init b`): under every schedule no constructor raises and
    identifiers are pairwise distinct; each session is created within 2N own steps; with those steps
    granted all N are created and the table is again dense with N more rows. -/
theorem retry_ok_on_dense_table (N : Nat) (ids₀ : List Nat) (hd : DenseIds ids₀) (σ : List Nat)
    (hσ : ∀ i, i ∈ σ → i < N) :
    (∀ i k, (run stepRetry σ (St.start ids₀)).pc i ≠ .failed k) ∧
    (∀ i j k, (run stepRetry σ (St.start ids₀)).outcome i = some k →
              (run stepRetry σ (St.start ids₀)).outcome j = some k → i = j) ∧
    Dense (run stepRetry σ (St.start ids₀)) ∧
    (∀ i, i < N → 2 * N ≤ σ.count i → ∃ k, (run stepRetry σ (St.start ids₀)).pc i = .done k) ∧
    ((∀ i, i < N → 2 * N ≤ σ.count i) →
      AllCreatedDistinct N (run stepRetry σ (St.start ids₀)).outcome ∧
      (run stepRetry σ (St.start ids₀)).ids = List.range (ids₀.length + N)) := by
  have hdense := dense_run stepRetry dense_stepRetry σ _ (dense_start ids₀ hd)
  rw [start_eq_init ids₀ hd] at hdense ⊢
  obtain ⟨h1, h2, _⟩ := retry_safe N ids₀.length σ hσ
  exact ⟨h1, h2, hdense, fun i hi hc => retry_bounded N ids₀.length σ hσ i hi hc,
    fun hf => retry_all_schedules_ok N ids₀.length σ hσ hf⟩

/-- The hypothesis is needed: on the table {0, 2} (a deleted row, or a foreign writer) the count is 2 and
    id 2 is taken, so under EVERY schedule of any number of sessions nothing is ever inserted and no
    session is ever created — the unbounded loop spins for ever. -/
theorem gap_livelocks (σ : List Nat) :
    ¬ DenseIds [0, 2] ∧ (run stepRetry σ (St.start [0, 2])).ids = [0, 2] ∧
    ∀ i, (run stepRetry σ (St.start [0, 2])).outcome i = none := by
  have h := gapStuck_run σ (St.start [0, 2]) ⟨rfl, fun _ => Or.inl rfl⟩
  refine ⟨by decide, h.1, ?_⟩
  intro i
  rcases h.2 i with hp | hp <;> simp [St.outcome, hp]

/-! ## the loop of the code is the loop of the model -/

/-- What `stepRetry` assumes about Session.__init__, checked against the AST extracted on every run
    (gen/sessionloop.py): the count and the insert sit in an UNBOUNDED `while True` loop left by `break`
    right after a successful insert; exactly IntegrityError is caught; the handler rolls back and
    falls through to the re-count.  A bounded `for _ in range(k)` gives `loopBound = some k` and this
    obligation breaks (see `bounded_retry_refuted` for why that matters). -/
theorem retry_loop_unbounded :
    Gen.SessionLoop.hasLoop = true ∧ Gen.SessionLoop.loopBound = none ∧
    Gen.SessionLoop.caught = ["IntegrityError"] ∧ Gen.SessionLoop.breakOnSuccess = true ∧
    Gen.SessionLoop.rollbackBeforeRecount = true := by
  decide

/-- Tightness: no finite budget of attempts is enough.  With a loop that gives up after k ≥ 1 attempts
    there is, for N = k+1 sessions (from any initial row count), a schedule — the victim is parked
    between count and insert while rival m runs to completion, m = 1…k — in which the victim's
    constructor raises.  (`retry_bounded`: with the unbounded loop 2N own steps always suffice.) -/
theorem bounded_retry_refuted (k b : Nat) (hk : 1 ≤ k) :
    (∀ i, i ∈ victim k → i < k + 1) ∧
    ∃ id, (run (stepBounded k) (victim k) (St.init b)).pc 0 = .failed id := by
  constructor
  · exact victim_mem k
  · obtain ⟨m, rfl⟩ : ∃ m, k = m + 1 := ⟨k - 1, by omega⟩
    obtain ⟨h1, h2, h3, h4⟩ := victim_state (m + 1) b m (by omega)
    have hv : victim (m + 1) = victim m ++ [0, m + 1, m + 1, 0] := rfl
    rw [hv, run_append]
    obtain ⟨s', hs', _, _, _, a4⟩ := victim_round (m + 1) b m _ h1 h2 h3 h4
    rw [hs']
    simp only [Nat.lt_irrefl, if_false] at a4
    exact ⟨b + m, a4⟩

/-- …while the same schedule, completed by the victim's last two steps, creates every session under the
    unbounded loop (instance of `retry_safe`; the general statement is `retry_all_schedules_ok`). -/
theorem victim_schedule_ok_unbounded (k b : Nat) :
    ∀ i id, (run stepRetry (victim k ++ [0, 0]) (St.init b)).pc i ≠ .failed id := by
  have hmem : ∀ i, i ∈ victim k ++ [0, 0] → i < k + 1 := by
    intro i hi
    rcases List.mem_append.1 hi with h | h
    · exact victim_mem k i h
    · simp at h; omega
  exact (retry_safe (k + 1) b _ hmem).1

/-! ## non-vacuity -/

-- schedules exist; the 6 / 90 count is checked by the harness
example : IsSchedule 2 [0, 1, 0, 1] ∧ IsSchedule 3 [2, 0, 1, 1, 0, 2] := by decide
example : Overlap [0, 1, 0, 1] := ⟨[0], [0, 1], 0, 1, rfl, by decide, by decide, by decide⟩
-- the witness of the refutation, and the same schedule under the fix (session 1 retries once)
example : (run stepOld [0, 1, 0, 1] (St.init 0)).pc 1 = .failed 0 := by decide
example : (run stepRetry [0, 1, 0, 1, 1, 1] (St.init 0)).outcome 1 = some 1 ∧
          (run stepRetry [0, 1, 0, 1, 1, 1] (St.init 0)).outcome 0 = some 0 ∧
          (run stepRetry [0, 1, 0, 1, 1, 1] (St.init 0)).retries 1 = 1 := by decide
-- a schedule satisfying the hypotheses of retry_all_schedules_ok for N = 2 (each session 4 steps)
example : (∀ i, i ∈ [0, 1, 0, 1, 1, 1, 0, 0] → i < 2) ∧ (∀ i, i < 2 → 2 * 2 ≤ [0, 1, 0, 1, 1, 1, 0, 0].count i) := by
  decide
-- the bound 2N of retry_bounded is reached up to one step: N = 2, session 1 needs 4 of its own steps
example : ((run stepRetry [0, 1, 0, 1, 1] (St.init 0)).pc 1).isDone = false := by decide
-- the budget-5 loop of the seeded change: six sessions, the victim loses five times and raises
example : (run (stepBounded 5) (victim 5) (St.init 0)).pc 0 = .failed 4 := by decide
example : ((run stepRetry (victim 5 ++ [0, 0]) (St.init 0)).pc 0) = .done 5 := by decide
-- a dense table that is not of the form produced here by name, and the gap table after 6 steps of one session
example : DenseIds [0, 1, 2] ∧ ¬ DenseIds [0, 2] := by decide
example : (run stepRetry [0, 0, 0, 0, 0, 0] (St.start [0, 2])).retries 0 = 3 ∧
          (run stepRetry [0, 0, 0, 0, 0, 0] (St.start [0, 2])).pc 0 = .idle := by decide

end AgVerif.C36
