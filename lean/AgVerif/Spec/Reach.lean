/-
Specification for C29: the concrete values reachable from a resource id.

Given the abstract table and the requested configuration, a resource `a` *refers to* `b`
when one of the `Res_value`s of the entries selected for `a` is a reference to `b`
(`b ≠ 0`: `@null`; `b ≠ a`: a resource referring to itself contributes nothing new).
`Reach` is the reflexive-transitive closure.  The concrete values of a resource are the
non-reference `Res_value`s of its selected entries, tagged as the resolver tags them
(`pair config s` for a simple entry, `bare s` inside a complex entry).
`ReachVal t w rid tok`: `tok` is a concrete value of some resource reachable from `rid`.

Selection of entries for an id is `Resolve.getResConfigs` (specified separately by
`C28.res_configs_spec`).
-/
import AgVerif.Model.Resolve
namespace AgVerif.Spec.Reach
open AgVerif.Resolve

def itemsOf : Entry → List Item
  | .simple v => [v]
  | .complex items => items

/-- the targets of the references stored for `rid` -/
def refsOf (t : Table) (w : Option Config) (rid : ResId) : List ResId :=
  ((getResConfigs t rid w).flatMap fun p => itemsOf p.2).filterMap fun
    | .ref r => if r ≠ 0 ∧ r ≠ rid then some r else none
    | .lit _ => none

/-- the concrete values stored in one entry -/
def directE (c : Config) : Entry → List Tok
  | .simple (.lit s) => [.pair c s]
  | .simple (.ref _) => []
  | .complex items => items.filterMap fun
    | .lit s => some (.bare s)
    | .ref _ => none

/-- the concrete values stored for `rid` -/
def direct (t : Table) (w : Option Config) (rid : ResId) : List Tok :=
  (getResConfigs t rid w).flatMap fun p => directE p.1 p.2

inductive Reach (t : Table) (w : Option Config) : ResId → ResId → Prop where
  | refl (a : ResId) : Reach t w a a
  | step {a b c : ResId} : b ∈ refsOf t w a → Reach t w b c → Reach t w a c

def ReachVal (t : Table) (w : Option Config) (rid : ResId) (tok : Tok) : Prop :=
  ∃ r, Reach t w rid r ∧ tok ∈ direct t w r

/-- no resource reachable from `rid` lies on a reference cycle -/
def AcyclicFrom (t : Table) (w : Option Config) (rid : ResId) : Prop :=
  ∀ a b, Reach t w rid a → b ∈ refsOf t w a → ¬ Reach t w b a

end AgVerif.Spec.Reach
