/-
Specification side of C26: the XML tree a source document denotes, stated with the independent definitions of
Spec/AxmlTree.lean (`XNode`, `valueString`) only.  `toX` reads a tree of the model's type as a specification tree.
-/
import AgVerif.Spec.AxmlTree
import AgVerif.Spec.AxmlFile
namespace AgVerif.Spec.Axml
open AgVerif.Axml
open AgVerif.Spec.AxmlTree (XAttr XNode valueString distinctKeys)

def toXAttr (a : Attr) : XAttr := ⟨a.ns, a.name, a.value⟩

mutual
/-- structural copy: the printer's tree as a specification tree -/
def toX : Node → XNode
  | .elem tag ns attrs kids => .elem tag ns (attrs.map toXAttr) (toXL kids)
  | .text s => .text s
def toXL : List Node → List XNode
  | [] => []
  | n :: r => toX n :: toXL r
end

/-- the attribute a typed source attribute denotes: namespace URI ("" = none), name, the string of its Res_value -/
def specAttrOf (complex : Nat → Nat → Str) (a : SAttr) : XAttr :=
  ⟨a.ns.getD [], a.name, valueString complex a.ty a.data a.str⟩

mutual
/-- the XML tree a document denotes (elements, namespace URIs, attributes in order, text chunks) -/
def specTreeOf (complex : Nat → Nat → Str) : SNode → XNode
  | .elem _ tag ns _ attrs kids => .elem tag (ns.getD []) (attrs.map (specAttrOf complex)) (specTreeOfL complex kids)
  | .text _ s => .text s
def specTreeOfL (complex : Nat → Nat → Str) : List SNode → List XNode
  | [] => []
  | n :: r => specTreeOf complex n :: specTreeOfL complex r
end

mutual
/-- as XML demands, no element carries two attributes with the same (namespace, name) -/
def distinctAttrs : SNode → Prop
  | .elem _ _ _ _ attrs kids => (attrs.map fun a => (a.ns.getD [], a.name)).Nodup ∧ distinctAttrsL kids
  | .text _ _ => True
def distinctAttrsL : List SNode → Prop
  | [] => True
  | n :: r => distinctAttrs n ∧ distinctAttrsL r
end

end AgVerif.Spec.Axml
