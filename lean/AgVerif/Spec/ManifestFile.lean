/-
Specification side of C31, file level: the binary XML document a build tool (aapt) writes for a manifest (`docOf`): the `android`
prefix bound to the android namespace on the root element, every attribute but `package` in that namespace, typed values
(string / int_dec / boolean / reference, `Val`), no text nodes.  The bytes are `encodeAxml E (docOf ln m)` of Spec/AxmlFile.lean
for an encoding choice `E` (UTF-8 / UTF-16 pool, prefix widths, pool order, resource map — the map is where the resource ids of
the system attributes of Gen/AxmlConsts `sysAttrNames` go; `wfDoc` demands that it does not rename an attribute).
-/
import AgVerif.Spec.ManifestFull
import AgVerif.Spec.AxmlFile
namespace AgVerif.Spec.Manifest
open AgVerif.Axml AgVerif.Manifest AgVerif.Gen.AxmlConsts AgVerif.Spec.Axml

/-- `android:name="value"` with a typed value; rawValue is 0xFFFFFFFF for a non-string (aapt) -/
def Val.sattr (n : AName) : Val → SAttr
  | .str s => ⟨some nsAndroid, n.str, 0xFFFFFFFF, 3, 0, s⟩
  | .int d => ⟨some nsAndroid, n.str, 0xFFFFFFFF, 0x10, d, []⟩
  | .bool b => ⟨some nsAndroid, n.str, 0xFFFFFFFF, 0x12, if b then 0xFFFFFFFF else 0, []⟩
  | .ref id => ⟨some nsAndroid, n.str, 0xFFFFFFFF, 1, id, []⟩

def optSAttr (n : AName) : Option Val → List SAttr
  | none => []
  | some v => [v.sattr n]

/-- an element without namespace and without namespace declarations, on line `ln` -/
def sEl (ln : Nat) (t : Tag) (attrs : List SAttr) (kids : List SNode) : SNode := .elem ln t.str none [] attrs kids

def namedDoc (ln : Nat) (t : Tag) (name : Str) : SNode := sEl ln t [(Val.str name).sattr .name] []

def Filter.doc (ln : Nat) (f : Filter) : SNode :=
  sEl ln .intentFilter [] (f.actions.map (namedDoc ln .action) ++ f.categories.map (namedDoc ln .category))

def Activity.doc (ln : Nat) (a : Activity) : SNode :=
  sEl ln a.tag ((Val.str a.name).sattr .name :: (optSAttr .enabled a.enabled ++ optSAttr .targetActivity (a.target.map .str)))
    (a.filters.map (Filter.doc ln))

def UsesPermission.doc (ln : Nat) (p : UsesPermission) : SNode :=
  sEl ln .usesPermission ((Val.str p.name).sattr .name :: optSAttr .maxSdk p.maxSdk) []

def UsesSdk.doc (ln : Nat) (s : UsesSdk) : SNode :=
  sEl ln .usesSdk (optSAttr .minSdk s.min ++ (optSAttr .targetSdk s.target ++ optSAttr .maxSdk s.max)) []

/-- the document of a manifest: `<manifest xmlns:android="http://schemas.android.com/apk/res/android" package=… …>` -/
def docOf (ln : Nat) (m : AppManifest) : SNode :=
  .elem ln Tag.manifest.str none [(lit "android", nsAndroid)]
    (⟨none, lit attrPackage, 0xFFFFFFFF, 3, 0, m.package⟩ ::
      (optSAttr .versionCode m.versionCode ++ optSAttr .versionName (m.versionName.map .str)))
    (m.usesSdk.toList.map (UsesSdk.doc ln) ++ (m.permissions.map (UsesPermission.doc ln) ++ (m.features.map (namedDoc ln .usesFeature) ++
      [sEl ln .application []
        (m.activities.map (Activity.doc ln) ++ (m.services.map (namedDoc ln .service) ++ (m.receivers.map (namedDoc ln .receiver) ++
          (m.providers.map (namedDoc ln .provider) ++ m.libraries.map (namedDoc ln .usesLibrary)))))])))

/-- integer and reference data are uint32 -/
def Val.fits : Val → Bool
  | .int d => decide (d < 2 ^ 32)
  | .ref id => decide (id < 2 ^ 32)
  | _ => true

/-- every typed value of the manifest -/
def AppManifest.vals (m : AppManifest) : List Val :=
  m.versionCode.toList ++ ((m.usesSdk.toList.flatMap UsesSdk.vals) ++ (m.permissions.flatMap (·.maxSdk.toList) ++
    m.activities.flatMap (·.enabled.toList)))

def AppManifest.fits (m : AppManifest) : Bool := m.vals.all Val.fits

/-! ### a canonical encoding choice (for examples): attribute names first, with their resource ids -/

mutual
/-- every string a document refers to -/
def stringsOf : SNode → List Str
  | .elem _ tag ns decls attrs kids =>
    tag :: (ns.toList ++ (decls.flatMap (fun d => [d.1, d.2]) ++
      (attrs.flatMap (fun a => a.ns.toList ++ (a.name :: (if a.ty = 3 then [a.str] else []))) ++ stringsOfL kids)))
  | .text _ s => [s]
def stringsOfL : List SNode → List Str
  | [] => []
  | n :: r => stringsOf n ++ stringsOfL r
end

def allANames : List AName := [.name, .versionCode, .versionName, .minSdk, .targetSdk, .maxSdk, .enabled, .targetActivity]

/-- the resource id of a system attribute (frameworks/base public.xml); checked against the table generated from androguard's
    data, Gen/AxmlConsts `sysAttrNames`, by Props/C31 `attr_res_ids` -/
def attrResId : AName → Nat
  | .name => 0x1010003
  | .versionCode => 0x101021b
  | .versionName => 0x101021c
  | .minSdk => 0x101020c
  | .targetSdk => 0x1010270
  | .maxSdk => 0x1010271
  | .enabled => 0x101000e
  | .targetActivity => 0x1010202

/-- pool = the android attribute names, then every string of the document; resource map = the ids of those names -/
def canonEnc (utf8 wide : Bool) (d : SNode) : Enc :=
  ⟨utf8, wide, allANames.map AName.str ++ stringsOf d, some (allANames.map attrResId)⟩

/-! ### manifests that can be written as binary XML -/

/-- a string attribute value is an XML string -/
def legalStr (s : Str) : Bool := decide (LegalValue s)

def Val.legal : Val → Bool
  | .str s => legalStr s
  | _ => true

/-- every string value of the manifest is a string of XML characters -/
def AppManifest.legal (m : AppManifest) : Bool :=
  legalStr m.package && m.versionCode.all Val.legal && m.versionName.all legalStr &&
  m.usesSdk.all (fun s => s.vals.all Val.legal) &&
  m.permissions.all (fun p => legalStr p.name && p.maxSdk.all Val.legal) && m.features.all legalStr &&
  m.activities.all (fun a => legalStr a.name && a.enabled.all Val.legal && a.target.all legalStr &&
    a.filters.all fun f => f.actions.all legalStr && f.categories.all legalStr) &&
  m.services.all legalStr && m.receivers.all legalStr && m.providers.all legalStr && m.libraries.all legalStr

end AgVerif.Spec.Manifest
