/-
Specification side of C31: what a manifest declares (`ManifestModel`), the XML a build tool emits for it (`toXml`), and
Android's rule for completing component class names.
-/
import AgVerif.Model.Manifest
namespace AgVerif.Spec.Manifest
open AgVerif.Axml AgVerif.Manifest AgVerif.Gen.AxmlConsts

/-- Android's rule (PackageParser.buildClassName): a leading dot or no dot at all means "relative to the package" -/
def complete (pkg name : Str) : Str :=
  if name = [] ∨ pkg = [] then name
  else if name.head? = some 0x2E then pkg ++ name
  else if 0x2E ∈ name then name
  else pkg ++ [0x2E] ++ name

structure ManifestModel where
  package : Str
  versionCode : Str
  versionName : Str
  permissions : List Str
  features : List Str
  activities : List Str
  services : List Str
  receivers : List Str
  providers : List Str
  libraries : List Str

/-- `<tag android:name="name"/>` -/
def leaf (tag : String) (name : Str) : Node := .elem (lit tag) [] [⟨nsAndroid, lit attrName, name⟩] []

def toXml (m : ManifestModel) : Node :=
  .elem (lit tagManifest) []
    [⟨[], lit attrPackage, m.package⟩, ⟨nsAndroid, lit attrVersionCode, m.versionCode⟩, ⟨nsAndroid, lit attrVersionName, m.versionName⟩]
    (m.permissions.map (leaf tagUsesPermission) ++ m.features.map (leaf tagUsesFeature) ++
      [.elem (lit "application") [] []
        (m.activities.map (leaf tagActivity) ++ m.services.map (leaf tagService) ++ m.receivers.map (leaf tagReceiver) ++
          m.providers.map (leaf tagProvider) ++ m.libraries.map (leaf tagUsesLibrary))])

/-- names are not empty (an empty `android:name` is read as absent by the `a or b` idiom) -/
def WF (m : ManifestModel) : Prop :=
  m.package ≠ [] ∧ m.versionCode ≠ [] ∧ m.versionName ≠ [] ∧
  (∀ n ∈ m.permissions ++ m.features ++ m.activities ++ m.services ++ m.receivers ++ m.providers ++ m.libraries, n ≠ [])

end AgVerif.Spec.Manifest
