/-
Independent specification for C09 (imports nothing): the constants and field positions of the
`header_item` of the DEX format document ("Dalvik executable format", header_item table),
and the Adler-32 checksum of RFC 1950 §8.2 in closed form.

A file is a list of bytes.  All reads are partial (`Option`), nothing is totalised.
-/
namespace AgVerif.Spec.Header

/-! ### header_item (offsets in bytes) -/

def magicOff : Nat := 0            -- ubyte[8] = "dex\n" version "\0"
def checksumOff : Nat := 8         -- uint  adler32 of the rest of the file (everything but magic and this field)
def signatureOff : Nat := 12       -- ubyte[20]
def fileSizeOff : Nat := 32
def headerSizeOff : Nat := 36      -- uint = 0x70
def endianTagOff : Nat := 40       -- uint = ENDIAN_CONSTANT
def typeIdsSizeOff : Nat := 64     -- at most 65535
def protoIdsSizeOff : Nat := 72    -- at most 65535
def checksummedFrom : Nat := 12

def headerSize : Nat := 0x70
def endianConstant : Nat := 0x12345678
def reverseEndianConstant : Nat := 0x78563412
def maxTypeIds : Nat := 65535
def maxProtoIds : Nat := 65535

/-- little-endian `uint` at a byte offset -/
def field (f : List Nat) (off : Nat) : Option Nat :=
  match (f.drop off).take 4 with
  | [a, b, c, d] => some (a + 2 ^ 8 * b + 2 ^ 16 * c + 2 ^ 24 * d)
  | _ => none

/-- The magic AS ANDROGUARD ACCEPTS IT, which is WIDER than the format document.
    The document fixes DEX_FILE_MAGIC = `dex\n` + three decimal version digits (`035` … `041`) + `\0`.
    `MagicOK` additionally admits `dey\n` (the magic of optimised ODEX files, not a DEX magic)
    and ANY three bytes in the version positions 4..6 (the code only logs a warning there).
    It is fitted to the code on purpose: `accepted_iff` states exactly what the code accepts, and
    the property needs only the other direction — everything outside `MagicOK` (a fortiori
    everything outside the document's narrower set that differs in bytes 0..3 or 7) is rejected
    (`bad_magic_rejected`).  A wrong version such as `dex\n0x5\0` is NOT rejected by androguard and
    no theorem here says it is (`version_bytes_not_decisive` says the opposite). -/
def MagicOK (f : List Nat) : Prop :=
  f[0]? = some 0x64 ∧ f[1]? = some 0x65 ∧ (f[2]? = some 0x78 ∨ f[2]? = some 0x79)
    ∧ f[3]? = some 0x0a ∧ f[7]? = some 0x00

instance (f : List Nat) : Decidable (MagicOK f) := by unfold MagicOK; infer_instance

/-! ### Adler-32 (RFC 1950): s1 = 1 + Σ bytes, s2 = Σ of the successive s1, both mod 65521 -/

/-- Σ_{j} (n - j) · b_j : how often each byte has been added into s2 -/
def weighted : List Nat → Nat
  | [] => 0
  | x :: xs => (xs.length + 1) * x + weighted xs

def s1 (bs : List Nat) : Nat := (1 + bs.sum) % 65521
def s2 (bs : List Nat) : Nat := (bs.length + weighted bs) % 65521
def adler32 (bs : List Nat) : Nat := s2 bs * 2 ^ 16 + s1 bs

end AgVerif.Spec.Header
