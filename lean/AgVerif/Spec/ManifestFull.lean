/-
Specification side of C31, the full manifest: what an AndroidManifest.xml declares (`AppManifest`: package, versions, uses-sdk,
uses-permission with maxSdkVersion, features, activities and activity aliases with enabled flag / targetActivity / intent
filters, services, receivers, providers, libraries), the XML tree a build tool emits for it (`AppManifest.toXml`, attribute
values as the strings an XML reader sees), and what each listed query has to answer (`AppManifest.answers`, the launcher rule).

Attribute values are typed (`Val`) as aapt writes them; `Val.render` is the string the binary-XML printer shows for the value
(Props/C26 `attr_value_*`).  The simple `ManifestModel` of Spec/Manifest.lean is the special case `ManifestModel.full`.
-/
import AgVerif.Spec.Manifest
namespace AgVerif.Spec.Manifest
open AgVerif.Axml AgVerif.Manifest AgVerif.Gen.AxmlConsts

/-! ### vocabulary -/

inductive Tag where
  | manifest | usesSdk | usesPermission | usesFeature | application | activity | activityAlias | intentFilter
  | action | category | service | receiver | provider | usesLibrary
  deriving DecidableEq, Repr

def Tag.str : Tag → Str
  | .manifest => lit tagManifest
  | .usesSdk => lit tagUsesSdk
  | .usesPermission => lit tagUsesPermission
  | .usesFeature => lit tagUsesFeature
  | .application => lit "application"
  | .activity => lit tagActivity
  | .activityAlias => lit tagActivityAlias
  | .intentFilter => lit "intent-filter"
  | .action => lit tagAction
  | .category => lit tagCategory
  | .service => lit tagService
  | .receiver => lit tagReceiver
  | .provider => lit tagProvider
  | .usesLibrary => lit tagUsesLibrary

/-- the `android:` attributes the listed queries read, and `targetActivity` -/
inductive AName where
  | name | versionCode | versionName | minSdk | targetSdk | maxSdk | enabled | targetActivity
  deriving DecidableEq, Repr

def AName.str : AName → Str
  | .name => lit attrName
  | .versionCode => lit attrVersionCode
  | .versionName => lit attrVersionName
  | .minSdk => lit attrMinSdk
  | .targetSdk => lit attrTargetSdk
  | .maxSdk => lit attrMaxSdk
  | .enabled => lit attrEnabled
  | .targetActivity => lit "targetActivity"

/-- a typed attribute value (Res_value): string, decimal integer (uint32 data, two's complement), boolean, reference -/
inductive Val where
  | str (s : Str)
  | int (data : Nat)
  | bool (b : Bool)
  | ref (id : Nat)
  deriving DecidableEq, Repr

/-- the string an XML reader sees for the value -/
def Val.render : Val → Str
  | .str s => s
  | .int d => if d < 2 ^ 31 then decNat d else 0x2D :: decNat (2 ^ 32 - d)
  | .bool b => if b then lit "true" else lit "false"
  | .ref id => 0x40 :: ((if id / 2 ^ 24 = 1 then lit "android:" else []) ++ hex8U id)

/-! ### what a manifest declares -/

structure Filter where
  actions : List Str
  categories : List Str
  deriving DecidableEq, Repr

/-- `<activity>` or (`alias`) `<activity-alias>` -/
structure Activity where
  alias : Bool
  name : Str
  enabled : Option Val
  target : Option Str
  filters : List Filter
  deriving DecidableEq, Repr

structure UsesPermission where
  name : Str
  maxSdk : Option Val
  deriving DecidableEq, Repr

structure UsesSdk where
  min : Option Val
  target : Option Val
  max : Option Val
  deriving DecidableEq, Repr

structure AppManifest where
  package : Str
  versionCode : Option Val
  versionName : Option Str
  usesSdk : Option UsesSdk
  permissions : List UsesPermission
  features : List Str
  activities : List Activity
  services : List Str
  receivers : List Str
  providers : List Str
  libraries : List Str
  deriving Repr

/-! ### the XML of a manifest -/

def el (t : Tag) (attrs : List Attr) (kids : List Node) : Node := .elem t.str [] attrs kids
def att (n : AName) (v : Str) : Attr := ⟨nsAndroid, n.str, v⟩
def optAtt (n : AName) : Option Str → List Attr
  | none => []
  | some v => [att n v]

/-- `<tag android:name="name"/>` -/
def named (t : Tag) (name : Str) : Node := el t [att .name name] []

def Filter.toXml (f : Filter) : Node :=
  el .intentFilter [] (f.actions.map (named .action) ++ f.categories.map (named .category))

def Activity.tag (a : Activity) : Tag := if a.alias then .activityAlias else .activity

def Activity.toXml (a : Activity) : Node :=
  el a.tag (att .name a.name :: (optAtt .enabled (a.enabled.map Val.render) ++ optAtt .targetActivity a.target))
    (a.filters.map Filter.toXml)

def UsesPermission.toXml (p : UsesPermission) : Node :=
  el .usesPermission (att .name p.name :: optAtt .maxSdk (p.maxSdk.map Val.render)) []

def UsesSdk.toXml (s : UsesSdk) : Node :=
  el .usesSdk (optAtt .minSdk (s.min.map Val.render) ++ (optAtt .targetSdk (s.target.map Val.render) ++ optAtt .maxSdk (s.max.map Val.render))) []

def AppManifest.toXml (m : AppManifest) : Node :=
  el .manifest
    (⟨[], lit attrPackage, m.package⟩ :: (optAtt .versionCode (m.versionCode.map Val.render) ++ optAtt .versionName m.versionName))
    (m.usesSdk.toList.map UsesSdk.toXml ++ (m.permissions.map UsesPermission.toXml ++ (m.features.map (named .usesFeature) ++
      [el .application []
        (m.activities.map Activity.toXml ++ (m.services.map (named .service) ++ (m.receivers.map (named .receiver) ++
          (m.providers.map (named .provider) ++ m.libraries.map (named .usesLibrary)))))])))

/-- the simple model as a full one -/
def ManifestModel.full (m : ManifestModel) : AppManifest :=
  { package := m.package, versionCode := some (.str m.versionCode), versionName := some m.versionName, usesSdk := none,
    permissions := m.permissions.map (⟨·, none⟩), features := m.features,
    activities := m.activities.map (⟨false, ·, none, none, []⟩), services := m.services, receivers := m.receivers,
    providers := m.providers, libraries := m.libraries }

/-! ### the launcher rule -/

/-- an intent filter for the launcher: action MAIN and category LAUNCHER -/
def Filter.isLauncher (f : Filter) : Bool := f.actions.contains (lit actionMain) && f.categories.contains (lit categoryLauncher)

/-- not disabled: no `android:enabled`, or a value that does not read "false" -/
def Activity.live (a : Activity) : Bool := a.enabled.map Val.render != some (lit valFalse)

def Activity.hasMainAction (a : Activity) : Bool := a.filters.any fun f => f.actions.contains (lit actionMain)
def Activity.hasLauncherCategory (a : Activity) : Bool := a.filters.any fun f => f.categories.contains (lit categoryLauncher)

/-- a main (launcher) activity: enabled, with a launcher filter -/
def Activity.isMain (a : Activity) : Bool := a.live && a.filters.any Filter.isLauncher

/-! ### well-formedness (decidable) -/

def UsesSdk.vals (s : UsesSdk) : List Val := s.min.toList ++ (s.target.toList ++ s.max.toList)

/-- names and values that are read through the `a or b` idiom are not empty (an empty one is read as absent); when a MAIN action
    and a LAUNCHER category are declared under the same component name, one filter of the component holding the MAIN action has
    both (androguard looks for the two halves anywhere under components of that name) -/
def AppManifest.WF (m : AppManifest) : Prop :=
  m.package ≠ [] ∧ (∀ v ∈ m.versionCode.toList, v.render ≠ []) ∧ (∀ s ∈ m.versionName.toList, s ≠ []) ∧
  (∀ s ∈ m.usesSdk.toList, ∀ v ∈ s.vals, v.render ≠ []) ∧
  (∀ p ∈ m.permissions, p.name ≠ [] ∧ ∀ v ∈ p.maxSdk.toList, v.render ≠ []) ∧
  (∀ a ∈ m.activities, a.name ≠ []) ∧
  (∀ n ∈ m.features ++ (m.services ++ (m.receivers ++ (m.providers ++ m.libraries))), n ≠ []) ∧
  (∀ a ∈ m.activities, ∀ b ∈ m.activities, a.live = true → b.live = true → a.hasMainAction = true → b.hasLauncherCategory = true →
    a.name = b.name → a.filters.any Filter.isLauncher = true)

instance (m : AppManifest) : Decidable m.WF := by unfold AppManifest.WF; infer_instance

/-- `WF` without its last clause: only "names and values read through the `a or b` idiom are not empty" -/
def AppManifest.WF0 (m : AppManifest) : Prop :=
  m.package ≠ [] ∧ (∀ v ∈ m.versionCode.toList, v.render ≠ []) ∧ (∀ s ∈ m.versionName.toList, s ≠ []) ∧
  (∀ s ∈ m.usesSdk.toList, ∀ v ∈ s.vals, v.render ≠ []) ∧
  (∀ p ∈ m.permissions, p.name ≠ [] ∧ ∀ v ∈ p.maxSdk.toList, v.render ≠ []) ∧
  (∀ a ∈ m.activities, a.name ≠ []) ∧
  (∀ n ∈ m.features ++ (m.services ++ (m.receivers ++ (m.providers ++ m.libraries))), n ≠ [])

instance (m : AppManifest) : Decidable m.WF0 := by unfold AppManifest.WF0; infer_instance

/-- the last clause of `WF` on its own: whenever a MAIN action and a LAUNCHER category are declared under one component name
    (in enabled components), the component holding the MAIN action has a filter with both -/
def AppManifest.LauncherCoherent (m : AppManifest) : Prop :=
  ∀ a ∈ m.activities, ∀ b ∈ m.activities, a.live = true → b.live = true → a.hasMainAction = true → b.hasLauncherCategory = true →
    a.name = b.name → a.filters.any Filter.isLauncher = true

instance (m : AppManifest) : Decidable m.LauncherCoherent := by unfold AppManifest.LauncherCoherent; infer_instance

/-- androguard's notion of a main activity (`get_main_activities`: "x.intersection(y)"): a NAME under which some enabled
    activity / alias declares the action MAIN (in any of its filters) and some enabled activity / alias declares the category
    LAUNCHER (in any of its filters).  Android's launcher asks for both in ONE filter (`Activity.isMain`); the two notions
    coincide exactly on the manifests that are `LauncherCoherent`. -/
def AppManifest.IsMainName (m : AppManifest) (n : Str) : Prop :=
  (∃ a ∈ m.activities, a.live = true ∧ a.hasMainAction = true ∧ a.name = n) ∧
  (∃ b ∈ m.activities, b.live = true ∧ b.hasLauncherCategory = true ∧ b.name = n)

/-! ### what the queries have to answer -/

def optFirst : Option Str → First
  | none => .none
  | some s => .val s

/-- `int(s)`, or Python `None` when it is not an integer (`_get_permission_maxsdk`) -/
def intOrNone (s : Str) : Option PyInt :=
  match pyInt s with
  | .ok i => some (.ok i)
  | .valueError => none
  | .unmodelled => some .unmodelled

/-- `int(s)`, or 1 when it is not an integer (`get_effective_target_sdk_version`) -/
def intOrOne (s : Str) : PyInt :=
  match pyInt s with
  | .ok i => .ok i
  | .valueError => .ok 1
  | .unmodelled => .unmodelled

structure Answers where
  package : Option Str
  versionCode : First
  versionName : First
  permissions : List Str
  usesPermissions : List (Option Str × Option PyInt)
  activities : List Str
  services : List Str
  receivers : List Str
  providers : List Str
  libraries : List Str
  features : List Str
  minSdk : First
  targetSdk : First
  maxSdk : First
  effectiveTarget : Option PyInt

/-- the answers read off an analysis -/
def answersOfAnalysis (a : Analysis) : Answers :=
  { package := a.package, versionCode := a.versionCode, versionName := a.versionName, permissions := a.permissions,
    usesPermissions := a.usesPermissions, activities := a.activities, services := a.services, receivers := a.receivers,
    providers := a.providers, libraries := a.libraries, features := a.features, minSdk := a.sdk attrMinSdk,
    targetSdk := a.sdk attrTargetSdk, maxSdk := a.sdk attrMaxSdk, effectiveTarget := a.effectiveTarget }

def AppManifest.sdkVal (m : AppManifest) (f : UsesSdk → Option Val) : Option Str := (m.usesSdk.bind f).map Val.render

/-- what the manifest declares, query by query (lists in document order; component names completed by Android's rule;
    permission, feature and library names as written; the effective target: target, else min, else 1) -/
def AppManifest.answers (m : AppManifest) : Answers :=
  { package := some m.package
    versionCode := optFirst (m.versionCode.map Val.render)
    versionName := optFirst m.versionName
    permissions := dedup (m.permissions.map (·.name))
    usesPermissions := m.permissions.map fun p => (some p.name, (p.maxSdk.map Val.render).bind intOrNone)
    activities := (m.activities.filter (!·.alias)).map fun a => complete m.package a.name
    services := m.services.map (complete m.package)
    receivers := m.receivers.map (complete m.package)
    providers := m.providers.map (complete m.package)
    libraries := m.libraries
    features := m.features
    minSdk := optFirst (m.sdkVal (·.min))
    targetSdk := optFirst (m.sdkVal (·.target))
    maxSdk := optFirst (m.sdkVal (·.max))
    effectiveTarget := some (match m.sdkVal (·.target) with
      | some s => intOrOne s
      | none => match m.sdkVal (·.min) with
        | some s => intOrOne s
        | none => .ok 1) }

/-- the (completed) names of the launcher activities and aliases -/
def AppManifest.mainNames (m : AppManifest) : List Str := (m.activities.filter Activity.isMain).map (·.name)

end AgVerif.Spec.Manifest
