/-
Specification side of C26 that imports nothing: the XML tree a binary XML document denotes, and the string an attribute
value of each `Res_value` type denotes.

Sources: frameworks/base/libs/androidfw/include/androidfw/ResourceTypes.h (`Res_value::TYPE_*`), android.util.TypedValue
.coerceToString, and the conventions of `aapt dump xmltree` / androguard's documentation for the textual form:
  TYPE_STRING (0x03)            the pool string
  TYPE_REFERENCE (0x01)         "@"  + "android:" when the package byte (bits 24..31) is 0x01 + the id as 8 upper-case hex digits
  TYPE_ATTRIBUTE (0x02)         "?"  + the same
  TYPE_INT_HEX (0x11)           "0x" + 8 upper-case hex digits
  TYPE_INT_BOOLEAN (0x12)       "false" when data = 0, else "true"
  TYPE_INT_COLOR_* (0x1c-0x1f)  "#"  + 8 upper-case hex digits
  other TYPE_FIRST_INT..TYPE_LAST_INT (0x10-0x1f)   data as a signed 32-bit integer (two's complement) in decimal
  TYPE_FLOAT / TYPE_DIMENSION / TYPE_FRACTION (0x04-0x06)   the rendering of property C27 (a parameter here)
  TYPE_NULL, the dynamic reference types and every undefined type have no string in Android (coerceToString returns null);
  the printed document shows the documented placeholder "<0x" + data in upper-case hex (no padding) + ", type 0x" + the type
  as two upper-case hex digits + ">".
Digits are defined by their VALUE (`d / 16^k % 16`, decimal expansion by `/ 10`, `% 10`), not by a printing routine.
-/
namespace AgVerif.Spec.AxmlTree

abbrev Str := List Nat

structure XAttr where
  ns : Str          -- namespace URI, "" = none
  name : Str
  value : Str
  deriving DecidableEq, Repr

inductive XNode where
  | elem (tag ns : Str) (attrs : List XAttr) (kids : List XNode)
  | text (s : Str)
  deriving Repr

def ascii (s : String) : Str := s.toList.map Char.toNat

/-- the character of a hexadecimal digit value, upper case -/
def hexChar (n : Nat) : Nat := if n < 10 then 0x30 + n else 0x41 + (n - 10)

/-- eight hexadecimal digits, most significant first: digit k (from the right) is `d / 16^k % 16` -/
def hex8 (d : Nat) : Str :=
  [hexChar (d / 16 ^ 7 % 16), hexChar (d / 16 ^ 6 % 16), hexChar (d / 16 ^ 5 % 16), hexChar (d / 16 ^ 4 % 16),
   hexChar (d / 16 ^ 3 % 16), hexChar (d / 16 ^ 2 % 16), hexChar (d / 16 % 16), hexChar (d % 16)]

/-- two hexadecimal digits -/
def hex2 (t : Nat) : Str := [hexChar (t / 16 % 16), hexChar (t % 16)]

/-- hexadecimal without leading zeros (one digit for 0) -/
def hexMin (n : Nat) : Str :=
  if h : n < 16 then [hexChar n] else hexMin (n / 16) ++ [hexChar (n % 16)]
termination_by n
decreasing_by omega

/-- decimal without leading zeros (one digit for 0) -/
def dec (n : Nat) : Str :=
  if h : n < 10 then [0x30 + n] else dec (n / 10) ++ [0x30 + n % 10]
termination_by n
decreasing_by omega

/-- a 32-bit word read as a two's-complement integer, in decimal -/
def int32String (d : Nat) : Str :=
  if d < 2 ^ 31 then dec d else 0x2D :: dec (2 ^ 32 - d)

/-- "android:" for identifiers of the framework package (package byte 0x01) -/
def packagePrefix (d : Nat) : Str := if d / 2 ^ 24 = 1 then ascii "android:" else []

/-- the string an attribute value of type `ty` with data word `data` denotes (`str`: the pool string of a TYPE_STRING value;
    `complex ty data`: the C27 rendering of float / dimension / fraction) -/
def valueString (complex : Nat → Nat → Str) (ty data : Nat) (str : Str) : Str :=
  if ty = 0x03 then str
  else if ty = 0x01 then 0x40 :: (packagePrefix data ++ hex8 data)
  else if ty = 0x02 then 0x3F :: (packagePrefix data ++ hex8 data)
  else if ty = 0x04 ∨ ty = 0x05 ∨ ty = 0x06 then complex ty data
  else if ty = 0x11 then ascii "0x" ++ hex8 data
  else if ty = 0x12 then (if data = 0 then ascii "false" else ascii "true")
  else if 0x1C ≤ ty ∧ ty ≤ 0x1F then 0x23 :: hex8 data
  else if 0x10 ≤ ty ∧ ty ≤ 0x1F then int32String data
  else ascii "<0x" ++ hexMin data ++ ascii ", type 0x" ++ hex2 ty ++ ascii ">"

/-- XML does not allow two attributes with the same (namespace, name) on one element -/
def distinctKeys (l : List XAttr) : Prop := (l.map fun a => (a.ns, a.name)).Nodup

end AgVerif.Spec.AxmlTree
