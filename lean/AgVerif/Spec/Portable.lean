/-
Independent specification for C38: which characters a portable file name must not contain
(Microsoft "Naming Files, Paths, and Namespaces": the reserved characters  < > : " / \ | ? *
and the control characters 0..31), and which characters it must not end with (space, period).
Imports nothing.
-/
namespace AgVerif.Spec.Portable

/-- reserved or control character -/
def Forbidden (c : Char) : Prop :=
  c.toNat < 32 ∨ c ∈ ['<', '>', ':', '"', '/', '\\', '|', '?', '*']

/-- a name must not end with one of these -/
def BadEnd (c : Char) : Prop := c = ' ' ∨ c = '.'

/-- the last character of a non-empty name is neither a space nor a period -/
def GoodEnd (name : List Char) : Prop := ∀ c, name.getLast? = some c → ¬ BadEnd c

/-- no reserved and no control character anywhere -/
def NoForbidden (name : List Char) : Prop := ∀ c ∈ name, ¬ Forbidden c

end AgVerif.Spec.Portable
