/-
Specification of the APK Signing Block (APK Signature Scheme v2 / v3 / v3.1), transcribed from
https://source.android.com/docs/security/features/apksigning/v2 (and /v3, /v3-1).
Imports nothing; independent of the model.

  block    = u64 size | pair* | u64 size | "APK Sig Block 42"     size = |pair*| + 24
  pair     = u64 (4 + |value|) | u32 id | value
  value    = lp( signer* )         (id 0x7109871a: v2, 0xf05368c0: v3, 0x1b93ad61: v3.1)
  signer   = lp( lp(signedData) | [u32 minSDK | u32 maxSDK]ᵥ₃ | lp(signatures) | lp(publicKey) )
  signedData = lp(digests) | lp(certificates) | [u32 minSDK | u32 maxSDK]ᵥ₃ | lp(attributes)
  digests, signatures = ( lp( u32 algorithm | lp(bytes) ) )*
  certificates        = ( lp(bytes) )*
where `lp x` is the uint32 little-endian length of x followed by x.
-/
namespace AgVerif.Spec.SigBlock

abbrev Bytes := List Nat

def magic : Bytes := [0x41, 0x50, 0x4b, 0x20, 0x53, 0x69, 0x67, 0x20, 0x42, 0x6c, 0x6f, 0x63, 0x6b, 0x20, 0x34, 0x32]
def idV2 : Nat := 0x7109871a
def idV3 : Nat := 0xf05368c0
def idV31 : Nat := 0x1b93ad61
/-- ZIP (APPNOTE 4.3.16 / 4.3.12): end-of-central-directory and central-file-header signatures -/
def zipEocdSig : Bytes := [0x50, 0x4b, 0x05, 0x06]
def zipCdSig : Bytes := [0x50, 0x4b, 0x01, 0x02]

def encU32 (n : Nat) : Bytes := [n % 256, n / 256 % 256, n / 65536 % 256, n / 16777216 % 256]
def encU64 (n : Nat) : Bytes := encU32 (n % 4294967296) ++ encU32 (n / 4294967296 % 4294967296)
def lp (b : Bytes) : Bytes := encU32 b.length ++ b

/-- a digest or a signature: algorithm id and bytes -/
abbrev AlgItem := Nat × Bytes

def encodeItem (x : AlgItem) : Bytes := lp (encU32 x.1 ++ lp x.2)
/-- the content of a digests / signatures sequence -/
def encodeSeq (xs : List AlgItem) : Bytes := xs.flatMap encodeItem
def encodeCerts (cs : List Bytes) : Bytes := cs.flatMap lp

structure Signer where
  digests : List AlgItem
  certs : List Bytes
  attrs : Bytes
  sigs : List AlgItem
  pubkey : Bytes
  /-- v3 only: (minSDK, maxSDK) inside the signed data, and in the signer -/
  sdSdk : Nat × Nat := (0, 0)
  sgSdk : Nat × Nat := (0, 0)

def encSdk (v3 : Bool) (p : Nat × Nat) : Bytes := if v3 then encU32 p.1 ++ encU32 p.2 else []

def encodeSignedData (v3 : Bool) (s : Signer) : Bytes :=
  lp (encodeSeq s.digests) ++ (lp (encodeCerts s.certs) ++ (encSdk v3 s.sdSdk ++ lp s.attrs))

/-- a signer without its own length prefix -/
def signerBody (v3 : Bool) (s : Signer) : Bytes :=
  lp (encodeSignedData v3 s) ++ (encSdk v3 s.sgSdk ++ (lp (encodeSeq s.sigs) ++ lp s.pubkey))

def encodeSigner (v3 : Bool) (s : Signer) : Bytes := lp (signerBody v3 s)
def encodeValue (v3 : Bool) (ss : List Signer) : Bytes := lp (ss.flatMap (encodeSigner v3))

/-- an ID-value pair of the block -/
abbrev Pair := Nat × Bytes
def encodePair (p : Pair) : Bytes := encU64 (4 + p.2.length) ++ (encU32 p.1 ++ p.2)
def encodePairs (ps : List Pair) : Bytes := ps.flatMap encodePair
def encodeBlock (ps : List Pair) : Bytes :=
  encU64 ((encodePairs ps).length + 24) ++ (encodePairs ps ++ (encU64 ((encodePairs ps).length + 24) ++ magic))

/-- end-of-central-directory record without comment: signature, 12 bytes (disk numbers, entry
    counts, size of the central directory), offset of the central directory, comment length 0 -/
def eocd (mid : Bytes) (centralOffset : Nat) : Bytes := zipEocdSig ++ (mid ++ (encU32 centralOffset ++ [0, 0]))

/-- an APK: local entries, signing block, central directory, EOCD pointing at the central directory -/
def apkFile (pre : Bytes) (ps : List Pair) (cdRest mid : Bytes) : Bytes :=
  pre ++ (encodeBlock ps ++ (zipCdSig ++ cdRest ++ eocd mid (pre.length + (encodeBlock ps).length)))

/-- an archive without signing block: local entries `pre` (at least 24 bytes, not ending in the
    magic), central directory, EOCD without comment pointing at the central directory -/
def plainFile (pre cdRest mid : Bytes) : Bytes :=
  pre ++ (zipCdSig ++ (cdRest ++ (zipEocdSig ++ (mid ++ (encU32 pre.length ++ [0, 0])))))


/-! well-formedness: everything fits its length field -/
def ItemWF (x : AlgItem) : Prop := x.1 < 2 ^ 32 ∧ x.2.length + 8 < 2 ^ 32
def SignerWF (v3 : Bool) (s : Signer) : Prop :=
  (∀ x ∈ s.digests, ItemWF x) ∧ (∀ x ∈ s.sigs, ItemWF x) ∧ (∀ c ∈ s.certs, c.length < 2 ^ 32) ∧
  (signerBody v3 s).length < 2 ^ 32 ∧
  s.sdSdk.1 < 2 ^ 32 ∧ s.sdSdk.2 < 2 ^ 32 ∧ s.sgSdk.1 < 2 ^ 32 ∧ s.sgSdk.2 < 2 ^ 32
def PairWF (p : Pair) : Prop := p.1 < 2 ^ 32 ∧ p.2.length + 4 < 2 ^ 63

/-- what must be reported for the pairs of a block, in order: id, "this id occurred before", value -/
def reported : List Nat → List Pair → List (Nat × Bool × Bytes)
  | _, [] => []
  | seen, p :: ps => (p.1, seen.contains p.1, p.2) :: reported (seen ++ [p.1]) ps

/-- hypotheses shared by the whole-file theorems: every pair fits its fields, the EOCD has its
    12 counter bytes, the central-directory offset fits 32 bits. -/
structure FileWF (pre : Bytes) (ps : List Pair) (mid : Bytes) : Prop where
  pairs : ∀ p ∈ ps, PairWF p
  mid : mid.length = 12
  offset : pre.length + (encodeBlock ps).length < 2 ^ 32


end AgVerif.Spec.SigBlock
