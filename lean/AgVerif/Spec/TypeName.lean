/-
Specification for C24: what a DEX type descriptor is and which Java type name it denotes.
Hand transcription of the "Dalvik executable format" document (TypeDescriptor, FullClassName, SimpleName,
SimpleNameChar) and of the Java names of types (JLS §4.2 primitive keywords, §13.1 binary names with `.`
separators, §10 one `[]` per array dimension; §7.3: every compilation unit implicitly imports java.lang,
so a DIRECT member of package java.lang may be named without the package).
Independent of the code under verification; imports nothing.
-/
namespace AgVerif.Spec.TypeName

/-- the eight primitive value types -/
inductive Prim where
  | boolean | byte | short | char | int | long | float | double
  deriving DecidableEq, Repr

def Prim.desc : Prim → Char
  | .boolean => 'Z' | .byte => 'B' | .short => 'S' | .char => 'C'
  | .int => 'I' | .long => 'J' | .float => 'F' | .double => 'D'

def Prim.keyword : Prim → List Char
  | .boolean => "boolean".toList | .byte => "byte".toList | .short => "short".toList | .char => "char".toList
  | .int => "int".toList | .long => "long".toList | .float => "float".toList | .double => "double".toList

def primOf (c : Char) : Option Prim :=
  if c = 'Z' then some .boolean else if c = 'B' then some .byte else if c = 'S' then some .short
  else if c = 'C' then some .char else if c = 'I' then some .int else if c = 'J' then some .long
  else if c = 'F' then some .float else if c = 'D' then some .double else none

/-- a type: `void` (return types only), a primitive, a class given by its `/`-separated name parts
    (package components, then the simple name), or an array -/
inductive Ty where
  | void
  | prim (p : Prim)
  | cls (segs : List (List Char))
  | arr (elem : Ty)
  deriving DecidableEq, Repr

/-- SimpleNameChar of the DEX format (the DEX 040 superset) -/
def simpleNameChar (c : Char) : Bool :=
  let n := c.toNat
  ('A' ≤ c ∧ c ≤ 'Z') ∨ ('a' ≤ c ∧ c ≤ 'z') ∨ ('0' ≤ c ∧ c ≤ '9') ∨ c = ' ' ∨ c = '$' ∨ c = '-' ∨ c = '_'
  ∨ n = 0xa0 ∨ (0xa1 ≤ n ∧ n ≤ 0x1fff) ∨ (0x2000 ≤ n ∧ n ≤ 0x200a) ∨ (0x2010 ≤ n ∧ n ≤ 0x2027) ∨ n = 0x202f
  ∨ (0x2030 ≤ n ∧ n ≤ 0xd7ff) ∨ (0xe000 ≤ n ∧ n ≤ 0xffef) ∨ (0x10000 ≤ n ∧ n ≤ 0x10ffff)

/-- SimpleName: one or more SimpleNameChars -/
def simpleName (s : List Char) : Bool := !s.isEmpty && s.all simpleNameChar

/-- FullClassName: `OptionalPackagePrefix SimpleName`, i.e. one or more SimpleNames separated by `/` -/
def fullClassName (segs : List (List Char)) : Bool := !segs.isEmpty && segs.all simpleName

/-- a field type (no `void` anywhere) -/
def Ty.wfField : Ty → Bool
  | .void => false
  | .prim _ => true
  | .cls segs => fullClassName segs
  | .arr t => t.wfField

/-- a type descriptor's type: `void` or a field type -/
def Ty.wf : Ty → Bool
  | .void => true
  | t => t.wfField

/-- `a/b/C` -/
def joinWith (sep : Char) : List (List Char) → List Char
  | [] => []
  | [s] => s
  | s :: ss => s ++ sep :: joinWith sep ss

/-- TypeDescriptor → its text -/
def descOf : Ty → List Char
  | .void => ['V']
  | .prim p => [p.desc]
  | .cls segs => 'L' :: (joinWith '/' segs ++ [';'])
  | .arr t => '[' :: descOf t

/-- the (fully qualified) Java name of a type -/
def javaName : Ty → List Char
  | .void => "void".toList
  | .prim p => p.keyword
  | .cls segs => joinWith '.' segs
  | .arr t => javaName t ++ ['[', ']']

/-- the unqualified name, allowed only for a DIRECT member of package java.lang (and arrays of one) -/
def shortName : Ty → Option (List Char)
  | .cls [p, q, x] => if p = "java".toList ∧ q = "lang".toList then some x else none
  | .arr t => (shortName t).map (· ++ ['[', ']'])
  | _ => none

/-- the name the property asks for: dotted, with only the `java.lang.` prefix of direct members dropped -/
def canonicalName (t : Ty) : List Char :=
  match shortName t with
  | some r => r
  | none => javaName t

/-- number of array dimensions -/
def Ty.dims : Ty → Nat
  | .arr t => t.dims + 1
  | _ => 0

/-- a rendered name is right if it denotes the type: the qualified name, or the unqualified name of a
    direct java.lang member (DESIGN §10, interpretation of C24) -/
def Denotes (r : List Char) (t : Ty) : Prop := r = javaName t ∨ shortName t = some r

instance (r : List Char) (t : Ty) : Decidable (Denotes r t) := by unfold Denotes; infer_instance

/-! ### reading a descriptor (decidable well-formedness) -/

/-- split at every `sep` (always returns at least one part) -/
def splitOn (sep : Char) : List Char → List (List Char)
  | [] => [[]]
  | c :: r =>
    if c = sep then [] :: splitOn sep r
    else match splitOn sep r with
      | h :: t => (c :: h) :: t
      | [] => [[c]]

/-- what follows `L`: a FullClassName and a final `;` -/
def parseClass (r : List Char) : Option Ty :=
  match r.getLast? with
  | some ';' =>
    let segs := splitOn '/' r.dropLast
    if fullClassName segs then some (.cls segs) else none
  | _ => none

/-- FieldTypeDescriptor -/
def parseField : List Char → Option Ty
  | [] => none
  | c :: r =>
    if c = '[' then (parseField r).map .arr
    else if c = 'L' then parseClass r
    else match primOf c with
      | some p => if r.isEmpty then some (.prim p) else none
      | none => none

/-- TypeDescriptor: `V` or a FieldTypeDescriptor -/
def parseDesc (d : List Char) : Option Ty := if d = ['V'] then some .void else parseField d

/-- well-formed type descriptor (decidable: it is a Boolean computation) -/
def WFDesc (d : List Char) : Prop := (parseDesc d).isSome = true

instance (d : List Char) : Decidable (WFDesc d) := by unfold WFDesc; infer_instance

end AgVerif.Spec.TypeName
