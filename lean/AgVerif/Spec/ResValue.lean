/-
Specification for C27: how Android interprets a typed resource value (`Res_value`).
Written from AOSP, independently of the Python code.  (imports nothing)

* frameworks/base/libs/androidfw/include/androidfw/ResourceTypes.h  (`Res_value::TYPE_*`,
  `COMPLEX_*`)
* android.util.TypedValue.complexToFloat / coerceToString:

```
  MANTISSA_MULT = 1.0f / (1 << COMPLEX_MANTISSA_SHIFT);                 // shift = 8
  RADIX_MULTS = { 1.0f*MANTISSA_MULT, 1.0f/(1<<7)*MANTISSA_MULT,
                  1.0f/(1<<15)*MANTISSA_MULT, 1.0f/(1<<23)*MANTISSA_MULT };
  complexToFloat(int complex) =
      (complex & (COMPLEX_MANTISSA_MASK << COMPLEX_MANTISSA_SHIFT))      // 0xffffff << 8, SIGNED int
        * RADIX_MULTS[(complex >> COMPLEX_RADIX_SHIFT) & COMPLEX_RADIX_MASK];   // >> 4, & 3
  DIMENSION_UNIT_STRS = { "px", "dip", "sp", "pt", "in", "mm" };  FRACTION_UNIT_STRS = { "%", "%p" };
  TYPE_DIMENSION: complexToFloat(data) + DIMENSION_UNIT_STRS[data & 0xf]
  TYPE_FRACTION : complexToFloat(data)*100 + FRACTION_UNIT_STRS[data & 0xf]
  TYPE_INT_HEX "0x" + hex, TYPE_INT_BOOLEAN data != 0, colours "#" + hex for FIRST_COLOR_INT..LAST_COLOR_INT,
  other FIRST_INT..LAST_INT Integer.toString(data) (signed 32 bit), TYPE_REFERENCE "@", TYPE_ATTRIBUTE "?"
```
The value of a complex number is therefore the exact rational  mantissa / 2^shift  with `mantissa`
the signed 24-bit field in bits 8..31 and shift ∈ {0, 7, 15, 23} selected by bits 4..5 (the `<< 8` of
the mask and MANTISSA_MULT cancel).  No floating point here: values are numerator/denominator.
-/
namespace AgVerif.Spec.ResValue

/-- `Res_value` data types, ResourceTypes.h -/
def androidTypes : List (String × Nat) :=
  [("TYPE_NULL", 0x00), ("TYPE_REFERENCE", 0x01), ("TYPE_ATTRIBUTE", 0x02), ("TYPE_STRING", 0x03),
   ("TYPE_FLOAT", 0x04), ("TYPE_DIMENSION", 0x05), ("TYPE_FRACTION", 0x06),
   ("TYPE_DYNAMIC_REFERENCE", 0x07), ("TYPE_DYNAMIC_ATTRIBUTE", 0x08),
   ("TYPE_FIRST_INT", 0x10), ("TYPE_INT_DEC", 0x10), ("TYPE_INT_HEX", 0x11), ("TYPE_INT_BOOLEAN", 0x12),
   ("TYPE_FIRST_COLOR_INT", 0x1c), ("TYPE_INT_COLOR_ARGB8", 0x1c), ("TYPE_INT_COLOR_RGB8", 0x1d),
   ("TYPE_INT_COLOR_ARGB4", 0x1e), ("TYPE_INT_COLOR_RGB4", 0x1f), ("TYPE_LAST_COLOR_INT", 0x1f),
   ("TYPE_LAST_INT", 0x1f)]

/-- how a value of a given type is rendered (TypedValue.coerceToString; `string` is a pool lookup;
    `none`: TYPE_NULL, the dynamic reference/attribute types and every undefined type) -/
inductive Kind
  | string | attribute | reference | float | intHex | intBoolean | dimension | fraction | color | intDec
  | none
  deriving DecidableEq, Repr

def kind (t : Nat) : Kind :=
  if t = 0x03 then .string
  else if t = 0x02 then .attribute
  else if t = 0x01 then .reference
  else if t = 0x04 then .float
  else if t = 0x11 then .intHex
  else if t = 0x12 then .intBoolean
  else if t = 0x05 then .dimension
  else if t = 0x06 then .fraction
  else if 0x1c ≤ t ∧ t ≤ 0x1f then .color
  else if 0x10 ≤ t ∧ t ≤ 0x1f then .intDec
  else .none

/-- the signed 24-bit mantissa in bits 8..31 -/
def mantissa (d : Nat) : Int :=
  let m : Nat := d / 2 ^ 8 % 2 ^ 24
  if m < 2 ^ 23 then (m : Int) else (m : Int) - 2 ^ 24

/-- radix field (bits 4..5) → number of fraction bits of the mantissa: 23p0, 16p7, 8p15, 0p23 -/
def radixShift (r : Nat) : Nat :=
  match r with
  | 0 => 0
  | 1 => 7
  | 2 => 15
  | _ => 23

/-- complex value = `complexNum d / complexDen d` -/
def complexNum (d : Nat) : Int := mantissa d
def complexDen (d : Nat) : Nat := 2 ^ radixShift (d / 2 ^ 4 % 4)

def dimensionUnits : List String := ["px", "dip", "sp", "pt", "in", "mm"]
def fractionUnits : List String := ["%", "%p"]
/-- unit field: bits 0..3 -/
def unit (d : Nat) : Nat := d % 16

/-- `data` read as a signed 32-bit integer -/
def int32 (x : Nat) : Int :=
  let y : Nat := x % 2 ^ 32
  if y < 2 ^ 31 then (y : Int) else (y : Int) - 2 ^ 32

/-- references/attributes of the framework package (package id 0x01, bits 24..31) get `android:` -/
def isFramework (d : Nat) : Prop := d / 2 ^ 24 = 1

/-- IEEE-754 binary32 (`TYPE_FLOAT`): sign bit 31, biased exponent bits 23..30, fraction bits 0..22.
    Finite values as (negative, numerator, denominator): subnormals f·2^-149, normals
    (1.f)·2^(e-127) = (2^23 + f)·2^(e-150); `none` for infinities and NaNs (e = 255). -/
def binary32 (d : Nat) : Option (Bool × Nat × Nat) :=
  let s : Bool := decide (d / 2 ^ 31 % 2 = 1)
  let e := d / 2 ^ 23 % 256
  let f := d % 2 ^ 23
  if e = 255 then none
  else if e = 0 then some (s, f, 2 ^ 149)
  else if 150 ≤ e then some (s, (2 ^ 23 + f) * 2 ^ (e - 150), 1)
  else some (s, 2 ^ 23 + f, 2 ^ (150 - e))

/-! ### the whole of `coerceToString`, per type, as one independent definition

`Coerced` is the *meaning* Android gives to (type, data); `coerceText` prints it in the conventions the
property fixes for androguard (decimals with six places rounded half-even, eight zero-padded uppercase
hexadecimal digits, `android:` for the framework package).  Android itself prints floats with
`Float.toString` and hex without padding; the property is about the value, so the text conventions are
part of the statement, not of Android.  Nothing here refers to the model. -/

inductive Coerced
  | pooled (index : Nat)                               -- TYPE_STRING: the pool string with this index
  | resource (attr framework : Bool) (id : Nat)        -- `?`/`@`, optional `android:`, the id
  | micro (neg : Bool) (m : Nat) (unit : String)       -- ±m·10⁻⁶ followed by a unit ("" for TYPE_FLOAT)
  | nonFinite (neg nan : Bool)                         -- TYPE_FLOAT infinities and NaNs
  | hex (v : Nat)
  | color (v : Nat)
  | boolean (b : Bool)
  | decimal (v : Int)
  | undefinedUnit                                      -- a unit nibble Android has no string for
  | untyped                                            -- coerceToString returns null
  deriving DecidableEq, Repr

/-- nearest multiple of 10⁻⁶ to n/d, ties to even — written as "round half up, then step back from an odd
    result on an exact tie" (the model uses quotient/remainder comparisons) -/
def roundMicro (n d : Nat) : Nat :=
  let m := (2 * (n * 1000000) + d) / (2 * d)
  if (2 * (n * 1000000) + d) % (2 * d) = 0 ∧ m % 2 = 1 then m - 1 else m

def complexMicro (d : Nat) (scale : Nat) (units : List String) : Coerced :=
  match units[unit d]? with
  | some u => .micro (decide (complexNum d < 0)) (roundMicro ((complexNum d).natAbs * scale) (complexDen d)) u
  | none => .undefinedUnit

/-- what Android means by (type, data) -/
def coerce (t d : Nat) : Coerced :=
  match kind t with
  | .string => .pooled d
  | .attribute => .resource true (decide (d / 2 ^ 24 = 1)) d
  | .reference => .resource false (decide (d / 2 ^ 24 = 1)) d
  | .float =>
    match binary32 d with
    | some (s, n, k) => .micro s (roundMicro n k) ""
    | none => .nonFinite (decide (d / 2 ^ 31 % 2 = 1)) (decide (d % 2 ^ 23 ≠ 0))
  | .intHex => .hex d
  | .intBoolean => .boolean (decide (d ≠ 0))
  | .dimension => complexMicro d 1 dimensionUnits
  | .fraction => complexMicro d 100 fractionUnits
  | .color => .color d
  | .intDec => .decimal (int32 d)
  | .none => .untyped

def hexDigitChar (k : Nat) : Char :=
  match k with
  | 0 => '0' | 1 => '1' | 2 => '2' | 3 => '3' | 4 => '4' | 5 => '5' | 6 => '6' | 7 => '7'
  | 8 => '8' | 9 => '9' | 10 => 'A' | 11 => 'B' | 12 => 'C' | 13 => 'D' | 14 => 'E' | _ => 'F'

/-- the eight base-16 digits of a 32-bit word, most significant first -/
def hex8Text (v : Nat) : String :=
  String.ofList ([v / 16 ^ 7 % 16, v / 16 ^ 6 % 16, v / 16 ^ 5 % 16, v / 16 ^ 4 % 16,
                  v / 16 ^ 3 % 16, v / 16 ^ 2 % 16, v / 16 % 16, v % 16].map hexDigitChar)

/-- ±m·10⁻⁶ with six places; the sign is printed also when m = 0 (C `printf`) -/
def microText (neg : Bool) (m : Nat) : String :=
  let frac := toString (m % 1000000)
  (if neg then "-" else "") ++ toString (m / 1000000) ++ "."
    ++ (String.ofList (List.replicate (6 - frac.length) '0') ++ frac)

/-- the text of a meaning; `none` where the property demands nothing (undefined unit, null, and the
    spelling of non-finite floats: Android prints `Infinity`/`NaN`) -/
def coerceText (lookup : Nat → String) : Coerced → Option String
  | .pooled i => some (lookup i)
  | .resource attr fw id => some ((if attr then "?" else "@") ++ (if fw then "android:" else "") ++ hex8Text id)
  | .micro neg m u => some (microText neg m ++ u)
  | .nonFinite _ _ => none
  | .hex v => some ("0x" ++ hex8Text v)
  | .color v => some ("#" ++ hex8Text v)
  | .boolean b => some (if b then "true" else "false")
  | .decimal v => some (toString v)
  | .undefinedUnit => none
  | .untyped => none

/-- a dyadic rational `n / 2^k` that binary64 holds exactly (53-bit significand, normal range) -/
def Binary64Exact (n k : Nat) : Prop := n < 2 ^ 53 ∧ k ≤ 1022

end AgVerif.Spec.ResValue
