/-
Specification side of C10 / C11 / C12 / C40, written from the "Dalvik bytecode" document only
(imports nothing, shares nothing with the model).

* which opcodes can transfer control (return-void 0e, return 0f, return-wide 10, return-object 11,
  throw 27, goto 28, goto/16 29, goto/32 2a, packed-switch 2b, sparse-switch 2c,
  if-eq … if-le 32–37, if-eqz … if-lez 38–3d);
* where control can go after an instruction at byte offset `idx` of byte length `len` whose
  branch operand is `refOff` code units (operands +AA / +AAAA / +AAAAAAAA / +BBBB / +CCCC /
  +BBBBBBBB are relative to the address of the instruction itself, in 16-bit code units) and
  whose switch payload lists `payload` relative targets (also relative to the switch instruction);
* what it means for the disassembler to report instruction `i` at byte offset `o`.
-/
namespace AgVerif.Spec.Cfg

/-- the five ways an instruction passes control on -/
inductive Flow where
  | exit    -- return*, throw: leaves the method (or goes to a handler)
  | goto    -- unconditional jump
  | cond    -- if-test / if-testz: falls through or jumps
  | switch  -- packed-switch / sparse-switch: falls through or jumps to a case
  | fall    -- everything else continues with the next instruction
  deriving DecidableEq, Repr

def flowOf (op : Nat) : Flow :=
  if op = 0x0e ∨ op = 0x0f ∨ op = 0x10 ∨ op = 0x11 ∨ op = 0x27 then .exit
  else if op = 0x28 ∨ op = 0x29 ∨ op = 0x2a then .goto
  else if 0x32 ≤ op ∧ op ≤ 0x3d then .cond
  else if op = 0x2b ∨ op = 0x2c then .switch
  else .fall

/-- opcodes after which a basic block must end -/
def controlOps : List Nat :=
  [0x0e, 0x0f, 0x10, 0x11, 0x27, 0x28, 0x29, 0x2a, 0x2b, 0x2c,
   0x32, 0x33, 0x34, 0x35, 0x36, 0x37, 0x38, 0x39, 0x3a, 0x3b, 0x3c, 0x3d]

/-- opcodes of format 31t that refer to a payload: fill-array-data, packed-switch, sparse-switch -/
def payloadUsers : List Nat := [0x26, 0x2b, 0x2c]

/-- byte offsets control may reach next (before restricting to offsets inside the method) -/
def succ (op : Nat) (idx len : Nat) (refOff : Int) (payload : List Int) : List Int :=
  match flowOf op with
  | .exit => []
  | .goto => [(idx : Int) + 2 * refOff]
  | .cond => [((idx + len : Nat) : Int), (idx : Int) + 2 * refOff]
  | .switch => ((idx + len : Nat) : Int) :: payload.map (fun t => (idx : Int) + 2 * t)
  | .fall => [((idx + len : Nat) : Int)]

/-- total byte length of a sequence -/
def total {α} (len : α → Nat) : List α → Nat
  | [] => 0
  | a :: r => len a + total len r

/-- the disassembler reports `i` at byte offset `o`: `i` is preceded by instructions whose
    lengths add up to `o` -/
def InsnAt {α} (len : α → Nat) (m : List α) (o : Nat) (i : α) : Prop :=
  ∃ pre post, m = pre ++ i :: post ∧ o = total len pre

/-- `o` is an offset at which the disassembler reports an instruction -/
def InsnOffset {α} (len : α → Nat) (m : List α) (o : Nat) : Prop := ∃ i, InsnAt len m o i

/-- a try item covering code units `[start, start+count)` covers the instruction at byte offset `o` -/
def covers (startBytes stopBytesIncl : Int) (o : Nat) : Prop := startBytes ≤ (o : Int) ∧ (o : Int) ≤ stopBytesIncl

end AgVerif.Spec.Cfg
