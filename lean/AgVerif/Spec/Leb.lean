/-
Specification of LEB128 as the DEX format document defines it, written
independently of the code.  (imports nothing)

A byte sequence b₁ … bₙ (1 ≤ n ≤ 5; continuation bit set on all but the last)
denotes the payload  Σ (bᵢ mod 128) · 128^(i-1).
-/
namespace AgVerif.Spec.Leb

/-- payload of a little-endian base-128 digit string -/
def payload : List Nat → Nat
  | [] => 0
  | b :: bs => b % 128 + 128 * payload bs

/-- `bs` is one LEB128 item: all bytes but the last have bit 7 set, the last has not -/
def IsItem : List Nat → Prop
  | [] => False
  | [b] => b < 128
  | b :: bs => 128 ≤ b ∧ b < 256 ∧ IsItem bs

instance : (bs : List Nat) → Decidable (IsItem bs)
  | [] => by unfold IsItem; exact inferInstance
  | [b] => by unfold IsItem; exact inferInstance
  | b :: c :: bs => by
      unfold IsItem
      have := instDecidableIsItem (c :: bs)
      exact inferInstance

/-- unsigned value: defined when the payload fits 32 bits -/
def unsignedValue (bs : List Nat) : Option Nat :=
  if payload bs < 2 ^ 32 then some (payload bs) else none

/-- two's-complement reading of the low `w` bits of `p` -/
def signExtend (w : Nat) (p : Nat) : Int :=
  if p % 2 ^ w < 2 ^ (w - 1) then (p % 2 ^ w : Nat) else ((p % 2 ^ w : Nat) : Int) - (2 ^ w : Nat)

/-- signed value of an n-byte item: the payload sign-extended from bit 7n-1 (n < 5).
    For n = 5 the payload has 35 bits and the value is the low 32 bits read as two's complement
    (`signExtend 32 p`).  It is DEFINED when the three surplus bits 32..34 are all 0 (`p < 2^32`)
    or all 1 together with bit 31 (`2^35 - 2^31 ≤ p`), and undefined otherwise.  Note that the
    first case includes `2^31 ≤ p < 2^32` (bit 31 set, surplus bits 0), which is NOT a sign
    extension of bit 31: a 35-bit two's-complement reading would give the positive number `p`,
    this definition gives the wrapped negative `p - 2^32`.  That is a choice, made to follow what
    decoders do: the DEX format document says sleb128 encodes 32-bit quantities and leaves the bits
    above 32 of a five-byte item unspecified; androguard (like libdex's `readSignedLeb128`, which
    keeps the low 32 bits of `int result`) truncates to 32 bits, so the surplus bits of such an
    item are ignored rather than judged.  Encoders never produce these items for a 32-bit value
    (the canonical five-byte form of a negative number has the surplus bits set). -/
def signedValue (bs : List Nat) : Option Int :=
  let n := bs.length
  let p := payload bs
  if n < 5 then some (signExtend (7 * n) p)
  else if p < 2 ^ 32 ∨ (2 ^ 35 - 2 ^ 31 ≤ p) then some (signExtend 32 p)
  else none

end AgVerif.Spec.Leb
