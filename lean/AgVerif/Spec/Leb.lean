/-
Specification of LEB128 as the DEX format document defines it, written
independently of the code.  (imports nothing)

A byte sequence b₁ … bₙ (1 ≤ n ≤ 5; continuation bit set on all but the last)
denotes the payload  Σ (bᵢ mod 128) · 128^(i-1).
-/
namespace AgVerif.Spec.Leb

/-- payload of a little-endian base-128 digit string -/
def payload : List Nat → Nat
  | [] => 0
  | b :: bs => b % 128 + 128 * payload bs

/-- `bs` is one LEB128 item: all bytes but the last have bit 7 set, the last has not -/
def IsItem : List Nat → Prop
  | [] => False
  | [b] => b < 128
  | b :: bs => 128 ≤ b ∧ b < 256 ∧ IsItem bs

instance : (bs : List Nat) → Decidable (IsItem bs)
  | [] => by unfold IsItem; exact inferInstance
  | [b] => by unfold IsItem; exact inferInstance
  | b :: c :: bs => by
      unfold IsItem
      have := instDecidableIsItem (c :: bs)
      exact inferInstance

/-- unsigned value: defined when the payload fits 32 bits -/
def unsignedValue (bs : List Nat) : Option Nat :=
  if payload bs < 2 ^ 32 then some (payload bs) else none

/-- two's-complement reading of the low `w` bits of `p` -/
def signExtend (w : Nat) (p : Nat) : Int :=
  if p % 2 ^ w < 2 ^ (w - 1) then (p % 2 ^ w : Nat) else ((p % 2 ^ w : Nat) : Int) - (2 ^ w : Nat)

/-- signed value of an n-byte item: the payload sign-extended from bit 7n-1 (n < 5);
    for n = 5 the low 32 bits as two's complement, defined when payload bits 32..34 are a
    sign extension of bit 31. -/
def signedValue (bs : List Nat) : Option Int :=
  let n := bs.length
  let p := payload bs
  if n < 5 then some (signExtend (7 * n) p)
  else if p < 2 ^ 32 ∨ (2 ^ 35 - 2 ^ 31 ≤ p) then some (signExtend 32 p)
  else none

end AgVerif.Spec.Leb
