/-
Independent specification of Dalvik instruction formats and of the opcode → format table,
transcribed from the documents "Dalvik executable instruction formats" and "Dalvik bytecode"
(source.android.com), DEX versions up to 039.            (imports nothing; shares nothing with the model)

An instruction of `n` 16-bit code units is read as ONE little-endian number
`N = Σ byte[i]·256^i`, so that code unit `k` occupies bits `16k … 16k+15` and the layout column of the
format document translates into bit ranges:  `B|A|op` = op bits 0-7, A bits 8-11, B bits 12-15;
`AA|op BBBB` = AA bits 8-15, BBBB bits 16-31;  `AA|op CC|BB` = BB bits 16-23, CC bits 24-31;
`A|G|op BBBB F|E|D|C` = G 8-11, A 12-15, BBBB 16-31, C 32-35, D 36-39, E 40-43, F 44-47;
`BBBBlo BBBBhi` = bits 16-47;  the 64-bit literal of 51l = bits 16-79.
-/
namespace AgVerif.Spec.Dalvik

/-- the format ids used by the opcodes of the Dalvik bytecode document -/
inductive Format
  | f10x | f12x | f11n | f11x | f10t | f20t | f22x | f21t | f21s | f21h | f21c | f23x | f22b
  | f22t | f22s | f22c | f30t | f32x | f31i | f31t | f31c | f35c | f3rc | f45cc | f4rcc | f51l
  deriving DecidableEq, Repr

/-- first digit of the format id: number of 16-bit code units -/
def units : Format → Nat
  | .f10x | .f12x | .f11n | .f11x | .f10t => 1
  | .f20t | .f22x | .f21t | .f21s | .f21h | .f21c | .f23x | .f22b | .f22t | .f22s | .f22c => 2
  | .f30t | .f32x | .f31i | .f31t | .f31c | .f35c | .f3rc => 3
  | .f45cc | .f4rcc => 4
  | .f51l => 5

/-- "Summary of bytecode set": inclusive opcode ranges and their format.  Opcodes in no range are unused. -/
def ranges : List (Nat × Nat × Format) := [
  (0x00, 0x00, .f10x),   -- nop
  (0x01, 0x01, .f12x), (0x02, 0x02, .f22x), (0x03, 0x03, .f32x),   -- move, move/from16, move/16
  (0x04, 0x04, .f12x), (0x05, 0x05, .f22x), (0x06, 0x06, .f32x),   -- move-wide …
  (0x07, 0x07, .f12x), (0x08, 0x08, .f22x), (0x09, 0x09, .f32x),   -- move-object …
  (0x0a, 0x0d, .f11x),   -- move-result, -wide, -object, move-exception
  (0x0e, 0x0e, .f10x),   -- return-void
  (0x0f, 0x11, .f11x),   -- return, return-wide, return-object
  (0x12, 0x12, .f11n),   -- const/4
  (0x13, 0x13, .f21s),   -- const/16
  (0x14, 0x14, .f31i),   -- const
  (0x15, 0x15, .f21h),   -- const/high16
  (0x16, 0x16, .f21s),   -- const-wide/16
  (0x17, 0x17, .f31i),   -- const-wide/32
  (0x18, 0x18, .f51l),   -- const-wide
  (0x19, 0x19, .f21h),   -- const-wide/high16
  (0x1a, 0x1a, .f21c),   -- const-string
  (0x1b, 0x1b, .f31c),   -- const-string/jumbo
  (0x1c, 0x1c, .f21c),   -- const-class
  (0x1d, 0x1e, .f11x),   -- monitor-enter, monitor-exit
  (0x1f, 0x1f, .f21c),   -- check-cast
  (0x20, 0x20, .f22c),   -- instance-of
  (0x21, 0x21, .f12x),   -- array-length
  (0x22, 0x22, .f21c),   -- new-instance
  (0x23, 0x23, .f22c),   -- new-array
  (0x24, 0x24, .f35c),   -- filled-new-array
  (0x25, 0x25, .f3rc),   -- filled-new-array/range
  (0x26, 0x26, .f31t),   -- fill-array-data
  (0x27, 0x27, .f11x),   -- throw
  (0x28, 0x28, .f10t),   -- goto
  (0x29, 0x29, .f20t),   -- goto/16
  (0x2a, 0x2a, .f30t),   -- goto/32
  (0x2b, 0x2c, .f31t),   -- packed-switch, sparse-switch
  (0x2d, 0x31, .f23x),   -- cmpkind
  (0x32, 0x37, .f22t),   -- if-test
  (0x38, 0x3d, .f21t),   -- if-testz
  (0x44, 0x51, .f23x),   -- arrayop
  (0x52, 0x5f, .f22c),   -- iinstanceop
  (0x60, 0x6d, .f21c),   -- sstaticop
  (0x6e, 0x72, .f35c),   -- invoke-kind
  (0x74, 0x78, .f3rc),   -- invoke-kind/range
  (0x7b, 0x8f, .f12x),   -- unop
  (0x90, 0xaf, .f23x),   -- binop
  (0xb0, 0xcf, .f12x),   -- binop/2addr
  (0xd0, 0xd7, .f22s),   -- binop/lit16
  (0xd8, 0xe2, .f22b),   -- binop/lit8
  (0xfa, 0xfa, .f45cc),  -- invoke-polymorphic
  (0xfb, 0xfb, .f4rcc),  -- invoke-polymorphic/range
  (0xfc, 0xfc, .f35c),   -- invoke-custom
  (0xfd, 0xfd, .f3rc),   -- invoke-custom/range
  (0xfe, 0xff, .f21c)]   -- const-method-handle, const-method-type

/-- format of an opcode; `none` = unused -/
def formatOf (op : Nat) : Option Format :=
  match ranges.find? (fun r => r.1 ≤ op && op ≤ r.2.1) with
  | some r => some r.2.2
  | none => none

/-- the opcodes the document marks "(unused)": 3e-43, 73, 79-7a, e3-f9 -/
def unused : List Nat :=
  [0x3e, 0x3f, 0x40, 0x41, 0x42, 0x43, 0x73, 0x79, 0x7a] ++ (List.range 23).map (· + 0xe3)

/-- bits `start … start+width-1` of `N` -/
def bits (N start width : Nat) : Nat := N / 2 ^ start % 2 ^ width

/-- the same field read as a two's-complement signed number -/
def sbits (N start width : Nat) : Int :=
  if bits N start width ≥ 2 ^ (width - 1) then (bits N start width : Int) - 2 ^ width
  else (bits N start width : Int)

/-- what an instruction denotes: register operands in syntax order, literal, branch offset (code units),
    constant-pool index, second index (proto of invoke-polymorphic) -/
structure Meaning where
  regs : List Nat
  lit : Option Int := none
  off : Option Int := none
  idx : Option Nat := none
  idx2 : Option Nat := none
  deriving DecidableEq, Repr

/-- `{vC, vD, vE, vF, vG}` with count A -/
def regList5 (N : Nat) : List Nat :=
  [bits N 32 4, bits N 36 4, bits N 40 4, bits N 44 4, bits N 8 4].take (bits N 12 4)

/-- `{vCCCC .. vNNNN}` with count AA: NNNN = CCCC + AA - 1 -/
def regRange (N : Nat) : List Nat := (List.range (bits N 8 8)).map (fun i => bits N 32 16 + i)

/-- meaning of the instruction `N` (little-endian number of its code units) in format `f`;
    `op` selects the scaling of 21h (const/high16 = 0x15: BBBB0000, const-wide/high16 = 0x19: BBBB000000000000) -/
def meaning (f : Format) (op : Nat) (N : Nat) : Meaning :=
  match f with
  | .f10x => { regs := [] }
  | .f12x => { regs := [bits N 8 4, bits N 12 4] }
  | .f11n => { regs := [bits N 8 4], lit := some (sbits N 12 4) }
  | .f11x => { regs := [bits N 8 8] }
  | .f10t => { regs := [], off := some (sbits N 8 8) }
  | .f20t => { regs := [], off := some (sbits N 16 16) }
  | .f22x => { regs := [bits N 8 8, bits N 16 16] }
  | .f21t => { regs := [bits N 8 8], off := some (sbits N 16 16) }
  | .f21s => { regs := [bits N 8 8], lit := some (sbits N 16 16) }
  | .f21h => { regs := [bits N 8 8], lit := some (sbits N 16 16 * (if op = 0x19 then 2 ^ 48 else 2 ^ 16)) }
  | .f21c => { regs := [bits N 8 8], idx := some (bits N 16 16) }
  | .f23x => { regs := [bits N 8 8, bits N 16 8, bits N 24 8] }
  | .f22b => { regs := [bits N 8 8, bits N 16 8], lit := some (sbits N 24 8) }
  | .f22t => { regs := [bits N 8 4, bits N 12 4], off := some (sbits N 16 16) }
  | .f22s => { regs := [bits N 8 4, bits N 12 4], lit := some (sbits N 16 16) }
  | .f22c => { regs := [bits N 8 4, bits N 12 4], idx := some (bits N 16 16) }
  | .f30t => { regs := [], off := some (sbits N 16 32) }
  | .f32x => { regs := [bits N 16 16, bits N 32 16] }
  | .f31i => { regs := [bits N 8 8], lit := some (sbits N 16 32) }
  | .f31t => { regs := [bits N 8 8], off := some (sbits N 16 32) }
  | .f31c => { regs := [bits N 8 8], idx := some (bits N 16 32) }
  | .f35c => { regs := regList5 N, idx := some (bits N 16 16) }
  | .f3rc => { regs := regRange N, idx := some (bits N 16 16) }
  | .f45cc => { regs := regList5 N, idx := some (bits N 16 16), idx2 := some (bits N 48 16) }
  | .f4rcc => { regs := regRange N, idx := some (bits N 16 16), idx2 := some (bits N 48 16) }
  | .f51l => { regs := [bits N 8 8], lit := some (sbits N 16 64) }

/-- the register count field A of the formats with an explicit register list (meaning defined for A ≤ 5) -/
def countA (N : Nat) : Nat := bits N 12 4

end AgVerif.Spec.Dalvik
