/-
Specification of the DEX `encoded_value` format ("Dalvik executable format", sections
"encoded_value encoding", "encoded_array format", "encoded_annotation format",
"annotation_element format") written independently of the code, and of the Java literals the
decompiler may print for a static field initialiser (JLS §3.10.1 integer literals, §3.10.3 boolean
literals, §3.10.8 the null literal, §15.15.4 unary minus).
Imports only the LEB128 specification.
-/
import AgVerif.Spec.Leb
namespace AgVerif.Spec.EncodedValue
open AgVerif.Spec.Leb

/-- value of a little-endian byte string -/
def le : List Nat → Nat
  | [] => 0
  | b :: bs => b + 256 * le bs

/-- the `w`-bit number `p` read as two's complement ("sign-extended") -/
def sext (w : Nat) (p : Nat) : Int :=
  if p < 2 ^ (w - 1) then (p : Int) else (p : Int) - ((2 ^ w : Nat) : Int)

/-- what an encoded_value denotes.  Index types denote the referenced item of the named section;
    here they carry the index, `Pools` (below) turns it into the item. -/
inductive SValue
  | byte (v : Int)
  | short (v : Int)
  | char (v : Nat)
  | int (v : Int)
  | long (v : Int)
  | float (bits : Nat)          -- IEEE754 32-bit pattern
  | double (bits : Nat)         -- IEEE754 64-bit pattern
  | string (idx : Nat)          -- string_ids[idx]
  | type (idx : Nat)            -- type_ids[idx]
  | field (idx : Nat)           -- field_ids[idx]
  | method (idx : Nat)          -- method_ids[idx]
  | enum (idx : Nat)            -- field_ids[idx]
  | array (vs : List SValue)
  | annotation (typeIdx : Nat) (elems : List (Nat × SValue))    -- (name_idx, value)
  | null
  | boolean (b : Bool)

/-- The value-format table, scalar rows: `(value_type, value_arg, payload) ↦ value`.
    `none`: the value_arg is not legal for the type, or the payload does not have the prescribed size
    (`value_arg + 1` bytes; one byte for VALUE_BYTE; none for NULL and BOOLEAN).
    VALUE_ARRAY (0x1c) and VALUE_ANNOTATION (0x1d) are the recursive rows, see `Encodes`. -/
def scalar (t a : Nat) (p : List Nat) : Option SValue :=
  if t = 0x00 then (if a = 0 ∧ p.length = 1 then some (.byte (sext 8 (le p))) else none)
  else if t = 0x02 then (if a ≤ 1 ∧ p.length = a + 1 then some (.short (sext (8 * (a + 1)) (le p))) else none)
  else if t = 0x03 then (if a ≤ 1 ∧ p.length = a + 1 then some (.char (le p)) else none)
  else if t = 0x04 then (if a ≤ 3 ∧ p.length = a + 1 then some (.int (sext (8 * (a + 1)) (le p))) else none)
  else if t = 0x06 then (if a ≤ 7 ∧ p.length = a + 1 then some (.long (sext (8 * (a + 1)) (le p))) else none)
  -- "zero-extended to the right": the stored bytes are the most significant ones
  else if t = 0x10 then (if a ≤ 3 ∧ p.length = a + 1 then some (.float (le p * 2 ^ (8 * (3 - a)))) else none)
  else if t = 0x11 then (if a ≤ 7 ∧ p.length = a + 1 then some (.double (le p * 2 ^ (8 * (7 - a)))) else none)
  else if t = 0x17 then (if a ≤ 3 ∧ p.length = a + 1 then some (.string (le p)) else none)
  else if t = 0x18 then (if a ≤ 3 ∧ p.length = a + 1 then some (.type (le p)) else none)
  else if t = 0x19 then (if a ≤ 3 ∧ p.length = a + 1 then some (.field (le p)) else none)
  else if t = 0x1a then (if a ≤ 3 ∧ p.length = a + 1 then some (.method (le p)) else none)
  else if t = 0x1b then (if a ≤ 3 ∧ p.length = a + 1 then some (.enum (le p)) else none)
  else if t = 0x1e then (if a = 0 ∧ p = [] then some .null else none)
  else if t = 0x1f then (if a ≤ 1 ∧ p = [] then some (.boolean (a == 1)) else none)
  else none

/-- one `annotation_element`: the uleb128 item of the name index, the index, the bytes of the value
    and the value -/
structure Elem where
  nameItem : List Nat
  name : Nat
  bytes : List Nat
  value : SValue

/-- `Encodes bs v`: the byte string `bs` is exactly one encoded_value and denotes `v`.
    Header byte = `(value_arg << 5) | value_type`. -/
inductive Encodes : List Nat → SValue → Prop
  | scalar (t a : Nat) (p : List Nat) (v : SValue) :
      t < 32 → a < 8 → (∀ b ∈ p, b < 256) → scalar t a p = some v →
      Encodes ((a * 32 + t) :: p) v
  /-- encoded_array: uleb128 size, then `size` encoded_values -/
  | array (item : List Nat) (parts : List (List Nat × SValue)) :
      IsItem item → item.length ≤ 5 → unsignedValue item = some parts.length →
      (∀ p ∈ parts, Encodes p.1 p.2) →
      Encodes (0x1c :: (item ++ (parts.map (·.1)).flatten)) (.array (parts.map (·.2)))
  /-- encoded_annotation: uleb128 type_idx, uleb128 size, then `size` annotation_elements
      (uleb128 name_idx, encoded_value) -/
  | annotation (titem sitem : List Nat) (typeIdx : Nat) (parts : List Elem) :
      IsItem titem → titem.length ≤ 5 → unsignedValue titem = some typeIdx →
      IsItem sitem → sitem.length ≤ 5 → unsignedValue sitem = some parts.length →
      (∀ p ∈ parts, IsItem p.nameItem ∧ p.nameItem.length ≤ 5 ∧ unsignedValue p.nameItem = some p.name) →
      (∀ p ∈ parts, Encodes p.bytes p.value) →
      Encodes (0x1d :: (titem ++ (sitem ++ (parts.map (fun p => p.nameItem ++ p.bytes)).flatten)))
        (.annotation typeIdx (parts.map (fun p => (p.name, p.value))))

/-- the id sections of the file, as lookups -/
structure Pools where
  string : Nat → String
  type : Nat → String
  field : Nat → List String
  method : Nat → List String

/-! ### Static values (class_def_item.static_values_off, "encoded_array_item")
"The elements correspond to the static fields in the order declared in the field_list; there may be
fewer elements than fields, the remaining fields are initialised with a type-appropriate 0 / null",
i.e. carry no explicit value. -/
def staticInit {α : Type} (values : List α) (nfields : Nat) (i : Nat) : Option (Option α) :=
  if i < nfields then some values[i]? else none

/-! ### Java literals -/

/-- what a printed initialiser denotes -/
inductive JVal
  | int (v : Int)        -- an `int` constant expression
  | long (v : Int)       -- a `long` constant expression
  | bool (b : Bool)
  | null
  | float (bits : Nat)   -- the `float` constant with this bit pattern (Float.POSITIVE_INFINITY / NEGATIVE_INFINITY)
  | floatNaN             -- Float.NaN (Java does not keep NaN payloads apart)
  | double (bits : Nat)
  | doubleNaN
  deriving DecidableEq, Repr

def digitVal (c : Char) : Option Nat :=
  if '0' ≤ c ∧ c ≤ '9' then some (c.toNat - 48)
  else if 'a' ≤ c ∧ c ≤ 'f' then some (c.toNat - 87)
  else if 'A' ≤ c ∧ c ≤ 'F' then some (c.toNat - 55)
  else none

/-- digits in base `b`, most significant first, accumulated onto `acc` -/
def numeralGo (b : Nat) : List Char → Nat → Option Nat
  | [], acc => some acc
  | c :: cs, acc =>
    match digitVal c with
    | some d => if d < b then numeralGo b cs (acc * b + d) else none
    | none => none

/-- a non-empty digit string in base `b` -/
def numeral (b : Nat) (cs : List Char) : Option Nat :=
  match cs with
  | [] => none
  | _ => numeralGo b cs 0

/-- DecimalNumeral: `0`, or a non-zero digit followed by digits (a leading `0` would be octal) -/
def decimalNumeral (cs : List Char) : Option Nat :=
  match cs with
  | [] => none
  | [c] => numeral 10 [c]
  | c :: cs' => if c = '0' then none else numeral 10 (c :: cs')

/-- split off an IntegerTypeSuffix (`L`/`l`, last character) -/
def splitSuffix : List Char → List Char × Bool
  | [] => ([], false)
  | [c] => if c = 'L' ∨ c = 'l' then ([], true) else ([c], false)
  | c :: cs => (c :: (splitSuffix cs).1, (splitSuffix cs).2)

/-- an unsigned IntegerLiteral body: `0x…` hexadecimal or decimal (octal/binary/underscores are not
    accepted: the decompiler never prints them).  Returns (isHex, magnitude). -/
def unsignedLit (cs : List Char) : Option (Bool × Nat) :=
  match cs with
  | c0 :: c1 :: ds =>
    if c0 = '0' ∧ (c1 = 'x' ∨ c1 = 'X') then (numeral 16 ds).map fun n => (true, n)
    else (decimalNumeral cs).map fun n => (false, n)
  | _ => (decimalNumeral cs).map fun n => (false, n)

/-- value of `[-]IntegerLiteral` of width `w` (32 for int, 64 for long), JLS §3.10.1:
    a decimal literal may be at most 2^(w-1), and 2^(w-1) itself only as the operand of unary minus;
    a hexadecimal literal may be at most 2^w - 1 and denotes the two's-complement value. -/
def intLitValue (w : Nat) (neg : Bool) (hex : Bool) (m : Nat) : Option Int :=
  if hex then
    if m < 2 ^ w then
      let v := sext w m
      -- `-0x80000000` overflows back to itself, as in Java
      some (if neg then (if v = -((2 ^ (w - 1) : Nat) : Int) then v else -v) else v)
    else none
  else if neg then (if m ≤ 2 ^ (w - 1) then some (-(m : Int)) else none)
  else (if m < 2 ^ (w - 1) then some (m : Int) else none)

/-- `[-]IntegerLiteral` without the sign: `neg` says whether a unary minus preceded it -/
def numericLit (neg : Bool) (cs : List Char) : Option JVal :=
  match unsignedLit (splitSuffix cs).1 with
  | none => none
  | some (hex, m) =>
    if (splitSuffix cs).2 then (intLitValue 64 neg hex m).map .long
    else (intLitValue 32 neg hex m).map .int

/-- the value a printed initialiser denotes as Java source -/
def javaLiteralValue (cs : List Char) : Option JVal :=
  match cs with
  | [] => none
  | c :: r =>
    if c = '-' then numericLit true r
    else if c.isDigit then numericLit false cs
    else if cs = "true".toList then some (.bool true)
    else if cs = "false".toList then some (.bool false)
    else if cs = "null".toList then some .null
    -- the constant fields of java.lang.Float / java.lang.Double (JLS 4.2.3; not literals, constant expressions)
    else if cs = "Float.NaN".toList then some .floatNaN
    else if cs = "Float.POSITIVE_INFINITY".toList then some (.float 0x7f800000)
    else if cs = "Float.NEGATIVE_INFINITY".toList then some (.float 0xff800000)
    else if cs = "Double.NaN".toList then some .doubleNaN
    else if cs = "Double.POSITIVE_INFINITY".toList then some (.double 0x7ff0000000000000)
    else if cs = "Double.NEGATIVE_INFINITY".toList then some (.double 0xfff0000000000000)
    else none

/-- assignment conversion of a constant expression to the declared primitive type of the field
    (JLS §5.2): an `int` constant may initialise byte/short/char when it is in the type's range,
    and long by widening; a `long` constant only a long. -/
def assignable (proto : String) : JVal → Option Int
  | .int v =>
    if proto = "B" then (if -128 ≤ v ∧ v < 128 then some v else none)
    else if proto = "S" then (if -32768 ≤ v ∧ v < 32768 then some v else none)
    else if proto = "C" then (if 0 ≤ v ∧ v < 65536 then some v else none)
    else if proto = "I" ∨ proto = "J" then some v
    else none
  | .long v => if proto = "J" then some v else none
  | _ => none

/-! ### what a static field with an encoded initial value holds, seen from Java -/

/-- the Java value of a field -/
inductive JDen
  | num (v : Int)         -- byte / short / char (code unit) / int / long
  | bool (b : Bool)
  | null
  | floatBits (bits : Nat)   -- a non-NaN float with this pattern
  | floatNaN
  | doubleBits (bits : Nat)
  | doubleNaN
  deriving DecidableEq, Repr

/-- IEEE 754: exponent all ones and a non-zero fraction -/
def isNaN32 (b : Nat) : Bool := b / 2 ^ 23 % 2 ^ 8 == 255 && b % 2 ^ 23 != 0
def isNaN64 (b : Nat) : Bool := b / 2 ^ 52 % 2 ^ 11 == 2047 && b % 2 ^ 52 != 0

/-- The field type an encoded value of each kind initialises (the value types `javac`/`d8` put into
    static_values next to a field of that type) and the Java value the field then holds.
    `none`: string / type / field / method / enum / array / annotation values (no numeric-literal meaning). -/
def declared : SValue → Option (String × JDen)
  | .byte v => some ("B", .num v)
  | .short v => some ("S", .num v)
  | .char v => some ("C", .num (v : Int))
  | .int v => some ("I", .num v)
  | .long v => some ("J", .num v)
  | .boolean b => some ("Z", .bool b)
  | .null => some ("Ljava/lang/Object;", .null)
  | .float b => some ("F", if isNaN32 b then .floatNaN else .floatBits b)
  | .double b => some ("D", if isNaN64 b then .doubleNaN else .doubleBits b)
  | _ => none

/-- read a printed initialiser back as the value a field of type `proto` gets from it:
    the Java reading of the text followed by assignment conversion (JLS 5.2) -/
def readBack (proto : String) (text : List Char) : Option JDen :=
  match javaLiteralValue text with
  | some (.bool b) => if proto = "Z" then some (.bool b) else none
  | some .null => some .null
  | some (.float b) => if proto = "F" then some (.floatBits b) else none
  | some .floatNaN => if proto = "F" then some .floatNaN else none
  | some (.double b) => if proto = "D" then some (.doubleBits b) else none
  | some .doubleNaN => if proto = "D" then some .doubleNaN else none
  | some j => (assignable proto j).map .num
  | none => none

end AgVerif.Spec.EncodedValue
