/-
C17 — specification: a dictionary of current names.

"After any sequence of class, method and field renames and queries, each item reports its most
recent new name (or its original name if never renamed), items that were never renamed keep their
original names even when they shared a name with a renamed item, and string constants in code are
unchanged."

Independent of the model: items are abstract identities (a class = its type index, a method = its
method index, a field = its field index); there is no string pool, no cache and no hook here.
Imports nothing.
-/
namespace AgVerif.Spec.Rename

inductive Item where
  | cls (t : Nat)
  | meth (m : Nat)
  | fld (f : Nat)
  deriving DecidableEq, Repr

/-- what one step of a history means for the property -/
inductive Ev where
  | rename (i : Item) (s : String)   -- set_name on item i
  | name (i : Item)                  -- a query of i's name
  | const (k : Nat)                  -- the text printed for the k-th string constant in code
  | other                            -- anything else: changes no name; its answer is not judged
  deriving Repr

structure World where
  orig : Item → String               -- names in the file
  const : Nat → String               -- text of the string constants in the file

abbrev Names := Item → String

/-- the dictionary is updated at the renamed item and nowhere else -/
def rename (cur : Names) (i : Item) (s : String) : Names := fun j => if j = i then s else cur j

/-- expected answers (`none`: nothing is demanded of this step's answer) -/
def outs (w : World) : Names → List Ev → List (Option String)
  | _, [] => []
  | cur, .rename i s :: rest => none :: outs w (rename cur i s) rest
  | cur, .name i :: rest => some (cur i) :: outs w cur rest
  | _cur, .const k :: rest => some (w.const k) :: outs w _cur rest
  | cur, .other :: rest => none :: outs w cur rest

def run (w : World) (evs : List Ev) : List (Option String) := outs w w.orig evs

/-- the dictionary after a history -/
def final : Names → List Ev → Names
  | cur, [] => cur
  | cur, .rename i s :: rest => final (rename cur i s) rest
  | cur, _ :: rest => final cur rest

/-- the last name given to `i` in a history, if any -/
def lastRename (i : Item) : List Ev → Option String
  | [] => none
  | .rename j s :: rest =>
    match lastRename i rest with
    | some x => some x
    | none => if j = i then some s else none
  | _ :: rest => lastRename i rest

end AgVerif.Spec.Rename
