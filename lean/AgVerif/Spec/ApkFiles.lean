/-
Specification for C34 — what "the archive's entries" are. Imports nothing; independent of the model.

The archive is given by its CENTRAL DIRECTORY: the sequence of file headers in directory order, each
with a name and the (uncompressed) content of the member it points to. Names MAY repeat.
Decoding the zip container into this sequence (end-of-central-directory search, header layout,
stored/deflate, UTF-8 names) is done by the third-party package apkInspector and is NOT specified
or verified here; it is tied to Python's `zipfile` by correspondence only (harness/props/c34.py).

For a repeated name the conventions of every mainstream reader (Info-ZIP `unzip -l`/extract order,
Python `zipfile.NameToInfo`, a dict keyed by name) are spelled out:
  * a name is LISTED once, at the position of its first header;
  * the content a name DENOTES is that of the LAST header carrying it.
-/
namespace AgVerif.Spec.ApkFiles

abbrev Name := List Char
abbrev Bytes := List Nat
abbrev CentralDir := List (Name × Bytes)

/-- the names of the headers, in directory order (with repetitions) -/
def headerNames (cd : CentralDir) : List Name := cd.map Prod.fst

/-- every name once, at the position of its first occurrence -/
def listed : List Name → List Name
  | [] => []
  | n :: ns => n :: (listed ns).filter (fun m => decide (m ≠ n))

/-- the content a name denotes: that of the LAST header carrying the name; `none` when no header does -/
def contentOf : CentralDir → Name → Option Bytes
  | [], _ => none
  | (m, b) :: rest, n =>
    match contentOf rest n with
    | some b' => some b'
    | none => if m = n then some b else none

/-- a DEX name: `classes`, zero or more ASCII digits, `.dex`, nothing else (root level: no `/`) -/
def IsDexName (n : Name) : Prop :=
  ∃ ds : List Char, (∀ c ∈ ds, c.isDigit = true) ∧ n = "classes".toList ++ ds ++ ".dex".toList

end AgVerif.Spec.ApkFiles
