/-
Specification side of C05: the encodings of the DEX items as the "Dalvik executable format"
document gives them, written independently of androguard (imports only the LEB128 specification).

  ushort / uint            little-endian fixed-width integers
  ULeb item v              `item` is a uleb128 item (1..5 bytes, canonical or padded) denoting v
  protoId, fieldId, methodId, classDef, typeList, codeHdr     fixed-layout items
  EncFields / EncMethods   encoded_field / encoded_method lists: index *differences*
  EncClassData             class_data_item

Rows are plain tuples here; Props/C05.lean relates them to the model's structures.
-/
import AgVerif.Spec.Leb
namespace AgVerif.Spec.DexFile
open AgVerif.Spec.Leb

abbrev Bytes := List Nat

def ushort (v : Nat) : Bytes := [v % 256, v / 256 % 256]
def uint (v : Nat) : Bytes := [v % 256, v / 256 % 256, v / 65536 % 256, v / 16777216 % 256]

/-- `item` is one uleb128 item denoting `v` (non-canonical encodings with up to 5 bytes included) -/
def ULeb (item : Bytes) (v : Nat) : Prop :=
  IsItem item ∧ item.length ≤ 5 ∧ unsignedValue item = some v

/-- proto_id_item: shorty_idx, return_type_idx, parameters_off -/
def protoId (shorty ret params : Nat) : Bytes := uint shorty ++ uint ret ++ uint params
/-- field_id_item: class_idx (ushort), type_idx (ushort), name_idx (uint) -/
def fieldId (cls typ name : Nat) : Bytes := ushort cls ++ ushort typ ++ uint name
/-- method_id_item: class_idx (ushort), proto_idx (ushort), name_idx (uint) -/
def methodId (cls proto name : Nat) : Bytes := ushort cls ++ ushort proto ++ uint name
/-- class_def_item: eight uints -/
def classDef (cls access super ifaces src ann data static : Nat) : Bytes :=
  uint cls ++ uint access ++ uint super ++ uint ifaces ++ uint src ++ uint ann ++ uint data ++ uint static
/-- type_list: size, then type_idx ushorts (the next item is 4-aligned: two bytes of padding
    follow an odd list when something follows) -/
def typeListBody (l : List Nat) : Bytes := uint l.length ++ l.flatMap ushort
/-- code_item header: registers, ins, outs, tries (ushort), debug_info_off, insns_size (uint) -/
def codeHdr (regs ins outs tries dbg size : Nat) : Bytes :=
  ushort regs ++ ushort ins ++ ushort outs ++ ushort tries ++ uint dbg ++ uint size

/-- encoded_field list: (absolute index, flags) rows, the index written as the difference to the
    previous row's index (first row: to `prev`, which is 0 at the start of a list) -/
inductive EncFields : Nat → List (Nat × Nat) → Bytes → Prop
  | nil (prev : Nat) : EncFields prev [] []
  | cons (prev idx fl : Nat) (di fi bs : Bytes) (rows : List (Nat × Nat)) :
      prev ≤ idx → ULeb di (idx - prev) → ULeb fi fl → EncFields idx rows bs →
      EncFields prev ((idx, fl) :: rows) (di ++ fi ++ bs)

/-- encoded_method list: (absolute index, flags, code_off) -/
inductive EncMethods : Nat → List (Nat × Nat × Nat) → Bytes → Prop
  | nil (prev : Nat) : EncMethods prev [] []
  | cons (prev idx fl co : Nat) (di fi ci bs : Bytes) (rows : List (Nat × Nat × Nat)) :
      prev ≤ idx → ULeb di (idx - prev) → ULeb fi fl → ULeb ci co → EncMethods idx rows bs →
      EncMethods prev ((idx, fl, co) :: rows) (di ++ fi ++ ci ++ bs)

/-- class_data_item: the four sizes, then static fields, instance fields, direct methods,
    virtual methods -/
def EncClassData (sf inf : List (Nat × Nat)) (dm vm : List (Nat × Nat × Nat)) (bytes : Bytes) : Prop :=
  ∃ n1 n2 n3 n4 b1 b2 b3 b4,
    ULeb n1 sf.length ∧ ULeb n2 inf.length ∧ ULeb n3 dm.length ∧ ULeb n4 vm.length ∧
    EncFields 0 sf b1 ∧ EncFields 0 inf b2 ∧ EncMethods 0 dm b3 ∧ EncMethods 0 vm b4 ∧
    bytes = n1 ++ n2 ++ n3 ++ n4 ++ b1 ++ b2 ++ b3 ++ b4

/-- index differences of a list of absolute indices -/
def diffs : Nat → List Nat → List Nat
  | _, [] => []
  | prev, x :: xs => (x - prev) :: diffs x xs

/-- running sums -/
def undiffs : Nat → List Nat → List Nat
  | _, [] => []
  | prev, d :: ds => (d + prev) :: undiffs (d + prev) ds

/-- non-decreasing from `prev` on (class_data lists are sorted by index) -/
def Ascending : Nat → List Nat → Prop
  | _, [] => True
  | prev, x :: xs => prev ≤ x ∧ Ascending x xs

end AgVerif.Spec.DexFile
