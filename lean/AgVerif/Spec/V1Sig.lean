/-
Specification of "this certificate's key verifies the v1 (JAR) signature over the signature file".
Imports nothing; shares no definition with the model AgVerif.V1Sig.

Sources:
* RFC 5652 (CMS) §5.3 SignerInfo, §5.4 Message Digest Calculation Process, §5.6 Signature Verification
  Process, §11.1 Content Type, §11.2 Message Digest:
    - signedAttrs ABSENT: the signature is computed over the content (here: the bytes of the .SF file);
    - signedAttrs PRESENT: the signature is computed over the complete DER encoding of the SignedAttrs value,
      where "the IMPLICIT [0] tag in the signedAttrs is not used for the DER encoding, rather an EXPLICIT
      SET OF tag is used" (first byte 0xA0 replaced by 0x31); the attributes MUST contain a content-type
      attribute equal to the eContentType and a message-digest attribute equal to the digest of the content,
      each at most once (§11: "MUST NOT include multiple instances"), single-valued (the first value counts).
* JAR / APK signature scheme v1 (apksig V1SchemeVerifier): the content is the `.SF` file next to the
  signature block; supported digests MD5, SHA-1, SHA-224, SHA-256, SHA-384, SHA-512; any duplicate signed
  attribute is rejected; the content-type attribute is enforced from API level 24 (Android N), before that
  only the message digest.
The public-key primitive and the hash functions are parameters.
-/
namespace AgVerif.Spec.V1Sig

abbrev Bytes := List Nat

/-- digest algorithm name ↦ (hash function name, hash class name handed to the public-key primitive) -/
def digestTable : List (String × String × String) :=
  [("md5", "md5", "MD5"), ("sha1", "sha1", "SHA1"), ("sha224", "sha224", "SHA224"),
   ("sha256", "sha256", "SHA256"), ("sha384", "sha384", "SHA384"), ("sha512", "sha512", "SHA512")]

def digestOf (alg : String) : Option (String × String) :=
  (digestTable.find? (fun e => e.1 = alg)).map (fun e => e.2)

/-- id-contentType, id-messageDigest (RFC 5652 §11.1, §11.2) -/
def contentTypeOid : String := "1.2.840.113549.1.9.3"
def messageDigestOid : String := "1.2.840.113549.1.9.4"

/-- tag of SET OF (universal 17, constructed) -/
def setOfTag : Nat := 0x31

/-- RFC 5652 §5.4: the DER encoding of the attributes with the EXPLICIT SET OF tag instead of IMPLICIT [0] -/
def signedBytesOfAttrs (attrsDer : Bytes) : Bytes := setOfTag :: attrsDer.tail

/-- Android enforces the content-type attribute from API 24; no upper bound given = newest platform -/
def contentTypeEnforced (maxSdk : Option Int) : Prop :=
  match maxSdk with
  | none => True
  | some n => 24 ≤ n

/-- an attribute value: a name / OID, or an octet string -/
inductive Val where
  | name (s : String)
  | octets (b : Bytes)
deriving DecidableEq, Repr

/-- Attribute ::= SEQUENCE { attrType OID, attrValues SET OF AttributeValue } -/
structure Attribute where
  oid : String
  values : List Val
deriving DecidableEq, Repr

/-- the attribute with OID `oid` is present and its (first) value is `v` -/
def HasAttr (attrs : List Attribute) (oid : String) (v : Val) : Prop :=
  ∃ a ∈ attrs, a.oid = oid ∧ a.values.head? = some v

/-- **The v1 verification statement** for one SignerInfo and one public key.
    `keyVerifies sig msg hashClass`: the key accepts `sig` as a signature of `msg` with that hash;
    `digest fn msg`: the message digest.  `attrs = []` stands for "signedAttrs absent".
    (An empty but present `[0]` field is not a legal SignerInfo — §5.3 requires the two attributes when the
    field is present; the implementation treats it as absent, and so does the generator of the abstraction.) -/
def Verifies (keyVerifies : Bytes → Bytes → String → Prop) (digest : String → Bytes → Bytes)
    (digestAlg : String) (attrs : List Attribute) (attrsDer : Bytes) (sig : Bytes)
    (content : Bytes) (eContentType : Val) (maxSdk : Option Int) : Prop :=
  ∃ fn cls, digestOf digestAlg = some (fn, cls) ∧
    ((attrs = [] ∧ keyVerifies sig content cls) ∨
     (attrs ≠ [] ∧
      (attrs.map (·.oid)).Nodup ∧
      (contentTypeEnforced maxSdk → HasAttr attrs contentTypeOid eContentType) ∧
      HasAttr attrs messageDigestOid (.octets (digest fn content)) ∧
      keyVerifies sig (signedBytesOfAttrs attrsDer) cls))

/-- the sid (IssuerAndSerialNumber, §10.2.4) names a certificate: equal issuer name (canonical form, a
    parameter) and serial; among several such certificates the first of the set is the signer's -/
def Selects {C : Type} (isX509 : C → Prop) (issuerOf : C → Nat) (serialOf : C → Int)
    (certs : List C) (issuer : Nat) (serial : Int) (c : C) : Prop :=
  ∃ pre post, certs = pre ++ c :: post ∧ isX509 c ∧ issuerOf c = issuer ∧ serialOf c = serial ∧
    ∀ d ∈ pre, ¬ (isX509 d ∧ issuerOf d = issuer ∧ serialOf d = serial)

end AgVerif.Spec.V1Sig
