/-
Independent specification of the byte layout of the three payload pseudo-instructions, transcribed from the
"Dalvik bytecode" document (sections packed-switch-payload, sparse-switch-payload, fill-array-data-payload).
                                                   (imports nothing; shares nothing with the model)

  packed-switch-payload   ushort ident = 0x0100 · ushort size · int first_key · int[size] targets
                          total (size * 2) + 4 code units
  sparse-switch-payload   ushort ident = 0x0200 · ushort size · int[size] keys · int[size] targets
                          total (size * 4) + 2 code units
  fill-array-data-payload ushort ident = 0x0300 · ushort element_width · uint size · ubyte[size * element_width] data
                          total (size * element_width + 1) / 2 + 4 code units: one padding byte follows odd-length data
                          (the document does not fix its value)

All quantities are little-endian; `int` is 32-bit two's complement.
-/
namespace AgVerif.Spec.DalvikPayload

/-- 16-bit unsigned, little-endian -/
def ushort (v : Nat) : List Nat := [v % 256, v / 256 % 256]

/-- 32-bit unsigned, little-endian -/
def uint (v : Nat) : List Nat := [v % 256, v / 256 % 256, v / 65536 % 256, v / 16777216 % 256]

/-- 32-bit two's complement, little-endian -/
def int (v : Int) : List Nat := uint (if v < 0 then (v + 4294967296).toNat else v.toNat)

inductive Payload
  | packedSwitch (firstKey : Int) (targets : List Int)
  | sparseSwitch (keys targets : List Int)
  | fillArrayData (elementWidth size : Nat) (data : List Nat)
  deriving DecidableEq, Repr

def isInt (v : Int) : Prop := -2147483648 ≤ v ∧ v < 2147483648

/-- the contents fit their fields -/
def WellFormed : Payload → Prop
  | .packedSwitch fk ts => ts.length < 65536 ∧ isInt fk ∧ ∀ t ∈ ts, isInt t
  | .sparseSwitch ks ts => ks.length < 65536 ∧ ts.length = ks.length ∧ (∀ k ∈ ks, isInt k) ∧ ∀ t ∈ ts, isInt t
  | .fillArrayData w size data =>
    w < 65536 ∧ size < 4294967296 ∧ data.length = size * w ∧ ∀ b ∈ data, b < 256

/-- the bytes after the last field: nothing, except one byte of any value after odd-length array data -/
def PaddingOK : Payload → List Nat → Prop
  | .fillArrayData _ _ data, pad => pad.length = data.length % 2 ∧ ∀ b ∈ pad, b < 256
  | _, pad => pad = []

/-- the bytes of a payload, fields in document order, followed by the padding -/
def payloadBytes (pad : List Nat) : Payload → List Nat
  | .packedSwitch fk ts => ushort 0x0100 ++ ushort ts.length ++ int fk ++ ts.flatMap int ++ pad
  | .sparseSwitch ks ts => ushort 0x0200 ++ ushort ks.length ++ ks.flatMap int ++ ts.flatMap int ++ pad
  | .fillArrayData w size data => ushort 0x0300 ++ ushort w ++ uint size ++ data ++ pad

/-- total number of 16-bit code units the document gives -/
def units : Payload → Nat
  | .packedSwitch _ ts => ts.length * 2 + 4
  | .sparseSwitch ks _ => ks.length * 4 + 2
  | .fillArrayData w size _ => (size * w + 1) / 2 + 4

end AgVerif.Spec.DalvikPayload
