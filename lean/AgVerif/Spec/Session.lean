/-
Specification vocabulary for C36 (imports nothing): what a schedule is, when two sessions
overlap in it, and what "every session is created successfully and receives an identifier no
other session on that database has" means for a final state — stated on schedules (lists of
session indices) by positions and counts only, independent of the protocol's step function.
-/
namespace AgVerif.Spec.Session

/-- an interleaving of the two steps (read, insert) of each of N sessions -/
def IsSchedule (N : Nat) (σ : List Nat) : Prop :=
  (∀ i, i ∈ σ → i < N) ∧ (∀ i, i < N → σ.count i = 2)

instance (N : Nat) (σ : List Nat) : Decidable (IsSchedule N σ) :=
  inferInstanceAs (Decidable ((∀ i, i ∈ σ → i < N) ∧ (∀ i, i < N → σ.count i = 2)))

/-- some session's read happens between another session's read and insert: at some position
    session j takes its first step while session i ≠ j has taken exactly one -/
def Overlap (σ : List Nat) : Prop :=
  ∃ σ₁ σ₂ i j, σ = σ₁ ++ j :: σ₂ ∧ i ≠ j ∧ σ₁.count i = 1 ∧ σ₁.count j = 0

/-- the table is dense: its primary keys are exactly 0 … rows-1 (what a database written only by this
    code looks like; a deleted row or a foreign writer breaks it) -/
def DenseIds (ids : List Nat) : Prop := ids = List.range ids.length

instance (ids : List Nat) : Decidable (DenseIds ids) := inferInstanceAs (Decidable (ids = List.range ids.length))

/-- outcome per session: `some k` = created with identifier k, `none` = not created -/
def AllCreatedDistinct (N : Nat) (outcome : Nat → Option Nat) : Prop :=
  (∀ i, i < N → ∃ k, outcome i = some k) ∧
  (∀ i j k, i < N → j < N → outcome i = some k → outcome j = some k → i = j)

end AgVerif.Spec.Session
