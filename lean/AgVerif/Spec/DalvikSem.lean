/-
Dalvik semantics of the int/long instruction subset (C21) — a hand transcription of the
"Dalvik bytecode" document (section "Summary of bytecode set"), on `BitVec 32` / `BitVec 64`.
Imports nothing.  Registers are named by number; a long lives in a register pair, which is abstracted as one
64-bit cell per (even) name: `Env.i r` is the 32-bit view of register `r`, `Env.l r` the 64-bit view of the pair
starting at `r`.  The instruction under study has its register fields fixed to A = 1, B = 2, C = 3 (what the
translator's probe instruction uses); its literal is the value the instruction decoder delivers (sign-extended,
and already shifted for the `high16` forms — that is C01's business).
-/
namespace AgVerif.DalvikSem

inductive Val where
  | int (v : BitVec 32)
  | long (v : BitVec 64)
  deriving DecidableEq, Repr

/-- the only exception of the subset: `java.lang.ArithmeticException` (division by zero) -/
inductive Exn where
  | arith
  deriving DecidableEq, Repr

inductive BinF where
  | add | sub | mul | div | rem | and | or | xor | shl | shr | ushr
  deriving DecidableEq, Repr

inductive UnF where
  | neg | not
  deriving DecidableEq, Repr

inductive Conv where
  | i2l | l2i | i2b | i2c | i2s
  deriving DecidableEq, Repr

inductive Cmp where
  | eq | ne | lt | ge | gt | le
  deriving DecidableEq, Repr

/-- the instruction forms of the subset -/
inductive Form where
  /-- `binop vAA, vBB, vCC` (0x90..0xa5) -/
  | binop (long : Bool) (f : BinF)
  /-- `binop/2addr vA, vB` (0xb0..0xc5): vA ← vA f vB -/
  | binop2addr (long : Bool) (f : BinF)
  /-- `binop/lit16 vA, vB, #+CCCC` (0xd0..0xd7), `binop/lit8 vAA, vBB, #+CC` (0xd8..0xe2); `rsub`: literal − vB -/
  | binopLit (f : BinF) (rsub : Bool) (bits : Nat)
  /-- `unop vA, vB` (0x7b..0x7e) -/
  | unop (long : Bool) (f : UnF)
  /-- `int-to-long`, `long-to-int`, `int-to-byte`, `int-to-char`, `int-to-short` -/
  | conv (c : Conv)
  /-- `cmp-long vAA, vBB, vCC` -/
  | cmpLong
  /-- `const*`: the decoded literal is any multiple of `2^shift` whose quotient fits `bits` signed bits -/
  | const (long : Bool) (bits : Nat) (shift : Nat)
  /-- `if-test vA, vB, +CCCC` -/
  | ifTest (c : Cmp)
  /-- `if-testz vAA, +BBBB` -/
  | ifTestZ (c : Cmp)
  deriving DecidableEq, Repr

def binOfIndex : Nat → Option BinF
  | 0 => some .add | 1 => some .sub | 2 => some .mul | 3 => some .div | 4 => some .rem | 5 => some .and
  | 6 => some .or | 7 => some .xor | 8 => some .shl | 9 => some .shr | 10 => some .ushr | _ => none

def cmpOfIndex : Nat → Option Cmp
  | 0 => some .eq | 1 => some .ne | 2 => some .lt | 3 => some .ge | 4 => some .gt | 5 => some .le | _ => none

/-- the opcode table of the subset (opcode number ↦ form), as in the bytecode document -/
def form (op : Nat) : Option Form :=
  if op = 0x12 then some (.const false 4 0)          -- const/4
  else if op = 0x13 then some (.const false 16 0)    -- const/16
  else if op = 0x14 then some (.const false 32 0)    -- const
  else if op = 0x15 then some (.const false 16 16)   -- const/high16
  else if op = 0x16 then some (.const true 16 0)     -- const-wide/16
  else if op = 0x17 then some (.const true 32 0)     -- const-wide/32
  else if op = 0x18 then some (.const true 64 0)     -- const-wide
  else if op = 0x19 then some (.const true 16 48)    -- const-wide/high16
  else if op = 0x31 then some .cmpLong
  else if 0x32 ≤ op ∧ op ≤ 0x37 then (cmpOfIndex (op - 0x32)).map .ifTest
  else if 0x38 ≤ op ∧ op ≤ 0x3d then (cmpOfIndex (op - 0x38)).map .ifTestZ
  else if op = 0x7b then some (.unop false .neg)
  else if op = 0x7c then some (.unop false .not)
  else if op = 0x7d then some (.unop true .neg)
  else if op = 0x7e then some (.unop true .not)
  else if op = 0x81 then some (.conv .i2l)
  else if op = 0x84 then some (.conv .l2i)
  else if op = 0x8d then some (.conv .i2b)
  else if op = 0x8e then some (.conv .i2c)
  else if op = 0x8f then some (.conv .i2s)
  else if 0x90 ≤ op ∧ op ≤ 0x9a then (binOfIndex (op - 0x90)).map (.binop false)
  else if 0x9b ≤ op ∧ op ≤ 0xa5 then (binOfIndex (op - 0x9b)).map (.binop true)
  else if 0xb0 ≤ op ∧ op ≤ 0xba then (binOfIndex (op - 0xb0)).map (.binop2addr false)
  else if 0xbb ≤ op ∧ op ≤ 0xc5 then (binOfIndex (op - 0xbb)).map (.binop2addr true)
  else if op = 0xd1 then some (.binopLit .sub true 16)      -- rsub-int
  else if 0xd0 ≤ op ∧ op ≤ 0xd7 then (binOfIndex (op - 0xd0)).map (fun f => .binopLit f false 16)
  else if op = 0xd9 then some (.binopLit .sub true 8)       -- rsub-int/lit8
  else if 0xd8 ≤ op ∧ op ≤ 0xe2 then (binOfIndex (op - 0xd8)).map (fun f => .binopLit f false 8)
  else none

/-! ## operations -/

/-- a binary operation on two registers of width `w`; `dist` is the shift distance already reduced to its low
    five (int) or six (long) bits -/
def binOp {w : Nat} (f : BinF) (x y : BitVec w) (dist : Nat) : Except Exn (BitVec w) :=
  match f with
  | .add => .ok (x + y)
  | .sub => .ok (x - y)
  | .mul => .ok (x * y)
  | .div => if y = 0 then .error .arith else .ok (x.sdiv y)     -- rounded towards zero; MIN / −1 = MIN
  | .rem => if y = 0 then .error .arith else .ok (x.srem y)     -- sign of the dividend
  | .and => .ok (x &&& y)
  | .or => .ok (x ||| y)
  | .xor => .ok (x ^^^ y)
  | .shl => .ok (x <<< dist)
  | .shr => .ok (x.sshiftRight dist)
  | .ushr => .ok (x >>> dist)

/-- 32-bit binary operation; for the shifts `y` is the distance register, of which the low five bits count -/
def binInt (f : BinF) (x y : BitVec 32) : Except Exn (BitVec 32) := binOp f x y (y.toNat % 32)

/-- 64-bit binary operation; `y` is the second long operand, `s` the int distance register of the shifts
    (low six bits) -/
def binLong (f : BinF) (x y : BitVec 64) (s : BitVec 32) : Except Exn (BitVec 64) := binOp f x y (s.toNat % 64)

def isShift : BinF → Bool
  | .shl | .shr | .ushr => true
  | _ => false

def cmp (c : Cmp) (x y : BitVec 32) : Bool :=
  match c with
  | .eq => x == y
  | .ne => x != y
  | .lt => x.slt y
  | .ge => !(x.slt y)
  | .gt => y.slt x
  | .le => !(y.slt x)

/-- `cmp-long`: 0 if b == c, 1 if b > c, −1 if b < c -/
def cmpLong (x y : BitVec 64) : BitVec 32 :=
  if x = y then 0 else if y.slt x then 1 else -1

structure Env where
  i : Nat → BitVec 32
  l : Nat → BitVec 64

/-- what executing one instruction does: writes a value to vA (or throws), or decides a branch -/
inductive Outcome where
  | value (r : Except Exn Val)
  | branch (taken : Bool)

/-- the literals an encoding can deliver -/
def litOk (fm : Form) (lit : Int) : Prop :=
  match fm with
  | .binopLit _ _ bits => -(2 : Int) ^ (bits - 1) ≤ lit ∧ lit < (2 : Int) ^ (bits - 1)
  | .const _ bits shift => ∃ q : Int, lit = q * (2 : Int) ^ shift ∧ -(2 : Int) ^ (bits - 1) ≤ q ∧ q < (2 : Int) ^ (bits - 1)
  | _ => True

def lift32 (r : Except Exn (BitVec 32)) : Outcome := .value (r.map .int)
def lift64 (r : Except Exn (BitVec 64)) : Outcome := .value (r.map .long)

/-- one step of an instruction of form `fm` with register fields A = 1, B = 2, C = 3 and decoded literal `lit` -/
def step (fm : Form) (ρ : Env) (lit : Int) : Outcome :=
  match fm with
  | .binop false f => lift32 (binInt f (ρ.i 2) (ρ.i 3))
  | .binop true f => lift64 (binLong f (ρ.l 2) (ρ.l 3) (ρ.i 3))
  | .binop2addr false f => lift32 (binInt f (ρ.i 1) (ρ.i 2))
  | .binop2addr true f => lift64 (binLong f (ρ.l 1) (ρ.l 2) (ρ.i 2))
  | .binopLit f false _ => lift32 (binInt f (ρ.i 2) (BitVec.ofInt 32 lit))
  | .binopLit f true _ => lift32 (binInt f (BitVec.ofInt 32 lit) (ρ.i 2))
  | .unop false .neg => lift32 (.ok (-(ρ.i 2)))
  | .unop false .not => lift32 (.ok (~~~(ρ.i 2)))
  | .unop true .neg => lift64 (.ok (-(ρ.l 2)))
  | .unop true .not => lift64 (.ok (~~~(ρ.l 2)))
  | .conv .i2l => lift64 (.ok ((ρ.i 2).signExtend 64))
  | .conv .l2i => lift32 (.ok ((ρ.l 2).setWidth 32))
  | .conv .i2b => lift32 (.ok (((ρ.i 2).setWidth 8).signExtend 32))
  | .conv .i2s => lift32 (.ok (((ρ.i 2).setWidth 16).signExtend 32))
  | .conv .i2c => lift32 (.ok (((ρ.i 2).setWidth 16).setWidth 32))
  | .cmpLong => lift32 (.ok (cmpLong (ρ.l 2) (ρ.l 3)))
  | .const false _ _ => lift32 (.ok (BitVec.ofInt 32 lit))
  | .const true _ _ => lift64 (.ok (BitVec.ofInt 64 lit))
  | .ifTest c => .branch (cmp c (ρ.i 1) (ρ.i 2))
  | .ifTestZ c => .branch (cmp c (ρ.i 1) 0)

end AgVerif.DalvikSem
