/-
Specification side of C26: the abstract XML tree (the `Node` type of the model is the abstract tree), XML's
character classes, the chunk event sequence that encodes a tree, normal form of text children, and the
byte encodings of string-pool length prefixes (ResourceTypes.h, `ResStringPool`).
-/
import AgVerif.Model.Axml
namespace AgVerif.Spec.Axml
open AgVerif.Axml

/-- XML 1.0 production [2] Char -/
def XmlChar (c : Nat) : Prop :=
  c = 9 ∨ c = 0xA ∨ c = 0xD ∨ (0x20 ≤ c ∧ c ≤ 0xD7FF) ∨ (0xE000 ≤ c ∧ c ≤ 0xFFFD) ∨ (0x10000 ≤ c ∧ c ≤ 0x10FFFF)

/-- the names `_fix_name` aims at: "must start with a letter or underscore; the rest can contain letters, digits,
    hyphens, underscores, and periods" (ASCII) -/
def NameStart (c : Nat) : Prop := (0x41 ≤ c ∧ c ≤ 0x5A) ∨ (0x61 ≤ c ∧ c ≤ 0x7A) ∨ c = 0x5F
def NameChar (c : Nat) : Prop := NameStart c ∨ (0x30 ≤ c ∧ c ≤ 0x39) ∨ c = 0x2E ∨ c = 0x2D

def LegalValue (v : Str) : Prop := ∀ c ∈ v, XmlChar c
def LegalName : Str → Prop
  | [] => False
  | c :: r => NameStart c ∧ ∀ x ∈ r, NameChar x

/-! ### a tree as a sequence of chunk events (START_ELEMENT, CDATA, END_ELEMENT with their strings) -/

mutual
def events : Node → List REvent
  | .elem tag ns attrs kids => .start false true (.ok (tag, ns, attrs)) :: (eventsL kids ++ [.end_ false (.ok ())])
  | .text s => [.text (.ok s)]
def eventsL : List Node → List REvent
  | [] => []
  | n :: r => events n ++ eventsL r
end

/-- a child is appended; a text chunk joins the text that precedes it (XML cannot tell them apart) -/
def push1 : Node → List Node → List Node
  | .text s, acc => addText s acc
  | e, acc => e :: acc

/-- children newest-first -/
def pushKids : List Node → List Node → List Node
  | [], acc => acc
  | n :: r, acc => pushKids r (push1 n acc)

mutual
/-- normal form: adjacent text chunks merged, empty text chunks dropped -/
def norm : Node → Node
  | .elem tag ns attrs kids => .elem tag ns attrs (pushKids (normL kids) []).reverse
  | .text s => .text s
def normL : List Node → List Node
  | [] => []
  | n :: r => norm n :: normL r
end

mutual
/-- every text chunk is acceptable to the XML library -/
def TextsOk : Node → Prop
  | .elem _ _ _ kids => TextsOkL kids
  | .text s => xmlCompatible s = true
def TextsOkL : List Node → Prop
  | [] => True
  | n :: r => TextsOk n ∧ TextsOkL r
end

def isText : Node → Bool
  | .text _ => true
  | _ => false

def nonEmptyText : Node → Bool
  | .text s => !s.isEmpty
  | _ => true

/-- no two neighbouring text children -/
def noAdjText : List Node → Bool
  | a :: b :: r => !(isText a && isText b) && noAdjText (b :: r)
  | _ => true

mutual
/-- already in normal form -/
def Normal : Node → Prop
  | .elem _ _ _ kids => NormalL kids ∧ noAdjText kids = true ∧ kids.all nonEmptyText = true
  | .text _ => True
def NormalL : List Node → Prop
  | [] => True
  | n :: r => Normal n ∧ NormalL r
end

/-- the printer's loop on resolved events -/
def runEvents : List REvent → Printer → Except String Printer
  | [], p => .ok p
  | e :: r, p =>
    match applyEv e p with
    | .error x => .error x
    | .ok p' => if p'.stop then .ok p' else runEvents r p'

/-! ### string pool length prefixes -/

/-- UTF-8 pool: one byte, or two bytes with the high bit of the first set -/
def len8Narrow (n : Nat) : Bytes := [n]
def len8Wide (n : Nat) : Bytes := [0x80 + n / 256, n % 256]
/-- UTF-16 pool: one little-endian uint16, or two with the high bit of the first set -/
def len16Narrow (n : Nat) : Bytes := [n % 256, n / 256]
def len16Wide (n : Nat) : Bytes := [(n / 65536) % 256, 0x80 + n / 65536 / 256, n % 256, n / 256 % 256]

/-- UTF-16 code units of a scalar value -/
def units16 (c : Nat) : List Nat :=
  if c < 0x10000 then [c] else [0xD800 + (c - 0x10000) / 1024, 0xDC00 + (c - 0x10000) % 1024]

def Scalar (c : Nat) : Prop := c < 0xD800 ∨ (0xE000 ≤ c ∧ c ≤ 0x10FFFF)

/-- UTF-8 bytes of a scalar value -/
def bytes8 (c : Nat) : Bytes :=
  if c < 0x80 then [c]
  else if c < 0x800 then [0xC0 + c / 64, 0x80 + c % 64]
  else if c < 0x10000 then [0xE0 + c / 4096, 0x80 + c / 64 % 64, 0x80 + c % 64]
  else [0xF0 + c / 262144, 0x80 + c / 4096 % 64, 0x80 + c / 64 % 64, 0x80 + c % 64]

end AgVerif.Spec.Axml
