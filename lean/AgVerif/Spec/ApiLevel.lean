/-
Specification for C39 (imports nothing): the documented fallback rule of load_permissions
("Has a fallback to select the maximum or minimal available API level … If an API level is
requested which is in between of two API levels we got, the lower level is returned.")
stated as a relation between the available levels, the requested integer and the level whose
data are loaded — no max/min/filter, only membership and order.
-/
namespace AgVerif.Spec.ApiLevel

/-- the requested integer is one of the available levels -/
def Avail (levels : List Nat) (n : Int) : Prop := ∃ k, k ∈ levels ∧ (k : Int) = n

/-- `l` is the level the rule selects for request `n` -/
def IsFallback (levels : List Nat) (n : Int) (l : Nat) : Prop :=
  l ∈ levels ∧
  (  -- available: that level
     (Avail levels n ∧ (l : Int) = n)
     -- not available and something lower exists: the highest available level below the request
     -- (for a request above the range this is the highest available level)
   ∨ (¬ Avail levels n ∧ (l : Int) < n ∧ ∀ k, k ∈ levels → (k : Int) < n → k ≤ l)
     -- below the range: the lowest available level
   ∨ (¬ Avail levels n ∧ (∀ k, k ∈ levels → n < (k : Int)) ∧ ∀ k, k ∈ levels → l ≤ k))

/-- `l` is the highest / lowest available level -/
def IsMax (levels : List Nat) (l : Nat) : Prop := l ∈ levels ∧ ∀ k, k ∈ levels → k ≤ l
def IsMin (levels : List Nat) (l : Nat) : Prop := l ∈ levels ∧ ∀ k, k ∈ levels → l ≤ k

end AgVerif.Spec.ApiLevel
