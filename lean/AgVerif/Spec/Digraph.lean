/-
Textbook notions on directed graphs given by an edge relation.  Imports nothing.

* `Path E a p b`      p is the vertex list of a path a → … → b (both end points included)
* `Reach E a b`       b is reachable from a (by a possibly empty path)
* `ReachAvoiding E S a b`  … by a path none of whose vertices (end points included) lies in S
-/
namespace AgVerif.Spec

variable {α : Type}

/-- `Path E a p b`: `p = [a, …, b]`, consecutive vertices related by `E`. -/
inductive Path (E : α → α → Prop) : α → List α → α → Prop
  | single (a : α) : Path E a [a] a
  | cons {a b c : α} {p : List α} : E a b → Path E b p c → Path E a (a :: p) c

/-- reflexive-transitive closure of the edge relation -/
inductive Reach (E : α → α → Prop) : α → α → Prop
  | refl (a : α) : Reach E a a
  | tail {a b c : α} : Reach E a b → E b c → Reach E a c

/-- reachability in the graph from which the vertices in `S` have been removed -/
inductive ReachAvoiding (E : α → α → Prop) (S : α → Prop) : α → α → Prop
  | refl {a : α} : ¬ S a → ReachAvoiding E S a a
  | tail {a b c : α} : ReachAvoiding E S a b → E b c → ¬ S c → ReachAvoiding E S a c

theorem Reach.trans {E : α → α → Prop} {a b c : α} (h1 : Reach E a b) (h2 : Reach E b c) :
    Reach E a c := by
  induction h2 with
  | refl => exact h1
  | tail _ e ih => exact Reach.tail ih e

theorem Reach.head {E : α → α → Prop} {a b c : α} (e : E a b) (h : Reach E b c) : Reach E a c :=
  Reach.trans (Reach.tail (Reach.refl a) e) h

theorem ReachAvoiding.reach {E : α → α → Prop} {S : α → Prop} {a b : α}
    (h : ReachAvoiding E S a b) : Reach E a b := by
  induction h with
  | refl _ => exact Reach.refl _
  | tail _ e _ ih => exact Reach.tail ih e

theorem ReachAvoiding.not_mem_right {E : α → α → Prop} {S : α → Prop} {a b : α}
    (h : ReachAvoiding E S a b) : ¬ S b := by
  cases h with
  | refl h => exact h
  | tail _ _ h => exact h

theorem ReachAvoiding.not_mem_left {E : α → α → Prop} {S : α → Prop} {a b : α}
    (h : ReachAvoiding E S a b) : ¬ S a := by
  induction h with
  | refl h => exact h
  | tail _ _ _ ih => exact ih

theorem ReachAvoiding.mono {E : α → α → Prop} {S T : α → Prop} {a b : α}
    (hST : ∀ x, T x → S x) (h : ReachAvoiding E S a b) : ReachAvoiding E T a b := by
  induction h with
  | refl h => exact ReachAvoiding.refl (fun t => h (hST _ t))
  | tail _ e h ih => exact ReachAvoiding.tail ih e (fun t => h (hST _ t))

theorem ReachAvoiding.trans {E : α → α → Prop} {S : α → Prop} {a b c : α}
    (h1 : ReachAvoiding E S a b) (h2 : ReachAvoiding E S b c) : ReachAvoiding E S a c := by
  induction h2 with
  | refl _ => exact h1
  | tail _ e h ih => exact ReachAvoiding.tail ih e h

/-- `Reach` is reachability avoiding nothing. -/
theorem reach_iff_avoiding_empty {E : α → α → Prop} {a b : α} :
    Reach E a b ↔ ReachAvoiding E (fun _ => False) a b := by
  constructor
  · intro h
    induction h with
    | refl => exact ReachAvoiding.refl (fun h => h)
    | tail _ e ih => exact ReachAvoiding.tail ih e (fun h => h)
  · exact ReachAvoiding.reach

/-- a path yields reachability -/
theorem Path.reach {E : α → α → Prop} {a b : α} {p : List α} (h : Path E a p b) : Reach E a b := by
  induction h with
  | single a => exact Reach.refl a
  | cons e _ ih => exact Reach.head e ih

/-- a path whose vertices avoid `S` yields `ReachAvoiding` -/
theorem Path.reachAvoiding {E : α → α → Prop} {S : α → Prop} {a b : α} {p : List α}
    (h : Path E a p b) (hp : ∀ x ∈ p, ¬ S x) : ReachAvoiding E S a b := by
  induction h with
  | single a => exact ReachAvoiding.refl (hp a (List.mem_cons_self ..))
  | @cons a b c p e hpath ih =>
    have h1 : ReachAvoiding E S a b :=
      ReachAvoiding.tail (ReachAvoiding.refl (hp a (List.mem_cons_self ..))) e
        (by
          have hb : b ∈ p := by cases hpath <;> exact List.mem_cons_self ..
          exact hp b (List.mem_cons_of_mem _ hb))
    exact ReachAvoiding.trans h1 (ih (fun x hx => hp x (List.mem_cons_of_mem _ hx)))

theorem Path.snoc {E : α → α → Prop} {a b c : α} {p : List α}
    (h : Path E a p b) (e : E b c) : Path E a (p ++ [c]) c := by
  induction h with
  | single a => exact Path.cons e (Path.single c)
  | cons e' _ ih => exact Path.cons e' (ih e)

/-- `ReachAvoiding` yields a path all of whose vertices avoid `S` -/
theorem ReachAvoiding.path {E : α → α → Prop} {S : α → Prop} {a b : α}
    (h : ReachAvoiding E S a b) : ∃ p, Path E a p b ∧ ∀ x ∈ p, ¬ S x := by
  induction h with
  | refl h => exact ⟨[a], Path.single a, by intro x hx; simp at hx; subst hx; exact h⟩
  | @tail b c _ e h ih =>
    obtain ⟨p, hp, hav⟩ := ih
    refine ⟨p ++ [c], hp.snoc e, ?_⟩
    intro x hx
    rcases List.mem_append.mp hx with hx | hx
    · exact hav x hx
    · simp at hx; subst hx; exact h

end AgVerif.Spec
