/-
Specification of MUTF-8 as the DEX format document defines it ("MUTF-8 (Modified UTF-8)
Encoding", dex-format.html) — imports nothing, arithmetic only.

* A string is a sequence of UTF-16 code units (each `< 65536`).
* Every code unit is encoded on its own in the one-, two- or three-byte UTF-8 form
  ("only the one-, two-, and three-byte encodings are used"), so a supplementary character is
  the two three-byte forms of its surrogate pair (six bytes) and an unpaired surrogate is one
  three-byte form.
* U+0000 is encoded in the two-byte form `C0 80` ("a plain null byte indicates the end").
* UTF-16 (Unicode §3.9, D91): a scalar value above U+FFFF is the pair
  `D800 + (v-0x10000)/0x400`, `DC00 + (v-0x10000) mod 0x400`; anything else is itself.
-/
namespace AgVerif.Spec.Mutf8

/-- MUTF-8 bytes of one UTF-16 code unit -/
def encodeUnit (c : Nat) : List Nat :=
  if c = 0 then [0xC0, 0x80]
  else if c < 0x80 then [c]
  else if c < 0x800 then [0xC0 + c / 64, 0x80 + c % 64]
  else [0xE0 + c / 4096, 0x80 + c / 64 % 64, 0x80 + c % 64]

/-- MUTF-8 bytes of a sequence of UTF-16 code units (no terminator) -/
def encode : List Nat → List Nat
  | [] => []
  | c :: cs => encodeUnit c ++ encode cs

/-- UTF-16 code units of one code point as a Python `str` holds it
    (a surrogate code point, paired or not, is kept as itself) -/
def utf16 (cp : Nat) : List Nat :=
  if cp < 0x10000 then [cp]
  else [0xD800 + (cp - 0x10000) / 0x400, 0xDC00 + (cp - 0x10000) % 0x400]

/-- UTF-16 code units of a sequence of code points -/
def utf16s : List Nat → List Nat
  | [] => []
  | c :: cs => utf16 c ++ utf16s cs

def IsUnit (c : Nat) : Prop := c < 0x10000
def IsHigh (c : Nat) : Prop := 0xD800 ≤ c ∧ c < 0xDC00
def IsLow (c : Nat) : Prop := 0xDC00 ≤ c ∧ c < 0xE000

end AgVerif.Spec.Mutf8
