/-
Specification for C20: reaching definitions, stated with explicit paths (textbook definition,
"Compilers: Principles, Techniques and Tools", 9.2.4).  Imports nothing.

A program is what `build_def_use(graph, lparams)` receives: the nodes of `graph.rpo`, each a list of
statements (optional defined register, used registers), the normal and the catch edges, the entry node
and the method parameters.  Statements are numbered consecutively through the node list
(`Graph.number_ins`); the k-th parameter (k = 1, 2, ...) is the definition `-k`, placed in a dummy
node in front of the entry node.

Granularity (DESIGN section 10): a path leaves a node at its end and enters the successor (normal or
catch edge) at its start.
-/
namespace AgVerif.Spec.ReachDef

abbrev Reg := Nat

structure Stmt where
  lhs : Option Reg
  uses : List Reg
deriving Repr, DecidableEq

structure Prog where
  nodes  : List (List Stmt)
  edges  : List (List Nat)
  cedges : List (List Nat)
  entry  : Nat
  exit   : Option Nat
  params : List Reg
deriving Repr

/-- number of the first statement of node `v` -/
def start (P : Prog) (v : Nat) : Nat := ((P.nodes.take v).map List.length).sum

/-- statement `s` is the statement numbered `l`, and it belongs to node `v` -/
def StmtAt (P : Prog) (v : Nat) (l : Int) (s : Stmt) : Prop :=
  ∃ ss k, P.nodes[v]? = some ss ∧ ss[k]? = some s ∧ l = ((start P v + k : Nat) : Int)

/-- the statement numbered `l` of node `v` assigns register `x` -/
def DefinesAt (P : Prog) (v : Nat) (l : Int) (x : Reg) : Prop :=
  ∃ s, StmtAt P v l s ∧ s.lhs = some x

/-- `-k` is the definition of the k-th parameter, which is register `x` -/
def ParamDef (P : Prog) (d : Int) (x : Reg) : Prop :=
  ∃ k, P.params[k]? = some x ∧ d = -((k + 1 : Nat) : Int)

/-- an edge of the node graph (normal or catch) -/
def Edge (P : Prog) (a b : Nat) : Prop :=
  (∃ l, P.edges[a]? = some l ∧ b ∈ l) ∨ (∃ l, P.cedges[a]? = some l ∧ b ∈ l)

/-- `a → mids[0] → … → mids[last] → b`: a walk with at least one edge -/
def Walk (P : Prog) : Nat → List Nat → Nat → Prop
  | a, [], b => Edge P a b
  | a, w :: ws, b => Edge P a w ∧ Walk P w ws b

/-- walk that starts in the dummy entry node (whose only successor is the entry node); `mids` are the
    nodes strictly between the dummy and `b` -/
def WalkFromDummy (P : Prog) : List Nat → Nat → Prop
  | [], b => b = P.entry
  | w :: ws, b => w = P.entry ∧ Walk P w ws b

/-- node `w` contains no definition of `x` -/
def Clear (P : Prog) (w : Nat) (x : Reg) : Prop := ∀ l, ¬ DefinesAt P w l x

/-- `d` is the last definition of `x` inside node `m` -/
def LastDefIn (P : Prog) (m : Nat) (x : Reg) (d : Int) : Prop :=
  DefinesAt P m d x ∧ ∀ l, d < l → ¬ DefinesAt P m l x

/-- definition `d` of register `x` reaches the start of node `v`: there is a path from the node
    holding `d` (or from the dummy entry node for a parameter) to `v` on which `x` is not redefined -/
def ReachesEntry (P : Prog) (d : Int) (x : Reg) (v : Nat) : Prop :=
  ∃ mids, (∀ w ∈ mids, Clear P w x) ∧
    ((∃ m, LastDefIn P m x d ∧ Walk P m mids v) ∨ (ParamDef P d x ∧ WalkFromDummy P mids v))

/-- definition `d` of register `x` reaches the use of `x` by the statement numbered `u` -/
def Reaches (P : Prog) (d : Int) (x : Reg) (u : Int) : Prop :=
  ∃ v s, StmtAt P v u s ∧ x ∈ s.uses ∧
    ((DefinesAt P v d x ∧ d < u ∧ ∀ l, d < l → l < u → ¬ DefinesAt P v l x) ∨
     ((∀ l, l < u → ¬ DefinesAt P v l x) ∧ ReachesEntry P d x v))

/-! ### paths that start at the entry

`ReachesEntry` lets a walk start at the node that holds the definition, whether or not that node can be
reached from the entry node: a definition in dead code "reaches" the nodes below it (this is what the
code computes).  The sharper notion: the walk is the tail of a path that starts at the entry. -/

/-- node `v` can be reached from the entry node -/
def Reachable (P : Prog) (v : Nat) : Prop := v = P.entry ∨ ∃ mids, Walk P P.entry mids v

/-- there is a path dummy entry → entry → … → `v` on which `d` is the last definition of `x` before
    the start of `v` (the prefix up to the node holding `d` is arbitrary) -/
def ReachesFromEntry (P : Prog) (d : Int) (x : Reg) (v : Nat) : Prop :=
  ∃ mids, (∀ w ∈ mids, Clear P w x) ∧
    ((∃ m, Reachable P m ∧ LastDefIn P m x d ∧ Walk P m mids v) ∨ (ParamDef P d x ∧ WalkFromDummy P mids v))

end AgVerif.Spec.ReachDef
