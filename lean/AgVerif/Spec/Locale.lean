/-
Specification: AOSP frameworks/base/libs/androidfw/ResourceTypes.cpp,
`unpackLanguageOrRegion`, `packLanguageOrRegion`, and the legacy qualifier string
(`ResTable_config::appendDirLocale`, the branch without script/variant).
Written from the C++ source, independently of the Python code.  (imports nothing)

```
size_t unpackLanguageOrRegion(const char in[2], const char base, char out[4]) {
  if (in[0] & 0x80) {
      const uint8_t first = in[1] & 0x1f;
      const uint8_t second = ((in[1] & 0xe0) >> 5) + ((in[0] & 0x03) << 3);
      const uint8_t third = (in[0] & 0x7c) >> 2;
      out[0] = first + base; out[1] = second + base; out[2] = third + base; out[3] = 0;
      return 3;
  }
  if (in[0]) { memcpy(out, in, 2); memset(out + 2, 0, 2); return 2; }
  memset(out, 0, 4);
  return 0;
}
void packLanguageOrRegion(const char* in, const char base, char out[2]) {
  if (in[2] == 0 || in[2] == '-') { out[0] = in[0]; out[1] = in[1]; }
  else {
      uint8_t first = (in[0] - base) & 0x007f;
      uint8_t second = (in[1] - base) & 0x007f;
      uint8_t third = (in[2] - base) & 0x007f;
      out[0] = (0x80 | (third << 2) | (second >> 3));
      out[1] = ((second << 5) | first);
  }
}
```
Bytes are `Nat` below 256; `char` stores are reduced modulo 256.
-/
namespace AgVerif.Spec.Locale

/-- the `out[4]` buffer and the returned length -/
def unpackLanguageOrRegion (in0 in1 base : Nat) : List Nat × Nat :=
  if in0 &&& 0x80 ≠ 0 then
    let first := in1 &&& 0x1f
    let second := ((in1 &&& 0xe0) >>> 5) + ((in0 &&& 0x03) <<< 3)
    let third := (in0 &&& 0x7c) >>> 2
    ([(first + base) % 256, (second + base) % 256, (third + base) % 256, 0], 3)
  else if in0 ≠ 0 then ([in0, in1, 0, 0], 2)
  else ([0, 0, 0, 0], 0)

/-- a `char[]` buffer read as a NUL-terminated C string -/
def cstr : List Nat → List Nat
  | [] => []
  | c :: cs => if c = 0 then [] else c :: cstr cs

/-- the string a caller of `unpackLanguageOrRegion` gets -/
def unpackStr (in0 in1 base : Nat) : List Nat := cstr (unpackLanguageOrRegion in0 in1 base).1

/-- `(in[i] - base) & 0x7f` in C `int` arithmetic -/
def off7 (ch base : Nat) : Nat := (((ch : Int) - (base : Int)) % 128).toNat

/-- `packLanguageOrRegion` on the C string `s` (`in[s.length] = 0`).  Reading `in[2]` needs
    at least two characters; shorter strings are outside the specification (`none`). -/
def packLanguageOrRegion (s : List Nat) (base : Nat) : Option (Nat × Nat) :=
  match s with
  | a :: b :: rest =>
    let in2 := match rest with | [] => 0 | c :: _ => c
    if in2 = 0 ∨ in2 = 45 then some (a % 256, b % 256)
    else
      let first := off7 a base
      let second := off7 b base
      let third := off7 in2 base
      some ((0x80 ||| (third <<< 2) ||| (second >>> 3)) % 256, ((second <<< 5) ||| first) % 256)
  | _ => none

/-- legacy directory-name form of language and region: `ll`, `ll-rRR` -/
def localeString (language region : List Nat) : List Nat :=
  if region = [] then language else language ++ [45, 114] ++ region

/-- the 32-bit little-endian word of `ResTable_config.language[2]`, `country[2]` -/
def localeWord (l : Nat × Nat) (r : Nat × Nat) : Nat :=
  l.1 + l.2 * 2 ^ 8 + r.1 * 2 ^ 16 + r.2 * 2 ^ 24

/-! ### Domains of the property

Encoded side: a half of the locale word (`language[2]` or `country[2]`) is absent (`00 00`),
a packed three-letter code (bit 7 of the first byte set) or two plain 7-bit characters.
String side: two characters, or three characters that are 5-bit offsets from the base
(`a`..: all lowercase letters; `0`..: all digits and `A`..`O`).  `-` (45) is excluded because
it is the separator of the directory-name syntax. -/

def Packed (c0 c1 : Nat) : Prop := 128 ≤ c0 ∧ c0 < 256 ∧ c1 < 256
def Plain (c0 c1 : Nat) : Prop := 0 < c0 ∧ c0 < 128 ∧ 0 < c1 ∧ c1 < 256 ∧ c0 ≠ 45 ∧ c1 ≠ 45
def Half (c0 c1 : Nat) : Prop := (c0 = 0 ∧ c1 = 0) ∨ Packed c0 c1 ∨ Plain c0 c1

def Code2 (s : List Nat) : Prop := ∃ a b, s = [a, b] ∧ Plain a b
def Code3 (base : Nat) (s : List Nat) : Prop :=
  ∃ a b c, s = [a + base, b + base, c + base] ∧ a < 32 ∧ b < 32 ∧ c < 32
def Code (base : Nat) (s : List Nat) : Prop := Code2 s ∨ Code3 base s

def isLower (c : Nat) : Prop := 97 ≤ c ∧ c ≤ 122
def isUpperOrDigit (c : Nat) : Prop := (65 ≤ c ∧ c ≤ 90) ∨ (48 ≤ c ∧ c ≤ 57)
def isDigit (c : Nat) : Prop := 48 ≤ c ∧ c ≤ 57

end AgVerif.Spec.Locale
