/-
Specification side of C26, file level: the bytes of a binary XML document, written from the format definition
(frameworks/base/libs/androidfw/include/androidfw/ResourceTypes.h: ResChunk_header, ResStringPool_header,
ResXMLTree_header / _node / _namespaceExt / _attrExt / _attribute / _endElementExt / _cdataExt, Res_value) and laid out
like the independent writer harness/axmlwriter.py:

    ResXMLTree_header  type 0x0003, headerSize 8, size = file size
    ResStringPool      type 0x0001, headerSize 28, size, stringCount, styleCount 0, flags (UTF8 = 0x100), stringsStart, 0,
                       uint32 offsets[], string data, zero padding to a multiple of 4
    resource map       type 0x0180, headerSize 8, size, uint32 ids[]                       (optional)
    nodes              type, headerSize 16, size, line, comment = 0xFFFFFFFF, body

A source document (`SNode`) names its strings; the encoder writes the index of the first occurrence of the string in
the pool `Enc.strings` (any pool that contains the strings, in any order).  Attribute values are typed (`Res_value`).
The abstract tree a document denotes is `treeOf`.
-/
import AgVerif.Spec.Axml
namespace AgVerif.Spec.Axml
open AgVerif.Axml

/-- `n` bytes, little endian -/
def leBytes : Nat → Nat → Bytes
  | 0, _ => []
  | n + 1, v => v % 256 :: leBytes n (v / 256)

def w16 (v : Nat) : Bytes := leBytes 2 v
def w32 (v : Nat) : Bytes := leBytes 4 v

/-! ### strings of the pool -/

/-- UTF-16 code units of a string -/
def units16s (s : Str) : List Nat := s.flatMap units16
def unitBytes (u : Nat) : Bytes := [u % 256, u / 256]
/-- UTF-16-LE bytes of a string -/
def enc16 (s : Str) : Bytes := (units16s s).flatMap unitBytes
/-- (standard) UTF-8 bytes of a string -/
def enc8 (s : Str) : Bytes := s.flatMap bytes8

/-- length prefix of a UTF-8 pool string: the two-byte form when forced (`wide`) or needed -/
def len8 (wide : Bool) (n : Nat) : Bytes := if wide = true ∨ 0x7F < n then len8Wide n else len8Narrow n
/-- length prefix of a UTF-16 pool string: the two-unit form when forced (`wide`) or needed -/
def len16 (wide : Bool) (n : Nat) : Bytes := if wide = true ∨ 0x7FFF < n then len16Wide n else len16Narrow n

/-- one string of the data section: length prefix(es), characters, terminator -/
def encPoolString (utf8 wide : Bool) (s : Str) : Bytes :=
  if utf8 then len8 wide (units16s s).length ++ (len8 wide (enc8 s).length ++ (enc8 s ++ [0]))
  else len16 wide (units16s s).length ++ (enc16 s ++ [0, 0])

def poolData (utf8 wide : Bool) (strings : List Str) : Bytes := strings.flatMap (encPoolString utf8 wide)

/-- offset table: where each string starts in the data section -/
def poolOffsets (utf8 wide : Bool) : List Str → Nat → List Nat
  | [], _ => []
  | s :: r, off => off :: poolOffsets utf8 wide r (off + (encPoolString utf8 wide s).length)

def padding (n : Nat) : Bytes := List.replicate ((4 - n % 4) % 4) 0

/-- the data section, padded -/
def poolBody (utf8 wide : Bool) (strings : List Str) : Bytes :=
  poolData utf8 wide strings ++ padding (poolData utf8 wide strings).length

/-- a complete ResStringPool chunk without styles -/
def encodePool (utf8 wide : Bool) (strings : List Str) : Bytes :=
  w16 0x0001 ++ (w16 28 ++ (w32 (28 + 4 * strings.length + (poolBody utf8 wide strings).length) ++ (w32 strings.length ++ (w32 0
    ++ (w32 (if utf8 then 0x100 else 0) ++ (w32 (28 + 4 * strings.length) ++ (w32 0
    ++ ((poolOffsets utf8 wide strings 0).flatMap w32 ++ poolBody utf8 wide strings))))))))

/-- what a pool of the given flavour can hold: Unicode scalar values, lengths that fit the prefix -/
def StrOk (utf8 : Bool) (s : Str) : Prop :=
  (∀ c ∈ s, Scalar c) ∧
  (if utf8 then (units16s s).length ≤ 0x7FFF ∧ (enc8 s).length ≤ 0x7FFF else (units16s s).length ≤ 0x7FFFFFFF)

/-! ### documents -/

/-- an attribute with a typed value: `ty`/`data` are the Res_value; for TYPE_STRING (3) the value is the string `str`;
    `raw` is the rawValue field of a non-string attribute (any uint32; aapt writes 0xFFFFFFFF) -/
structure SAttr where
  ns : Option Str
  name : Str
  raw : Nat
  ty : Nat
  data : Nat
  str : Str
  deriving Repr

inductive SNode where
  | elem (line : Nat) (tag : Str) (ns : Option Str) (decls : List (Str × Str)) (attrs : List SAttr) (kids : List SNode)
  | text (line : Nat) (s : Str)
  deriving Repr

/-- the encoding choices: UTF-8 or UTF-16 pool, forced two-unit length prefixes, the pool, a resource map -/
structure Enc where
  utf8 : Bool
  wide : Bool
  strings : List Str
  resIds : Option (List Nat)

def sidx (E : Enc) (s : Str) : Nat := E.strings.idxOf s
def oidx (E : Enc) : Option Str → Nat
  | none => 0xFFFFFFFF
  | some s => sidx E s

/-- ResXMLTree_node: header (type, headerSize 16, size), lineNumber, comment (none) -/
def node (ty line : Nat) (body : Bytes) : Bytes :=
  w16 ty ++ (w16 16 ++ (w32 (16 + body.length) ++ (w32 line ++ (w32 0xFFFFFFFF ++ body))))

/-- ResXMLTree_attribute: ns, name, rawValue, Res_value {size 8, res0 0, dataType, data} -/
def encAttr (E : Enc) (a : SAttr) : Bytes :=
  w32 (oidx E a.ns) ++ (w32 (sidx E a.name) ++ (w32 (if a.ty = 3 then sidx E a.str else a.raw)
    ++ (w16 8 ++ ([0, a.ty] ++ w32 (if a.ty = 3 then sidx E a.str else a.data)))))

def encStartNs (E : Enc) (line : Nat) (d : Str × Str) : Bytes := node 0x0100 line (w32 (sidx E d.1) ++ w32 (sidx E d.2))
def encEndNs (E : Enc) (line : Nat) (d : Str × Str) : Bytes := node 0x0101 line (w32 (sidx E d.1) ++ w32 (sidx E d.2))

/-- ResXMLTree_attrExt: ns, name, attributeStart 0x14, attributeSize 0x14, attributeCount, idIndex, classIndex, styleIndex -/
def encStart (E : Enc) (line : Nat) (tag : Str) (ns : Option Str) (attrs : List SAttr) : Bytes :=
  node 0x0102 line (w32 (oidx E ns) ++ (w32 (sidx E tag) ++ (w16 0x14 ++ (w16 0x14 ++ (w16 attrs.length ++ (w16 0 ++ (w16 0
    ++ (w16 0 ++ attrs.flatMap (encAttr E)))))))))

def encEnd (E : Enc) (line : Nat) (tag : Str) (ns : Option Str) : Bytes :=
  node 0x0103 line (w32 (oidx E ns) ++ w32 (sidx E tag))

/-- ResXMLTree_cdataExt: data, Res_value {8, 0, TYPE_NULL, 0} -/
def encText (E : Enc) (line : Nat) (s : Str) : Bytes := node 0x0104 line (w32 (sidx E s) ++ [8, 0, 0, 0, 0, 0, 0, 0])

mutual
/-- namespace declarations are opened before the element and closed, in reverse order, after it -/
def encNode (E : Enc) : SNode → Bytes
  | .elem line tag ns decls attrs kids =>
    decls.flatMap (encStartNs E line) ++ (encStart E line tag ns attrs ++ (encNodes E kids
      ++ (encEnd E line tag ns ++ decls.reverse.flatMap (encEndNs E line))))
  | .text line s => encText E line s
def encNodes (E : Enc) : List SNode → Bytes
  | [] => []
  | n :: r => encNode E n ++ encNodes E r
end

def encResMap (ids : List Nat) : Bytes := w16 0x0180 ++ (w16 8 ++ (w32 (8 + 4 * ids.length) ++ ids.flatMap w32))

def encResMapOpt : Option (List Nat) → Bytes
  | none => []
  | some ids => encResMap ids

/-- everything after the 8 bytes of the ResXMLTree_header -/
def encodeBody (E : Enc) (d : SNode) : Bytes :=
  encodePool E.utf8 E.wide E.strings ++ (encResMapOpt E.resIds ++ encNode E d)

def encodeAxml (E : Enc) (d : SNode) : Bytes :=
  w16 0x0003 ++ (w16 8 ++ (w32 (8 + (encodeBody E d).length) ++ encodeBody E d))

/-! ### the tree a document denotes -/

/-- the attribute as XML sees it: namespace URI ("" = none), name, the string of the typed value -/
def attrOf (opq : Nat → Nat → Str) (a : SAttr) : Attr := ⟨a.ns.getD [], a.name, formatValue opq a.ty a.data a.str⟩

/-- attributes in order; a later attribute with the same (namespace, name) replaces the earlier one in place -/
def attrsOf (opq : Nat → Nat → Str) (l : List SAttr) : List Attr := l.foldl (fun acc a => setAttr (attrOf opq a) acc) []

mutual
def treeOf (opq : Nat → Nat → Str) : SNode → Node
  | .elem _ tag ns _ attrs kids => .elem tag (ns.getD []) (attrsOf opq attrs) (treeOfL opq kids)
  | .text _ s => .text s
def treeOfL (opq : Nat → Nat → Str) : List SNode → List Node
  | [] => []
  | n :: r => treeOf opq n :: treeOfL opq r
end

/-! ### well-formedness (decidable: everything below is a `Bool`) -/

instance (c : Nat) : Decidable (XmlChar c) := by unfold XmlChar; infer_instance
instance (c : Nat) : Decidable (NameStart c) := by unfold NameStart; infer_instance
instance (c : Nat) : Decidable (NameChar c) := by unfold NameChar; infer_instance
instance (c : Nat) : Decidable (Scalar c) := by unfold Scalar; infer_instance
instance (v : Str) : Decidable (LegalValue v) := by unfold LegalValue; infer_instance
instance (n : Str) : Decidable (LegalName n) :=
  match n with
  | [] => isFalse (by simp [LegalName])
  | c :: r => by unfold LegalName; infer_instance
instance (utf8 : Bool) (s : Str) : Decidable (StrOk utf8 s) := by unfold StrOk; infer_instance

/-- a namespace URI of an element / attribute: absent, or a plain URI -/
def wfNs (E : Enc) : Option Str → Bool
  | none => true
  | some u => decide (u ∈ E.strings) && safeUri u

/-- the resource map does not change the attribute's name: the slot of the name's index is beyond the map, or holds an id
    that is not a system attribute, or holds the id of the system attribute of that very name.  In the last case the code takes
    the name from its table with "_" replaced by ":", and `_fix_name` turns ":" back into "_" unless it takes the part before
    it for a namespace prefix, which it never does for an attribute that has a namespace: a system name with "_" needs one. -/
def resNameOk (E : Enc) (a : SAttr) : Bool :=
  match (E.resIds.getD [])[sidx E a.name]? with
  | none => true
  | some id =>
    match sysAttrName id with
    | none => true
    | some n => decide (n = a.name) && (a.ns.isSome || !a.name.contains 0x5F) && decide (a.name.head? ≠ some 0x5F)

/-- the attribute's value is an XML string: the string of a TYPE_STRING value; the rendering of a float / dimension / fraction
    (property C27; abstract here); the renderings of the other types always are (`formatValue_legal`) -/
def valueOk (opq : Nat → Nat → Str) (a : SAttr) : Bool :=
  if a.ty = 3 then decide (LegalValue a.str)
  else if a.ty = 4 ∨ a.ty = 5 ∨ a.ty = 6 then decide (LegalValue (opq a.ty a.data))
  else true

def wfAttr (opq : Nat → Nat → Str) (E : Enc) (a : SAttr) : Bool :=
  wfNs E a.ns && decide (a.name ∈ E.strings) && decide (LegalName a.name) && resNameOk E a
    && decide (a.ty < 256) && decide (a.raw < 2 ^ 32) && decide (a.data < 2 ^ 32)
    && (decide (a.ty ≠ 3) || decide (a.str ∈ E.strings))
    && valueOk opq a

/-- a namespace declaration: a plain prefix bound to a plain URI -/
def wfDecl (E : Enc) (d : Str × Str) : Bool :=
  decide (d.1 ∈ E.strings) && decide (d.2 ∈ E.strings) && safePrefix d.1 && safeUri d.2

mutual
def wfNode (opq : Nat → Nat → Str) (E : Enc) : SNode → Bool
  | .elem line tag ns decls attrs kids =>
    decide (line < 2 ^ 32) && decide (tag ∈ E.strings) && decide (LegalName tag) && wfNs E ns
      && decls.all (wfDecl E) && decide (attrs.length < 2 ^ 16) && attrs.all (wfAttr opq E) && wfNodes opq E kids
  | .text line s => decide (line < 2 ^ 32) && decide (s ∈ E.strings) && xmlCompatible s
def wfNodes (opq : Nat → Nat → Str) (E : Enc) : List SNode → Bool
  | [] => true
  | n :: r => wfNode opq E n && wfNodes opq E r
end

mutual
/-- every namespace declaration of the document -/
def allDecls : SNode → List (Str × Str)
  | .elem _ _ _ decls _ kids => decls ++ allDeclsL kids
  | .text _ _ => []
def allDeclsL : List SNode → List (Str × Str)
  | [] => []
  | n :: r => allDecls n ++ allDeclsL r
end

def isElem : SNode → Bool
  | .elem .. => true
  | .text .. => false

/-- a well-formed document under an encoding choice: the root is an element; names are XML names, namespaces plain URIs,
    attribute values and texts XML strings; a prefix is bound to one URI per document; every string is in the pool, the
    pool's strings fit its flavour; every field fits its width (the file is shorter than 2^32 bytes) -/
def wfDoc (opq : Nat → Nat → Str) (E : Enc) (d : SNode) : Bool :=
  isElem d && wfNode opq E d
    && (allDecls d).all (fun a => (allDecls d).all fun b => decide (a.1 = b.1 → a.2 = b.2))
    && E.strings.all (fun s => decide (StrOk E.utf8 s))
    && (E.resIds.getD []).all (fun i => decide (i < 2 ^ 32))
    && decide ((encodeAxml E d).length < 2 ^ 32)

end AgVerif.Spec.Axml
