/-
Specification for C28: the Android ResTable encodings of the entry-offset array of a
`ResTable_type` chunk and of a `ResTable_entry` (ResourceTypes.h), as *encoders* from abstract
values to bytes.   (imports nothing)

A type chunk has `entryCount` slots.  Slot `i` is either absent or holds the byte offset of its
entry relative to `entriesStart`.
  plain      : u32 per slot, absent = 0xFFFFFFFF
  offset16   : u16 per slot holding offset/4, absent = 0xFFFF        (FLAG_OFFSET16)
  sparse     : only the present slots, as (u16 index, u16 offset/4)  (FLAG_SPARSE)
Entry: u16 size, u16 flags, u32 key; simple: a Res_value (u16 8, u8 0, u8 type, u32 data);
complex (FLAG_COMPLEX): u32 parent, u32 count, count × (u32 name, Res_value);
compact (FLAG_COMPACT): key index in `size`, data type in the high byte of flags, data in `key`.
-/
namespace AgVerif.Spec.Arsc

def enc16 (n : Nat) : List Nat := [n % 256, n / 256 % 256]
def enc32 (n : Nat) : List Nat := [n % 256, n / 256 % 256, n / 65536 % 256, n / 16777216 % 256]

def encPlain : List (Option Nat) → List Nat
  | [] => []
  | none :: r => enc32 0xFFFFFFFF ++ encPlain r
  | some off :: r => enc32 off ++ encPlain r

def encOffset16 : List (Option Nat) → List Nat
  | [] => []
  | none :: r => enc16 0xFFFF ++ encOffset16 r
  | some off :: r => enc16 (off / 4) ++ encOffset16 r

/-- (index, offset) pairs -/
def encSparse : List (Nat × Nat) → List Nat
  | [] => []
  | (idx, off) :: r => enc16 idx ++ enc16 (off / 4) ++ encSparse r

/-- the present slots as (offset, index), numbering slots from `i` -/
def present : List (Option Nat) → Nat → List (Nat × Nat)
  | [], _ => []
  | none :: r, i => present r (i + 1)
  | some off :: r, i => (off, i) :: present r (i + 1)

/-- Res_value -/
def encValue (t d : Nat) : List Nat := enc16 8 ++ [0, t] ++ enc32 d

def encSimple (flags key t d : Nat) : List Nat := enc16 8 ++ enc16 flags ++ enc32 key ++ encValue t d

def encMap : List (Nat × (Nat × Nat)) → List Nat
  | [] => []
  | (name, (t, d)) :: r => enc32 name ++ encValue t d ++ encMap r

def encComplex (flags key parent : Nat) (items : List (Nat × (Nat × Nat))) : List Nat :=
  enc16 16 ++ enc16 flags ++ enc32 key ++ enc32 parent ++ enc32 items.length ++ encMap items

def encCompact (flags key data : Nat) : List Nat := enc16 key ++ enc16 flags ++ enc32 data

/-- the resource id of entry `idx` of type `typeId` in package `pkgId` -/
def resId (pkgId typeId idx : Nat) : Nat := pkgId * 2 ^ 24 + typeId * 2 ^ 16 + idx

end AgVerif.Spec.Arsc
