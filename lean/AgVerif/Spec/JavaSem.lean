/-
Java semantics of the expression fragment the DAD writer prints for int/long code (C21) — a hand transcription of
the Java Language Specification (SE 17): §3.10.1 integer literals, §5.1.2/5.1.3 widening and narrowing primitive
conversion, §5.6 numeric promotion, §15.15.4/5 unary minus and bitwise complement, §15.16 casts, §15.17
multiplicative, §15.18.2 additive, §15.19 shift, §15.20.1/§15.21.1 numerical comparison, §15.22.1 integer bitwise
operators, and `java.lang.Long.compare`.  Imports nothing.

Arithmetic is specified the way the JLS words it: the true mathematical result, of which the low-order bits are kept
("if an integer addition overflows, then the result is the low-order bits of the mathematical sum as represented in
some sufficiently large two's-complement format"); `/` rounds toward zero, `%` satisfies (a/b)*b+(a%b) = a,
`n >> s` is ⌊n / 2^s⌋, `n << s` is n·2^s, `>>>` is the zero-extending shift.
A Java compiler rejects some expressions (an `int` literal out of range, a boolean operand of `+` ...): `compile`.
-/
namespace AgVerif.JavaSem

inductive Ty where
  | int | long | byte | short | char | bool
  deriving DecidableEq, Repr

inductive Val where
  | int (v : BitVec 32)
  | long (v : BitVec 64)
  | byte (v : BitVec 8)
  | short (v : BitVec 16)
  | char (v : BitVec 16)
  | bool (b : Bool)
  deriving DecidableEq, Repr

inductive Err where
  /-- rejected at compile time -/
  | compile
  /-- `java.lang.ArithmeticException` -/
  | arith
  deriving DecidableEq, Repr

inductive BinOp where
  | add | sub | mul | div | rem | and | or | xor | shl | shr | ushr
  deriving DecidableEq, Repr

inductive UnOp where
  | neg | compl
  deriving DecidableEq, Repr

inductive RelOp where
  | eq | ne | lt | ge | gt | le
  deriving DecidableEq, Repr

/-- the expression fragment -/
inductive Expr where
  /-- decimal integer literal, possibly with a leading `-` (then it is the operand of a unary minus, which is what
      makes 2147483648 / 9223372036854775808L legal), with or without the `L` suffix -/
  | lit (v : Int) (long : Bool)
  /-- a local variable or parameter whose DECLARED type is `t`, named by its register -/
  | var (t : Ty) (name : Nat)
  | bin (op : BinOp) (a b : Expr)
  | un (op : UnOp) (a : Expr)
  | cast (t : Ty) (a : Expr)
  | rel (op : RelOp) (a b : Expr)
  /-- `Long.compare(a, b)` -/
  | longCompare (a b : Expr)
  deriving DecidableEq, Repr

/-- the values of the variables: an `int`-typed variable `r` holds `i r`, a `long`-typed one `l r` -/
structure Env where
  i : Nat → BitVec 32
  l : Nat → BitVec 64

/-- §5.6.1 unary numeric promotion (byte, short: sign extension; char: zero extension) -/
inductive Num where
  | i (v : BitVec 32)
  | l (v : BitVec 64)

def promote : Val → Except Err Num
  | .int v => .ok (.i v)
  | .long v => .ok (.l v)
  | .byte v => .ok (.i (v.signExtend 32))
  | .short v => .ok (.i (v.signExtend 32))
  | .char v => .ok (.i (v.setWidth 32))
  | .bool _ => .error .compile

/-- the low-order `w` bits of a mathematical integer -/
def wrap (w : Nat) (n : Int) : BitVec w := BitVec.ofInt w n

/-- arithmetic and bitwise operators on two operands of the promoted type (width `w`) -/
def arith {w : Nat} (op : BinOp) (x y : BitVec w) : Except Err (BitVec w) :=
  match op with
  | .add => .ok (wrap w (x.toInt + y.toInt))
  | .sub => .ok (wrap w (x.toInt - y.toInt))
  | .mul => .ok (wrap w (x.toInt * y.toInt))
  | .div => if y.toInt = 0 then .error .arith else .ok (wrap w (Int.tdiv x.toInt y.toInt))
  | .rem => if y.toInt = 0 then .error .arith else .ok (wrap w (Int.tmod x.toInt y.toInt))
  | .and => .ok (x &&& y)
  | .or => .ok (x ||| y)
  | .xor => .ok (x ^^^ y)
  | _ => .error .compile      -- shifts are not typed by binary promotion

/-- §15.19: the promoted left operand shifted by distance `s` (already masked) -/
def shift {w : Nat} (op : BinOp) (x : BitVec w) (s : Nat) : Except Err (BitVec w) :=
  match op with
  | .shl => .ok (wrap w (x.toInt * (2 : Int) ^ s))
  | .shr => .ok (wrap w (x.toInt / (2 : Int) ^ s))
  | .ushr => .ok (x >>> s)
  | _ => .error .compile

def isShift : BinOp → Bool
  | .shl | .shr | .ushr => true
  | _ => false

def distance : Num → Nat
  | .i v => v.toNat
  | .l v => v.toNat

def evalBin (op : BinOp) (a b : Val) : Except Err Val := do
  let x ← promote a
  let y ← promote b
  if isShift op then
    -- each operand promoted separately; the type is that of the left operand; 5 or 6 low bits of the distance
    match x with
    | .i v => return .int (← shift op v (distance y % 32))
    | .l v => return .long (← shift op v (distance y % 64))
  else
    -- §5.6.2 binary numeric promotion
    match x, y with
    | .i v, .i u => return .int (← arith op v u)
    | .l v, .l u => return .long (← arith op v u)
    | .i v, .l u => return .long (← arith op (v.signExtend 64) u)
    | .l v, .i u => return .long (← arith op v (u.signExtend 64))

def evalUn (op : UnOp) (a : Val) : Except Err Val := do
  let x ← promote a
  match x, op with
  | .i v, .neg => return .int (wrap 32 (-v.toInt))
  | .l v, .neg => return .long (wrap 64 (-v.toInt))
  -- §15.15.5: "in all cases, ~x equals (-x)-1"
  | .i v, .compl => return .int (wrap 32 (-v.toInt - 1))
  | .l v, .compl => return .long (wrap 64 (-v.toInt - 1))

/-- §5.1.2 / §5.1.3 between the integral types: via the sign- or zero-extended 64-bit value, keeping the low bits -/
def castTo (t : Ty) (a : Val) : Except Err Val := do
  -- §5.1.1 identity conversion
  match t, a with
  | .int, .int v => return .int v
  | .long, .long v => return .long v
  | _, _ => pure ()
  let wide : BitVec 64 ← match a with
    | .int v => pure (v.signExtend 64)
    | .long v => pure v
    | .byte v => pure (v.signExtend 64)
    | .short v => pure (v.signExtend 64)
    | .char v => pure (v.setWidth 64)
    | .bool _ => throw .compile
  match t with
  | .int => return .int (wide.setWidth 32)
  | .long => return .long wide
  | .byte => return .byte (wide.setWidth 8)
  | .short => return .short (wide.setWidth 16)
  | .char => return .char (wide.setWidth 16)
  | .bool => throw .compile

def relInt (op : RelOp) (x y : Int) : Bool :=
  match op with
  | .eq => x == y
  | .ne => x != y
  | .lt => decide (x < y)
  | .ge => decide (x ≥ y)
  | .gt => decide (x > y)
  | .le => decide (x ≤ y)

def evalRel (op : RelOp) (a b : Val) : Except Err Val := do
  let x ← promote a
  let y ← promote b
  match x, y with
  | .i v, .i u => return .bool (relInt op v.toInt u.toInt)
  | .l v, .l u => return .bool (relInt op v.toInt u.toInt)
  | .i v, .l u => return .bool (relInt op v.toInt u.toInt)
  | .l v, .i u => return .bool (relInt op v.toInt u.toInt)

/-- `Long.compare(x, y)`: both arguments converted to long by method invocation conversion (int widens);
    the value is −1, 0 or 1 (OpenJDK: `(x < y) ? -1 : ((x == y) ? 0 : 1)`; the API text only fixes the sign) -/
def evalLongCompare (a b : Val) : Except Err Val := do
  let toLong : Val → Except Err (BitVec 64) := fun
    | .long v => pure v
    | .int v => pure (v.signExtend 64)
    | .byte v => pure (v.signExtend 64)
    | .short v => pure (v.signExtend 64)
    | .char v => pure (v.setWidth 64)
    | .bool _ => throw .compile
  let x ← toLong a
  let y ← toLong b
  return .int (if x.toInt < y.toInt then -1 else if x.toInt = y.toInt then 0 else 1)

def evalLit (v : Int) (long : Bool) : Except Err Val :=
  if long then
    if -(2 : Int) ^ 63 ≤ v ∧ v < (2 : Int) ^ 63 then .ok (.long (wrap 64 v)) else .error .compile
  else
    -- "integer number too large" outside the int range
    if -(2 : Int) ^ 31 ≤ v ∧ v < (2 : Int) ^ 31 then .ok (.int (wrap 32 v)) else .error .compile

def evalVar (ρ : Env) (t : Ty) (r : Nat) : Except Err Val :=
  match t with
  | .int => .ok (.int (ρ.i r))
  | .long => .ok (.long (ρ.l r))
  | .byte => .ok (.byte ((ρ.i r).setWidth 8))
  | .short => .ok (.short ((ρ.i r).setWidth 16))
  | .char => .ok (.char ((ρ.i r).setWidth 16))
  | .bool => .ok (.bool ((ρ.i r) != 0))

def eval (ρ : Env) : Expr → Except Err Val
  | .lit v long => evalLit v long
  | .var t r => evalVar ρ t r
  | .bin op a b => do evalBin op (← eval ρ a) (← eval ρ b)
  | .un op a => do evalUn op (← eval ρ a)
  | .cast t a => do castTo t (← eval ρ a)
  | .rel op a b => do evalRel op (← eval ρ a) (← eval ρ b)
  | .longCompare a b => do evalLongCompare (← eval ρ a) (← eval ρ b)

/-- §5.2 assignment conversion of a value to an `int` or `long` variable (widening only) -/
def assignTo (long : Bool) (v : Val) : Except Err Val :=
  match long, v with
  | false, .int x => .ok (.int x)
  | false, .byte x => .ok (.int (x.signExtend 32))
  | false, .short x => .ok (.int (x.signExtend 32))
  | false, .char x => .ok (.int (x.setWidth 32))
  | true, .long x => .ok (.long x)
  | true, .int x => .ok (.long (x.signExtend 64))
  | true, .byte x => .ok (.long (x.signExtend 64))
  | true, .short x => .ok (.long (x.signExtend 64))
  | true, .char x => .ok (.long (x.setWidth 64))
  | _, _ => .error .compile

end AgVerif.JavaSem
