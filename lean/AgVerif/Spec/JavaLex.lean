/-
Specification: how Java reads a string literal (independent of the decompiler).
Hand transcription of
  * JLS §3.1  (programs are sequences of UTF-16 code units; supplementary characters are surrogate pairs),
  * JLS §3.3  (Unicode escapes `\u+XXXX`, eligibility of a backslash by the parity of the contiguous
               backslashes before it, any number of `u`, error on a malformed escape, the produced
               character takes no part in further Unicode escapes),
  * JLS §3.10.5 (StringLiteral: `"` {StringCharacter} `"`, no raw CR/LF, no raw `"` or `\`),
  * JLS §3.10.7 (EscapeSequence: \b \s \t \n \f \r \" \' \\ and octal escapes \0 … \377).
Characters are natural numbers: UTF-16 code units for Java, code points for Python strings.
Imports nothing.
-/
namespace AgVerif.Spec.JavaLex

/-! ### UTF-16 (Unicode standard, D91) -/

/-- the UTF-16 code units of one code point (an unpaired surrogate code point is its own unit,
    which is how both Python `str` → Java `String` and DEX MUTF-8 treat it) -/
def utf16Char (cp : Nat) : List Nat :=
  if cp < 0x10000 then [cp]
  else [0xD800 + (cp - 0x10000) / 0x400, 0xDC00 + (cp - 0x10000) % 0x400]

/-- the UTF-16 code units of a string given as a list of code points -/
def utf16 (s : List Nat) : List Nat := s.flatMap utf16Char

/-- a code point of a Python `str` -/
def IsCodePoint (cp : Nat) : Prop := cp < 0x110000
instance (cp : Nat) : Decidable (IsCodePoint cp) := by unfold IsCodePoint; infer_instance

/-! ### §3.3 Unicode escapes -/

def BACKSLASH : Nat := 0x5c
def LOWER_U : Nat := 0x75
def DQUOTE : Nat := 0x22
def SQUOTE : Nat := 0x27
def CR : Nat := 0x0d
def LF : Nat := 0x0a

/-- HexDigit: one of 0-9 a-f A-F, with its value -/
def hexVal (c : Nat) : Option Nat :=
  if 0x30 ≤ c ∧ c ≤ 0x39 then some (c - 0x30)
  else if 0x61 ≤ c ∧ c ≤ 0x66 then some (c - 0x61 + 10)
  else if 0x41 ≤ c ∧ c ≤ 0x46 then some (c - 0x41 + 10)
  else none

/-- state of the translation of raw input characters -/
inductive USt where
  /-- between escapes; `even` = the number of contiguous raw backslashes just before is even -/
  | norm (even : Bool)
  /-- an eligible backslash has been read (not yet passed on) -/
  | bs
  /-- `\u`, possibly more `u`, has been read -/
  | us
  /-- `\u…u` and `k` (1..3) hex digits of value `acc` have been read -/
  | hex (k : Nat) (acc : Nat)

/-- §3.3: raw input characters → Unicode input characters (as UTF-16 units); `none` = compile-time
    error (an eligible backslash followed by `u…u` and not by four hex digits). -/
def translate : USt → List Nat → Option (List Nat)
  | .norm _, [] => some []
  | .norm ev, c :: r =>
    if c = BACKSLASH then
      if ev then translate .bs r                               -- eligible: look at what follows
      else (translate (.norm true) r).map (BACKSLASH :: ·)     -- odd count before it: not eligible
    else (translate (.norm true) r).map (c :: ·)
  | .bs, [] => some [BACKSLASH]
  | .bs, c :: r =>
    if c = LOWER_U then translate .us r
    else if c = BACKSLASH then                                  -- second backslash: not eligible
      (translate (.norm true) r).map (fun t => BACKSLASH :: BACKSLASH :: t)
    else (translate (.norm true) r).map (fun t => BACKSLASH :: c :: t)
  | .us, [] => none
  | .us, c :: r =>
    if c = LOWER_U then translate .us r
    else match hexVal c with
      | some v => translate (.hex 1 v) r
      | none => none
  | .hex _ _, [] => none
  | .hex k acc, c :: r =>
    match hexVal c with
    | none => none
    | some v =>
      if k = 3 then (translate (.norm true) r).map ((acc * 16 + v) :: ·)   -- produced unit; count restarts
      else translate (.hex (k + 1) (acc * 16 + v)) r

/-- translation of a whole compilation unit (or of any piece that starts after a non-backslash) -/
def unicodeTranslate (raw : List Nat) : Option (List Nat) := translate (.norm true) raw

/-! ### §3.10.5 / §3.10.7 string literals -/

def octVal (c : Nat) : Option Nat := if 0x30 ≤ c ∧ c ≤ 0x37 then some (c - 0x30) else none

/-- the single-character escape sequences of §3.10.7 (`\b \s \t \n \f \r \" \' \\`) -/
def simpleEscape (c : Nat) : Option Nat :=
  if c = 0x62 then some 0x08        -- \b
  else if c = 0x73 then some 0x20   -- \s
  else if c = 0x74 then some 0x09   -- \t
  else if c = 0x6e then some 0x0a   -- \n
  else if c = 0x66 then some 0x0c   -- \f
  else if c = 0x72 then some 0x0d   -- \r
  else if c = DQUOTE then some DQUOTE
  else if c = SQUOTE then some SQUOTE
  else if c = BACKSLASH then some BACKSLASH
  else none

/-- EscapeSequence without its backslash: the denoted unit and how many characters it takes
    (OctalEscape by longest match: `\o`, `\oo`, `\[0-3]oo`). `none` = illegal escape. -/
def escapeSeq : List Nat → Option (Nat × Nat)
  | [] => none
  | e :: r1 =>
    match simpleEscape e with
    | some v => some (v, 1)
    | none =>
      match octVal e with
      | none => none
      | some o1 =>
        match r1 with
        | [] => some (o1, 1)
        | c2 :: r2 =>
          match octVal c2 with
          | none => some (o1, 1)
          | some o2 =>
            match r2 with
            | [] => some (o1 * 8 + o2, 2)
            | c3 :: _ =>
              match octVal c3 with
              | none => some (o1 * 8 + o2, 2)
              | some o3 => if o1 ≤ 3 then some (o1 * 64 + o2 * 8 + o3, 3) else some (o1 * 8 + o2, 2)

/-- `strCharsFrom skip cs`: `cs` is what follows an opening `"`; the first `skip` characters belong to
    an escape sequence that has already been read. Reads StringCharacters up to the closing `"`;
    returns the denoted code units and what follows the literal. `none` = not a string literal. -/
def strCharsFrom : Nat → List Nat → Option (List Nat × List Nat)
  | _, [] => none                                -- unterminated
  | skip + 1, _ :: r => strCharsFrom skip r
  | 0, c :: r =>
    if c = DQUOTE then some ([], r)
    else if c = CR ∨ c = LF then none            -- line terminator inside a string literal
    else if c = BACKSLASH then
      match escapeSeq r with
      | none => none
      | some (v, k) => (strCharsFrom k r).map (fun p => (v :: p.1, p.2))
    else (strCharsFrom 0 r).map (fun p => (c :: p.1, p.2))

def strChars (cs : List Nat) : Option (List Nat × List Nat) := strCharsFrom 0 cs

/-- a string literal token at the start of (already translated) input -/
def stringLiteral : List Nat → Option (List Nat × List Nat)
  | c :: r => if c = DQUOTE then strChars r else none
  | [] => none

/-- Java's reading of source text that is expected to be exactly one string literal:
    §3.3 translation, then one StringLiteral token, then nothing. -/
def javaLex (src : List Nat) : Option (List Nat) :=
  match unicodeTranslate src with
  | none => none
  | some t =>
    match stringLiteral t with
    | some (v, []) => some v
    | _ => none

/-- Java's reading of source text that starts with a string literal: the denoted units and the
    (translated) rest of the input. -/
def javaLexPrefix (src : List Nat) : Option (List Nat × List Nat) :=
  match unicodeTranslate src with
  | none => none
  | some t => stringLiteral t

end AgVerif.Spec.JavaLex
