/-
Specification of cross references (C13..C16): every relation is a *comprehension* over the program,
written from the property statements and the Dalvik bytecode document — no fold, no state.

    invoke-kind 6e..72, invoke-kind/range 74..78      const-string 1a, const-string/jumbo 1b
    const-class 1c, new-instance 22                   iget* 52..58  iput* 59..5f  sget* 60..66  sput* 67..6d

Interpretations (DESIGN.md section 10): a call on an array receiver is attributed to the element class,
a call on a primitive array is no xref; class usage of the using class itself is not recorded and a
primitive array names no class; a field is "defined" when a class of the program declares exactly the
referenced (class, name, type).
-/
import AgVerif.Model.XrefProg

namespace AgVerif.Xref.Spec
open AgVerif.Xref

def invokeOps : List Nat := [0x6e, 0x6f, 0x70, 0x71, 0x72, 0x74, 0x75, 0x76, 0x77, 0x78]
def constStringOps : List Nat := [0x1a, 0x1b]
def constClassOp : Nat := 0x1c
def newInstanceOp : Nat := 0x22
def fieldReadOps : List Nat :=
  [0x52, 0x53, 0x54, 0x55, 0x56, 0x57, 0x58, 0x60, 0x61, 0x62, 0x63, 0x64, 0x65, 0x66]
def fieldWriteOps : List Nat :=
  [0x59, 0x5a, 0x5b, 0x5c, 0x5d, 0x5e, 0x5f, 0x67, 0x68, 0x69, 0x6a, 0x6b, 0x6c, 0x6d]

/-- the class a type descriptor names: array dimensions are dropped, a primitive names none -/
def elemClassChars : List Char → Option (List Char)
  | [] => none
  | c :: r => if c = '[' then elemClassChars r else if c = 'L' then some (c :: r) else none

def elemClass (t : String) : Option String := (elemClassChars t.toList).map String.ofList

/-- an instruction together with where it stands -/
structure Site where
  cls : String
  meth : MKey
  off : Nat
  ins : XIns
  deriving DecidableEq

def allClasses (p : List Dex) : List Class := p.flatMap (·.classes)

def sites (p : List Dex) : List Site :=
  (allClasses p).flatMap fun c => c.methods.flatMap fun m =>
    m.code.map fun oi => ⟨c.name, (c.name, m.name, m.desc), oi.1, oi.2⟩

def DefinedC (p : List Dex) (c : String) : Prop := ∃ k ∈ allClasses p, k.name = c
def DefinedM (p : List Dex) (k : MKey) : Prop :=
  ∃ c ∈ allClasses p, ∃ m ∈ c.methods, k = (c.name, m.name, m.desc)
def DefinedF (p : List Dex) (f : FKey) : Prop :=
  ∃ c ∈ allClasses p, ∃ fd ∈ c.fields, f = (c.name, fd.1, fd.2)
def InPool (p : List Dex) (s : String) : Prop := ∃ d ∈ p, s ∈ d.strings

/-- the method an invoke instruction targets -/
def callTarget (i : XIns) : Option MKey :=
  match i.ref with
  | .meth c n d => if i.op.val ∈ invokeOps then (elemClass c).map (fun e => (e, n, d)) else none
  | _ => none

/-- the *other* class a const-class / new-instance instruction standing in class `cur` uses -/
def usedClass (cur : String) (i : XIns) : Option String :=
  match i.ref with
  | .type t =>
    if i.op.val = constClassOp ∨ i.op.val = newInstanceOp then
      match elemClass t with
      | some e => if e = cur then none else some e
      | none => none
    else none
  | _ => none

/-- method `caller` invokes `callee` at `off` -/
def Calls (p : List Dex) (caller callee : MKey) (off : Nat) : Prop :=
  ∃ s ∈ sites p, s.meth = caller ∧ s.off = off ∧ callTarget s.ins = some callee

/-- as `Calls`, with the opcode -/
def CallsWith (p : List Dex) (op : Nat) (caller callee : MKey) (off : Nat) : Prop :=
  ∃ s ∈ sites p, s.meth = caller ∧ s.off = off ∧ s.ins.op.val = op ∧ callTarget s.ins = some callee

/-- method `m` uses class `c` at `off` with opcode `op` (const-class or new-instance) -/
def Uses (p : List Dex) (op : Nat) (m : MKey) (c : String) (off : Nat) : Prop :=
  ∃ s ∈ sites p, s.meth = m ∧ s.off = off ∧ s.ins.op.val = op ∧ usedClass s.cls s.ins = some c

def LoadsString (p : List Dex) (str : String) (m : MKey) (off : Nat) : Prop :=
  ∃ s ∈ sites p, s.meth = m ∧ s.off = off ∧ s.ins.op.val ∈ constStringOps ∧ s.ins.ref = .str str

def Reads (p : List Dex) (f : FKey) (m : MKey) (off : Nat) : Prop :=
  ∃ s ∈ sites p, s.meth = m ∧ s.off = off ∧ s.ins.op.val ∈ fieldReadOps ∧
    s.ins.ref = .field f.1 f.2.1 f.2.2

def Writes (p : List Dex) (f : FKey) (m : MKey) (off : Nat) : Prop :=
  ∃ s ∈ sites p, s.meth = m ∧ s.off = off ∧ s.ins.op.val ∈ fieldWriteOps ∧
    s.ins.ref = .field f.1 f.2.1 f.2.2

/-- some method is invoked under key `k` -/
def Called (p : List Dex) (k : MKey) : Prop := ∃ m off, Calls p m k off

/-- class `c` is referenced as an invoke receiver or by const-class / new-instance from another class -/
def Referenced (p : List Dex) (c : String) : Prop :=
  (∃ k, Called p k ∧ k.1 = c) ∨ ∃ op m off, Uses p op m c off

end AgVerif.Xref.Spec
