/-
Specification for C28, file level: an abstract resource table and its encoding as a
`resources.arsc` file (Android ResourceTypes.h: ResChunk_header, ResTable_header,
ResStringPool_header, ResTable_package, ResTable_typeSpec, ResTable_type, ResTable_config,
ResTable_entry / ResTable_map_entry, Res_value, ResTable_sparseTypeEntry), as an *encoder*.
(imports only the entry-level specification)

Abstract table:  global strings; packages (id, name, type names, key names, type chunks);
a type chunk = type id, configuration (the nine words androguard keeps), `entryCount` slots each
absent or holding an entry.  Strings are lists of BMP code points (no surrogates).

Layout choices (they change the bytes, never the meaning): UTF-8 or UTF-16 for each of the three
kinds of string pool, per type chunk the entry-offset array layout (plain / FLAG_OFFSET16 /
FLAG_SPARSE) and whether a ResTable_typeSpec chunk precedes it.
Fixed by this encoder: 288-byte package header, 64-byte ResTable_config, entry bodies stored in
slot order, no style spans, strings shorter than 0x8000 UTF-16 units and 0x8000 UTF-8 bytes (one-unit
UTF-16 length prefix, one- or two-byte UTF-8 length prefixes).
-/
import AgVerif.Spec.Arsc
namespace AgVerif.Spec.Arsc

/-- ResChunk_header {u16 type, u16 headerSize, u32 size} + rest of the header + body -/
def chunk (ty : Nat) (hdr body : List Nat) : List Nat :=
  enc16 ty ++ enc16 (8 + hdr.length) ++ enc32 (8 + hdr.length + body.length) ++ hdr ++ body

/-! ### string pools -/

/-- UTF-8 of a BMP code point -/
def utf8 (c : Nat) : List Nat :=
  if c < 0x80 then [c]
  else if c < 0x800 then [0xC0 + c / 64, 0x80 + c % 64]
  else [0xE0 + c / 4096, 0x80 + c / 64 % 64, 0x80 + c % 64]

def utf8s (s : List Nat) : List Nat := s.flatMap utf8

/-- UTF-16 pool string: u16 length in code units (below 0x8000: one unit), the units, u16 0 -/
def encStr16 (s : List Nat) : List Nat := enc16 s.length ++ s.flatMap enc16 ++ [0, 0]

/-- a length below 0x8000 in a UTF-8 pool: one byte below 0x80, else two bytes with the high bit of
    the first set -/
def encLen8 (n : Nat) : List Nat := if n < 0x80 then [n] else [0x80 + n / 256, n % 256]

/-- UTF-8 pool string: length in UTF-16 units, length in bytes, the bytes, u8 0 -/
def encStr8 (s : List Nat) : List Nat := encLen8 s.length ++ encLen8 (utf8s s).length ++ utf8s s ++ [0]

def encStr (u8 : Bool) (s : List Nat) : List Nat := if u8 then encStr8 s else encStr16 s

/-- start offsets of consecutive blobs -/
def offsetsFrom : Nat → List (List Nat) → List Nat
  | _, [] => []
  | o, x :: r => o :: offsetsFrom (o + x.length) r

def pad4 (l : List Nat) : List Nat := l ++ List.replicate ((4 - l.length % 4) % 4) 0

def encWords (ws : List Nat) : List Nat := ws.flatMap enc32

/-- ResStringPool chunk without styles: stringCount, styleCount 0, flags, stringsStart, stylesStart 0;
    the offsets; the strings, padded to a multiple of four -/
def encPool (u8 : Bool) (strs : List (List Nat)) : List Nat :=
  chunk 1
    (enc32 strs.length ++ enc32 0 ++ enc32 (if u8 then 256 else 0) ++ enc32 (28 + 4 * strs.length) ++ enc32 0)
    (encWords (offsetsFrom 0 (strs.map (encStr u8))) ++ pad4 (strs.map (encStr u8)).flatten)

/-! ### entries and type chunks -/

inductive Entry where
  | simple (flags key t d : Nat)
  | complex (flags key parent : Nat) (items : List (Nat × (Nat × Nat)))
  | compact (flags key data : Nat)
deriving Repr, DecidableEq

def encEntry : Entry → List Nat
  | .simple f k t d => encSimple f k t d
  | .complex f k p items => encComplex f k p items
  | .compact f k d => encCompact f k d

inductive ArrLayout where
  | plain | offset16 | sparse
deriving Repr, DecidableEq

/-- the offset of each present slot relative to `entriesStart` (bodies are stored in slot order) -/
def slotOffsets : Nat → List (Option Entry) → List (Option Nat)
  | _, [] => []
  | o, none :: r => none :: slotOffsets o r
  | o, some e :: r => some o :: slotOffsets (o + (encEntry e).length) r

def bodies : List (Option Entry) → List Nat
  | [] => []
  | none :: r => bodies r
  | some e :: r => encEntry e ++ bodies r

def arrFlags : ArrLayout → Nat
  | .plain => 0
  | .offset16 => 2
  | .sparse => 1

/-- the entry-offset array; FLAG_OFFSET16 arrays are padded to a multiple of four bytes -/
def encArr (l : ArrLayout) (offs : List (Option Nat)) : List Nat :=
  match l with
  | .plain => encPlain offs
  | .offset16 => encOffset16 offs ++ (if offs.length % 2 = 1 then [0, 0] else [])
  | .sparse => encSparse ((present offs 0).map fun p => (p.2, p.1))

/-- `entryCount`: the number of slots, or (sparse) of present slots -/
def arrCount (l : ArrLayout) (offs : List (Option Nat)) : Nat :=
  match l with
  | .sparse => (present offs 0).length
  | _ => offs.length

/-- the nine words of a ResTable_config that androguard keeps -/
structure Config where
  imsi : Nat
  locale : Nat
  screenType : Nat
  input : Nat
  screenSize : Nat
  version : Nat
  screenConfig : Nat
  screenSizeDp : Nat
  screenConfig2 : Nat
deriving Repr, DecidableEq

def Config.words (c : Config) : List Nat :=
  [c.imsi, c.locale, c.screenType, c.input, c.screenSize, c.version, c.screenConfig, c.screenSizeDp,
   c.screenConfig2]

/-- 64-byte ResTable_config: size, eight words, localeScript[4] + localeVariant[8] (empty),
    screenLayout2/colorMode word, 12 bytes of newer fields (zero) -/
def encConfig (c : Config) : List Nat :=
  enc32 64 ++ enc32 c.imsi ++ enc32 c.locale ++ enc32 c.screenType ++ enc32 c.input ++ enc32 c.screenSize
    ++ enc32 c.version ++ enc32 c.screenConfig ++ enc32 c.screenSizeDp ++ List.replicate 12 0
    ++ enc32 c.screenConfig2 ++ List.replicate 12 0

structure TypeChunk where
  typeId : Nat
  config : Config
  slots : List (Option Entry)
deriving Repr, DecidableEq

/-- ResTable_type: id, flags, reserved, entryCount, entriesStart, config; offset array; bodies -/
def encTypeChunk (l : ArrLayout) (tc : TypeChunk) : List Nat :=
  let arr := encArr l (slotOffsets 0 tc.slots)
  chunk 513
    ([tc.typeId, arrFlags l, 0, 0] ++ enc32 (arrCount l (slotOffsets 0 tc.slots)) ++ enc32 (84 + arr.length)
      ++ encConfig tc.config)
    (arr ++ bodies tc.slots)

/-- ResTable_typeSpec: id, res0, res1, entryCount; one u32 of configuration-change flags per entry -/
def encTypeSpec (typeId n : Nat) : List Nat :=
  chunk 514 ([typeId, 0, 0, 0] ++ enc32 n) (List.replicate (4 * n) 0)

/-! ### packages and the table -/

structure Package where
  id : Nat
  name : List Nat
  typeNames : List (List Nat)
  keyNames : List (List Nat)
  chunks : List TypeChunk
deriving Repr, DecidableEq

structure PkgLayout where
  typeUtf8 : Bool
  keyUtf8 : Bool
  arr : Nat → ArrLayout          -- by position of the type chunk in the package
  spec : Nat → Bool              -- a typeSpec chunk before that type chunk?

def encChunks (arr : Nat → ArrLayout) (spec : Nat → Bool) : Nat → List TypeChunk → List Nat
  | _, [] => []
  | i, tc :: r =>
    (if spec i then encTypeSpec tc.typeId tc.slots.length else []) ++ encTypeChunk (arr i) tc
      ++ encChunks arr spec (i + 1) r

/-- char16_t name[128], NUL padded -/
def encName (name : List Nat) : List Nat :=
  name.flatMap enc16 ++ List.replicate (256 - 2 * name.length) 0

/-- ResTable_package (288-byte header): id, name, typeStrings, lastPublicType, keyStrings,
    lastPublicKey, typeIdOffset; type-name pool; key-name pool; the chunks -/
def encPackage (l : PkgLayout) (p : Package) : List Nat :=
  chunk 512
    (enc32 p.id ++ encName p.name ++ enc32 288 ++ enc32 p.typeNames.length
      ++ enc32 (288 + (encPool l.typeUtf8 p.typeNames).length) ++ enc32 p.keyNames.length ++ enc32 0)
    (encPool l.typeUtf8 p.typeNames ++ encPool l.keyUtf8 p.keyNames ++ encChunks l.arr l.spec 0 p.chunks)

structure Table where
  strings : List (List Nat)
  packages : List Package
deriving Repr, DecidableEq

structure Layout where
  globalUtf8 : Bool
  pkg : Nat → PkgLayout          -- by position of the package in the table

def encPackages (pl : Nat → PkgLayout) : Nat → List Package → List Nat
  | _, [] => []
  | i, p :: r => encPackage (pl i) p ++ encPackages pl (i + 1) r

/-- ResTable_header {header, packageCount}; global string pool; packages -/
def encTable (l : Layout) (t : Table) : List Nat :=
  chunk 2 (enc32 t.packages.length) (encPool l.globalUtf8 t.strings ++ encPackages l.pkg 0 t.packages)

/-! ### the well-formed domain (decidable) -/

def bmp (c : Nat) : Bool := c < 0x10000 && !(0xD800 ≤ c && c < 0xE000)

def wfStr (s : List Nat) : Bool := s.length < 0x8000 && (utf8s s).length < 0x8000 && s.all bmp

def wfValue (v : Nat × Nat) : Bool := v.1 < 256 && v.2 < 4294967296

def wfEntry : Entry → Bool
  | .simple f k t d => f < 65536 && f &&& 1 = 0 && f &&& 8 = 0 && k < 4294967296 && wfValue (t, d)
  | .complex f k p items => f < 65536 && f &&& 1 ≠ 0 && k < 4294967296 && p < 4294967296
      && items.length < 4294967296 && items.all fun it => it.1 < 4294967296 && wfValue it.2
  | .compact f k d => f < 65536 && f &&& 1 = 0 && f &&& 8 ≠ 0 && k < 65536 && d < 4294967296

def wfConfig (c : Config) : Bool := c.words.all (· < 4294967296)

def wfSlots (slots : List (Option Entry)) : Bool :=
  slots.all fun s => match s with | none => true | some e => wfEntry e

/-- offsets representable in the chosen array layout -/
def wfArr (l : ArrLayout) (slots : List (Option Entry)) : Bool :=
  match l with
  | .plain => (bodies slots).length < 0xFFFFFFFF
  | _ => (bodies slots).length < 4 * 0xFFFF

def wfChunk (l : ArrLayout) (tc : TypeChunk) : Bool :=
  tc.typeId < 256 && wfConfig tc.config && tc.slots.length < 65536 && wfSlots tc.slots && wfArr l tc.slots

def wfChunks (arr : Nat → ArrLayout) : Nat → List TypeChunk → Bool
  | _, [] => true
  | i, tc :: r => wfChunk (arr i) tc && wfChunks arr (i + 1) r

def wfName (name : List Nat) : Bool := name.length < 128 && name.all fun c => c ≠ 0 && bmp c

def wfPackage (l : PkgLayout) (p : Package) : Bool :=
  p.id < 256 && wfName p.name && p.typeNames.all wfStr && p.keyNames.all wfStr && wfChunks l.arr 0 p.chunks

def wfPackages (pl : Nat → PkgLayout) : Nat → List Package → Bool
  | _, [] => true
  | i, p :: r => wfPackage (pl i) p && wfPackages pl (i + 1) r

/-- the whole file is shorter than 4 GiB; everything fits its field -/
def wfTable (l : Layout) (t : Table) : Bool :=
  (encTable l t).length < 4294967296 && t.strings.all wfStr && wfPackages l.pkg 0 t.packages

end AgVerif.Spec.Arsc
