/-
Textbook definition of dominance in a flow graph with entry `r` (imports only Spec/Digraph.lean).

  d dominates v            every path from r to v contains d
  d strictly dominates v   … and d ≠ v
  d = idom(v)              d strictly dominates v and every strict dominator of v dominates d

`dominates_iff` restates "every path contains d" as "v is unreachable once d is removed", the form
used by the reference implementation and by the Python oracle.  `idom_unique` shows that the
immediate dominator of a reachable vertex is unique, so "the dominator tree" is well defined.
-/
import AgVerif.Spec.Digraph
namespace AgVerif.Spec

variable {α : Type}

def Dominates (E : α → α → Prop) (r d v : α) : Prop := ∀ p, Path E r p v → d ∈ p

def SDom (E : α → α → Prop) (r d v : α) : Prop := Dominates E r d v ∧ d ≠ v

def IDom (E : α → α → Prop) (r d v : α) : Prop :=
  SDom E r d v ∧ ∀ d', SDom E r d' v → Dominates E r d' d

/-- "every path from r to v contains d"  ⇔  "v is not reachable in the graph without d" -/
theorem dominates_iff {E : α → α → Prop} {r d v : α} :
    Dominates E r d v ↔ ¬ ReachAvoiding E (fun x => x = d) r v := by
  constructor
  · intro h ra
    obtain ⟨p, hp, hav⟩ := ra.path
    exact hav d (h p hp) rfl
  · intro h p hp
    apply Classical.byContradiction
    intro hd
    exact h (hp.reachAvoiding (fun x hx e => hd (e ▸ hx)))

/-- first-hit splitting: a walk avoiding `S` either also avoids `b`, or reaches `b` avoiding `S` -/
theorem ReachAvoiding.split {E : α → α → Prop} {S : α → Prop} {r x : α} (b : α)
    (h : ReachAvoiding E S r x) :
    ReachAvoiding E (fun y => S y ∨ y = b) r x ∨ ReachAvoiding E S r b := by
  induction h with
  | refl hs =>
    by_cases hb : r = b
    · exact Or.inr (hb ▸ ReachAvoiding.refl hs)
    · exact Or.inl (ReachAvoiding.refl (fun h => h.elim hs hb))
  | @tail y c hy e hc ih =>
    rcases ih with ih | ih
    · by_cases hb : c = b
      · exact Or.inr (hb ▸ ReachAvoiding.tail hy e hc)
      · exact Or.inl (ReachAvoiding.tail ih e (fun h => h.elim hc hb))
    · exact Or.inr ih

theorem dominates_refl {E : α → α → Prop} {r v : α} : Dominates E r v v := by
  rw [dominates_iff]; intro h; exact h.not_mem_right rfl

theorem dominates_entry {E : α → α → Prop} {r v : α} : Dominates E r r v := by
  rw [dominates_iff]; intro h; exact h.not_mem_left rfl

/-- a dominator of a reachable vertex is reachable -/
theorem Dominates.reach {E : α → α → Prop} {r d v : α} (h : Dominates E r d v) (hv : Reach E r v) :
    Reach E r d := by
  rw [dominates_iff] at h
  rcases (reach_iff_avoiding_empty.mp hv).split d with h1 | h1
  · exact absurd (h1.mono (fun x hx => Or.inr hx)) h
  · exact h1.reach

theorem Dominates.trans {E : α → α → Prop} {r a b c : α}
    (hab : Dominates E r a b) (hbc : Dominates E r b c) : Dominates E r a c := by
  rw [dominates_iff] at hab hbc ⊢
  intro h
  rcases h.split b with h1 | h1
  · exact hbc (h1.mono (fun x hx => Or.inr hx))
  · exact hab h1

/-- dominance is antisymmetric on reachable vertices -/
theorem Dominates.antisymm {E : α → α → Prop} {r a b : α} (hb : Reach E r b)
    (hab : Dominates E r a b) (hba : Dominates E r b a) : a = b := by
  apply Classical.byContradiction
  intro hne
  rw [dominates_iff] at hab hba
  -- follow a walk to b up to the first visit of a or b
  have key : ∀ x, Reach E r x →
      ReachAvoiding E (fun y => y = a ∨ y = b) r x ∨ ReachAvoiding E (fun y => y = b) r a ∨
        ReachAvoiding E (fun y => y = a) r b := by
    intro x hx
    induction hx with
    | refl =>
      by_cases h1 : r = a
      · exact Or.inr (Or.inl (h1 ▸ ReachAvoiding.refl (fun e => hne (h1 ▸ e))))
      · by_cases h2 : r = b
        · exact Or.inr (Or.inr (h2 ▸ ReachAvoiding.refl (fun e => hne (h2 ▸ e).symm)))
        · exact Or.inl (ReachAvoiding.refl (fun h => h.elim h1 h2))
    | @tail y c _ e ih =>
      rcases ih with ih | ih | ih
      · by_cases h1 : c = a
        · exact Or.inr (Or.inl (h1 ▸ ReachAvoiding.tail (ih.mono (fun x hx => Or.inr hx)) e
            (fun e' => hne (h1 ▸ e'))))
        · by_cases h2 : c = b
          · exact Or.inr (Or.inr (h2 ▸ ReachAvoiding.tail (ih.mono (fun x hx => Or.inl hx)) e
              (fun e' => hne (h2 ▸ e').symm)))
          · exact Or.inl (ReachAvoiding.tail ih e (fun h => h.elim h1 h2))
      · exact Or.inr (Or.inl ih)
      · exact Or.inr (Or.inr ih)
  rcases key b hb with h | h | h
  · exact h.not_mem_right (Or.inr rfl)
  · exact hba h
  · exact hab h

/-- the immediate dominator of a reachable vertex is unique -/
theorem idom_unique {E : α → α → Prop} {r d₁ d₂ v : α} (hv : Reach E r v)
    (h1 : IDom E r d₁ v) (h2 : IDom E r d₂ v) : d₁ = d₂ :=
  Dominates.antisymm (h2.1.1.reach hv) (h2.2 d₁ h1.1) (h1.2 d₂ h2.1)

/-- the entry has no strict dominator -/
theorem not_sdom_entry {E : α → α → Prop} {r d : α} : ¬ SDom E r d r := by
  intro ⟨h, hne⟩
  have := h [r] (Path.single r)
  simp at this
  exact hne this

theorem Path.head_eq {E : α → α → Prop} {x v : α} {p : List α} (h : Path E x p v) :
    ∃ q, p = x :: q := by
  cases h with
  | single => exact ⟨[], rfl⟩
  | cons _ _ => exact ⟨_, rfl⟩

/-- walking a path to v backwards: either some strict dominator d on it has a continuation to v that
    meets no strict dominator after d, or the path meets no strict dominator at all -/
theorem last_sdom_on_path {E : α → α → Prop} {r : α} (x v : α) (p : List α) (hp : Path E x p v) :
    (∃ d, d ∈ p ∧ SDom E r d v ∧ ∃ q, Path E d (d :: q) v ∧ ∀ y ∈ q, ¬ SDom E r y v) ∨
    ((∀ y ∈ p, ¬ SDom E r y v) ∧ ∃ q, Path E x (x :: q) v ∧ ∀ y ∈ q, ¬ SDom E r y v) := by
  induction hp with
  | single =>
    right
    refine ⟨?_, [], Path.single _, by simp⟩
    intro y hy hs
    simp at hy
    exact hs.2 hy
  | @cons x b c p' e hp' ih =>
    rcases ih with ⟨d, hd, hs, hq⟩ | ⟨hno, q, hq, hqc⟩
    · exact Or.inl ⟨d, List.mem_cons_of_mem _ hd, hs, hq⟩
    · obtain ⟨t, ht⟩ := hp'.head_eq
      have hb : ¬ SDom E r b c := hno b (by rw [ht]; exact List.mem_cons_self ..)
      have hclean : ∀ y ∈ b :: q, ¬ SDom E r y c := by
        intro y hy
        rcases List.mem_cons.mp hy with h | h
        · exact h ▸ hb
        · exact hqc y h
      by_cases hx : SDom E r x c
      · exact Or.inl ⟨x, List.mem_cons_self .., hx, b :: q, Path.cons e hq, hclean⟩
      · right
        refine ⟨?_, b :: q, Path.cons e hq, hclean⟩
        intro y hy
        rcases List.mem_cons.mp hy with h | h
        · exact h ▸ hx
        · exact hno y h

/-- every reachable vertex other than the entry has an immediate dominator: the last strict
    dominator on any path from the entry (so the dominator tree exists, and by `idom_unique` is unique) -/
theorem idom_exists {E : α → α → Prop} {r v : α} (hv : Reach E r v) (hne : v ≠ r) :
    ∃ d, IDom E r d v := by
  obtain ⟨p, hp, _⟩ := (reach_iff_avoiding_empty.mp hv).path
  have hr : SDom E r r v := ⟨dominates_entry, fun h => hne h.symm⟩
  rcases last_sdom_on_path (r := r) r v p hp with ⟨d, _, hs, q, hq, hqc⟩ | ⟨hno, _⟩
  · refine ⟨d, hs, ?_⟩
    intro d' hd'
    by_cases hdd : d' = d
    · rw [hdd]; exact dominates_refl
    · rw [dominates_iff]
      intro hra
      have h2 : ReachAvoiding E (fun x => x = d') d v := by
        apply hq.reachAvoiding
        intro y hy e
        rcases List.mem_cons.mp hy with h | h
        · exact hdd (e.symm.trans h)
        · exact hqc y h (e ▸ hd')
      exact (dominates_iff.mp hd'.1) (hra.trans h2)
  · obtain ⟨t, ht⟩ := hp.head_eq
    exact absurd hr (hno r (by rw [ht]; exact List.mem_cons_self ..))

end AgVerif.Spec
