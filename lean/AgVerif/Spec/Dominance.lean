/-
Textbook definition of dominance in a flow graph with entry `r` (imports only Spec/Digraph.lean).

  d dominates v            every path from r to v contains d
  d strictly dominates v   … and d ≠ v
  d = idom(v)              d strictly dominates v and every strict dominator of v dominates d

`dominates_iff` restates "every path contains d" as "v is unreachable once d is removed", the form
used by the reference implementation and by the Python oracle.  `idom_unique` shows that the
immediate dominator of a reachable vertex is unique, so "the dominator tree" is well defined.
-/
import AgVerif.Spec.Digraph
namespace AgVerif.Spec

variable {α : Type}

def Dominates (E : α → α → Prop) (r d v : α) : Prop := ∀ p, Path E r p v → d ∈ p

def SDom (E : α → α → Prop) (r d v : α) : Prop := Dominates E r d v ∧ d ≠ v

def IDom (E : α → α → Prop) (r d v : α) : Prop :=
  SDom E r d v ∧ ∀ d', SDom E r d' v → Dominates E r d' d

/-- "every path from r to v contains d"  ⇔  "v is not reachable in the graph without d" -/
theorem dominates_iff {E : α → α → Prop} {r d v : α} :
    Dominates E r d v ↔ ¬ ReachAvoiding E (fun x => x = d) r v := by
  constructor
  · intro h ra
    obtain ⟨p, hp, hav⟩ := ra.path
    exact hav d (h p hp) rfl
  · intro h p hp
    apply Classical.byContradiction
    intro hd
    exact h (hp.reachAvoiding (fun x hx e => hd (e ▸ hx)))

/-- first-hit splitting: a walk avoiding `S` either also avoids `b`, or reaches `b` avoiding `S` -/
theorem ReachAvoiding.split {E : α → α → Prop} {S : α → Prop} {r x : α} (b : α)
    (h : ReachAvoiding E S r x) :
    ReachAvoiding E (fun y => S y ∨ y = b) r x ∨ ReachAvoiding E S r b := by
  induction h with
  | refl hs =>
    by_cases hb : r = b
    · exact Or.inr (hb ▸ ReachAvoiding.refl hs)
    · exact Or.inl (ReachAvoiding.refl (fun h => h.elim hs hb))
  | @tail y c hy e hc ih =>
    rcases ih with ih | ih
    · by_cases hb : c = b
      · exact Or.inr (hb ▸ ReachAvoiding.tail hy e hc)
      · exact Or.inl (ReachAvoiding.tail ih e (fun h => h.elim hc hb))
    · exact Or.inr ih

theorem dominates_refl {E : α → α → Prop} {r v : α} : Dominates E r v v := by
  rw [dominates_iff]; intro h; exact h.not_mem_right rfl

theorem dominates_entry {E : α → α → Prop} {r v : α} : Dominates E r r v := by
  rw [dominates_iff]; intro h; exact h.not_mem_left rfl

/-- a dominator of a reachable vertex is reachable -/
theorem Dominates.reach {E : α → α → Prop} {r d v : α} (h : Dominates E r d v) (hv : Reach E r v) :
    Reach E r d := by
  rw [dominates_iff] at h
  rcases (reach_iff_avoiding_empty.mp hv).split d with h1 | h1
  · exact absurd (h1.mono (fun x hx => Or.inr hx)) h
  · exact h1.reach

theorem Dominates.trans {E : α → α → Prop} {r a b c : α}
    (hab : Dominates E r a b) (hbc : Dominates E r b c) : Dominates E r a c := by
  rw [dominates_iff] at hab hbc ⊢
  intro h
  rcases h.split b with h1 | h1
  · exact hbc (h1.mono (fun x hx => Or.inr hx))
  · exact hab h1

/-- dominance is antisymmetric on reachable vertices -/
theorem Dominates.antisymm {E : α → α → Prop} {r a b : α} (hb : Reach E r b)
    (hab : Dominates E r a b) (hba : Dominates E r b a) : a = b := by
  apply Classical.byContradiction
  intro hne
  rw [dominates_iff] at hab hba
  -- follow a walk to b up to the first visit of a or b
  have key : ∀ x, Reach E r x →
      ReachAvoiding E (fun y => y = a ∨ y = b) r x ∨ ReachAvoiding E (fun y => y = b) r a ∨
        ReachAvoiding E (fun y => y = a) r b := by
    intro x hx
    induction hx with
    | refl =>
      by_cases h1 : r = a
      · exact Or.inr (Or.inl (h1 ▸ ReachAvoiding.refl (fun e => hne (h1 ▸ e))))
      · by_cases h2 : r = b
        · exact Or.inr (Or.inr (h2 ▸ ReachAvoiding.refl (fun e => hne (h2 ▸ e).symm)))
        · exact Or.inl (ReachAvoiding.refl (fun h => h.elim h1 h2))
    | @tail y c _ e ih =>
      rcases ih with ih | ih | ih
      · by_cases h1 : c = a
        · exact Or.inr (Or.inl (h1 ▸ ReachAvoiding.tail (ih.mono (fun x hx => Or.inr hx)) e
            (fun e' => hne (h1 ▸ e'))))
        · by_cases h2 : c = b
          · exact Or.inr (Or.inr (h2 ▸ ReachAvoiding.tail (ih.mono (fun x hx => Or.inl hx)) e
              (fun e' => hne (h2 ▸ e').symm)))
          · exact Or.inl (ReachAvoiding.tail ih e (fun h => h.elim h1 h2))
      · exact Or.inr (Or.inl ih)
      · exact Or.inr (Or.inr ih)
  rcases key b hb with h | h | h
  · exact h.not_mem_right (Or.inr rfl)
  · exact hba h
  · exact hab h

/-- the immediate dominator of a reachable vertex is unique -/
theorem idom_unique {E : α → α → Prop} {r d₁ d₂ v : α} (hv : Reach E r v)
    (h1 : IDom E r d₁ v) (h2 : IDom E r d₂ v) : d₁ = d₂ :=
  Dominates.antisymm (h2.1.1.reach hv) (h2.2 d₁ h1.1) (h1.2 d₂ h2.1)

/-- the entry has no strict dominator -/
theorem not_sdom_entry {E : α → α → Prop} {r d : α} : ¬ SDom E r d r := by
  intro ⟨h, hne⟩
  have := h [r] (Path.single r)
  simp at this
  exact hne this

end AgVerif.Spec
