/-
Specification of the exception table of a `code_item`, written from the "Dalvik executable
format" document, independently of the code.  Imports only the LEB128 specification.

  code_item               registers_size ins_size outs_size tries_size : ushort,
                          debug_info_off insns_size : uint, insns : ushort[insns_size],
                          padding : ushort  — present iff tries_size ≠ 0 and insns_size is odd,
                          tries : try_item[tries_size], handlers : encoded_catch_handler_list
                          (both present iff tries_size ≠ 0)
  try_item                start_addr : uint, insn_count : ushort, handler_off : ushort — offset in
                          bytes from the start of the encoded_catch_handler_list to the
                          encoded_catch_handler of this entry
  encoded_catch_handler_list   size : uleb128, list : encoded_catch_handler[size]
  encoded_catch_handler   size : sleb128 — number of catch types; if non-positive, the negative
                          of that number and a catch-all handler follows;
                          handlers : encoded_type_addr_pair[abs(size)], catch_all_addr : uleb128
  encoded_type_addr_pair  type_idx : uleb128, addr : uleb128

The abstract content is a list of `TrySpec`.  What a reader has to report for it is
`expected`: byte range (inclusive end), typed handlers in test order, catch-all last as
`Ljava/lang/Throwable;`, addresses in bytes.
-/
import AgVerif.Spec.Leb
namespace AgVerif.Spec.Tries
open AgVerif.Spec.Leb

/-- one try block: addresses in 16-bit code units -/
structure TrySpec where
  start : Nat
  count : Nat
  typed : List (Nat × Nat)      -- (type index, handler address), in the order the types are tested
  catchAll : Option Nat
  deriving DecidableEq, Repr

abbrev Reported := Nat × Int × List (String × Nat)

def throwable : String := "Ljava/lang/Throwable;"

/-- the report the property asks for, for one try block -/
def expected (getType : Nat → String) (t : TrySpec) : Reported :=
  (2 * t.start, ((2 * t.start + 2 * t.count : Nat) : Int) - 1,
    t.typed.map (fun p => (getType p.1, 2 * p.2)) ++
      (match t.catchAll with
       | none => []
       | some a => [(throwable, 2 * a)]))

/-! ### encodings

A file may encode a number with any LEB128 item of 1..5 bytes that has this value
(non-canonical items with redundant high groups are allowed), and two try items may share
one encoded_catch_handler or have their own.  An encoding is therefore described by a
`Plan`: the byte items the writer chose and, per try item, which handler it points to. -/

/-- an unsigned number together with the bytes chosen to write it -/
structure UNum where
  val : Nat
  bytes : List Nat

def UNum.WF (n : UNum) : Prop :=
  IsItem n.bytes ∧ n.bytes.length ≤ 5 ∧ unsignedValue n.bytes = some n.val

instance (n : UNum) : Decidable n.WF := by unfold UNum.WF; exact inferInstance

/-- a signed number together with the bytes chosen to write it -/
structure SNum where
  val : Int
  bytes : List Nat

def SNum.WF (n : SNum) : Prop :=
  IsItem n.bytes ∧ n.bytes.length ≤ 5 ∧ signedValue n.bytes = some n.val

instance (n : SNum) : Decidable n.WF := by unfold SNum.WF; exact inferInstance

structure EncPair where
  ty : UNum
  addr : UNum

def EncPair.bytes (p : EncPair) : List Nat := p.ty.bytes ++ p.addr.bytes

structure EncHandler where
  size : SNum
  pairs : List EncPair
  catchAll : Option UNum

def EncHandler.bytes (h : EncHandler) : List Nat :=
  h.size.bytes ++ h.pairs.flatMap EncPair.bytes ++
    (match h.catchAll with
     | none => []
     | some c => c.bytes)

/-- `size` is the number of typed handlers, negated (or zero) exactly when a catch-all follows;
    a handler without catch-all has at least one typed handler. -/
def EncHandler.WF (h : EncHandler) : Prop :=
  h.size.WF ∧ (∀ p ∈ h.pairs, p.ty.WF ∧ p.addr.WF) ∧
    (match h.catchAll with
     | none => h.pairs ≠ [] ∧ h.size.val = (h.pairs.length : Int)
     | some c => c.WF ∧ h.size.val = -(h.pairs.length : Int))

def EncHandler.typed (h : EncHandler) : List (Nat × Nat) := h.pairs.map fun p => (p.ty.val, p.addr.val)
def EncHandler.catchAllVal (h : EncHandler) : Option Nat := h.catchAll.map (·.val)

/-- a try item as written: `sel` is the index of its handler in the list, `hoff` the
    handler_off field -/
structure EncTry where
  start : Nat
  count : Nat
  sel : Nat
  hoff : Nat

def le16 (v : Nat) : List Nat := [v % 256, v / 256 % 256]
def le32 (v : Nat) : List Nat := [v % 256, v / 256 % 256, v / 65536 % 256, v / 16777216 % 256]

def EncTry.bytes (t : EncTry) : List Nat := le32 t.start ++ le16 t.count ++ le16 t.hoff

structure Plan where
  listSize : UNum
  handlers : List EncHandler
  tries : List EncTry

/-- byte offsets of consecutive handlers, the first one at `pos` -/
def offsetsFrom (pos : Nat) : List EncHandler → List Nat
  | [] => []
  | h :: hs => pos :: offsetsFrom (pos + h.bytes.length) hs

/-- offsets of the handlers from the start of the encoded_catch_handler_list -/
def Plan.offsets (p : Plan) : List Nat := offsetsFrom p.listSize.bytes.length p.handlers

/-- try items followed by the handler list -/
def Plan.bytes (p : Plan) : List Nat :=
  p.tries.flatMap EncTry.bytes ++ p.listSize.bytes ++ p.handlers.flatMap EncHandler.bytes

/-- try item `et` of plan `p` encodes the abstract try `t` -/
def EncodesTry (p : Plan) (et : EncTry) (t : TrySpec) : Prop :=
  et.start = t.start ∧ et.count = t.count ∧ t.start < 2 ^ 32 ∧ t.count < 2 ^ 16 ∧ et.hoff < 2 ^ 16 ∧
    p.offsets[et.sel]? = some et.hoff ∧
    ∃ h, p.handlers[et.sel]? = some h ∧ t.typed = h.typed ∧ t.catchAll = h.catchAllVal

/-- the try items of `p`, in order, encode the abstract tries -/
def EncodesAll (p : Plan) : List EncTry → List TrySpec → Prop
  | [], [] => True
  | et :: ets, t :: ts => EncodesTry p et t ∧ EncodesAll p ets ts
  | _, _ => False

/-- plan `p` is a well-formed encoding of the try list `ts` (any sharing, any LEB widths) -/
def Encodes (p : Plan) (ts : List TrySpec) : Prop :=
  p.listSize.WF ∧ p.listSize.val = p.handlers.length ∧ (∀ h ∈ p.handlers, h.WF) ∧
    ts ≠ [] ∧ ts.length < 2 ^ 16 ∧ EncodesAll p p.tries ts

/-- the other fields of the code_item header -/
structure Hdr where
  registers : Nat
  ins : Nat
  outs : Nat
  debugOff : Nat
  padding : Nat      -- value of the padding ushort when present (the format asks for 0; any value is skipped)

def Hdr.WF (h : Hdr) : Prop :=
  h.registers < 2 ^ 16 ∧ h.ins < 2 ^ 16 ∧ h.outs < 2 ^ 16 ∧ h.debugOff < 2 ^ 32 ∧ h.padding < 2 ^ 16

instance (h : Hdr) : Decidable h.WF := by unfold Hdr.WF; exact inferInstance

/-- the padding ushort: present iff there are tries and the number of code units is odd -/
def paddingBytes (h : Hdr) (units ntries : Nat) : List Nat :=
  if units % 2 = 1 ∧ ntries ≠ 0 then le16 h.padding else []

/-- a whole code_item with `insns` (2·units bytes) and an exception table written after `p` -/
def codeItem (h : Hdr) (units : Nat) (insns : List Nat) (p : Plan) : List Nat :=
  le16 h.registers ++ le16 h.ins ++ le16 h.outs ++ le16 p.tries.length ++ le32 h.debugOff ++ le32 units ++
    insns ++ paddingBytes h units p.tries.length ++ p.bytes

/-- a code_item without exception table -/
def codeItemNoTries (h : Hdr) (units : Nat) (insns : List Nat) : List Nat :=
  le16 h.registers ++ le16 h.ins ++ le16 h.outs ++ le16 0 ++ le32 h.debugOff ++ le32 units ++ insns

/-- a try list every number of which fits its field: 32-bit addresses and type indices, 16-bit
    counts, fewer than 64 typed handlers per try (so that `size` fits one sleb128 byte in the
    canonical encoding used for the existence theorem), and no try without any handler -/
def WFTries (ts : List TrySpec) : Prop :=
  ts ≠ [] ∧ ts.length < 2 ^ 16 ∧
    ∀ t ∈ ts, t.start < 2 ^ 32 ∧ t.count < 2 ^ 16 ∧ t.typed.length < 64 ∧
      (∀ p ∈ t.typed, p.1 < 2 ^ 32 ∧ p.2 < 2 ^ 32) ∧ (∀ a, t.catchAll = some a → a < 2 ^ 32) ∧
      (t.catchAll = none → t.typed ≠ [])

end AgVerif.Spec.Tries
