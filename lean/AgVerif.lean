-- This module serves as the root of the `AgVerif` library.
-- Import modules here that should be built as part of the library.
import AgVerif.Basic
