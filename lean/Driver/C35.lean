import AgVerif.Model.Proto
import AgVerif.Model.Loops
import AgVerif.Model.Leb
open AgVerif AgVerif.Proto AgVerif.Loops AgVerif.Gen.Loops

def showHErr : HErr → String
  | .parser => "parser" | .struct => "struct"

def showEv : Ev → String
  | .endDocument => "end" | .invalid => "invalid" | .raised => "raised"
  | .startTag => "start" | .endTag => "endtag" | .text => "text"

/-- repeated `_do_next` calls as AXMLPrinter drives them: events with the position after each call -/
def axmlWalk (f : List Nat) (filesize : Nat) : Nat → Nat → List String → List String
  | 0, _, acc => ("fuel" :: acc).reverse
  | fuel + 1, pos, acc =>
    match doNext f filesize pos with
    | .exit n (ev, p) =>
      let item := s!"{showEv ev}@{p}#{n}"
      match ev with
      | .startTag | .endTag | .text => axmlWalk f filesize fuel p (item :: acc)
      | _ => (item :: acc).reverse
    | .cond n p _ =>
      -- position at or beyond the end of the file: the real body stops in the next iteration
      let ev := if p = filesize then "end" else "invalid"
      (s!"{ev}@{p}#{n + 1}" :: acc).reverse
    | .stuck n p => (s!"stuck@{p}#{n}" :: acc).reverse

/-- DebugInfoItem.__init__ at `pos`: number of bytecodes and end position -/
def dbgItem (f : List Nat) (pos : Nat) : Option (Nat × Nat) :=
  match lebSkip f pos with                       -- line_start
  | none => none
  | some p1 =>
    match AgVerif.Leb.readUleb (f.drop p1) with  -- parameters_size
    | none => none
    | some (psize, n) =>
      if psize > f.length then none               -- more uleb128p1 items than bytes: struct.error
      else match lebSkipN f psize (p1 + n) with
      | none => none
      | some p2 =>
        match f[p2]? with
        | none => none
        | some op =>
          match dbgLoop f (p2 + 1) op with
          | .exit steps true => some (steps, 0)
          | _ => none

/-- HiddenApiClassDataItem.__init__ at `offset`: offsets_size and the flag values -/
def hiddenItem (f : List Nat) (offset : Nat) : String :=
  match u32 f offset with
  | none => "err"
  | some ss =>
    match hiddenLoop f offset ss with
    | .exit n (some (os, p)) =>
      -- for i in range(offsets_size): flag = readuleb128; RestrictionApiFlag(flag & 7), DomapiApiFlag(flag >> 3)
      let rec flags : Nat → Nat → Option Nat
        | 0, q => some q
        | k + 1, q => match AgVerif.Leb.readUleb (f.drop q) with
          | none => none
          | some (v, m) => if v % 8 ≤ 6 ∧ v / 8 ≤ 2 then flags k (q + m) else none
      if os.toNat > f.length then "err" else
      match flags os.toNat p with
      | some q => s!"ok {os.toNat} {q} {n}"
      | none => "err"
    | .exit _ none => "err"
    | .cond n p st => s!"cond {n} {p} {st.1}"
    | .stuck n p => s!"stuck {n} {p}"

def handle (line : String) : String :=
  match words line with
  | ["hdr", st, h] => match st.toNat?, parseHex h with
    | some start, some f => (match arscHeader f start with
      | .ok hd => s!"ok {hd.type} {hd.hsize} {hd.size} {hd.after} {arscHeaderSteps f start}"
      | .error e => s!"err {showHErr e}")
    | _, _ => "bad-op"
  | ["axml", fs, p, h] => match fs.toNat?, p.toNat?, parseHex h with
    | some filesize, some pos, some f =>
      let d := axmlDoc f filesize pos 0
      " ".intercalate (axmlWalk f filesize (f.length + 2) pos []) ++ s!" T{d.1}{if d.2 then "!" else ""}"
    | _, _, _ => "bad-op"
  | ["dbg", p, h] => match p.toNat?, parseHex h with
    | some pos, some f => (match dbgItem f pos with
      | some (n, _) => s!"ok {n}" | none => "err")
    | _, _ => "bad-op"
  | ["hidden", p, h] => match p.toNat?, parseHex h with
    | some off, some f => hiddenItem f off
    | _, _ => "bad-op"
  | ["maplist", p, sz, h] => match p.toNat?, sz.toNat?, parseHex h with
    | some pos, some size, some f => (match mapListLoop f pos size with
      | .exit n r => s!"exit {n} {r}" | .cond n q _ => s!"cond {n} {q}" | .stuck n q => s!"stuck {n} {q}")
    | _, _, _ => "bad-op"
  | _ => "bad-op"

def main : IO Unit := runMain handle
