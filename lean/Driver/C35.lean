import AgVerif.Model.Proto
open AgVerif AgVerif.Proto

def handle (_line : String) : String := "bad-op"

def main : IO Unit := runMain handle
