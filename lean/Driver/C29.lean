import AgVerif.Model.Proto
import AgVerif.Model.Resolve
open AgVerif AgVerif.Proto AgVerif.Resolve

/-
Line protocol (C29):
  resolve    <w> <rid> <table>          get_resolved_res_configs of the guarded code
  resolveold <fuel> <w> <rid> <table>   the code as written, Python stack = fuel levels
<w> is `-` (config=None) or a configuration key (0 = default config).
<table> := <res>;<res>;…      <res> := <rid>:<opt>|<opt>|…      <opt> := <cfg>=<entry>
<entry> := S<item>  |  C<item>,<item>,…  (C alone: no items)
<item>  := R<id> | L<opaque text without separators>       (`-` alone: the empty table)
reply: `ok <tok> <tok> …` with tok := P<cfg>:<text> | B<text> | O<cfg> | X ; `value-error` ; `recursion`
-/

def parseItem (s : String) : Option Item :=
  match s.toList with
  | 'R' :: r => (String.ofList r).toNat?.map Item.ref
  | 'L' :: r => some (Item.lit (String.ofList r))
  | _ => none

def parseEntry (s : String) : Option Entry :=
  match s.toList with
  | 'S' :: r => (parseItem (String.ofList r)).map Entry.simple
  | 'C' :: r =>
    if r.isEmpty then some (Entry.complex [])
    else ((String.ofList r).splitOn ",").mapM parseItem |>.map Entry.complex
  | _ => none

def parseOpt (s : String) : Option (Config × Entry) :=
  match s.splitOn "=" with
  | [c, e] => do
    let c ← c.toNat?
    let e ← parseEntry e
    pure (c, e)
  | _ => none

def parseRes (s : String) : Option (ResId × List (Config × Entry)) :=
  match s.splitOn ":" with
  | [r, opts] => do
    let r ← r.toNat?
    let os ← (opts.splitOn "|").mapM parseOpt
    pure (r, os)
  | _ => none

def parseTable (s : String) : Option Table :=
  if s == "-" then some ⟨[]⟩ else (s.splitOn ";").mapM parseRes |>.map Table.mk

def parseW (s : String) : Option (Option Config) :=
  if s == "-" then some none else s.toNat?.map some

def showTok : Tok → String
  | .pair c s => s!"P{c}:{s}"
  | .bare s => s!"B{s}"
  | .opn c => s!"O{c}"
  | .cls => "X"

def showOutcome : Outcome → String
  | .ok ts => " ".intercalate ("ok" :: ts.map showTok)
  | .valueError => "value-error"
  | .recursion => "recursion"

def handle (line : String) : String :=
  match words line with
  | ["resolve", w, rid, tbl] =>
    match parseW w, rid.toNat?, parseTable tbl with
    | some w, some rid, some t => showOutcome (resolveV t w rid)
    | _, _, _ => "bad-op"
  | ["resolveold", fuel, w, rid, tbl] =>
    match fuel.toNat?, parseW w, rid.toNat?, parseTable tbl with
    | some f, some w, some rid, some t => showOutcome (resolveOld t w f rid)
    | _, _, _, _ => "bad-op"
  | _ => "bad-op"

def main : IO Unit := runMain handle
