import AgVerif.Model.Proto
import AgVerif.Model.V1Sig
open AgVerif AgVerif.Proto AgVerif.V1Sig

/-
Line protocol of drv_C32 (one request per line, blank-separated tokens):

  v1 <minsdk> <maxsdk> <encap> <sf#>
     B <n> <hex>*n                                             interned byte strings (#i refers to them)
     C <n> (<isCert 0|1> <issuer> <serial> <key> <id>)*n        SignedData.certificates
     S <n> (<issuer> <serial> <digestAlg> <sigAlg> <sig#> <attrs>)*n
     V <n> (<key> <sig#> <msg#> <hashClass> <ok|Mro/Mro/…>)*n   ground-truth table of public-key verification
     D <n> (<hashlibFn> <msg#> <digest#>)*n                     ground-truth table of message digests
     minsdk: absent | bad | <int>      maxsdk: none | <int>      encap: s:<name>
     attrs:  -  (field absent)  |  <dump#>/<oid>=<val>,<val>;<oid>=…      val: s:<name> | o:<#i>
  → cert <id> | none | raise <ExceptionClass>

  names <hex utf-8 name>*        → the names get_signature_names returns (hex), or -
  sfname <hex utf-8 name>        → <hex of the .SF name get_signature_names tests> <hex of the one get_certificate_der reads>
-/

abbrev P := StateT (List String) Option

def tok : P String := fun s => match s with | [] => none | t :: r => some (t, r)
def natTok : P Nat := do let t ← tok; match t.toNat? with | some n => pure n | none => failure
def intTok : P Int := do let t ← tok; match t.toInt? with | some n => pure n | none => failure
def expect (w : String) : P Unit := do let t ← tok; if t = w then pure () else failure

def rep {α} (p : P α) : Nat → P (List α)
  | 0 => pure []
  | n + 1 => do let a ← p; let r ← rep p n; pure (a :: r)

def getB (tbl : Array Bytes) (t : String) : Option Bytes :=
  match (t.drop 1).toNat? with
  | some i => if t.startsWith "#" then tbl[i]? else none
  | none => none

def parseVal (tbl : Array Bytes) (s : String) : Option AVal :=
  if s.startsWith "s:" then some (.str (s.drop 2).toString)
  else if s.startsWith "o:" then (getB tbl (s.drop 2).toString).map .oct
  else none

def parseAttr (tbl : Array Bytes) (s : String) : Option Attr :=
  match s.splitOn "=" with
  | [oid, vs] =>
    let vals := if vs = "" then [] else vs.splitOn ","
    (vals.mapM (parseVal tbl)).map (fun v => { oid := oid, values := v })
  | _ => none

/-- returns (attrs, dump) -/
def parseAttrs (tbl : Array Bytes) (s : String) : Option (Option (List Attr) × Bytes) :=
  if s = "-" then some (none, [])
  else match s.splitOn "/" with
    | [d, body] =>
      match getB tbl d with
      | none => none
      | some dump =>
        let items := if body = "" then [] else body.splitOn ";"
        (items.mapM (parseAttr tbl)).map (fun l => (some l, dump))
    | _ => none

def sdkOf (t : String) : Option Sdk :=
  if t = "absent" then some .absent else if t = "bad" then some .bad else t.toInt?.map .num

def parseV1 : P (Crypto × Input) := do
  let minT ← tok
  let maxT ← tok
  let encT ← tok
  let sfT ← tok
  expect "B"
  let nb ← natTok
  let hexes ← rep tok nb
  let tbl ← (hexes.mapM parseHex : Option (List Bytes))
  let tbl := tbl.toArray
  let some minSdk := sdkOf minT | failure
  let maxSdk : Option Int ← (if maxT = "none" then pure none else match maxT.toInt? with
    | some n => pure (some n) | none => failure)
  let some encap := parseVal tbl encT | failure
  let some sf := getB tbl sfT | failure
  expect "C"
  let nc ← natTok
  let certs ← rep (do
    let ic ← natTok; let iss ← natTok; let ser ← intTok; let k ← natTok; let id ← natTok
    pure ({ isCert := ic != 0, issuer := iss, serial := ser, key := k, id := id } : Cert)) nc
  expect "S"
  let ns ← natTok
  let signers ← rep (do
    let iss ← natTok; let ser ← intTok; let da ← tok; let sa ← tok; let sg ← tok; let atT ← tok
    let some sig := getB tbl sg | failure
    let some (attrs, dump) := parseAttrs tbl atT | failure
    pure ({ issuer := iss, serial := ser, digestAlg := da, attrs := attrs, attrsDump := dump,
            sigAlg := sa, sig := sig } : SignerInfo)) ns
  expect "V"
  let nv ← natTok
  let vt ← rep (do
    let k ← natTok; let sg ← tok; let m ← tok; let cls ← tok; let r ← tok
    let some sig := getB tbl sg | failure
    let some msg := getB tbl m | failure
    let res : VRes := if r = "ok" then .ok else .exc (r.splitOn "/")
    pure (k, sig, msg, cls, res)) nv
  expect "D"
  let nd ← natTok
  let dt ← rep (do
    let fn ← tok; let m ← tok; let d ← tok
    let some msg := getB tbl m | failure
    let some dig := getB tbl d | failure
    pure (fn, msg, dig)) nd
  let cr : Crypto := {
    verify := fun k sig msg cls =>
      match vt.find? (fun e => e.1 == k && e.2.1 == sig && e.2.2.1 == msg && e.2.2.2.1 == cls) with
      | some e => e.2.2.2.2
      | none => .exc ["MissingVerifyTableEntry"]
    digest := fun fn msg =>
      match dt.find? (fun e => e.1 == fn && e.2.1 == msg) with
      | some e => e.2.2
      | none => [1000] }
  pure (cr, { encap := encap, certs := certs, signers := signers, sf := sf, minSdk := minSdk, maxSdk := maxSdk })

def showOutcome : Outcome → String
  | .cert c => s!"cert {c.id}"
  | .none => "none"
  | .raised e => s!"raise {e.headD "?"}"

def strOfHex (h : String) : Option String :=
  match parseHex h with
  | some bs => String.fromUTF8? (ByteArray.mk (bs.map UInt8.ofNat).toArray)
  | none => none

def hexOfStr (s : String) : String := toHex (s.toUTF8.toList.map UInt8.toNat)

def handle (line : String) : String :=
  match words line with
  | "v1" :: rest =>
    match parseV1.run rest with
    | some ((cr, inp), []) => showOutcome (getCert cr inp)
    | _ => "bad-op"
  | "names" :: rest =>
    match rest.mapM strOfHex with
    | some files =>
      let r := signatureNames files
      if r.isEmpty then "-" else " ".intercalate (r.map hexOfStr)
    | none => "bad-op"
  | ["sfname", h] =>
    match strOfHex h with
    | some n => s!"{hexOfStr (sfNameNames n)} {hexOfStr (sfNameDer n)}"
    | none => "bad-op"
  | _ => "bad-op"

def main : IO Unit := runMain handle
