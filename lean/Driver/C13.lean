import AgVerif.Model.Proto
import AgVerif.Model.Xref
/-!
Driver for C13, C14, C15, C16 (one model): request

    xref <ndex> { <nstrings> s… <nclasses> { <cname> <nfields> (fname ftype)… <nmethods>
                  { <mname> <mdesc> <ninsns> (off op ref)… } } }

with `ref` ∈ `n` | `t <type>` | `m <cls> <name> <desc>` | `s <string>` | `f <cls> <name> <type>`.
All names are space-free tokens (the harness interns them, preserving leading `[` and the `L`).
Reply: the canonical view, sections `name=item,item,…` joined by `|`, items sorted.
-/
open AgVerif AgVerif.Proto AgVerif.Xref

abbrev P (α : Type) := List String → Option (α × List String)

def pTok : P String
  | [] => none
  | t :: r => some (t, r)

def pNat : P Nat
  | [] => none
  | t :: r => t.toNat?.map (·, r)

def pMany {α : Type} (p : P α) : Nat → P (List α)
  | 0, ts => some ([], ts)
  | n + 1, ts => match p ts with
    | none => none
    | some (a, r) => match pMany p n r with
      | none => none
      | some (as, r') => some (a :: as, r')

def pCounted {α : Type} (p : P α) : P (List α) := fun ts =>
  match pNat ts with
  | none => none
  | some (n, r) => pMany p n r

def pRef : P Ref
  | "n" :: r => some (.none, r)
  | "t" :: t :: r => some (.type t, r)
  | "m" :: c :: n :: d :: r => some (.meth c n d, r)
  | "s" :: s :: r => some (.str s, r)
  | "f" :: c :: n :: t :: r => some (.field c n t, r)
  | _ => none

def pIns : P (Nat × XIns) := fun ts =>
  match pNat ts with
  | none => none
  | some (off, r) => match pNat r with
    | none => none
    | some (op, r) =>
      if h : op < 256 then
        match pRef r with
        | none => none
        | some (ref, r) => some ((off, ⟨⟨op, h⟩, ref⟩), r)
      else none

def pMethod : P Method := fun ts =>
  match ts with
  | n :: d :: r => match pCounted pIns r with
    | none => none
    | some (code, r) => some (⟨n, d, code⟩, r)
  | _ => none

def pField : P (String × String)
  | n :: t :: r => some ((n, t), r)
  | _ => none

def pClass : P Class := fun ts =>
  match ts with
  | n :: r => match pCounted pField r with
    | none => none
    | some (fs, r) => match pCounted pMethod r with
      | none => none
      | some (ms, r) => some (⟨n, fs, ms⟩, r)
  | _ => none

def pDex : P Dex := fun ts =>
  match pCounted pTok ts with
  | none => none
  | some (ss, r) => match pCounted pClass r with
    | none => none
    | some (cs, r) => some (⟨cs, ss⟩, r)

def sortS (l : List String) : List String := l.mergeSort (fun a b => !(b < a))

def sect (name : String) (items : List String) : String :=
  name ++ "=" ++ ",".intercalate (sortS items)

def mk (k : MKey) : String := k.1 ++ ";" ++ k.2.1 ++ ";" ++ k.2.2
def b01 (b : Bool) : String := if b then "1" else "0"
def cr (r : ClsRef) : String := s!"{r.cls}:{r.other}:{r.kind}:{mk r.meth}:{r.off}"

def render (db : DB) : String :=
  "|".intercalate [
    sect "classes" (db.classes.map fun (c, e) => s!"{c}:{b01 e}"),
    sect "methods" (db.methods.map fun (k, e) => s!"{mk k}:{b01 e}"),
    sect "callTo" (db.callTo.map fun (a, b, o) => s!"{mk a}:{mk b}:{o}"),
    sect "callFrom" (db.callFrom.map fun (a, b, o) => s!"{mk a}:{mk b}:{o}"),
    sect "clsTo" (db.clsTo.map cr),
    sect "clsFrom" (db.clsFrom.map cr),
    sect "cg" ((callGraph db).map fun (a, b) => s!"{mk a}:{mk b}"),
    sect "fields" (db.fields.map fun (h, f) => s!"{h}:{mk f}"),
    sect "fRead" (db.fRead.map fun ((h, f), m, o) => s!"{h}:{mk f}:{mk m}:{o}"),
    sect "fWrite" (db.fWrite.map fun ((h, f), m, o) => s!"{h}:{mk f}:{mk m}:{o}"),
    sect "mRead" (db.mRead.map fun (m, f, o) => s!"{mk m}:{mk f}:{o}"),
    sect "mWrite" (db.mWrite.map fun (m, f, o) => s!"{mk m}:{mk f}:{o}"),
    sect "strings" db.strings,
    sect "strFrom" (db.strFrom.map fun (s, m, o) => s!"{s}:{mk m}:{o}"),
    sect "newInstM" (db.newInstM.map fun (m, c, o) => s!"{mk m}:{c}:{o}"),
    sect "newInstC" (db.newInstC.map fun (c, m, o) => s!"{c}:{mk m}:{o}"),
    sect "constClsM" (db.constClsM.map fun (m, c, o) => s!"{mk m}:{c}:{o}"),
    sect "constClsC" (db.constClsC.map fun (c, m, o) => s!"{c}:{mk m}:{o}")]

def handle (line : String) : String :=
  match words line with
  | "xref" :: r => match pCounted pDex r with
    | some (p, []) => render (analyse p)
    | _ => "bad-op"
  | _ => "bad-op"

def main : IO Unit := runMain handle
