import AgVerif.Model.Proto
import AgVerif.Model.Paths
import AgVerif.Model.PathsProto
open AgVerif AgVerif.Proto AgVerif.Paths AgVerif.PathsProto

def pair (p : List Char × List Char) : String := s!"{encodeStr p.1} {encodeStr p.2}"

def handle (line : String) : String :=
  match words line with
  | [] => "bad-op"
  | op :: args =>
    match decodeAll args with
    | none => "bad-op"
    | some ss =>
      match op, ss with
      | "split", [p] => pair (split p)
      | "splitext", [p] => pair (splitext p)
      | "basename", [p] => encodeStr (basename p)
      | "dirname", [p] => encodeStr (dirname p)
      | "normpath", [p] => encodeStr (normpath p)
      | "join", a :: bs => encodeStr (join a bs)
      | "validrep", [r] => if validReplace r then "1" else "0"
      | "resname", [s] => if reservedName s then "1" else "0"
      | "subres", [r, s] => encodeStr (subReserved r s)
      | "subtrail", [r, s] => encodeStr (subTrailing r s)
      | "digits", [s] => encodeStr (natDigits s.length)
      | "shorten", [r, n, sfx] => encodeStr (shorten Gen.Paths.pathMaxLength r n sfx)
      -- clean <"1"/"0" as a string: unique> <replace> <filename> <existing files…>
      | "clean", u :: r :: f :: files =>
        showResult (cleanFileName (fun p => files.contains p) (files.length + 2) f (u == ['1']) r)
      | _, _ => "bad-op"

def main : IO Unit := runMain handle
