import AgVerif.Model.Proto
import AgVerif.Model.JavaString
import AgVerif.Spec.JavaLex
open AgVerif AgVerif.Proto AgVerif.JavaString

/-- "1f600.41.d83d" → [0x1f600, 0x41, 0xd83d]; "-" → [] -/
def parseCps (s : String) : Option (List Nat) :=
  if s == "-" then some [] else
  (s.splitOn ".").mapM fun w =>
    if w.isEmpty then none else
    w.toList.foldlM (fun acc c => (hexDigit c).map (acc * 16 + ·)) 0

def showHex (n : Nat) : String := String.ofList ((Nat.toDigits 16 n))

def showCps (l : List Nat) : String :=
  if l.isEmpty then "-" else ".".intercalate (l.map showHex)

def handle (line : String) : String :=
  match words line with
  | ["jstr", a] => match parseCps a with
    | some s => showCps (visitConstantStr s) | none => "bad-op"
  | ["jstr-unfixed", a] => match parseCps a with
    | some s => showCps (escapeUnfixed s) | none => "bad-op"
  | ["uesc", a] => match parseCps a with
    | some [c] => showCps (pyUnicodeEscape c) | _ => "bad-op"
  | ["hex", a] => match a.toNat? with
    | some n => showCps (hexDigits n) | none => "bad-op"
  | ["jlex", a] => match parseCps a with      -- the specification's reading of a source text
    | some s => (match Spec.JavaLex.javaLex s with | some v => "ok " ++ showCps v | none => "reject")
    | none => "bad-op"
  | _ => "bad-op"

def main : IO Unit := runMain handle
