import AgVerif.Model.Proto
import AgVerif.Model.Leb
open AgVerif AgVerif.Proto AgVerif.Leb

def showRead {α} [ToString α] : Option (α × Nat) → String
  | none => "err"
  | some (v, n) => s!"ok {v} {n}"

def handle (line : String) : String :=
  match words line with
  | ["uleb", h] => match parseHex h with
    | some bs => showRead (readUleb bs) | none => "bad-op"
  | ["ulebp1", h] => match parseHex h with
    | some bs => showRead (readUlebP1 bs) | none => "bad-op"
  | ["sleb", h] => match parseHex h with
    | some bs => showRead (readSleb bs) | none => "bad-op"
  | ["wuleb", v] => match v.toInt? with
    | some i => (match writeUleb i with | some bs => s!"ok {toHex bs}" | none => "err")
    | none => "bad-op"
  | ["wsleb", v] => match v.toInt? with
    | some i => (match writeSleb i with | some bs => s!"ok {toHex bs}" | none => "err")
    | none => "bad-op"
  | _ => "bad-op"

def main : IO Unit := runMain handle
