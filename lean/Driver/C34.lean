/-
C34 driver.  One request per line, one reply line per request.
  names  : dot-separated decimal code points ("99.108.97"), "-" for the empty name
  data   : hex, "-" for empty
  dex <name>                     -> 1 | 0          (dexMatch)
  multi <name>                   -> 1 | 0          (multidexMatch)
  names <name> <name> …          -> dex=<name,…|-> multi=<0|1>
  apk <name>:<data> … ? <name> … -> files=<name,…|-> dex=<name,…|-> multi=<0|1> all=<r,…|-> get=<r,…|->
                                    with r = ok:<data> | missing
-/
import AgVerif.Model.Proto
import AgVerif.Model.ApkFiles
open AgVerif AgVerif.Proto AgVerif.ApkFiles

def parseName (s : String) : Option Name :=
  if s == "-" then some [] else
  (s.splitOn ".").foldr (fun w acc =>
    match acc, w.toNat? with
    | some cs, some k => some (Char.ofNat k :: cs)
    | _, _ => none) (some [])

def showName (n : Name) : String :=
  if n.isEmpty then "-" else ".".intercalate (n.map fun c => toString c.toNat)

def showList (xs : List String) : String :=
  if xs.isEmpty then "-" else ",".intercalate xs

def bit (b : Bool) : String := if b then "1" else "0"

def showRes : Except Err Bytes → String
  | .ok b => "ok:" ++ toHex b
  | .error .fileNotPresent => "missing"

def parseEntry (w : String) : Option (Name × Bytes) :=
  match w.splitOn ":" with
  | [n, d] => match parseName n, parseHex d with
    | some n, some d => some (n, d)
    | _, _ => none
  | _ => none

def allSome {α} : List (Option α) → Option (List α)
  | [] => some []
  | none :: _ => none
  | some x :: xs => (allSome xs).map (x :: ·)

def handle (line : String) : String :=
  match words line with
  | ["dex", n] => match parseName n with
    | some n => bit (dexMatch n) | none => "bad-op"
  | ["multi", n] => match parseName n with
    | some n => bit (multidexMatch n) | none => "bad-op"
  | "names" :: ns => match allSome (ns.map parseName) with
    | some ns => s!"dex={showList ((dexNames ns).map showName)} multi={bit (isMultidex ns)}"
    | none => "bad-op"
  | "apk" :: rest =>
    let es := rest.takeWhile (· ≠ "?")
    let qs := (rest.dropWhile (· ≠ "?")).drop 1
    match allSome (es.map parseEntry), allSome (qs.map parseName) with
    | some headers, some queries =>
      let entries := dictOf headers        -- the headers may repeat a name
      let files := getFiles entries
      s!"files={showList (files.map showName)} dex={showList ((dexNames files).map showName)} " ++
      s!"multi={bit (isMultidex files)} all={showList ((getAllDex entries).map showRes)} " ++
      s!"get={showList (queries.map fun q => showRes (getFile entries q))}"
    | _, _ => "bad-op"
  | _ => "bad-op"

def main : IO Unit := runMain handle
