import AgVerif.Model.Proto
import AgVerif.Model.Header
open AgVerif AgVerif.Proto AgVerif.Header AgVerif.Gen.Header

/-
Line protocol of the C09 model.
  adler <hex>          -> <decimal>                         zlib.adler32
  hdr <hex>            -> ok <name=value of the u32 fields in tuple order…> | err <name> <exception class>
  base <hex>           -> base <length>                     remember a file
  mut <offset> <byte>  -> as `hdr` (without fields) for the remembered file with one byte replaced
  info                 -> order of the guards, as generated
-/

def showCheck (f : List Nat) (fields : Bool) : String :=
  match headerCheck f with
  | .error e => s!"err {e.name} {e.exc}"
  | .ok () =>
    if fields then
      "ok " ++ " ".intercalate (u32Fields.map fun (name, off) =>
        match u32At f off with | some v => s!"{name}={v}" | none => s!"{name}=?")
    else "ok"

def checkName : Check → String
  | .size => "size" | .endian => "endian" | .unpack => "unpack" | .magic => "magic"
  | .checksum => "checksum" | .headerSize => "headerSize" | .typeIds => "typeIds" | .protoIds => "protoIds"

def handle (base : List Nat) (line : String) : List Nat × String :=
  match words line with
  | ["adler", h] => match parseHex h with
    | some bs => (base, toString (adler32 bs)) | none => (base, "bad-op")
  | ["hdr", h] => match parseHex h with
    | some bs => (base, showCheck bs true) | none => (base, "bad-op")
  | ["base", h] => match parseHex h with
    | some bs => (bs, s!"base {bs.length}") | none => (base, "bad-op")
  | ["mut", o, v] => match o.toNat?, v.toNat? with
    | some i, some b => (base, showCheck (base.set i b) false)
    | _, _ => (base, "bad-op")
  | ["info"] => (base, " ".intercalate (checkOrder.map checkName))
  | _ => (base, "bad-op")

partial def loopS (h : IO.FS.Stream) (out : IO.FS.Stream) (base : List Nat) : IO Unit := do
  let line ← h.getLine
  if line.isEmpty then return ()
  let l := String.ofList (line.toList.filter (fun c => c != '\n' && c != '\r'))
  let (base', reply) := handle base l
  out.putStrLn reply
  loopS h out base'

def main : IO Unit := do
  let i ← IO.getStdin
  let o ← IO.getStdout
  loopS i o []
  o.flush
