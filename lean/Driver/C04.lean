import AgVerif.Model.Proto
import AgVerif.Model.EncodedValue
open AgVerif AgVerif.Proto AgVerif.EncodedValue

/-- the stub ClassManager of the correspondence (harness/props/c04.py uses the same names) -/
def stubCM : CM where
  rawString i := s!"S{i}"
  type i := s!"T{i}"
  field i := [s!"Fc{i}", s!"Ft{i}", s!"Fn{i}"]
  method i := [s!"Mc{i}", s!"Mn{i}", s!"Mp{i}"]

def isNaN32 (b : Nat) : Bool := (b >>> 23) &&& 0xff == 0xff && b &&& 0x7fffff != 0
def isNaN64 (b : Nat) : Bool := (b >>> 52) &&& 0x7ff == 0x7ff && b &&& 0xfffffffffffff != 0

mutual
def render : Value → String
  | .int vt v => s!"i{vt}:{v}"
  | .float b => if isNaN32 b then "f:nan" else s!"f:{b}"
  | .double b => if isNaN64 b then "d:nan" else s!"d:{b}"
  | .ref vt item => s!"r{vt}:" ++ "|".intercalate item
  | .array vs => "[" ++ ",".intercalate (renderList vs) ++ "]"
  | .annotation t es => s!"@{t}" ++ "{" ++ ",".intercalate (renderElems es) ++ "}"
  | .null => "null"
  | .bool b => if b then "true" else "false"
  | .unknown vt => s!"u{vt}"
def renderList : List Value → List String
  | [] => []
  | v :: vs => render v :: renderList vs
def renderElems : List (Nat × Value) → List String
  | [] => []
  | (n, v) :: es => (s!"{n}=" ++ render v) :: renderElems es
end

def showErr : Err → String
  | .struct => "err"
  | .fuel => "fuel"

def natList (n : Nat) : List Nat := List.range n

def handle (line : String) : String :=
  match words line with
  | ["evalue", h] => match parseHex h with
    | some bs => (match decode stubCM bs with
      | .ok (v, n) => s!"ok {n} {render v}"
      | .error e => showErr e)
    | none => "bad-op"
  | ["earray", h] => match parseHex h with
    | some bs => (match decodeArray stubCM bs with
      | .ok (vs, n) => s!"ok {n} " ++ ";".intercalate (renderList vs)
      | .error e => showErr e)
    | none => "bad-op"
  | ["statics", nf, h] => match nf.toNat?, parseHex h with
    | some n, some bs => (match decodeArray stubCM bs with
      | .ok (vs, _) =>
        "ok " ++ ";".intercalate ((bindStatics (some vs) (List.replicate n none)).map fun
          | none => "-"
          | some v => render v)
      | .error e => showErr e)
    | _, _ => "bad-op"
  | ["bind", nv, nf] => match nv.toNat?, nf.toNat? with
    | some a, some b =>
      let r := if nv == "none" then bindStatics none (List.replicate b none)
               else bindStatics (some (natList a)) (List.replicate b (none : Option Nat))
      "ok " ++ ";".intercalate (r.map fun | none => "-" | some v => toString v)
    | _, _ => "bad-op"
  | ["bindnone", nf] => match nf.toNat? with
    | some b => "ok " ++ ";".intercalate
        ((bindStatics (none : Option (List Nat)) (List.replicate b none)).map fun | none => "-" | some v => toString v)
    | none => "bad-op"
  | ["print", proto, "i", v] => match v.toInt? with
    | some i => (match printInit proto (.int 0 i) with
      | some cs => "ok " ++ String.ofList cs
      | none => "unmodelled")
    | none => "bad-op"
  | ["print", proto, "b", v] =>
    (match printInit proto (.bool (v == "1")) with
      | some cs => "ok " ++ String.ofList cs
      | none => "unmodelled")
  | ["print", proto, "f", v] => match v.toNat? with
    | some b => (match printInit proto (.float b) with
      | some cs => "ok " ++ String.ofList cs
      | none => "unmodelled")
    | none => "bad-op"
  | ["print", proto, "d", v] => match v.toNat? with
    | some b => (match printInit proto (.double b) with
      | some cs => "ok " ++ String.ofList cs
      | none => "unmodelled")
    | none => "bad-op"
  | ["prints", cps] =>
    let parts := if cps == "-" then [] else cps.splitOn ","
    (match parts.mapM String.toNat? with
     | some s => "ok " ++ toHex (printStringInit s)
     | none => "bad-op")
  | ["print", proto, "n"] =>
    (match printInit proto .null with
      | some cs => "ok " ++ String.ofList cs
      | none => "unmodelled")
  | _ => "bad-op"

def main : IO Unit := runMain handle
