import AgVerif.Model.Proto
import AgVerif.Model.Paths
import AgVerif.Model.PathsProto
open AgVerif AgVerif.Proto AgVerif.Paths AgVerif.PathsProto

def handle (line : String) : String :=
  match words line with
  | [] => "bad-op"
  | op :: args =>
    match decodeAll args with
    | none => "bad-op"
    | some ss =>
      match op, ss with
      | "vcn", [c] => (match validClassName c with | some v => s!"ok {encodeStr v}" | none => "indexerror")
      | "sanitize", [s] => encodeStr (sanitizeShort s)
      | "normpath", [p] => encodeStr (normpath p)
      -- target <output> <class name> <short string> <existing files…>  ->  folder, .java file, method file base
      | "target", out :: cls :: short :: files =>
        (match classDir out cls, javaFile out cls, methodBase (fun p => files.contains p) (files.length + 2) out cls short with
         | some d, some j, some (.ok b) => s!"ok {encodeStr d} {encodeStr j} {encodeStr b}"
         | some _, some _, some r => showResult r
         | _, _, _ => "indexerror")
      | _, _ => "bad-op"

def main : IO Unit := runMain handle
