import AgVerif.Model.Proto
import AgVerif.Model.ReachDef
open AgVerif AgVerif.Proto AgVerif.ReachDef AgVerif.Spec.ReachDef

/-
request:  defuse <params> <entry> <exit|-> <node> <node> …
  params = `-` | r,r,…          node = <stmts>|<edges>|<catch edges>
  stmts  = `-` | stmt/stmt/…    stmt = <lhs|_>:<use,use,…>        edges = `-` | n,n,…
reply:    ok done=<0|1> iters=<k> bound=<B> R=<per node: sorted locs, nodes separated by ;> A=<same>
             UD=<x@i:d,d;…sorted by key, values sorted> DU=<same>
-/

def natList (s : String) : Option (List Nat) :=
  if s == "-" || s == "" then some [] else (s.splitOn ",").mapM String.toNat?

def parseStmt (s : String) : Option Stmt :=
  match s.splitOn ":" with
  | [l, u] => do
    let lhs ← if l == "_" then some none else l.toNat?.map some
    let uses ← natList u
    some { lhs := lhs, uses := uses }
  | _ => none

def parseNode (s : String) : Option (List Stmt × List Nat × List Nat) :=
  match s.splitOn "|" with
  | [st, e, c] => do
    let sts ← if st == "-" then some [] else (st.splitOn "/").mapM parseStmt
    let es ← natList e
    let cs ← natList c
    some (sts, es, cs)
  | _ => none

def insSorted {α} (lt : α → α → Bool) (x : α) : List α → List α
  | [] => [x]
  | y :: ys => if lt y x then y :: insSorted lt x ys else x :: y :: ys

def isort {α} (lt : α → α → Bool) (l : List α) : List α := l.foldl (fun acc x => insSorted lt x acc) []

def dedup (l : List Int) : List Int :=
  (isort (· < ·) l).foldr (fun x acc => match acc with | y :: _ => if x == y then acc else x :: acc | [] => [x]) []

def showInts (l : List Int) : String := ",".intercalate (l.map toString)

def keyLt (a b : (Reg × Int) × List Int) : Bool :=
  a.1.1 < b.1.1 || (a.1.1 == b.1.1 && a.1.2 < b.1.2)

def showDict (D : Dict) : String :=
  ";".intercalate ((isort keyLt D).map fun e => s!"{e.1.1}@{e.1.2}:{showInts (isort (· < ·) e.2)}")

def handle (line : String) : String :=
  match words line with
  | "defuse" :: ps :: en :: ex :: nodes =>
    match natList ps, en.toNat?, (if ex == "-" then some none else ex.toNat?.map some), nodes.mapM parseNode with
    | some params, some entry, some exit, some ns =>
      let g : Prog := { nodes := ns.map (·.1), edges := ns.map (·.2.1), cedges := ns.map (·.2.2),
                        entry := entry, exit := exit, params := params }
      if !WF g then "ill-formed" else
      let st := analysis g
      let UD := buildUD g st.R
      let DU := buildDU UD
      let rs := ";".intercalate ((List.range (nOrig g)).map fun v => showInts (dedup (st.R v)))
      let as := ";".intercalate ((List.range (nOrig g)).map fun v => showInts (dedup (st.A v)))
      s!"ok done={if st.wl.isEmpty then 1 else 0} iters={st.steps} bound={bound g} R={rs} A={as} UD={showDict UD} DU={showDict DU}"
    | _, _, _, _ => "bad-op"
  | _ => "bad-op"

def main : IO Unit := runMain handle
