import AgVerif.Model.Proto
import AgVerif.Model.Mutf8
open AgVerif AgVerif.Proto AgVerif.Mutf8

def hexNat (n : Nat) : String := String.ofList (Nat.toDigits 16 n)

def showCps (l : List Nat) : String :=
  if l.isEmpty then "-" else " ".intercalate (l.map hexNat)

def showErr : Err → String
  | .nul => "nul" | .short2 => "short2" | .short3 => "short3"

def showDec : Except Err (List Nat) → String
  | .ok cps => s!"ok {showCps cps}"
  | .error e => s!"err {showErr e}"

def parseHexNat (s : String) : Option Nat :=
  s.toList.foldl (fun acc c => match acc, hexDigit c with
    | some a, some d => some (a * 16 + d) | _, _ => none) (some 0)

def parseCps (s : String) : Option (List Nat) :=
  if s == "-" then some [] else (s.splitOn ",").mapM parseHexNat

def handle (line : String) : String :=
  match words line with
  | ["mutf8", h] => match parseHex h with
    | some bs => showDec (decode bs) | none => "bad-op"
  | ["slow", h] => match parseHex h with
    | some bs => showDec (slow bs) | none => "bad-op"
  | ["enc", c] => match parseCps c with
    | some cps => s!"ok {toHex (encodeStr cps)}" | none => "bad-op"
  | ["readnt", c, p, h] => match c.toNat?, p.toNat?, parseHex h with
    | some chunk, some pos, some file =>
      (match readNT chunk file pos with
       | some (s, np) => s!"ok {toHex s} {np} {readNTSteps chunk file pos}"
       | none => s!"err {readNTSteps chunk file pos}")
    | _, _, _ => "bad-op"
  | ["sdi", h, offs] => match parseHex h with
    | some file =>
      let one (o : String) : String := match o.toNat? with
        | none => "bad"
        | some off => match stringDataItem file off with
          | none => "rerr"
          | some (sz, _, d) => s!"{sz}:{showDec d}"
      "|".intercalate ((offs.splitOn ",").map one)
    | none => "bad-op"
  | _ => "bad-op"

def main : IO Unit := runMain handle
