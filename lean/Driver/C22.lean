import AgVerif.Model.Proto
import AgVerif.Model.Order
import AgVerif.Model.Intervals
import AgVerif.Model.DerivedSeq
import AgVerif.Model.IfStruct
import AgVerif.Model.SwitchStruct
import AgVerif.Model.LoopBodies
open AgVerif AgVerif.Proto AgVerif.Order

/-- "1,2,3" → [1,2,3]; "-" → [] -/
def csv (s : String) : Option (List Nat) :=
  if s == "-" then some [] else (s.splitOn ",").mapM String.toNat?

/-- "1>2,3=4" with separator `sep` → [(1,2),(3,4)] -/
def pairs (sep : String) (s : String) : Option (List (Nat × Nat)) :=
  if s == "-" then some [] else
  (s.splitOn ",").mapM fun p => match p.splitOn sep with
    | [a, b] => do let x ← a.toNat?; let y ← b.toNat?; pure (x, y)
    | _ => none

def showCsv (l : List Nat) : String :=
  if l.isEmpty then "-" else ",".intercalate (l.map toString)

def lookupD (m : List (Nat × Nat)) (k : Nat) : Nat :=
  match m.find? (fun p => p.1 == k) with | some p => p.2 | none => k

def sucsOf (edges : List (Nat × Nat)) (n : Nat) : List Nat :=
  (edges.filter (fun e => e.1 == n)).map Prod.snd

/-- "name:isCond:tru:fls;…" -/
def lnodes (s : String) : Option (List (Nat × LNode)) :=
  if s == "-" then some [] else
  (s.splitOn ";").mapM fun p => match p.splitOn ":" with
    | [n, c, t, f] => do
        let n ← n.toNat?; let c ← c.toNat?; let t ← t.toNat?; let f ← f.toNat?
        pure (n, ⟨c != 0, t, f⟩)
    | _ => none

/-- 0 stands for `None` -/
def optN (n : Nat) : Option Nat := if n == 0 then none else some n
def showOpt (o : Option Nat) : String := match o with | some n => toString n | none => "0"

/-- "k:v.v;k:v" → [(k,[v,v]),(k,[v])]; "-" → [] -/
def ntcs (s : String) : Option (List (Nat × List Nat)) :=
  if s == "-" then some [] else
  (s.splitOn ";").mapM fun p => match p.splitOn ":" with
    | [k, vs] => do
        let k ← k.toNat?
        let vs ← (if vs == "" then some [] else (vs.splitOn ".").mapM String.toNat?)
        pure (k, vs)
    | _ => none

def handle (line : String) : String :=
  match words line with
  | ["cend", h, ins, es] => match h.toNat?, csv ins, pairs ">" es with
    | some h, some ins, some es => toString (computeEnd (sucsOf es) h ins)
    | _, _, _ => "bad-op"
  | ["loopn", l, m] => match csv l, pairs "=" m with
    | some l, some m => showCsv (loopNodesFixed (lookupD m) l)
    | _, _ => "bad-op"
  | ["decl", a] => match csv a with
    | some a => showCsv (addAll a) | none => "bad-op"
  | ["used", a] => match csv a with
    | some a => showCsv (usedVarsFixed a) | none => "bad-op"
  | ["merge", n1, n2, l1, l2] => match n1.toNat?, n2.toNat?, csv l1, csv l2 with
    | some n1, some n2, some l1, some l2 => showCsv (collectFixed l1 l2 n1 n2)
    | _, _, _, _ => "bad-op"
  | ["msuccs", n1, n2, s1, s2, m] => match n1.toNat?, n2.toNat?, csv s1, csv s2, pairs "=" m with
    | some n1, some n2, some s1, some s2, some m => showCsv (mergeSuccsFixed (lookupD m) s1 s2 n1 n2)
    | _, _, _, _, _ => "bad-op"
  | ["cdom", par, ns] => match csv par, csv ns with
    | some par, some ns =>
      (match popFold (commonDom (fun n => par.getD n 0) (2 * par.length + 4)) ns with
       | some r => toString r | none => "none")
    | _, _ => "bad-op"
  | ["cdomg", par, nums, ns] => match pairs "=" par, pairs "=" nums, csv ns with
    | some par, some nums, some ns =>
      let idom := fun n => (par.find? (fun p => p.1 == n)).map Prod.snd
      let fuel := 2 * (nums.foldl (fun m p => max m p.2) 0) + 2
      (match popFoldM (commonDomG idom (lookupD nums) fuel) ns with
       | some r => toString r | none => "err")
    | _, _, _ => "bad-op"
  | ["lfollow", nodes, nums, loop] => match lnodes nodes, pairs "=" nums, csv loop with
    | some nodes, some nums, some loop =>
      let info := fun n => match nodes.find? (fun p => p.1 == n) with
        | some p => p.2 | none => (⟨false, 0, 0⟩ : LNode)
      (match loopFollowEndless info (lookupD nums) loop with
       | some r => toString r | none => "none")
    | _, _, _ => "bad-op"
  | ["prior", i, vs] => match i.toNat?, csv vs with
    | some i, some vs => toString (priorDef (Int.ofNat i) (vs.map Int.ofNat))
    | _, _ => "bad-op"
  | ["post", es, entry] => match pairs ">" es, entry.toNat? with
    | some es, some entry => showCsv (postOrder (sucsOf es) entry (4 * es.length + 8))
    | _, _ => "bad-op"
  | ["intv", es, nodes, entry] => match pairs ">" es, csv nodes, entry.toNat? with
    | some es, some nodes, some entry =>
      -- rooted graph: `graph.rpo` is the reverse post order (model `postOrder`, tied by stream site-post)
      let order := ((postOrder (sucsOf es) entry (4 * es.length + 8)).reverse).drop 1
      let preds := fun n => (es.filter (fun e => e.2 == n)).map Prod.fst
      (match Intervals.intervals preds order nodes entry with
       | some r => ";".intercalate (r.map fun p => toString p.1 ++ ":" ++ ".".intercalate (p.2.map toString))
       | none => "fuel")
    | _, _, _ => "bad-op"
  | ["dseq", es, nodes, entry] => match pairs ">" es, csv nodes, entry.toNat? with
    | some es, some nodes, some entry =>
      -- level 0 as in `intv`; the derived levels use the `compute_rpo` model of C19 (Model/Rpo.lean)
      let order := ((postOrder (sucsOf es) entry (4 * es.length + 8)).reverse).drop 1
      let preds := fun n => (es.filter (fun e => e.2 == n)).map Prod.fst
      (match DerivedSeq.derivedSequence ⟨preds, order, nodes, entry⟩ with
       | some steps => " / ".intercalate (steps.map fun st =>
           let hs := st.heads.map Prod.fst
           ";".intercalate (st.heads.map fun p => toString p.1 ++ ":" ++ ".".intercalate (p.2.map toString))
           ++ " E " ++ (if st.recs.isEmpty then "-" else ",".intercalate (st.recs.map fun r => toString r.1 ++ ">" ++ toString r.2))
           ++ " P " ++ ";".intercalate ((List.range hs.length).map fun i => showCsv (DerivedSeq.intervalPreds hs st.recs i))
           ++ " R " ++ showCsv st.rpo
           ++ " e " ++ toString st.entry)
       | none => "fuel")
    | _, _, _ => "bad-op"
  | ["ifst", es, entry, conds, idoms, nums] => match pairs ">" es, entry.toNat?, csv conds, pairs "=" idoms, pairs "=" nums with
    | some es, some entry, some conds, some idoms, some nums =>
      -- `graph.post_order()` by the model tied in stream site-post; the set `unresolved` enumerated in insertion order
      let post := postOrder (sucsOf es) entry (4 * es.length + 8)
      let nrev := fun n => (es.filter (fun e => e.2 == n)).length
      let st := IfStruct.ifStruct id post (fun n => conds.contains n) idoms nrev (lookupD nums)
      let top := (nums.foldl (fun m p => max m p.1) entry) + 1
      let fol := (List.range top).filterMap fun n => (st.follow n).map fun f => toString n ++ ">" ++ toString f
      (if fol.isEmpty then "-" else ",".intercalate fol) ++ " U " ++
        showCsv ((List.range top).filter fun n => st.unresolved.contains n)
    | _, _, _, _, _ => "bad-op"
  | ["swst", es, entry, sws, idoms, nums] => match pairs ">" es, entry.toNat?, csv sws, pairs "=" idoms, pairs "=" nums with
    | some es, some entry, some sws, some idoms, some nums =>
      -- idoms value 0 = None (node ids start at 1)
      let post := postOrder (sucsOf es) entry (4 * es.length + 8)
      let npreds := fun n => (es.filter (fun e => e.2 == n)).length
      let idomsO : List (Nat × Option Nat) := idoms.map fun p => (p.1, if p.2 == 0 then none else some p.2)
      let fuel := 2 * (nums.foldl (fun m p => max m p.2) 0) + 2
      let top := (nums.foldl (fun m p => max m p.1) entry) + 1
      (match SwitchStruct.switchStruct id post (fun n => sws.contains n) (sucsOf es) idomsO npreds (lookupD nums) fuel with
       | none => "err"
       | some st =>
         -- the set `unresolved` is local to switch_struct: only the follow attributes are observable
         let fol := (List.range top).filterMap fun n => (st.follow n).map fun f => toString n ++ ">" ++ toString f
         (if fol.isEmpty then "-" else ",".intercalate fol))
    | _, _, _, _, _ => "bad-op"
  | ["uattr", kind, latch, fol, ln, tf, cases, ntc, nmap] =>
    match latch.toNat?, csv fol, csv ln, csv tf, csv cases, ntcs ntc, pairs "=" nmap with
    | some latch, some fol, some ln, some [t, f], some cases, some ntc, some nmap =>
      let k := if kind == "c" then LoopBodies.Kind.cond else if kind == "s" then LoopBodies.Kind.switch else LoopBodies.Kind.base
      let r := LoopBodies.updateAttr k nmap ⟨optN latch, fol.map optN, ln, optN t, optN f, cases, ntc⟩
      showOpt r.latch ++ "|" ++ ",".intercalate (r.follow.map showOpt) ++ "|" ++ showCsv r.loopNodes ++ "|" ++
        showOpt r.tru ++ "," ++ showOpt r.fls ++ "|" ++ showCsv r.cases ++ "|" ++
        (if r.nodeToCase.isEmpty then "-" else ";".intercalate (r.nodeToCase.map fun p =>
          toString p.1 ++ ":" ++ ".".intercalate (p.2.map toString)))
    | _, _, _, _, _, _, _ => "bad-op"
  | _ => "bad-op"

def main : IO Unit := runMain handle
