import AgVerif.Model.Proto
import AgVerif.Model.TypeName
import AgVerif.Spec.TypeName
open AgVerif AgVerif.Proto AgVerif.TypeName

/-- "4c.61.3b" → ['L','a',';']; "-" → [] ; code points outside the scalar range are refused -/
def parseChars (s : String) : Option (List Char) :=
  if s == "-" then some [] else
  (s.splitOn ".").mapM fun w =>
    if w.isEmpty then none else do
      let n ← w.toList.foldlM (fun acc c => (hexDigit c).map (acc * 16 + ·)) 0
      if n.isValidChar then some (Char.ofNat n) else none

def showChars (l : List Char) : String :=
  if l.isEmpty then "-" else ".".intercalate (l.map fun c => String.ofList (Nat.toDigits 16 c.toNat))

def showRes : Except Err (List Char) → String
  | .ok r => "ok " ++ showChars r
  | .error .indexError => "index-error"
  | .error .recursion => "recursion"

def parseSize (s : String) : Option (Option Nat) :=
  if s == "none" then some none else s.toNat?.map some

def handle (line : String) : String :=
  match words line with
  | ["util", d, sz] => match parseChars d, parseSize sz with
    | some a, some n => showRes (utilGetType a n) | _, _ => "bad-op"
  | ["dex", d, sz] => match parseChars d, parseSize sz with
    | some a, some n => showRes (dexGetType a n) | _, _ => "bad-op"
  | ["wf", d] => match parseChars d with               -- the specification's reading of a descriptor
    | some a => (match Spec.TypeName.parseDesc a with
      | some t => "wf " ++ showChars (Spec.TypeName.javaName t) ++ " " ++
          (match Spec.TypeName.shortName t with | some s => showChars s | none => "none")
      | none => "not-wf")
    | none => "bad-op"
  | _ => "bad-op"

def main : IO Unit := runMain handle
