import AgVerif.Model.Proto
import AgVerif.Model.Arsc
import AgVerif.Model.Resolve
open AgVerif AgVerif.Proto AgVerif.Arsc

/-
Line protocol (C28):  arsc <what> <hex of the resources.arsc file>
  pkgs      ok <name>…                                   get_packages_names()
  locales   ok <pkg>=<locale>,<locale>…  …               get_locales(p) for every package
  types     ok <pkg>/<locale>=<type>,…  …                get_types(p, l) for every package and locale
  values    ok <rid>:<cfg words joined by .>=<entry>|… … resource_values (get_res_configs(rid) for every id)
            <entry> := <flags>.<key name>.S<t>.<d> | <flags>.<key>.c<t>.<d> | <flags>.<key>.C<parent>(.<name>.<t>.<d>)*
  keys      ok <pkg>/<type>/<key>=<rid> …                 get_res_id_by_key for every stored key
  strings   ok <pkg>/<locale>/<name>=<value> …            the lists get_string searches
  resolved  ok <rid>/<w>=<outcome tokens joined by ,> …   get_resolved_res_configs(rid, None | default config)
  l1        ok <flags> <count>: <off>.<idx>,…             arsc l1 <flags> <count> <hex>: the entry-offset array decoder alone
all names/strings are hex of UTF-8; `err` = the real code raises.
-/

def h (bs : List Nat) : String := toHex bs

def showEntry (pk? : Option Package) (a : Ate) : String :=
  let key := match pk? with
    | some pk => (match keyName pk a with | some k => h k | none => "err")
    | none => "?"
  let body := match a.e.body with
    | .simple v => s!"S{v.1}.{v.2}"
    | .compact t d => s!"c{t}.{d}"
    | .complex p items => s!"C{p}" ++ String.join (items.map fun (it : Nat × ResValue) => s!".{it.1}.{it.2.1}.{it.2.2}")
  s!"{a.e.flags}.{key}.{body}"

def pkgOfRid (ps : Parsed) (rid : Nat) : Option Package :=
  -- the package whose chunk holds an entry of this id (for the key pool)
  ps.packages.find? fun pk => pk.chunks.any fun tc => tc.ates.any fun a => a.resId == rid

def showOutcome : Resolve.Outcome → String
  | .ok ts => ",".intercalate ("ok" :: ts.map fun
      | .pair c s => s!"P{c}:{s}"
      | .bare s => s!"B{s}"
      | .opn c => s!"O{c}"
      | .cls => "X")
  | .valueError => "value-error"
  | .recursion => "recursion"

def query (what : String) (ps : Parsed) : String :=
  if what == "pkgs" then " ".intercalate ("ok" :: (packagesNames ps).map h) else
  match analyse ps with
  | none => "err"
  | some an =>
    if what == "locales" then
      " ".intercalate ("ok" :: (packagesNames ps).map fun p =>
        match getLocales an p with
        | some ls => s!"{h p}=" ++ ",".intercalate (ls.map h)
        | none => s!"{h p}=err")
    else if what == "types" then
      " ".intercalate ("ok" :: (packagesNames ps).flatMap fun p =>
        ((getLocales an p).getD []).map fun l =>
          match getTypes an p l with
          | some ts => s!"{h p}/{h l}=" ++ ",".intercalate (ts.map h)
          | none => s!"{h p}/{h l}=err")
    else if what == "values" then
      " ".intercalate ("ok" :: an.resourceValues.map fun (rid, opts) =>
        let pk := pkgOfRid ps rid
        s!"{rid}:" ++ "|".intercalate (opts.map fun (c, a) =>
          ".".intercalate (c.map toString) ++ "=" ++ showEntry pk a))
    else if what == "keys" then
      " ".intercalate ("ok" :: an.resourceKeys.map fun ((p, t, k), rid) => s!"{h p}/{h t}/{h k}={rid}")
    else if what == "strings" then
      " ".intercalate ("ok" :: an.values.flatMap fun (p, pv) => pv.flatMap fun (l, lv) =>
        lv.strings.map fun (n, v) => s!"{h p}/{h l}/{h n}={h v}")
    else if what == "resolved" then
      match resolveTable ps an with
      | none => "err"
      | some t =>
        " ".intercalate ("ok" :: an.resourceValues.flatMap fun (rid, _) =>
          [s!"{rid}/-=" ++ showOutcome (Resolve.resolveV t none rid),
           s!"{rid}/0=" ++ showOutcome (Resolve.resolveV t (some 0) rid)])
    else "bad-op"

def handle (line : String) : String :=
  match words line with
  | ["arsc", "l1", flags, count, hx] =>
    match flags.toNat?, count.toNat?, parseHex hx with
    | some f, some c, some bs =>
      (match entryArray f c bs with
       | some (es, rest) => s!"ok {rest.length}: " ++ ",".intercalate (es.map fun e => s!"{e.1}.{e.2}")
       | none => "err")
    | _, _, _ => "bad-op"
  | ["arsc", what, hx] =>
    match parseHex hx with
    | none => "bad-op"
    | some bs =>
      match parseTable bs.toArray with
      | none => "err"
      | some ps => query what ps
  | _ => "bad-op"

def main : IO Unit := runMain handle
