import AgVerif.Model.Proto
import AgVerif.Model.DexFile
import AgVerif.Model.DexFileX
open AgVerif AgVerif.Proto AgVerif.DexFile

def sep (s : String) (l : List String) : String := s.intercalate l

def showCode : Option Code → String
  | none => "-"
  | some c => s!"{c.hdr.regs}.{c.hdr.ins}.{c.hdr.outs}.{c.hdr.tries}.{c.hdr.debugOff}.{c.hdr.insnsSize}.{toHex c.insns}"

def showField (f : FieldV) : String :=
  s!"{f.idx}:{toHex f.cls}:{toHex f.name}:{toHex f.typ}:{f.flags}"

def showMethod (m : MethodV) : String :=
  s!"{m.idx}:{toHex m.cls}:{toHex m.name}:{toHex m.desc}:{m.flags}:{showCode m.code}"

def showClass (c : ClassV) : String :=
  let src := match c.src with | none => "~" | some s => toHex s
  sep ";" [toHex c.name, toHex c.super, sep "," (c.ifaces.map toHex), toString c.flags, src,
    "F(" ++ sep "/" (c.sf.map showField) ++ ")", "F(" ++ sep "/" (c.inf.map showField) ++ ")",
    "M(" ++ sep "/" (c.dm.map showMethod) ++ ")", "M(" ++ sep "/" (c.vm.map showMethod) ++ ")"]

def mref : Option MethodV → String
  | none => "none"
  | some m => s!"{m.idx}.{m.flags}"
def fref : Option FieldV → String
  | none => "none"
  | some f => s!"{f.idx}.{f.flags}"
def cref : Option ClassV → String
  | none => "none"
  | some c => s!"{c.flags}.{c.methods.length}.{c.fields.length}"

/-- the query with the same concatenation but a different triple: one byte moves from the
    descriptor to the name -/
def shift (t : Bytes × Bytes × Bytes) : Bytes × Bytes × Bytes :=
  (t.1, t.2.1 ++ t.2.2.take 1, t.2.2.drop 1)

def showLookups (d : DexV) : String :=
  let ms := allMethods d
  let fs := allFields d
  sep " " [
    "gc=" ++ sep "," (d.classes.map fun c => cref (getClass d c.name)),
    "md=" ++ sep "," (ms.map fun m => mref (getEncodedMethodDescriptor d m.cls m.name m.desc)),
    "fd=" ++ sep "," (fs.map fun f => fref (getEncodedFieldDescriptor d f.cls f.name f.typ)),
    "ms=" ++ sep "," (ms.map fun m => let t := shift m.triple; mref (getEncodedMethodDescriptor d t.1 t.2.1 t.2.2)),
    "fs=" ++ sep "," (fs.map fun f => let t := shift f.triple; fref (getEncodedFieldDescriptor d t.1 t.2.1 t.2.2)),
    "mi=" ++ sep "," (ms.map fun m => mref (getEncodedMethodByIdx d m.idx)),
    "cm=" ++ sep "," (ms.map fun m => mref (getEncodedMethodsClassMethod d m.cls m.name)),
    "mc=" ++ sep "," (d.classes.map fun c => sep "+" ((getEncodedMethodsClass d c.name).map fun m => mref (some m))),
    "fc=" ++ sep "," (d.classes.map fun c => sep "+" ((getEncodedFieldsClass d c.name).map fun f => fref (some f))),
    "mn=" ++ sep "," (ms.map fun m => sep "+" ((getEncodedMethodNamed d m.name).map fun x => mref (some x))),
    "fn=" ++ sep "," (fs.map fun f => sep "+" ((getEncodedFieldNamed d f.name).map fun x => fref (some x)))]

def showDex (d : DexV) : String :=
  "ok S[" ++ sep "," (d.strings.map toHex) ++ "] C[" ++ sep "|" (d.classes.map showClass) ++ "] L[" ++
    showLookups d ++ "]"


/-! extended view (Model/DexFileX.lean): static values, init values, annotations -/

def strHex (s : String) : String := toHex (s.toList.map Char.toNat)

mutual
def showValue : AgVerif.EncodedValue.Value → String
  | .int vt v => s!"i{vt}:{v}"
  | .float b => s!"f:{b}"
  | .double b => s!"d:{b}"
  | .ref vt l => s!"r{vt}:" ++ sep "," (l.map strHex)
  | .array vs => "a[" ++ sep ";" (showValues vs) ++ "]"
  | .annotation t es => s!"n{t}" ++ "{" ++ sep ";" (showElems es) ++ "}"
  | .null => "z"
  | .bool b => if b then "b1" else "b0"
  | .unknown vt => s!"u{vt}"
def showValues : List AgVerif.EncodedValue.Value → List String
  | [] => []
  | v :: vs => showValue v :: showValues vs
def showElems : List (Nat × AgVerif.EncodedValue.Value) → List String
  | [] => []
  | (n, v) :: es => (s!"{n}=" ++ showValue v) :: showElems es
end

def showPairs (l : List (Nat × Nat)) : String := sep "," (l.map fun p => s!"{p.1}>{p.2}")

def showAnnDir : Option AnnDir → String
  | none => "-"
  | some d => s!"{d.classOff}.f:{showPairs d.fields}.m:{showPairs d.methods}.p:{showPairs d.params}"

def showClassX (c : ClassVX) : String :=
  let ini := sep "/" (c.inits.map fun o => match o with | none => "-" | some v => showValue v)
  let st := match c.statics with | none => "-" | some vs => sep ";" (showValues vs)
  s!"I({ini}) S({st}) D({showAnnDir c.annDir}) A({sep "," (c.annotations.map toHex)})"

def showDexX (d : DexVX) : String :=
  showDex d.base ++ " X[" ++ sep "|" (d.classes.map showClassX) ++ "]"


def showDbgOp (o : DbgOp) : String := s!"{o.op}:" ++ sep "," (o.args.map toString)
def showDebug (d : DebugInfo) : String :=
  s!"{d.lineStart} [" ++ sep "," (d.paramNames.map toString) ++ "] " ++ sep ";" (d.ops.map showDbgOp)

def showEncF (l : List EncField) : String := sep "/" (l.map fun f => s!"{f.idx}:{f.flags}")
def showEncM (l : List EncMethod) : String := sep "/" (l.map fun m => s!"{m.idx}:{m.flags}:{m.codeOff}")

def handle (line : String) : String :=
  match words line with
  | ["dex", h] => match parseHex h with
    | some bs => (match parseDex bs with
      | .ok d => showDex d
      | .error e => s!"err {e}")
    | none => "bad-op"
  | ["dexx", h] => match parseHex h with
    | some bs => (match parseDexX bs with
      | .ok d => showDexX d
      | .error e => s!"err {e}")
    | none => "bad-op"
  | ["debuginfo", h] => match parseHex h with
    | some bs => (match decDebugInfo bs with
      | some (d, r) => s!"ok {bs.length - r.length} {showDebug d}"
      | none => "err")
    | none => "bad-op"
  | ["dexdbg", h] => match parseHex h with
    | some bs => (match parseDex bs with
      | .ok d => "ok " ++ sep "|" ((debugOfView bs d).map fun p => s!"{p.1}=" ++ (match p.2 with | some x => showDebug x | none => "err"))
      | .error e => s!"err {e}")
    | none => "bad-op"
  | ["classdata", h] => match parseHex h with
    | some bs => (match decClassData bs with
      | some (c, r) => s!"ok {bs.length - r.length} ({showEncF c.sf}) ({showEncF c.inf}) ({showEncM c.dm}) ({showEncM c.vm})"
      | none => "err")
    | none => "bad-op"
  | ["typelist", h] => match parseHex h with
    | some bs => (match decTypeList bs with
      | some (l, r) => s!"ok {bs.length - r.length} {sep "," (l.map toString)}"
      | none => "err")
    | none => "bad-op"
  | ["code", h] => match parseHex h with
    | some bs => (match decCode bs with
      | some (c, r) => s!"ok {bs.length - r.length} {showCode (some c)}"
      | none => "err")
    | none => "bad-op"
  | ["ids", h] => match parseHex h with
    | some bs =>
      let p := match decProtoId bs with | some (x, _) => s!"{x.shorty}.{x.ret}.{x.paramsOff}" | none => "err"
      let f := match decFieldId bs with | some (x, _) => s!"{x.cls}.{x.typ}.{x.name}" | none => "err"
      let m := match decMethodId bs with | some (x, _) => s!"{x.cls}.{x.proto}.{x.name}" | none => "err"
      let c := match decClassDef bs with
        | some (x, _) => s!"{x.cls}.{x.access}.{x.super}.{x.ifacesOff}.{x.srcIdx}.{x.annOff}.{x.dataOff}.{x.staticOff}"
        | none => "err"
      s!"{p} {f} {m} {c}"
    | none => "bad-op"
  | _ => "bad-op"

def main : IO Unit := runMain handle
