import AgVerif.Model.Proto
import AgVerif.Model.SigBlock
open AgVerif AgVerif.Proto AgVerif.SigBlock

/-
Line protocol of drv_C33 (one reply line per request):
  file <hex>     whole APK bytes      -> flags=… err=… dup=… blocks=… v2=… v3=… v31=…
  seq <hex>      parse_signatures_or_digests -> ok alg:hex,… | err:<e>
  value2 <hex> / value3 <hex>   parse one v2 / v3 value -> ok S[…]… | err:<e>
-/

def errName : Err → String
  | .struct => "struct" | .broken => "broken" | .overflow => "overflow"
  | .missing => "missing" | .fuel => "fuel"

def showAlgSeq (xs : List (Nat × Bytes)) : String :=
  ",".intercalate (xs.map fun (a, d) => s!"{a}:{toHex d}")

def showSdk : Option (Nat × Nat) → String
  | none => "-"
  | some (a, b) => s!"{a},{b}"

def showSigner (s : Signer) : String :=
  "S[d=" ++ showAlgSeq s.signed.digests ++ "|c=" ++ ",".intercalate (s.signed.certs.map toHex) ++
  "|a=" ++ toHex s.signed.attrs ++ "|m=" ++ showSdk s.signed.sdk ++ "|sd=" ++ toHex s.signed.bytes ++
  "|M=" ++ showSdk s.sdk ++ "|s=" ++ showAlgSeq s.sigs ++ "|k=" ++ toHex s.pubkey ++
  "|b=" ++ toHex s.bytes ++ "]"

def showSigners : Except Err (List Signer) → String
  | .error e => "err:" ++ errName e
  | .ok ss => "ok" ++ String.join (ss.map showSigner)

def showB (b : Bool) : String := if b then "1" else "0"

def showFlags : Option (Bool × Bool × Bool) → String
  | none => "NNN"
  | some (a, b, c) => showB a ++ showB b ++ showB c

def showOuter (o : Outer) : String :=
  "flags=" ++ showFlags o.flags ++ " err=" ++ (match o.err with | none => "-" | some e => errName e) ++
  " dup=" ++ showB (hasDuplicate o) ++
  " blocks=" ++ ",".intercalate (o.blocks.map fun b => s!"{b.id}:{showB b.dup}:{toHex b.data}")

def handle (line : String) : String :=
  match words line with
  | ["file", h] => match parseHex h with
    | some f =>
      showOuter (parseOuter f) ++ " v2=" ++ showSigners (parseScheme .v2 f) ++
        " v3=" ++ showSigners (parseScheme .v3 f) ++ " v31=" ++ showSigners (parseScheme .v31 f)
    | none => "bad-op"
  | ["seq", h] => match parseHex h with
    | some b => (match parseSeq b with
      | .ok xs => "ok " ++ showAlgSeq xs
      | .error e => "err:" ++ errName e)
    | none => "bad-op"
  | ["value2", h] => match parseHex h with
    | some b => showSigners (parseValue false b) | none => "bad-op"
  | ["value3", h] => match parseHex h with
    | some b => showSigners (parseValue true b) | none => "bad-op"
  | _ => "bad-op"

def main : IO Unit := runMain handle
