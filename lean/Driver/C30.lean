import AgVerif.Model.Proto
import AgVerif.Model.Locale
open AgVerif AgVerif.Proto AgVerif.Locale

/-- strings travel as comma-separated decimal code points, `.` for the empty string -/
def parseStr (s : String) : Option (List Nat) :=
  if s == "." then some [] else (s.splitOn ",").mapM String.toNat?

def showStr (s : List Nat) : String :=
  if s.isEmpty then "." else ",".intercalate (s.map toString)

def handle (line : String) : String :=
  match words line with
  | ["unpack", a, b, base] =>
    match a.toNat?, b.toNat?, base.toNat? with
    | some c0, some c1, some bs => showStr (unpack c0 c1 bs)
    | _, _, _ => "bad-op"
  | ["pack", s, base] =>
    match parseStr s, base.toNat? with
    | some cs, some bs => let r := pack cs bs; s!"{r.1} {r.2}"
    | _, _ => "bad-op"
  | ["set", s] =>
    match parseStr s with
    | some cs => toString (setLocale cs)
    | none => "bad-op"
  | ["get", w] =>
    match w.toNat? with
    | some loc => showStr (getLocale loc)
    | none => "bad-op"
  | _ => "bad-op"

def main : IO Unit := runMain handle
