import AgVerif.Model.Proto
import AgVerif.Model.ApiLevelRepo
open AgVerif AgVerif.Proto AgVerif.ApiLevel

/-- `none` | `i:<int>` | `s:<string without blanks>` -/
def parseApi (t : String) : Option Api :=
  if t == "none" then some Api.none
  else if t.startsWith "i:" then (t.drop 2).toInt?.map Api.int
  else if t.startsWith "s:" then some (Api.str (t.drop 2).toString)
  else none

def showRes : Res → String
  | .perm l => s!"perm {l}"
  | .map n => s!"map {n}"
  | .empty => "empty"
  | .error e => s!"err {e}"

def showPick : Pick → String
  | .level l => s!"level {l}"
  | .noLevels => "empty"
  | .valueError => "err ValueError"
  | .recursion => "err RecursionError"

def parseRes (t : String) : Option Resource :=
  if t == "perm" then some .perms else if t == "map" then some .maps else none

def handle (line : String) : String :=
  match words line with
  | ["module", r, a] => match parseRes r, parseApi a with
    | some r, some a => showRes (chooseModule genRepo r a) | _, _ => "bad-op"
  | ["cmodule", d, r, a] => match d.toInt?, parseRes r, parseApi a with
    | some d, some r, some a => showRes (chooseModule { genRepo with defaultApi := d } r a) | _, _, _ => "bad-op"
  | ["oldmodule", r, a] => match parseRes r, parseApi a with
    | some r, some a => showRes (chooseModuleOld genRepo r a) | _, _ => "bad-op"
  | ["loadperm", a] => match parseApi a with
    | some a => showRes (loadPermissions genRepo a) | none => "bad-op"
  | ["loadmap", a] => match parseApi a with
    | some a => showRes (loadMappings genRepo a) | none => "bad-op"
  | ["level", n] => match n.toInt? with
    | some n => showPick (chooseLevel genRepo.permFiles genRepo.permLevels n) | none => "bad-op"
  | _ => "bad-op"

def main : IO Unit := runMain handle
