import AgVerif.Model.Proto
import AgVerif.Model.Translate
import AgVerif.Model.LitCtx
open AgVerif AgVerif.Proto AgVerif.Translate

/-- `eval <opcode> <dom> <lit> <i1> <i2> <i3> <l1> <l2> <l3>`:
    the Java text of the translation, its outcome under the JLS model, the outcome of the Dalvik specification -/
def showJ : Except JavaSem.Err JavaSem.Val → String
  | .error .compile => "rejected"
  | .error .arith => "AE"
  | .ok (.bool b) => if b then "taken" else "not-taken"
  | .ok v => match regVal v with
    | some d => showDVal d
    | none => "rejected"

def handle (line : String) : String :=
  match words line with
  | ["eval", op, dom, lit, i1, i2, i3, l1, l2, l3] =>
    match op.toNat?, lit.toInt?, i1.toInt?, i2.toInt?, i3.toInt?, l1.toInt?, l2.toInt?, l3.toInt? with
    | some op, some lit, some i1, some i2, some i3, some l1, some l2, some l3 =>
      match AgVerif.Gen.Translate.rows.find? (fun r => r.opcode == op && r.dom == dom), DalvikSem.form op with
      | some r, some fm =>
        let ρ : DalvikSem.Env :=
          ⟨fun n => BitVec.ofInt 32 (if n = 1 then i1 else if n = 2 then i2 else i3),
           fun n => BitVec.ofInt 64 (if n = 1 then l1 else if n = 2 then l2 else l3)⟩
        (match coreOf r with
         | some c =>
           "text=" ++ printExpr (exprOf fm lit c) ++ " | java=" ++ showOutcome (javaOutcome fm c ρ lit) ++
             " | dalvik=" ++ showOutcome (some (DalvikSem.step fm ρ lit))
         | none => "no-core")
      | _, _ => "no-row"
    | _, _, _, _, _, _, _, _ => "bad-op"
  | ["ctx", fam, op, aux, v, i1, l1] =>
    -- `ctx <family> <op or _> <aux> <constant> <int value of v1> <long value of v1>`: text and JLS outcome of a writer context
    match v.toInt?, i1.toInt?, l1.toInt? with
    | some v, some i1, some l1 =>
      (match ctxExpr fam (if op == "_" then "" else op) aux v with
       | some (e, _) =>
         let ρ : JavaSem.Env := ⟨fun _ => BitVec.ofInt 32 i1, fun _ => BitVec.ofInt 64 l1⟩
         "text=" ++ printExpr e ++ " | java=" ++ showJ (JavaSem.eval ρ e)
       | none => "no-context")
    | _, _, _ => "bad-op"
  | ["ctx2", shape, op1, op2, ty, c1, c2, i1, l1] =>
    match c1.toInt?, c2.toInt?, i1.toInt?, l1.toInt? with
    | some c1, some c2, some i1, some l1 =>
      (match ctxExpr2 shape op1 op2 ty c1 c2 with
       | some e =>
         let ρ : JavaSem.Env := ⟨fun _ => BitVec.ofInt 32 i1, fun _ => BitVec.ofInt 64 l1⟩
         "text=" ++ printExpr e ++ " | java=" ++ showJ (JavaSem.eval ρ e)
       | none => "no-context")
    | _, _, _, _ => "bad-op"
  | _ => "bad-op"

def main : IO Unit := runMain handle
