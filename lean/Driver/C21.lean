import AgVerif.Model.Proto
import AgVerif.Model.Translate
import AgVerif.Model.LitCtx
import AgVerif.Model.JExpr
import AgVerif.Model.JExprSem
import AgVerif.Model.Propagate
open AgVerif AgVerif.Proto AgVerif.Translate

/-- `eval <opcode> <dom> <lit> <i1> <i2> <i3> <l1> <l2> <l3>`:
    the Java text of the translation, its outcome under the JLS model, the outcome of the Dalvik specification -/
def showJ : Except JavaSem.Err JavaSem.Val → String
  | .error .compile => "rejected"
  | .error .arith => "AE"
  | .ok (.bool b) => if b then "taken" else "not-taken"
  | .ok v => match regVal v with
    | some d => showDVal d
    | none => "rejected"

/-! `jexpr <tree>`: the IR expression tree in prefix form (one word per field) -/
namespace JX
open AgVerif.JExpr

def binOf (s : String) : Option BinOp := BinOp.all.find? (fun o => o.text == s)
def primOf (s : String) : Option Prim := Prim.all.find? (fun o => o.text == s)
def qn (s : String) : Option (String × List String) :=
  match s.splitOn "." with
  | h :: t => some (h, t)
  | [] => none

mutual
def dec : Nat → List String → Option (DExpr × List String)
  | 0, _ => none
  | f + 1, ws =>
    match ws with
    | "const" :: v :: l :: r => v.toInt?.map fun v => (.const v (l == "1"), r)
    | "var" :: n :: r => some (.var n, r)
    | "param" :: n :: r => some (.param n, r)
    | "this" :: r => some (.this, r)
    | "base" :: c :: r => (qn c).map fun (h, t) => (.baseClass h t, r)
    | "bin" :: o :: r => do
      let o ← binOf o; let (a, r) ← dec f r; let (b, r) ← dec f r; pure (.bin o a b, r)
    | "cond" :: o :: r => do
      let o ← binOf o; let (a, r) ← dec f r; let (b, r) ← dec f r; pure (.cond o a b, r)
    | "scc" :: i :: r => do
      let (a, r) ← dec f r; let (b, r) ← dec f r; pure (.scc (i == "&&") a b, r)
    | "cmp" :: l :: r => do
      let (a, r) ← dec f r; let (b, r) ← dec f r; pure (.cmp (l == "1") a b, r)
    | "condzcmp" :: o :: r => do
      let o ← binOf o; let (a, r) ← dec f r; let (b, r) ← dec f r; pure (.condzCmp o a b, r)
    | "condz" :: o :: k :: r => do
      let o ← binOf o; let (a, r) ← dec f r
      (match k with
       | "bool" => some (.condzBool o a, r) | "num" => some (.condzNum o a, r) | "ref" => some (.condzRef o a, r)
       | _ => none)
    | "un" :: o :: r => do
      let o ← (match o with | "-" => some DUnOp.neg | "~" => some .not | _ => none)
      let (a, r) ← dec f r; pure (.un o a, r)
    | "cast" :: t :: r => do
      let t ← primOf t; let (a, r) ← dec f r; pure (.cast t a, r)
    | "ccast" :: c :: r => do
      let (h, t) ← qn c; let (a, r) ← dec f r; pure (.checkCast h t a, r)
    | "getf" :: n :: r => do
      let (a, r) ← dec f r; pure (.getField a n, r)
    | "gets" :: c :: n :: r => (qn c).map fun (h, t) => (.getStatic h t n, r)
    | "aload" :: r => do
      let (a, r) ← dec f r; let (i, r) ← dec f r; pure (.aload a i, r)
    | "alen" :: r => do
      let (a, r) ← dec f r; pure (.alength a, r)
    | "newarr" :: t :: r => do
      let t ← (match primOf t with
        | some p => some (JType.prim p)
        | none => (qn t).map fun (h, tl) => JType.ref (h :: tl))
      let (a, r) ← dec f r; pure (.newArray t a, r)
    | "invoke" :: n :: k :: r => do
      let k ← k.toNat?; let (b, r) ← dec f r; let (as, r) ← decList f k r; pure (.invoke b n as, r)
    | "new" :: c :: k :: r => do
      let (h, t) ← qn c; let k ← k.toNat?; let (as, r) ← decList f k r; pure (.newObj h t as, r)
    | _ => none

def decList : Nat → Nat → List String → Option (List DExpr × List String)
  | 0, _, _ => none
  | _ + 1, 0, r => some ([], r)
  | f + 1, k + 1, r => do
    let (a, r) ← dec f r; let (as, r) ← decList f k r; pure (a :: as, r)
end

/-- lexeme with its kind: i identifier, n number, k keyword, o operator/separator -/
def tokText : JExpr.Tok → String
  | .id s => "i:" ++ s
  | .int n => "n:" ++ toString n
  | .long n => "n:" ++ toString n ++ "L"
  | .kwNew => "k:new" | .kwThis => "k:this" | .kwNull => "k:null"
  | .prim p => "k:" ++ p.text
  | t => "o:" ++ t.text

def toksText (ts : List JExpr.Tok) : String := " ".intercalate (ts.map tokText)

def tyText : JType → String
  | .prim p => p.text
  | .ref q => ".".intercalate q

mutual
/-- the Java tree as an S-expression (same notation as the javac tree dump of harness/c21_jexpr.py) -/
def treeText : JExpr → String
  | .intLit n => "(int " ++ toString n ++ ")"
  | .longLit n => "(long " ++ toString n ++ ")"
  | .null => "null"
  | .this => "this"
  | .name s => "(id " ++ s ++ ")"
  | .paren e => "(paren " ++ treeText e ++ ")"
  | .select e f => "(sel " ++ treeText e ++ " " ++ f ++ ")"
  | .index a i => "(idx " ++ treeText a ++ " " ++ treeText i ++ ")"
  | .call fn as => "(call " ++ treeText fn ++ treeTexts as ++ ")"
  | .newObj q as => "(new " ++ ".".intercalate q ++ treeTexts as ++ ")"
  | .newArr t n => "(newarr " ++ tyText t ++ " " ++ treeText n ++ ")"
  | .unary o e => "(un " ++ (match o with | .neg => "-" | .plus => "+" | .compl => "~" | .not => "!") ++ " " ++ treeText e ++ ")"
  | .cast t e => "(cast " ++ tyText t ++ " " ++ treeText e ++ ")"
  | .bin o a b => "(bin " ++ o.text ++ " " ++ treeText a ++ " " ++ treeText b ++ ")"
def treeTexts : List JExpr → String
  | [] => ""
  | a :: as => " " ++ treeText a ++ treeTexts as
end

def reply (e : DExpr) : String :=
  let ts := print e
  let p := match parse ts with
    | none => "none"
    | some j => if reprStr j == reprStr (toJava e) then "ok" else "differs"
  "wf=" ++ (if wf e then "1" else "0") ++ " level=" ++ toString (level e) ++ " parse=" ++ p ++
    " ;; tree=" ++ treeText (toJava e) ++ " ;; toks=" ++ toksText ts

end JX

def handle (line : String) : String :=
  match words line with
  | ["eval", op, dom, lit, i1, i2, i3, l1, l2, l3] =>
    match op.toNat?, lit.toInt?, i1.toInt?, i2.toInt?, i3.toInt?, l1.toInt?, l2.toInt?, l3.toInt? with
    | some op, some lit, some i1, some i2, some i3, some l1, some l2, some l3 =>
      match AgVerif.Gen.Translate.rows.find? (fun r => r.opcode == op && r.dom == dom), DalvikSem.form op with
      | some r, some fm =>
        let ρ : DalvikSem.Env :=
          ⟨fun n => BitVec.ofInt 32 (if n = 1 then i1 else if n = 2 then i2 else i3),
           fun n => BitVec.ofInt 64 (if n = 1 then l1 else if n = 2 then l2 else l3)⟩
        (match coreOf r with
         | some c =>
           "text=" ++ printExpr (exprOf fm lit c) ++ " | java=" ++ showOutcome (javaOutcome fm c ρ lit) ++
             " | dalvik=" ++ showOutcome (some (DalvikSem.step fm ρ lit))
         | none => "no-core")
      | _, _ => "no-row"
    | _, _, _, _, _, _, _, _ => "bad-op"
  | ["ctx", fam, op, aux, v, i1, l1] =>
    -- `ctx <family> <op or _> <aux> <constant> <int value of v1> <long value of v1>`: text and JLS outcome of a writer context
    match v.toInt?, i1.toInt?, l1.toInt? with
    | some v, some i1, some l1 =>
      (match ctxExpr fam (if op == "_" then "" else op) aux v with
       | some (e, _) =>
         let ρ : JavaSem.Env := ⟨fun _ => BitVec.ofInt 32 i1, fun _ => BitVec.ofInt 64 l1⟩
         "text=" ++ printExpr e ++ " | java=" ++ showJ (JavaSem.eval ρ e)
       | none => "no-context")
    | _, _, _ => "bad-op"
  | ["ctx2", shape, op1, op2, ty, c1, c2, i1, l1] =>
    match c1.toInt?, c2.toInt?, i1.toInt?, l1.toInt? with
    | some c1, some c2, some i1, some l1 =>
      (match ctxExpr2 shape op1 op2 ty c1 c2 with
       | some e =>
         let ρ : JavaSem.Env := ⟨fun _ => BitVec.ofInt 32 i1, fun _ => BitVec.ofInt 64 l1⟩
         "text=" ++ printExpr e ++ " | java=" ++ showJ (JavaSem.eval ρ e)
       | none => "no-context")
    | _, _, _, _ => "bad-op"
  -- `jxeval` / `jxctx` / `jxctx2` (same arguments as `eval` / `ctx` / `ctx2`): the expression of the fragment as an IR
  -- tree (`JExpr.ofExpr`), its lexemes under `JExpr.print`, whether it is well formed and re-parses to its tree
  | "jxeval" :: op :: dom :: lit :: _ =>
    (match op.toNat?, lit.toInt? with
     | some op, some lit =>
       (match AgVerif.Gen.Translate.rows.find? (fun r => r.opcode == op && r.dom == dom), DalvikSem.form op with
        | some r, some fm =>
          (match coreOf r with
           | some c => JX.reply (JExpr.ofExpr (exprOf fm lit c))
           | none => "no-core")
        | _, _ => "no-row")
     | _, _ => "bad-op")
  | "jxctx" :: fam :: op :: aux :: v :: _ =>
    (match v.toInt? with
     | some v =>
       (match ctxExpr fam (if op == "_" then "" else op) aux v with
        | some (e, _) => JX.reply (JExpr.ofExpr e)
        | none => "no-context")
     | none => "bad-op")
  | "jxctx2" :: shape :: op1 :: op2 :: ty :: c1 :: c2 :: _ =>
    (match c1.toInt?, c2.toInt? with
     | some c1, some c2 =>
       (match ctxExpr2 shape op1 op2 ty c1 c2 with
        | some e => JX.reply (JExpr.ofExpr e)
        | none => "no-context")
     | _, _ => "bad-op")
  | "jexpr" :: ws =>
    (match JX.dec (ws.length + 1) ws with
     | some (e, []) => JX.reply e
     | _ => "bad-tree")
  -- `prop <block>`: register_propagation on one basic block (Model/Propagate.lean, wire form there)
  | "prop" :: ws => AgVerif.Propagate.IO.reply ws
  -- `dce <block>` / `dceprop <block>`: dead_code_elimination, and register_propagation run after it on the same chains
  | "dce" :: ws => AgVerif.Propagate.IO.replyDce false ws
  | "dceprop" :: ws => AgVerif.Propagate.IO.replyDce true ws
  | _ => "bad-op"

def main : IO Unit := runMain handle
