import AgVerif.Model.Proto
import AgVerif.Model.Tries
open AgVerif AgVerif.Proto AgVerif.Tries

def sep (s : String) (l : List String) : String := s.intercalate l

def showErr : Err → String
  | .structError => "struct"
  | .indexError => "index"
  | .attributeError => "attribute"

def showOptNat : Option Nat → String
  | none => "-"
  | some v => toString v

def showHandler (h : Handler) : String :=
  s!"{h.off}:{h.size}:" ++ sep "+" (h.pairs.map fun p => s!"{p.1}.{p.2}") ++ ":" ++ showOptNat h.catchAll

def showCode (c : Code) : String :=
  s!"ok c={c.consumed} hdr={c.registersSize}.{c.insSize}.{c.outsSize}.{c.triesSize}.{c.debugInfoOff}.{c.insnsSize} " ++
  s!"il={c.insns.length} pad={showOptNat c.padding} ts=" ++
  sep "," (c.tries.map fun t => s!"{t.startAddr}.{t.insnCount}.{t.handlerOff}") ++
  s!" ho={c.handlersOff} hs={c.handlersSize} H=" ++ sep "|" (c.handlers.map showHandler)

/-- `vm.get_cm_type` of the correspondence: a pool of `n` types named t0 … t(n-1);
    an index outside the pool gives the "invalid type" marker. -/
def typeName (n : Nat) (i : Nat) : String := if i < n then s!"t{i}" else "inv"

def showRange (r : Range) : String :=
  s!"{r.1}.{r.2.1}." ++ sep "+" (r.2.2.map fun p => (if p.1 == throwable then "T" else p.1) ++ s!"@{p.2}")

def showExc : Except Err (List Range) → String
  | .error e => "err " ++ showErr e
  | .ok rs => "ok " ++ sep ";" (rs.map showRange)

def handle (line : String) : String :=
  match words line with
  | ["tries", h, n] =>
    match parseHex h, n.toNat? with
    | some bs, some nt =>
      match parseCode bs with
      | .error e => "P err " ++ showErr e
      | .ok c => "P " ++ showCode c ++ " | E " ++ showExc (determineException (typeName nt) c)
    | _, _ => "bad-op"
  | _ => "bad-op"

def main : IO Unit := runMain handle
