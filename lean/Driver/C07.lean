import AgVerif.Model.Proto
import AgVerif.Model.LoadOrder
import AgVerif.Gen.MapDeps
open AgVerif AgVerif.Proto AgVerif.LoadOrder

/-- "1,2,3" → [1,2,3]; "-" → [] -/
def natList (s : String) : Option (List Nat) :=
  if s == "-" then some [] else (s.splitOn ",").mapM (·.toNat?)

/-- "k:d,d;k:-;…" -/
def parseDeps (s : String) : Option Deps :=
  if s == "-" then some [] else
  (s.splitOn ";").mapM fun e =>
    match e.splitOn ":" with
    | [k, ds] => do
      let k ← k.toNat?
      let ds ← natList ds
      pure (k, ds)
    | _ => none

def showOrder (o : List (Nat × Nat)) : String :=
  if o.isEmpty then "-" else ",".intercalate (o.map fun p => s!"{p.1}={p.2}")

def showNats (l : List Nat) : String :=
  if l.isEmpty then "-" else ",".intercalate (l.map toString)

def handle (line : String) : String :=
  match words line with
  | ["kahn", d] => match parseDeps d with
    | some d => (match kahn d with
      | .ok o => s!"ok {showOrder o}"
      | .recursive => "recursive"
      | .outOfFuel => "out-of-fuel")
    | none => "bad-op"
  | ["table"] => s!"{showOrder Gen.MapDeps.loadOrder}"
  | ["sort", ks] => match natList ks with
    | some ks =>
      -- sort positions by key; reply = positions in sorted order
      let idx := (List.range ks.length).zip ks
      showNats ((sortByKey (fun p : Nat × Nat => p.2) idx).map (·.1))
    | none => "bad-op"
  | ["order", ts] => match natList ts with
    | some ts =>
      let es := (List.range ts.length).zip ts |>.map fun p => (⟨p.2, p.1, 0⟩ : MapEntry)
      (match orderEntries Gen.MapDeps.loadOrder es with
       | some o => s!"ok {showNats (o.map (·.size))}"
       | none => "keyerror")
    | none => "bad-op"
  | _ => "bad-op"

def main : IO Unit := runMain handle
