import AgVerif.Model.Proto
import AgVerif.Model.Sweep
open AgVerif AgVerif.Proto AgVerif.Insn AgVerif.Sweep

/-
request:  sweep <odex 0|1> <size> <idx> <hex>        list(LinearSweepAlgorithm.get_instructions(cm, size, bytes, idx))
reply:    <outcome> <item>;<item>;…      outcome = done | invalid@<offset>
          item = <offset>:<name>:<length>:<raw hex | err>
-/

def itemName : Item → String
  | .insn _ x => match nameOf x.op with | some n => n | none => "?"
  | .packed .. => "packed-switch-payload"
  | .sparse .. => "sparse-switch-payload"
  | .fill .. => "fill-array-data-payload"

def showItem (p : Nat × Item) : String :=
  let raw := match p.2.raw with | some bs => toHex bs | none => "err"
  s!"{p.1}:{itemName p.2}:{p.2.length}:{raw}"

def showOutcome : Outcome → String
  | .done => "done" | .invalid i => s!"invalid@{i}"

def handle (line : String) : String :=
  match words line with
  | ["sweep", od, sz, ix, h] =>
    match sz.toNat?, ix.toNat?, parseHex h with
    | some size, some idx, some bs =>
      let r := sweep (od == "1") size bs idx
      showOutcome r.2 ++ " " ++ ";".intercalate (r.1.map showItem)
    | _, _, _ => "bad-op"
  | ["pos", sz, off, h] =>
    match sz.toNat?, off.toNat?, parseHex h with
    | some size, some o, some bs =>
      let r := sweep false size bs 0
      let nm := match getInsOff r.1 o with | some it => itemName it | none => "None"
      s!"{offToPos r.1 o} {nm}"
    | _, _, _ => "bad-op"
  | _ => "bad-op"

def main : IO Unit := runMain handle
