import AgVerif.Model.Proto
import AgVerif.Model.Axml
import AgVerif.Spec.AxmlFile
open AgVerif AgVerif.Proto AgVerif.Axml AgVerif.Spec.Axml

namespace C26Drv

def hexNat (n : Nat) : String := String.ofList (Nat.toDigits 16 n)

def showStr (s : Str) : String :=
  if s.isEmpty then "-" else ".".intercalate (s.map hexNat)

def parseHexNat (s : String) : Option Nat :=
  s.toList.foldl (fun acc c => match acc, hexDigit c with
    | some a, some d => some (a * 16 + d)
    | _, _ => none) (some 0)

def parseStr (s : String) : Option Str :=
  if s == "-" then some [] else (s.splitOn ".").mapM parseHexNat

def cmpList : List Nat → List Nat → Ordering
  | [], [] => .eq
  | [], _ => .lt
  | _, [] => .gt
  | a :: r, b :: q => if a < b then .lt else if a > b then .gt else cmpList r q

def attrLe (a b : Attr) : Bool :=
  match cmpList a.ns b.ns with
  | .lt => true
  | .gt => false
  | .eq => cmpList a.name b.name != .gt

def insertAttr (a : Attr) : List Attr → List Attr
  | [] => [a]
  | b :: r => if attrLe a b then a :: b :: r else b :: insertAttr a r

def sortAttrs (l : List Attr) : List Attr := l.foldr insertAttr []

mutual
partial def showNode : Node → String
  | .text s => "\"" ++ showStr s
  | .elem tag ns attrs kids =>
    "<" ++ showStr tag ++ "," ++ showStr ns ++
      String.join ((sortAttrs attrs).map fun a => ";" ++ showStr a.ns ++ "," ++ showStr a.name ++ "," ++ showStr a.value) ++ ">" ++
      showNodes kids ++ "</>"
partial def showNodes : List Node → String
  | [] => ""
  | n :: r => showNode n ++ showNodes r
end

/-- abstract renderings are marked `U+F00tt <decimal digits of data> U+F00FF` (plane 15 is never generated) -/
def opaqueMark (ty data : Nat) : Str := [0xF0000 + ty] ++ decNat data ++ [0xF00FF]

/-! the file-level specification (`spec` request): a document as `/`-separated tokens
    `E/line/tag/ns/ndecls/(prefix/uri)*/nattrs/(ns/name/raw/type/data/str)*/nkids/kid*`, `T/line/text`; `!` = no namespace -/

def parseOptStr (s : String) : Option (Option Str) :=
  if s == "!" then some none else (parseStr s).map some

def parseDecls : Nat → List String → Option (List (Str × Str) × List String)
  | 0, r => some ([], r)
  | n + 1, p :: u :: r => do
    let p ← parseStr p
    let u ← parseStr u
    let (ds, r) ← parseDecls n r
    some ((p, u) :: ds, r)
  | _, _ => none

def parseSAttrs : Nat → List String → Option (List SAttr × List String)
  | 0, r => some ([], r)
  | n + 1, ns :: name :: raw :: ty :: data :: str :: r => do
    let ns ← parseOptStr ns
    let name ← parseStr name
    let raw ← parseHexNat raw
    let ty ← parseHexNat ty
    let data ← parseHexNat data
    let str ← parseStr str
    let (as, r) ← parseSAttrs n r
    some (⟨ns, name, raw, ty, data, str⟩ :: as, r)
  | _, _ => none

mutual
partial def parseSNode : List String → Option (SNode × List String)
  | "T" :: l :: t :: r => do
    let l ← parseHexNat l
    let t ← parseStr t
    some (.text l t, r)
  | "E" :: l :: tag :: ns :: nd :: r => do
    let l ← parseHexNat l
    let tag ← parseStr tag
    let ns ← parseOptStr ns
    let nd ← parseHexNat nd
    let (decls, r) ← parseDecls nd r
    match r with
    | na :: r => do
      let na ← parseHexNat na
      let (attrs, r) ← parseSAttrs na r
      match r with
      | nk :: r => do
        let nk ← parseHexNat nk
        let (kids, r) ← parseSNodes nk r
        some (.elem l tag ns decls attrs kids, r)
      | [] => none
    | [] => none
  | _ => none
partial def parseSNodes : Nat → List String → Option (List SNode × List String)
  | 0, r => some ([], r)
  | n + 1, r => do
    let (k, r) ← parseSNode r
    let (ks, r) ← parseSNodes n r
    some (k :: ks, r)
end

def parseEnc (flags res strings : String) : Option Enc := do
  let fl := flags.toList
  let strs ← (if strings == "~" then some [] else (strings.splitOn "|").mapM parseStr)
  let r ← (if res == "none" then some none else if res == "~" then some (some [])
           else ((res.splitOn ",").mapM parseHexNat).map some)
  some ⟨fl[0]? == some '1', fl[1]? == some '1', strs, r⟩

def handle (line : String) : String :=
  match words line with
  | ["axml", h] =>
    match parseHex h with
    | none => "bad-op"
    | some bs =>
      match printAxml opaqueMark bs with
      | .error e => "exc " ++ e
      | .ok (v, t) => "ok " ++ (if v then "1 " else "0 ") ++ (match t with | some n => showNode n | none => "none")
  | ["spec", flags, res, strings, doc] =>
    match parseEnc flags res strings, parseSNode (doc.splitOn "/") with
    | some E, some (d, []) =>
      "ok " ++ (if wfDoc opaqueMark E d then "1 " else "0 ") ++ toHex (encodeAxml E d) ++ " " ++ showNode (norm (treeOf opaqueMark d))
    | _, _ => "bad-op"
  | ["sb", h] =>
    match parseHex h with
    | none => "bad-op"
    | some bs =>
      match readHdr (Cur.ofBytes bs) (some AgVerif.Gen.AxmlConsts.RES_STRING_POOL_TYPE) with
      | .error e => "exc " ++ e
      | .ok (hd, c) =>
        match readPool hd c with
        | .error e => "exc " ++ e
        | .ok (p, _) =>
          "ok " ++ toString p.count ++ String.join ((List.range p.count.toNat).map fun i =>
            match p.get i with
            | .ok s => " " ++ showStr s
            | .error e => " !" ++ e)
  | ["safeuri", v] =>
    match parseStr v with
    | some s => if safeUri s then "safe" else "unsafe"
    | none => "bad-op"
  | ["fixval", v] =>
    match parseStr v with
    | some s => showStr (fixValue s)
    | none => "bad-op"
  | ["fmt", t, d] =>
    match t.toNat?, d.toNat? with
    | some ty, some data => showStr (formatValue opaqueMark ty data (lit "<string>"))
    | _, _ => "bad-op"
  | ["u8", h] => match parseHex h with | some bs => showStr (dec8 bs) | none => "bad-op"
  | ["u16", h] => match parseHex h with | some bs => showStr (dec16 bs) | none => "bad-op"
  | _ => "bad-op"

end C26Drv

def main : IO Unit := runMain C26Drv.handle
