import AgVerif.Model.Proto
import AgVerif.Model.Axml
open AgVerif AgVerif.Proto AgVerif.Axml

namespace C26Drv

def hexNat (n : Nat) : String := String.ofList (Nat.toDigits 16 n)

def showStr (s : Str) : String :=
  if s.isEmpty then "-" else ".".intercalate (s.map hexNat)

def parseHexNat (s : String) : Option Nat :=
  s.toList.foldl (fun acc c => match acc, hexDigit c with
    | some a, some d => some (a * 16 + d)
    | _, _ => none) (some 0)

def parseStr (s : String) : Option Str :=
  if s == "-" then some [] else (s.splitOn ".").mapM parseHexNat

def cmpList : List Nat → List Nat → Ordering
  | [], [] => .eq
  | [], _ => .lt
  | _, [] => .gt
  | a :: r, b :: q => if a < b then .lt else if a > b then .gt else cmpList r q

def attrLe (a b : Attr) : Bool :=
  match cmpList a.ns b.ns with
  | .lt => true
  | .gt => false
  | .eq => cmpList a.name b.name != .gt

def insertAttr (a : Attr) : List Attr → List Attr
  | [] => [a]
  | b :: r => if attrLe a b then a :: b :: r else b :: insertAttr a r

def sortAttrs (l : List Attr) : List Attr := l.foldr insertAttr []

mutual
partial def showNode : Node → String
  | .text s => "\"" ++ showStr s
  | .elem tag ns attrs kids =>
    "<" ++ showStr tag ++ "," ++ showStr ns ++
      String.join ((sortAttrs attrs).map fun a => ";" ++ showStr a.ns ++ "," ++ showStr a.name ++ "," ++ showStr a.value) ++ ">" ++
      showNodes kids ++ "</>"
partial def showNodes : List Node → String
  | [] => ""
  | n :: r => showNode n ++ showNodes r
end

/-- abstract renderings are marked `U+F00tt <decimal digits of data> U+F00FF` (plane 15 is never generated) -/
def opaqueMark (ty data : Nat) : Str := [0xF0000 + ty] ++ decNat data ++ [0xF00FF]

def handle (line : String) : String :=
  match words line with
  | ["axml", h] =>
    match parseHex h with
    | none => "bad-op"
    | some bs =>
      match printAxml opaqueMark bs with
      | .error e => "exc " ++ e
      | .ok (v, t) => "ok " ++ (if v then "1 " else "0 ") ++ (match t with | some n => showNode n | none => "none")
  | ["sb", h] =>
    match parseHex h with
    | none => "bad-op"
    | some bs =>
      match readHdr (Cur.ofBytes bs) (some AgVerif.Gen.AxmlConsts.RES_STRING_POOL_TYPE) with
      | .error e => "exc " ++ e
      | .ok (hd, c) =>
        match readPool hd c with
        | .error e => "exc " ++ e
        | .ok (p, _) =>
          "ok " ++ toString p.count ++ String.join ((List.range p.count.toNat).map fun i =>
            match p.get i with
            | .ok s => " " ++ showStr s
            | .error e => " !" ++ e)
  | ["fixval", v] =>
    match parseStr v with
    | some s => showStr (fixValue s)
    | none => "bad-op"
  | ["fmt", t, d] =>
    match t.toNat?, d.toNat? with
    | some ty, some data => showStr (formatValue opaqueMark ty data (lit "<string>"))
    | _, _ => "bad-op"
  | ["u8", h] => match parseHex h with | some bs => showStr (dec8 bs) | none => "bad-op"
  | ["u16", h] => match parseHex h with | some bs => showStr (dec16 bs) | none => "bad-op"
  | _ => "bad-op"

end C26Drv

def main : IO Unit := runMain C26Drv.handle
