import AgVerif.Model.Proto
import AgVerif.Model.ResValue
open AgVerif AgVerif.Proto AgVerif.ResValue

def showF : F64 → String
  | .fin neg n d => s!"fin {if neg then 1 else 0} {n} {d}"
  | .inf neg => s!"inf {if neg then 1 else 0}"
  | .nan => "nan"

def showErr : Err → String
  | .index => "err index"
  | .struct => "err struct"

def handle (line : String) : String :=
  match words line with
  | ["fmt", t, d] =>
    match t.toNat?, d.toNat? with
    | some t, some d =>
      match formatValue (fun ix => "str:" ++ toString ix) t d with
      | .ok s => "ok " ++ s
      | .error e => showErr e
    | _, _ => "bad-op"
  | ["c2f", d] =>
    match d.toNat? with
    | some d => (match complexToFloat d with | some v => showF v | none => "err index")
    | none => "bad-op"
  | ["dimen", d] =>
    match d.toNat? with
    | some d =>
      (match getResourceDimen d with
       | .value v u => s!"value {showF v} {u}"
       | .fallback x => s!"fallback {x}")
    | none => "bad-op"
  | ["color", d] =>
    match d.toNat? with
    | some d => getResourceColor d
    | none => "bad-op"
  | ["f6", neg, n, d] =>
    match neg.toNat?, n.toNat?, d.toNat? with
    | some s, some n, some d => if d = 0 then "bad-op" else fmtF6 (s = 1) n d
    | _, _, _ => "bad-op"
  | ["fbits", d] =>
    match d.toNat? with
    | some d => showF (floatBits d)
    | none => "bad-op"
  | _ => "bad-op"

def main : IO Unit := runMain handle
