/-
Parsing/printing of graphs for the C18/C19 drivers.
Request fields:  <n> <entry> e=<adj> c=<adj>   with <adj> = n groups separated by ';',
each group a ','-separated list of node indices (possibly empty), in `all_sucs` order.
-/
import AgVerif.Model.Proto
import AgVerif.Model.Digraph
namespace AgVerif.GraphProto
open AgVerif

def parseGroup (s : String) : Option (List Nat) :=
  if s == "" then some [] else (s.splitOn ",").mapM String.toNat?

def parseAdj (s : String) : Option (List (List Nat)) :=
  (s.splitOn ";").mapM parseGroup

def parseGraph (n entry e c : String) : Option Digraph := do
  let n ← n.toNat?
  let entry ← entry.toNat?
  let e ← if e.startsWith "e=" then parseAdj (e.drop 2).toString else none
  let c ← if c.startsWith "c=" then parseAdj (c.drop 2).toString else none
  if e.length == n && c.length == n then
    some { n := n, entry := entry, edges := e, catchEdges := c }
  else none

def showNats (l : List Nat) : String := ",".intercalate (l.map toString)

def showOpts (l : List (Option Nat)) : String :=
  ",".intercalate (l.map fun | some x => toString x | none => "-")

end AgVerif.GraphProto
