/-
Line-protocol driver for the CFG model (serves C10, C11, C12, C40).

  <cmd> <stream> <tries> <handlers>         cmd ∈ c10 | c11 | c12 | c40
  stream    `len:op:refOff:kind:xref[:t1/t2/…]` joined by `,`   (or `-`)
  tries     `startAddr:count:handlerOff` joined by `,`          (or `-`)
  handlers  `off:size:catchAll[:type/addr/type/addr…]` joined by `,` (or `-`)

  c10  ok <start>-<end>:<nb> …
  c11  ok <start> c=<src>><dst>><child>;… f=<dst>><src>><father>;… | …
  c12  ok <start> e=none | <start> e=<tstart>:<tend>:<type>><addr>><handler block>;… | …
  c40  ok <start>-<end> s=<idx>><payload offset or none>;… | … X cls=… meth=… str=… fld=…
  any  err     determineException raised (a try item without encoded_catch_handler)
-/
import AgVerif.Model.Proto
import AgVerif.Model.Cfg
open AgVerif AgVerif.Proto AgVerif.Cfg AgVerif.Gen.CfgOps

def splitList (s : String) (sep : String) : List String :=
  if s == "-" || s == "" then [] else s.splitOn sep

def parseIns (s : String) : Option Ins :=
  match s.splitOn ":" with
  | [l, o, r, k, x] => do
    pure { len := ← l.toNat?, op := ← o.toNat?, refOff := ← r.toInt?, kind := ← k.toNat?,
           targets := [], xref := x == "1" }
  | [l, o, r, k, x, t] => do
    pure { len := ← l.toNat?, op := ← o.toNat?, refOff := ← r.toInt?, kind := ← k.toNat?,
           targets := ← (splitList t "/").mapM (·.toInt?), xref := x == "1" }
  | _ => none

def parseTry (s : String) : Option TryItem :=
  match s.splitOn ":" with
  | [a, c, h] => do pure { startAddr := ← a.toNat?, count := ← c.toNat?, hoff := ← h.toNat? }
  | _ => none

def pairUp : List Nat → Option (List (Nat × Nat))
  | [] => some []
  | [_] => none
  | a :: b :: r => (pairUp r).map ((a, b) :: ·)

def parseHandler (s : String) : Option Handler :=
  match s.splitOn ":" with
  | [o, z, c] => do pure { off := ← o.toNat?, size := ← z.toInt?, pairs := [], catchAll := ← c.toNat? }
  | [o, z, c, p] => do
    let ns ← (splitList p "/").mapM (·.toNat?)
    pure { off := ← o.toNat?, size := ← z.toInt?, pairs := ← pairUp ns, catchAll := ← c.toNat? }
  | _ => none

def join (sep : String) (l : List String) : String := sep.intercalate l

def showC10 (bs : List Block) : String :=
  join " " (bs.map fun b => s!"{b.start}-{b.stop}:{b.insns.length}")

def showC11 (m : List Ins) (bs : List Block) : String :=
  join " | " (bs.map fun b =>
    let c := join ";" ((childs m bs b).map fun t => s!"{t.1}>{t.2.1}>{t.2.2}")
    let f := join ";" ((fathers m bs b).map fun t => s!"{t.1}>{t.2.1}>{t.2.2}")
    s!"{b.start} c={c} f={f}")

def showTy : Option Nat → String
  | none => "T"
  | some t => toString t

def showOptNat : Option Nat → String
  | none => "none"
  | some t => toString t

def showC12 (ex : List Exc) (bs : List Block) : String :=
  join " | " (bs.map fun b =>
    match excOf ex b with
    | none => s!"{b.start} e=none"
    | some e =>
      let h := join ";" ((excHandlers bs e).map fun t => s!"{showTy t.1}>{t.2.1}>{showOptNat t.2.2}")
      s!"{b.start} e={e.start}:{e.stop}:{h}")

def showNats (l : List Nat) : String := join "," (l.map toString)

def showC40 (m : List Ins) (bs : List Block) : String :=
  let blk := join " | " (bs.map fun b =>
    let s := join ";" ((specialIns m b).map fun t => s!"{t.1}>{showOptNat (t.2.map (·.1))}")
    s!"{b.start}-{b.stop} s={s}")
  s!"{blk} X cls={showNats (xrefSites m isXrefClass)} meth={showNats (xrefSites m isXrefMethod)} str={showNats (xrefSites m isXrefString)} fld={showNats (xrefSites m isXrefField)}"

def handle (line : String) : String :=
  match words line with
  | [cmd, s, t, h] =>
    match (splitList s ",").mapM parseIns, (splitList t ",").mapM parseTry,
          (splitList h ",").mapM parseHandler with
    | some m, some tries, some hs =>
      match excepts tries hs with
      | none => "err"
      | some ex =>
        let bs := blocks m ex
        if cmd == "c10" then "ok " ++ showC10 bs
        else if cmd == "c11" then "ok " ++ showC11 m bs
        else if cmd == "c12" then "ok " ++ showC12 ex bs
        else if cmd == "c40" then "ok " ++ showC40 m bs
        else "bad-op"
    | _, _, _ => "bad-op"
  | _ => "bad-op"

def main : IO Unit := runMain handle
