import AgVerif.Model.Proto
import AgVerif.Model.DomLT
import AgVerif.Model.DomRef
import Driver.GraphProto
open AgVerif AgVerif.Proto AgVerif.DomLT AgVerif.GraphProto

def showDom : Option (Option Nat) → String
  | none => "-"
  | some none => "N"
  | some (some d) => toString d

/-- reply: `ok <dom per node>|<DFS order vertex[1..n]>|<dfnum per node>|<parent per node>|cert=<0|1>`;
    `cert` is the verdict of the kernel-verified `checkDomTree` on the model's answer;
    `domref` answers with the verified reference `idomRef` instead (no Lengauer–Tarjan involved) -/
def handle (line : String) : String :=
  match words line with
  | ["dom", n, entry, e, c] =>
    match parseGraph n entry e c with
    | none => "bad-op"
    | some g =>
      if !g.wfb then "not-wf" else
      match domLT g with
      | none => "err"
      | some r =>
        let nodes := List.range g.n
        let cert := DomRef.checkDomTree g r.idom
        s!"ok {",".intercalate (nodes.map fun v => showDom (r.dom v))}|{showNats r.order}|{showNats (nodes.map r.dfnum)}|{showOpts (nodes.map r.parent)}|cert={if cert then 1 else 0}"
  | ["domq", n, entry, e, c] =>
    -- same model, without the O(n^3) certificate check (graphs with thousands of nodes);
    -- `domlt_correct` (Props/C18.lean) makes the certificate redundant
    match parseGraph n entry e c with
    | none => "bad-op"
    | some g =>
      if !g.wfb then "not-wf" else
      match domLT g with
      | none => "err"
      | some r =>
        s!"ok {",".intercalate ((List.range g.n).map fun v => showDom (r.dom v))}|{showNats r.order}"
  | ["domref", n, entry, e, c] =>
    match parseGraph n entry e c with
    | none => "bad-op"
    | some g =>
      if !g.wfb then "not-wf" else
      let t := DomRef.domTable g
      s!"ok {showOpts ((List.range g.n).map fun v => DomRef.idomRefT g t v)}"
  | _ => "bad-op"

def main : IO Unit := runMain handle
