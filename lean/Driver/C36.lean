import AgVerif.Model.Proto
import AgVerif.Model.Session
open AgVerif AgVerif.Proto AgVerif.Session

/-- what an observer of session i sees when it takes a step -/
def outcome (before after : PC) : String :=
  match before, after with
  | .idle, .counted k => s!"c{k}"
  | .idle, .done k => s!"ok{k}"
  | .counted _, .done k => s!"ok{k}"
  | .counted k, .failed _ => s!"fail{k}"
  | .counted _, .idle => "retry"
  | _, _ => "-"

def traceRun (step : St → Nat → St) : List Nat → St → List String → St × List String
  | [], s, acc => (s, acc.reverse)
  | i :: σ, s, acc =>
    let s' := step s i
    traceRun step σ s' (outcome (s.pc i) (s'.pc i) :: acc)

def showPC : PC → String
  | .idle => "idle" | .counted k => s!"counted{k}" | .done k => s!"done{k}" | .failed k => s!"failed{k}"

def commaNats (l : List Nat) : String := if l.isEmpty then "-" else ",".intercalate (l.map toString)

def parseNats (t : String) : Option (List Nat) :=
  if t == "-" then some [] else (t.splitOn ",").mapM (·.toNat?)

def protocol (p : String) : Option (St → Nat → St) :=
  if p == "old" then some stepOld else if p == "retry" then some stepRetry
  else if p == "atomic" then some stepAtomic
  else if p.startsWith "bounded:" then (p.drop 8).toNat?.map stepBounded else none

/-- `session <old|retry|atomic> <N> <b> <i,i,…>` →
    `<per-step outcomes> | ids … | pc … | retries …` -/
def handle (line : String) : String :=
  match words line with
  | ["session", p, n, b, sched] =>
    match protocol p, n.toNat?, b.toNat?, parseNats sched with
    | some step, some n, some b, some σ =>
      let (s, tr) := traceRun step σ (St.init b) []
      let sess := List.range n
      " ".intercalate tr ++ " | ids " ++ commaNats s.ids ++ " | pc " ++
        " ".intercalate (sess.map fun i => showPC (s.pc i)) ++ " | retries " ++
        commaNats (sess.map s.retries)
    | _, _, _, _ => "bad-op"
  | _ => "bad-op"

def main : IO Unit := runMain handle
