import AgVerif.Model.Proto
import AgVerif.Model.Insn
open AgVerif AgVerif.Proto AgVerif.Insn

/-
requests:  gi <hex>          get_instruction(cm, bs[0], bs)
           go <hex>          get_optimized_instruction(cm, first code unit, bs)
           cls <fmt> <hex>   Instruction<fmt>(cm, bs) wrapped like get_instruction
replies:   err <short|pad|count|unused|indexError|shape|noOpcode>
           ok <fmt> <OP> len=<n> raw=<hex|err> ops=<list|none|err> lits=<list> off=<n|-> ref=<n|-> name=<mnemonic|?>
-/

def showErr : Err → String
  | .short => "short" | .pad => "pad" | .count => "count" | .unused => "unused"
  | .indexError => "indexError" | .shape => "shape" | .noOpcode => "noOpcode"

def showOperand : Operand → String
  | .reg n => s!"r{n}" | .lit v => s!"l{v}" | .off v => s!"o{v}" | .kind k i => s!"k{k}:{i}"

def showList (l : List String) : String := if l.isEmpty then "[]" else ",".intercalate l

def showOptInt : Option Int → String
  | some v => toString v | none => "-"

def showInsn (x : Insn) : String :=
  let raw := match encode x with | some bs => toHex bs | none => "err"
  let ops := match operands x with
    | .ok (some l) => showList (l.map showOperand)
    | .ok none => "none"
    | .error _ => "err"
  let nm := match nameOf x.op with | some n => n | none => "?"
  s!"ok {x.fmt.name} {x.op} len={x.length} raw={raw} ops={ops} lits={showList ((literals x).map toString)} off={showOptInt (refOff x)} ref={showOptInt (refKind x)} name={nm}"

def showRes : Except Err Insn → String
  | .ok x => showInsn x
  | .error e => "err " ++ showErr e

def handle (line : String) : String :=
  match words line with
  | ["gi", h] => match parseHex h with
    | some bs => showRes (getInstruction bs) | none => "bad-op"
  | ["go", h] => match parseHex h with
    | some bs => showRes (getOptimized bs) | none => "bad-op"
  | ["cls", f, h] => match Fmt.ofName f, parseHex h with
    | some f, some bs => showRes (decode f bs) | _, _ => "bad-op"
  | _ => "bad-op"

def main : IO Unit := runMain handle
