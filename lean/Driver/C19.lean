import AgVerif.Model.Proto
import AgVerif.Model.Rpo
import Driver.GraphProto
open AgVerif AgVerif.Proto AgVerif.Rpo AgVerif.GraphProto

/-- reply: `ok num|po|rpo|order|par`, each over nodes 0..n-1 (rpo/order: node lists) -/
def handle (line : String) : String :=
  match words line with
  | ["rpo", n, entry, e, c] =>
    match parseGraph n entry e c with
    | none => "bad-op"
    | some g =>
      if !g.wfb then "not-wf" else
      match computeRpo g with
      | none => "fuel"
      | some r =>
        let nodes := List.range g.n
        s!"ok {showNats (nodes.map r.num)}|{showOpts (nodes.map r.po)}|{showNats r.rpo}|{showNats r.order}|{showOpts (nodes.map r.par)}"
  | _ => "bad-op"

def main : IO Unit := runMain handle
