import AgVerif.Model.Proto
import AgVerif.Model.Axml
import AgVerif.Model.Manifest
open AgVerif AgVerif.Proto AgVerif.Axml AgVerif.Manifest

namespace C31Drv

def hexNat (n : Nat) : String := String.ofList (Nat.toDigits 16 n)

def showStr (s : Str) : String :=
  if s.isEmpty then "-" else ".".intercalate (s.map hexNat)

def insertStr (a : String) : List String → List String
  | [] => [a]
  | b :: r => if a ≤ b then a :: b :: r else b :: insertStr a r

/-- results that come out of a Python set / a set-ordered iteration are compared sorted -/
def sorted (l : List String) : String := "[" ++ " ".intercalate (l.foldr insertStr []) ++ "]"

def showOpt : Option Str → String
  | none => "None"
  | some s => showStr s

def showFirst : First → String
  | .none => "None"
  | .val s => showStr s
  | .ambiguous => "ambiguous"

def showPyInt : Option PyInt → String
  | none => "None"
  | some (.ok v) => toString v
  | some .valueError => "None"
  | some .unmodelled => "unmodelled"

def showAnalysis (a : Analysis) : String :=
  let kc := if a.isManifest then showFirst a.versionCode else "!KeyError"
  let kn := if a.isManifest then showFirst a.versionName else "!KeyError"
  "pkg=" ++ showOpt a.package ++ " vc=" ++ kc ++ " vn=" ++ kn ++
  " perms=" ++ sorted (a.permissions.map showStr) ++
  " uses=" ++ sorted (a.usesPermissions.map fun (n, m) => showOpt n ++ "/" ++ showPyInt m) ++
  " act=" ++ sorted (a.activities.map showStr) ++
  " svc=" ++ sorted (a.services.map showStr) ++
  " rcv=" ++ sorted (a.receivers.map showStr) ++
  " prv=" ++ sorted (a.providers.map showStr) ++
  " lib=" ++ sorted (a.libraries.map showStr) ++
  " feat=" ++ sorted (a.features.map showStr) ++
  " mains=" ++ sorted (a.mainActivities.map showStr) ++
  " main=" ++ showOpt a.mainActivity ++
  " min=" ++ showFirst (a.sdk AgVerif.Gen.AxmlConsts.attrMinSdk) ++
  " target=" ++ showFirst (a.sdk AgVerif.Gen.AxmlConsts.attrTargetSdk) ++
  " max=" ++ showFirst (a.sdk AgVerif.Gen.AxmlConsts.attrMaxSdk) ++
  " eff=" ++ (match a.effectiveTarget with | none => "ambiguous" | some p => showPyInt (some p))

def parseHexNat (s : String) : Option Nat :=
  s.toList.foldl (fun acc c => match acc, hexDigit c with
    | some a, some d => some (a * 16 + d)
    | _, _ => none) (some 0)

def parseStr (s : String) : Option Str :=
  if s == "-" then some [] else (s.splitOn ".").mapM parseHexNat

def handle (line : String) : String :=
  match words line with
  | ["manifest", h] =>
    match parseHex h with
    | none => "bad-op"
    | some bs =>
      match analyseFile (fun _ _ => lit "?") bs with
      | .error e => "exc " ++ e
      | .ok a =>
        -- a manifest that is not valid (no root: the printer's result is dropped) makes `_apk_analysis` return before the
        -- permission tables are loaded; `ctorRaises` is `some false` on an analysis without root
        match a.ctorRaises with
        | some true => "exc ValueError"
        | some false => showAnalysis a
        | none => "unmodelled"
  | ["fmtval", p, v] =>
    match (if p == "None" then some none else (parseStr p).map some), parseStr v with
    | some pkg, some s => showStr (Manifest.formatValue pkg s)
    | _, _ => "bad-op"
  | ["pyint", v] =>
    match parseStr v with
    | some s => showPyInt (some (pyInt s)) ++ (if pyInt s = .valueError then " ValueError" else "")
    | none => "bad-op"
  | _ => "bad-op"

end C31Drv

def main : IO Unit := runMain C31Drv.handle
