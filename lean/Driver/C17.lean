import AgVerif.Model.Proto
import AgVerif.Model.Rename
import AgVerif.Gen.RenameCfg
open AgVerif AgVerif.Proto AgVerif.Rename

/-
`rename <token> <token> …` — one history per line.
  file:  S:<hex utf8>  T:<sidx>  P:<ret>;<p,p,…>  F:<cls>,<typ>,<name>  M:<cls>,<proto>,<name>
         C:<cls>,<sup>  EM:<method_idx>,<class_def>  EF:<field_idx>,<class_def>  K:<reg>,<sidx>
  ops:   o:<code>,<n>[,<hex utf8>]
reply:   one item per op: `u` | `e` | `s:<hex utf8>`
The configuration is the generated one (what the code does today).
-/

def strOfHex (h : String) : Option String :=
  match parseHex (if h.isEmpty then "-" else h) with
  | none => none
  | some bs => String.fromUTF8? (ByteArray.mk (bs.map (·.toUInt8)).toArray)

def hexOfStr (s : String) : String :=
  let bs := s.toUTF8.toList.map (·.toNat)
  if bs.isEmpty then "" else toHex bs

def nats (s : String) (sep : Char) : Option (List Nat) :=
  if s.isEmpty then some [] else (s.splitOn (String.singleton sep)).mapM (·.toNat?)

def emptyDex : Dex :=
  { strings := [], types := [], protos := [], fields := [], methods := [], classes := [],
    encMethods := [], encFields := [], consts := [] }

def parseOp (code : String) (n : Nat) (v : Option String) : Option Op :=
  match code, v with
  | "rc", some s => some (.renameClass n s)
  | "rm", some s => some (.renameMethod n s)
  | "rf", some s => some (.renameField n s)
  | "lc", none => some (.reloadClass n)
  | "lem", none => some (.reloadEncMethod n)
  | "lef", none => some (.reloadEncField n)
  | "lm", none => some (.reloadMethodId n)
  | "lf", none => some (.reloadFieldId n)
  | "cn", none => some (.className n)
  | "sn", none => some (.superName n)
  | "mn", none => some (.methodName n)
  | "mc", none => some (.methodClass n)
  | "md", none => some (.methodDesc n)
  | "fn", none => some (.fieldName n)
  | "fc", none => some (.fieldClass n)
  | "fd", none => some (.fieldDesc n)
  | "in", none => some (.midName n)
  | "ic", none => some (.midClass n)
  | "id", none => some (.midDesc n)
  | "jn", none => some (.fidName n)
  | "jc", none => some (.fidClass n)
  | "jd", none => some (.fidDesc n)
  | "ks", none => some (.constString n)
  | "it", none => some (.invokeText n)
  | "ft", none => some (.fieldText n)
  | _, _ => none

/-- tokens are consumed in order; tables are built reversed and flipped at the end -/
def parseTok (acc : Dex × List Op) (tok : String) : Option (Dex × List Op) :=
  let (d, ops) := acc
  match tok.splitOn ":" with
  | ["S", h] => (strOfHex h).map fun s => ({ d with strings := s :: d.strings }, ops)
  | ["T", a] => a.toNat?.map fun n => ({ d with types := n :: d.types }, ops)
  | ["P", a] =>
    match a.splitOn ";" with
    | [r, ps] => match r.toNat?, nats ps ',' with
      | some r, some ps => some ({ d with protos := { ret := r, params := ps } :: d.protos }, ops)
      | _, _ => none
    | _ => none
  | ["F", a] => match nats a ',' with
    | some [c, t, n] => some ({ d with fields := { cls := c, typ := t, name := n } :: d.fields }, ops)
    | _ => none
  | ["M", a] => match nats a ',' with
    | some [c, p, n] => some ({ d with methods := { cls := c, proto := p, name := n } :: d.methods }, ops)
    | _ => none
  | ["C", a] => match nats a ',' with
    | some [c, s] => some ({ d with classes := { cls := c, sup := s } :: d.classes }, ops)
    | _ => none
  | ["EM", a] => match nats a ',' with
    | some [m, o] => some ({ d with encMethods := (m, o) :: d.encMethods }, ops)
    | _ => none
  | ["EF", a] => match nats a ',' with
    | some [f, o] => some ({ d with encFields := (f, o) :: d.encFields }, ops)
    | _ => none
  | ["K", a] => match nats a ',' with
    | some [r, s] => some ({ d with consts := (r, s) :: d.consts }, ops)
    | _ => none
  | ["o", a] =>
    match a.splitOn "," with
    | [code, n] => match n.toNat? with
      | some n => (parseOp code n none).map fun op => (d, op :: ops)
      | none => none
    | [code, n, h] => match n.toNat?, strOfHex h with
      | some n, some s => (parseOp code n (some s)).map fun op => (d, op :: ops)
      | _, _ => none
    | _ => none
  | _ => none

def showOut : Out → String
  | .unit => "u"
  | .err => "e"
  | .str s => "s:" ++ hexOfStr s

def handle (line : String) : String :=
  match words line with
  | "rename" :: toks =>
    match toks.foldlM parseTok (emptyDex, []) with
    | none => "bad-op"
    | some (r, ops) =>
      let d : Dex := { strings := r.strings.reverse, types := r.types.reverse, protos := r.protos.reverse,
                       fields := r.fields.reverse, methods := r.methods.reverse, classes := r.classes.reverse,
                       encMethods := r.encMethods.reverse, encFields := r.encFields.reverse,
                       consts := r.consts.reverse }
      if d.wfFull then
        " ".intercalate ((outs AgVerif.Gen.RenameCfg.cfg d (init d) ops.reverse).map showOut)
      else "not-wf"
  | ["markers"] =>      -- what the model answers for a string / type index outside the pools
    hexOfStr (rawString emptyDex 0) ++ " " ++ hexOfStr (rawType emptyDex 0)
  | _ => "bad-op"

def main : IO Unit := runMain handle
