import AgVerif.Model.Proto
import AgVerif.Model.ShortCircuit
import AgVerif.Model.WriterVisit
open AgVerif AgVerif.Proto AgVerif.ShortCircuit

/-! line protocol for C25
  sc <entry> <kind:op:t:f,...> <stmt successors|-> <n1>n2,...|->   →  final graph after replaying the observed merges
  pr <k> <tree>                                                     →  text printed after k negate-and-swap steps
-/

def parseName (s : String) : Option Nat :=
  match s.toList with
  | 'c' :: r => (String.ofList r).toNat?
  | 's' :: r => (String.ofList r).toNat?.map (· + 1000)
  | 'e' :: r => (String.ofList r).toNat?.map (· + 2000)
  | 'l' :: r => (String.ofList r).toNat?.map (· + 3000)
  | _ => none

def showName (n : Nat) : String :=
  if n < 1000 then s!"c{n}" else if n < 2000 then s!"s{n - 1000}" else if n < 3000 then s!"e{n - 2000}" else s!"l{n - 3000}"

def parseKind (s : String) : Option Kind :=
  if s == "bin" then some .bin else if s == "zint" then some .zint else if s == "zbool" then some .zbool else none

def showKind : Kind → String | .bin => "bin" | .zint => "zint" | .zbool => "zbool"

def showTree : Cond → String
  | .leaf i k op => s!"L{i}:{showKind k}:{op.str}"
  | .sc n a c1 c2 => s!"S{if n then 1 else 0}{if a then 1 else 0}({showTree c1},{showTree c2})"

partial def parseTree : List Char → Option (Cond × List Char)
  | 'L' :: r =>
    let ds := r.takeWhile (· != ':')
    let r := (r.dropWhile (· != ':')).drop 1
    let ks := r.takeWhile (· != ':')
    let r := (r.dropWhile (· != ':')).drop 1
    let os := r.takeWhile (fun c => c != ',' && c != ')')
    let r := r.dropWhile (fun c => c != ',' && c != ')')
    match (String.ofList ds).toNat?, parseKind (String.ofList ks), Op.ofStr? (String.ofList os) with
    | some i, some k, some o => some (.leaf i k o, r)
    | _, _, _ => none
  | 'S' :: n :: a :: '(' :: r =>
    match parseTree r with
    | some (c1, ',' :: r) =>
      match parseTree r with
      | some (c2, ')' :: r) => some (.sc (n == '1') (a == '1') c1 c2, r)
      | _ => none
    | _ => none
  | _ => none

def parseConds (s : String) : Option (List CNode) :=
  let rec go : Nat → List String → Option (List CNode)
    | _, [] => some []
    | i, x :: rest =>
      match x.splitOn ":" with
      | [k, o, t, f] =>
        match parseKind k, Op.ofStr? o, parseName t, parseName f, go (i + 1) rest with
        | some k, some o, some t, some f, some tl => some (⟨i, .leaf i k o, t, f⟩ :: tl)
        | _, _, _, _, _ => none
      | _ => none
  go 0 (s.splitOn ",")

def parseStmts (s : String) : Option (List (Nat × Nat)) :=
  if s == "-" then some [] else
  let rec go : Nat → List String → Option (List (Nat × Nat))
    | _, [] => some []
    | j, x :: rest =>
      match parseName x, go (j + 1) rest with
      | some t, some tl => some ((1000 + j, t) :: tl)
      | _, _ => none
  go 0 (s.splitOn ",")

def parseTrace (s : String) : Option (List (Nat × Nat)) :=
  if s == "-" then some [] else
  (s.splitOn ",").mapM fun x =>
    match x.splitOn ">" with
    | [a, b] => match parseName a, parseName b with
      | some a, some b => some (a, b)
      | _, _ => none
    | _ => none

def insertSorted (x : CNode) : List CNode → List CNode
  | [] => [x]
  | y :: ys => if x.id ≤ y.id then x :: y :: ys else y :: insertSorted x ys

def showGraph (G : CGraph) : String :=
  let ns := G.nodes.foldl (fun acc x => insertSorted x acc) []
  s!"entry={showName G.entry} " ++
    " ".intercalate (ns.map fun x => s!"{showTree x.c}>{showName x.t},{showName x.f}")

/-- `c0:num:t:f:follow|-` | `e0:num` | `s0:num:suc|-` | `l0:num:pre|post|endless:cond:latch:t|-:f|-:follow|-` -/
def parseOptName (s : String) : Option (Option Nat) :=
  if s == "-" then some none else (parseName s).map some

def parseWNodes (s : String) : Option (List (Nat × Nat × WriterVisit.WKind)) :=
  (s.splitOn ",").mapM fun x =>
    match x.splitOn ":" with
    | [n, num, t, f, fo] =>
      match parseName n, num.toNat?, parseName t, parseName f, parseOptName fo with
      | some n, some num, some t, some f, some fo => some (n, num, .cond t f fo)
      | _, _, _, _, _ => none
    | [n, num, suc] =>
      match parseName n, num.toNat?, parseOptName suc with
      | some n, some num, some suc => some (n, num, .stmt suc)
      | _, _, _ => none
    | [n, num] =>
      match parseName n, num.toNat? with
      | some n, some num => some (n, num, .ret)
      | _, _ => none
    | [n, num, lt, c, latch, t, f, fo] =>
      let lt? : Option WriterVisit.LoopType :=
        if lt == "pre" then some .pretest else if lt == "post" then some .posttest
        else if lt == "endless" then some .endless else none
      match parseName n, num.toNat?, lt?, parseName c, parseName latch, parseOptName t, parseOptName f, parseOptName fo with
      | some n, some num, some lt, some c, some latch, some t, some f, some fo =>
        some (n, num, .loop lt c latch (t.getD 9999) (f.getD 9999) fo)
      | _, _, _, _, _, _, _, _ => none
    | _ => none

def handle (line : String) : String :=
  match words line with
  | ["sc", e, cs, ss, tr] =>
    match parseName e, parseConds cs, parseStmts ss, parseTrace tr with
    | some e, some cs, some ss, some tr =>
      -- only the nodes reachable from the entry are in the real graph
      let G0 : CGraph := ⟨e, cs, ss⟩
      let reach := Id.run do
        let mut seen : List Nat := []
        let mut todo : List Nat := [e]
        for _ in [0:4 * (cs.length + ss.length) + 8] do
          match todo with
          | [] => break
          | n :: rest =>
            todo := rest
            if !seen.contains n then
              seen := n :: seen
              match G0.look n with
              | some x => todo := x.t :: x.f :: todo
              | none => match ss.lookup n with
                | some m => todo := m :: todo
                | none => pure ()
        return seen
      let G : CGraph := ⟨e, cs.filter (fun x => reach.contains x.id), ss.filter (fun s => reach.contains s.1)⟩
      match replay true G tr with
      | some G' => showGraph G'
      | none => "invalid-merge"
    | _, _, _, _ => "bad-op"
  | ["pr", k, t] =>
    match k.toNat?, parseTree t.toList with
    | some k, some (c, []) => (writerPrint k ⟨0, c, 1, 2⟩).2.render
    | _, _ => "bad-op"
  | ["wr", e, ns] =>
    match parseName e, parseWNodes ns with
    | some e, some ns =>
      let g : WriterVisit.WGraph :=
        ⟨fun n => (ns.find? (fun x => x.1 == n)).map (·.2.2), fun n => ((ns.find? (fun x => x.1 == n)).map (·.2.1)).getD 0⟩
      let st := WriterVisit.visitNode g (2 * ns.length + 4) ⟨[], [], []⟩ e ⟨[], []⟩
      " ".intercalate (st.out.map fun ev => s!"{showName ev.obj}:{if ev.swapped then 1 else 0}")
    | _, _ => "bad-op"
  | _ => "bad-op"

def main : IO Unit := runMain handle
