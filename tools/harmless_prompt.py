#!/usr/bin/env python3
"""print the prompt for an independent 'harmless rewrite' sub-agent for property Cxx (property text only):
behaviour-preserving refactorings of the anchored code, used to measure false alarms"""
import json, sys
pid, wt = sys.argv[1], sys.argv[2]
p = next(json.loads(l) for l in open('/verif/properties.jsonl') if json.loads(l)['id'] == pid)
print(f"""You are helping to measure FALSE ALARMS of a project's safeguards. You work ONLY inside the git worktree {wt} (a checkout of the Python project androguard; python is /venv/bin/python, run things with PYTHONPATH={wt}). Do not read or touch /verif or /repo, and do not read anything outside {wt} except the Python standard library / installed packages.

Here is a semantic property the project satisfies:

  Title: {p['title']}
  Statement: {p['statement']}
  Quantifier: {p['quantifier']['text']}
  Anchored in: {', '.join(p['anchors']['files'])}

Task: produce THREE independent, realistic, BEHAVIOUR-PRESERVING refactorings of the code that implements this property (the functions in the anchored files that the statement is about) — the kind of change a maintainer makes in a cleanup and that must not alarm anyone: e.g. (1) a purely syntactic one (rename locals, reorder independent statements, `x |= y` vs `x = x | y`, early return vs else, a comprehension instead of a loop, f-strings); (2) a structural one (extract a helper function or inline one, hoist a constant to module level, replace a chain of ifs by a table lookup or the reverse, replace a while loop by a for loop with the same iterations); (3) an algorithmic-but-equivalent one (a different but equivalent way to compute the same result for EVERY input: another arithmetic identity, another traversal that yields the same order, a regex rewritten to an equivalent linear one, a cache that is provably invalidated on every mutation). Each must keep the observable behaviour identical for every input, every operation history and every exception type raised — be careful and conservative; if unsure whether a rewrite is equivalent, choose a safer one. Do NOT fix bugs, do NOT change messages of exceptions that callers could see, do NOT change public names.
For each refactoring k in 1..3: start from the clean tree (`git checkout -- androguard`), make the change, run the test files touching the module (`cd {wt} && /venv/bin/python -m pytest tests/<relevant>.py -q -p no:cacheprovider -x 2>&1 | tail -3`), write a small script `{wt}/harmless/equiv_k.py` that compares old and new behaviour on a few hundred varied inputs where that is cheap (optional but preferred), and save `git -C {wt} diff -- androguard > {wt}/harmless/patch_k.diff`. NEVER use `git stash` (shared between worktrees). At the end leave the tree clean (`git checkout -- androguard`) and write `{wt}/harmless/meta.json`: a list of three objects with keys k, kind (syntactic|structural|algorithmic), summary (one sentence), functions (changed functions), why_equivalent (one or two sentences), tests (what you ran and the outcome). Final message: the contents of meta.json. Do not commit.""")
