#!/usr/bin/env python3
"""Confirm a seeded breakage delivered in <worktree>/seed_demo and run our check against it.

usage: tools/seedtest.py <Cxx> <seed-name> <worktree> [--no-suite] [--tier quick|thorough]

1. clean worktree: demo.py must exit 0; with patch.diff applied it must exit non-zero
2. the pinned test suite must still pass with the patch (all BASELINE stable_pass tests)
3. run `VERIF_REPO=<worktree> ./check Cxx <tier>` and record the verdict
4. keep it as /verif/seeded/<seed-name>/ (patch.diff, demo.py, meta.json incl. what was run)
"""
import json, os, re, shutil, subprocess, sys, time
import xml.etree.ElementTree as ET

V = os.path.dirname(os.path.dirname(os.path.abspath(__file__)))


def sh(cmd, cwd=None, env=None, timeout=3600):
    p = subprocess.run(cmd, shell=True, cwd=cwd, env=env, capture_output=True, text=True, timeout=timeout)
    return p.returncode, p.stdout + p.stderr


def main():
    pid, name, wt = sys.argv[1:4]
    suite = "--no-suite" not in sys.argv
    tier = sys.argv[sys.argv.index("--tier") + 1] if "--tier" in sys.argv else "quick"
    sd = os.path.join(wt, "seed_demo")
    out = os.path.join(V, "seeded", name)
    os.makedirs(out, exist_ok=True)
    prev = None
    if os.path.exists(os.path.join(out, "meta.json")):
        try:
            prev = json.load(open(os.path.join(out, "meta.json")))
        except Exception:
            prev = None
    for f in ("patch.diff", "demo.py", "meta.json"):
        shutil.copy(os.path.join(sd, f), os.path.join(out, f))
    meta = json.load(open(os.path.join(out, "meta.json")))
    if prev and "confirmed_by_us" in prev:     # keep what happened before the check was strengthened
        meta["earlier_attempts"] = prev.get("earlier_attempts", []) + [
            {"caught": prev.get("caught"), "check_lines": prev["confirmed_by_us"].get("check_lines"),
             "suite_stable_pass": prev["confirmed_by_us"].get("suite_stable_pass")}]
    env = dict(os.environ, PYTHONPATH=wt, PYTHONDONTWRITEBYTECODE="1")
    env.pop("ANDROGUARD_VERIF", None)
    conf = {}
    sh("git checkout -- androguard", cwd=wt)
    rc0, o0 = sh(f"/venv/bin/python {sd}/demo.py", cwd=wt, env=env)
    conf["demo_on_clean_rc"] = rc0
    rc, o = sh(f"git apply {out}/patch.diff", cwd=wt)
    if rc != 0:
        print("patch does not apply:", o); return 2
    rc1, o1 = sh(f"/venv/bin/python {sd}/demo.py", cwd=wt, env=env)
    conf["demo_with_patch_rc"] = rc1
    conf["demo_with_patch_tail"] = o1[-300:]
    print("demo clean rc", rc0, "patched rc", rc1)
    if suite:
        t = time.time()
        xml = f"/tmp/seedtest-{name}.xml"
        sh(f"/venv/bin/python -m pytest -q -p no:cacheprovider --timeout=900 --continue-on-collection-errors --junitxml={xml}",
           cwd=wt, env=env, timeout=3000)
        base = json.load(open("/root/.vp/BASELINE.json"))["stable_pass"]
        passed = set()
        for tc in ET.parse(xml).getroot().iter("testcase"):
            if not any(c.tag in ("failure", "error", "skipped") for c in tc):
                passed.add(f"{tc.get('classname')}::{tc.get('name')}")
        missing = [b for b in base if b not in passed]
        conf["suite_stable_pass"] = f"{len(base) - len(missing)}/{len(base)}"
        conf["suite_broken"] = missing
        conf["suite_wall_s"] = round(time.time() - t)
        os.unlink(xml)
        print("suite", conf["suite_stable_pass"], missing[:5])
    envc = dict(os.environ, VERIF_REPO=wt)
    t = time.time()
    rc, o = sh(f"./check {pid} {tier}", cwd=V, env=envc, timeout=7200)
    conf["check_cmd"] = f"VERIF_REPO={wt} ./check {pid} {tier}"
    conf["check_rc"] = rc
    conf["check_wall_s"] = round(time.time() - t)
    conf["check_lines"] = [l for l in o.split("\n") if l.startswith(("VIOLATION", "KNOWN-FINDING", "[" + pid))][:6]
    m = re.search(r"replay=(\S+)", o)
    if m and os.path.exists(os.path.join(V, m.group(1))):
        rp = json.load(open(os.path.join(V, m.group(1))))
        conf["replay_excerpt"] = {k: rp.get(k) for k in ("kind", "case", "what", "expected", "observed", "theorem", "correspondence") if k in rp}
    print("check rc", rc, conf["check_lines"])
    meta["breaks_property"] = pid
    meta["confirmed_by_us"] = conf
    meta["caught"] = rc == 1
    json.dump(meta, open(os.path.join(out, "meta.json"), "w"), indent=1)
    ok = rc0 == 0 and rc1 != 0 and (not suite or not conf["suite_broken"])
    print("seed valid:", ok, "caught:", rc == 1)
    return 0


if __name__ == "__main__":
    sys.exit(main())
