#!/usr/bin/env python3
"""Match fixes/*.diff to the commits in /repo (by git patch-id) and write fixes/APPLIED.json;
make sure known_findings.jsonl has one `fixed` line per fix commit, carrying the commit hash."""
import glob, json, os, subprocess
V = os.path.dirname(os.path.dirname(os.path.abspath(__file__)))
def sh(c, inp=None): return subprocess.run(c, shell=True, capture_output=True, text=True, input=inp).stdout
commits = [l.split(" ", 1) for l in sh("git -C /repo log --format='%h %s' f6debc17..HEAD").strip().split("\n") if l]
cid = {}
for h, s in commits:
    pid = sh("git -C /repo patch-id --stable", sh(f"git -C /repo show {h}")).split(" ")[0]
    if pid: cid[pid] = (h, s)
applied = {}
for d in sorted(glob.glob(f"{V}/fixes/*.diff")):
    pid = sh("git -C /repo patch-id --stable", open(d).read()).split(" ")[0]
    if pid in cid:
        applied[os.path.basename(d)] = {"commit": cid[pid][0], "subject": cid[pid][1]}
for h, s in commits:   # diffs without a `diff --git` header have no patch-id: match the hook by subject
    if s.startswith("hook: Session") and "hook-H1-session.diff" not in applied:
        applied["hook-H1-session.diff"] = {"commit": h, "subject": s}
json.dump(applied, open(f"{V}/fixes/APPLIED.json", "w"), indent=1)
hooks = [v["commit"] for k, v in applied.items() if k.startswith("hook-")]
json.dump(hooks, open(f"{V}/manifest/hooks.json", "w"))
# known_findings: attach commits to fixed lines of the same property; add missing ones
lines = [l.rstrip("\n") for l in open(f"{V}/known_findings.jsonl")]
recs = [json.loads(l) if l.strip() and not l.startswith("#") else None for l in lines]
byprop = {}
for k, v in applied.items():
    if k.startswith("hook-"): continue
    byprop.setdefault(k.split("-")[0], []).append((k, v))
out = []
seen = set()
for l, r in zip(lines, recs):
    if r and r.get("fixed"):
        cands = byprop.get(r["property"], [])
        if "fix" in r:
            pass                                   # names its own diff(s); the normalisation below resolves the commit
        elif "commit" not in r and len(cands) == 1:
            r["commit"] = cands[0][1]["commit"]; r["fix"] = cands[0][0]
        elif "commit" not in r and cands:
            r["commits"] = [c[1]["commit"] for c in cands]; r["fix"] = [c[0] for c in cands]
        seen.add(r["property"])
        out.append(json.dumps(r))
    else:
        out.append(l)
for prop, cands in sorted(byprop.items()):
    if prop not in seen:
        for k, v in cands:
            out.append(json.dumps({"fixed": True, "property": prop, "commit": v["commit"], "fix": k, "what": v["subject"]}))
open(f"{V}/known_findings.jsonl", "w").write("\n".join(out) + "\n")
print(len(applied), "fix/hook diffs matched;", [os.path.basename(d) for d in glob.glob(f"{V}/fixes/*.diff") if os.path.basename(d) not in applied])

# ---- normalise: every fixed line carries the commit hash(es) of its diff(s) and the textual form asked for by the interface
import re
applied = json.load(open(f"{V}/fixes/APPLIED.json"))
out = []
for l in open(f"{V}/known_findings.jsonl"):
    l = l.rstrip("\n")
    if not l.strip() or l.startswith("#"):
        out.append(l); continue
    r = json.loads(l)
    if r.get("fixed"):
        names = []
        for f in ("fix", "commit"):
            v = r.get(f)
            for x in (v if isinstance(v, list) else [v]):
                if isinstance(x, str):
                    names += [os.path.basename(m) for m in re.findall(r"[\w./-]+\.diff", x)]
        names = [n for i, n in enumerate(names) if n not in names[:i]]
        hashes = [applied[n]["commit"] for n in names if n in applied]
        if names:
            r["fix"] = names[0] if len(names) == 1 else names
        if hashes:
            r.pop("commits", None)
            r["commit"] = hashes[0] if len(hashes) == 1 else hashes
        c = r.get("commit")
        r["line"] = "fixed: property=%s %s %s" % (r["property"], ",".join(c) if isinstance(c, list) else c, (r.get("what") or "")[:160])
    out.append(json.dumps(r))
open(f"{V}/known_findings.jsonl", "w").write("\n".join(out) + "\n")
