#!/usr/bin/env python3
"""Run our check against the behaviour-preserving rewrites delivered in <worktree>/harmless (false-alarm measurement).

usage: tools/hrtest.py <Cxx> <worktree>

For k = 1..3: clean tree, apply harmless/patch_k.diff, `VERIF_REPO=<worktree> ./check Cxx quick`, record the verdict in
/verif/harmless/<Cxx>-<k>/ (patch.diff, meta.json).  Verdict classes:
  quiet             exit 0
  obligation-only   exit 1, every VIOLATION line ends with no-failing-input-found (the brief's prescribed report for a
                    rewrite that breaks a proof obligation or the correspondence while no failing input exists)
  failing-input     exit 1 with a concrete failing input: either the rewrite is not behaviour preserving, or a false alarm
  tool              exit 2
"""
import json, os, re, shutil, subprocess, sys, time

V = os.path.dirname(os.path.dirname(os.path.abspath(__file__)))


def sh(cmd, cwd=None, env=None, timeout=3600):
    p = subprocess.run(cmd, shell=True, cwd=cwd, env=env, capture_output=True, text=True, timeout=timeout)
    return p.returncode, p.stdout + p.stderr


def main():
    pid, wt = sys.argv[1:3]
    hd = os.path.join(wt, "harmless")
    metas = json.load(open(os.path.join(hd, "meta.json")))
    if isinstance(metas, dict):
        metas = metas.get("refactorings") or metas.get("items") or list(metas.values())[0]
    for k in (1, 2, 3):
        pf = os.path.join(hd, f"patch_{k}.diff")
        if not os.path.exists(pf) or os.path.getsize(pf) == 0:
            print(pid, k, "no patch"); continue
        out = os.path.join(V, "harmless", f"{pid}-{k}")
        os.makedirs(out, exist_ok=True)
        shutil.copy(pf, os.path.join(out, "patch.diff"))
        sh("git checkout -- androguard", cwd=wt)
        rc, o = sh(f"git apply {pf}", cwd=wt)
        if rc != 0:
            print(pid, k, "patch does not apply", o[-200:]); continue
        t = time.time()
        rc, o = sh(f"./check {pid} quick", cwd=V, env=dict(os.environ, VERIF_REPO=wt), timeout=7200)
        lines = [l for l in o.split("\n") if l.startswith(("VIOLATION", "KNOWN-FINDING", "[" + pid))][:8]
        viol = [l for l in lines if l.startswith("VIOLATION")]
        if rc == 0:
            verdict = "quiet"
        elif rc == 1 and viol and all(l.rstrip().endswith("no-failing-input-found") for l in viol):
            verdict = "obligation-only"
        elif rc == 1:
            verdict = "failing-input"
        else:
            verdict = "tool"
        m = next((x for x in metas if isinstance(x, dict) and int(x.get("k", 0)) == k), {})
        rec = dict(m, property=pid, verdict=verdict, check_rc=rc, check_wall_s=round(time.time() - t), check_lines=lines)
        mo = re.search(r"replay=(\S+)", o)
        if mo and os.path.exists(os.path.join(V, mo.group(1))):
            rp = json.load(open(os.path.join(V, mo.group(1))))
            rec["replay_excerpt"] = {kk: rp.get(kk) for kk in ("kind", "case", "what", "expected", "observed", "theorem", "correspondence", "first_divergence") if kk in rp}
        json.dump(rec, open(os.path.join(out, "meta.json"), "w"), indent=1)
        print(pid, k, m.get("kind"), verdict, lines[-1][:150] if lines else o[-200:])
    sh("git checkout -- androguard", cwd=wt)


if __name__ == "__main__":
    main()
