#!/usr/bin/env python3
"""Record the normalised-AST hashes of every pinned function (PINS lists of harness/props/*.py) from /repo into gen/pins.json."""
import ast, glob, importlib, json, os, sys
if os.path.realpath(sys.executable) != os.path.realpath("/venv/bin/python") and os.path.exists("/venv/bin/python"):
    os.execv("/venv/bin/python", ["/venv/bin/python"] + sys.argv)   # ast.dump differs between Python versions; checks run under /venv
V = os.path.dirname(os.path.dirname(os.path.abspath(__file__)))
sys.path.insert(0, V); sys.path.insert(0, "/repo")
from harness.fw import sha
out = {}
for p in sorted(glob.glob(f"{V}/harness/props/c*.py")):
    src = open(p).read()
    try:
        tree = ast.parse(src)
    except SyntaxError:
        continue
    for n in tree.body:
        if isinstance(n, ast.Assign) and any(getattr(t, "id", "") == "PINS" for t in n.targets):
            try:
                pins = ast.literal_eval(n.value)
                if "PINS +=" in src or "PINS.extend" in src or "PINS.append" in src:
                    raise ValueError("extended later")
            except Exception:      # not a pure literal, or extended after the assignment: import the module and read the list
                pins = getattr(importlib.import_module("harness.props." + os.path.basename(p)[:-3]), "PINS")
            for rel, qual in pins:
                t = ast.parse(open(os.path.join("/repo", rel)).read()); node = t
                for part in qual.split("."):
                    node = next(x for x in ast.walk(node) if isinstance(x, (ast.FunctionDef, ast.ClassDef, ast.AsyncFunctionDef)) and x.name == part)
                out[f"{rel}::{qual}"] = sha(ast.dump(node, include_attributes=False))
json.dump(out, open(f"{V}/gen/pins.json", "w"), indent=1, sort_keys=True)
print(len(out), "pins recorded")
