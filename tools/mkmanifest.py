#!/usr/bin/env python3
"""Assemble MANIFEST.json from manifest/Cxx.json fragments. Properties without a fragment are
listed under not_applicable (= not claimed in this revision) with the reason in manifest/unclaimed.json."""
import glob, json, os
V = os.path.dirname(os.path.dirname(os.path.abspath(__file__)))
props = [json.loads(l)["id"] for l in open(os.path.join(V, "properties.jsonl"))]
frags = {}
for p in sorted(glob.glob(os.path.join(V, "manifest", "C*.json"))):
    d = json.load(open(p))
    frags[d["property_id"]] = d
unclaimed = {}
up = os.path.join(V, "manifest", "unclaimed.json")
if os.path.exists(up):
    unclaimed = json.load(open(up))
enabled = json.load(open(os.path.join(V, "manifest", "enabled.json")))
frags = {k: v for k, v in frags.items() if k in enabled}   # only checks confirmed to exit 0 on /repo as committed
checks = []
for pid in props:
    if pid not in frags:
        continue
    d = frags[pid]
    checks.append({
        "property_id": pid,
        "quick_cmd": f"./check {pid} quick",
        "thorough_cmd": f"./check {pid} thorough",
        "evidence_file": f"evidence/{pid}.json",
        "replay_cmd_template": f"./check {pid} --replay {{path}}",
        "engine": "lean4-proof+correspondence",
        "level_claimed": {"category": "proof", "text": d["level_text"], "design_ref": d.get("design_ref", f"DESIGN.md section 6, {pid}")},
        "level_note": d["level_note"],
        "technique": d.get("technique", "Lean 4 theorems over a model tied to the code by regenerated tables and a model-vs-implementation correspondence run"),
    })
na = [{"property_id": pid, "reason": unclaimed.get(pid, "no check is registered for this property in this revision: its model and theorems are not finished; not handed to another technique")}
      for pid in props if pid not in frags]
man = {
    "version": 1,
    "setup_cmd": "./setup.sh",
    "hooks": {
        "guard": "ANDROGUARD_VERIF",
        "enable": "checks run androguard in-process from /repo's working tree (PYTHONPATH) with ANDROGUARD_VERIF=1 in the environment; nothing is compiled",
        "baseline_off_cmd": "cd /repo && env -u ANDROGUARD_VERIF /venv/bin/python -m pytest -ra -q -p no:cacheprovider --timeout=900 --continue-on-collection-errors",
        "source_commits": json.load(open(os.path.join(V, "manifest", "hooks.json"))) if os.path.exists(os.path.join(V, "manifest", "hooks.json")) else [],
        "add_only": True,
    },
    "engines": [{
        "name": "lean4-proof+correspondence", "path": "check",
        "serves_properties": [c["property_id"] for c in checks],
        "kind_free_text": "Lean 4.33 theorems (lean/AgVerif/Props) about executable models (lean/AgVerif/Model); translator gen/ regenerates tables from /repo on every run; harness/ runs the real androguard code and the compiled Lean model on the same inputs and an independent oracle searches for failing inputs",
    }],
    "checks": checks,
    "notes": "See DESIGN.md. exit 0 held / exit 1 VIOLATION line / exit 2 tool failure. known findings: known_findings.jsonl",
    "not_applicable": na,
}
json.dump(man, open(os.path.join(V, "MANIFEST.json"), "w"), indent=1)
print(f"{len(checks)} checks, {len(na)} unclaimed")
