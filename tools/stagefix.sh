#!/bin/bash
# tools/stagefix.sh <diff> "<commit message>"  : apply a fix diff to the staging worktree /tmp/stage (branch stage) and commit it
set -e
d="$1"; msg="$2"
[ -d /tmp/stage ] || git -C /repo worktree add -q -b stage /tmp/stage HEAD
cd /tmp/stage
git apply -3 --index "$d" || { echo "APPLY FAILED: $d"; git checkout -q -- . ; exit 1; }
git -c user.name=builder -c user.email=builder@example.invalid commit -q -m "$msg"
git log --oneline | head -1
