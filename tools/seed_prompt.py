#!/usr/bin/env python3
"""print the prompt for an independent 'seeded breakage' sub-agent for property Cxx (property text only)"""
import json, sys
pid, wt = sys.argv[1], sys.argv[2]
hard = len(sys.argv) > 3 and sys.argv[3] == "--hard"
p = next(json.loads(l) for l in open('/verif/properties.jsonl') if json.loads(l)['id'] == pid)
print(f"""You are testing how well a project's safeguards catch subtle regressions. You work ONLY inside the git worktree {wt} (a checkout of the Python project androguard; python is /venv/bin/python, run things with PYTHONPATH={wt}). Do not read or touch /verif or /repo, and do not read anything outside {wt} except the Python standard library / installed packages.

Here is a semantic property the project is supposed to satisfy:

  Title: {p['title']}
  Statement: {p['statement']}
  Quantifier: {p['quantifier']['text']}
  Anchored in: {', '.join(p['anchors']['files'])}

Task: produce ONE small, realistic change to the androguard source in {wt} (the kind of slip a maintainer could make in a refactor, optimisation or "cleanup" — not sabotage that ordinary use exposes at once) such that:
  (a) the package still imports, and the existing test suite still passes (run at least the test files that touch the changed module: `cd {wt} && /venv/bin/python -m pytest tests/<relevant>.py -q -p no:cacheprovider -x`; the full suite takes ~6 minutes: `/venv/bin/python -m pytest -q -p no:cacheprovider --timeout=900` — run it at the end; 6 tests fail already WITHOUT any change: tests.test_apk.APKTest::testAPK, ::testCustomPermissionProtectionLevel, ::testFeatures, ::testFrameworkResAPK, ::testMultipleLocaleAppName and tests.test_strings.StringTest::testMUTF8 — ignore those);
  (b) the property above is violated, but only for something specific: an unusual input, a particular multi-step sequence of operations, a boundary value, a particular interleaving or fault, or two cooperating sites that each look fine alone;
  (c) you have a demonstration: a small standalone script `demo.py` (placed in {wt}/seed_demo/) that exits 0 on the UNCHANGED code and exits non-zero (assert failure) WITH your change, by checking the property on the specific triggering input.
{"IMPORTANT — make it hard to find: assume the project is already guarded by randomized differential tests of this very property (structured random generators for mostly-valid inputs, tables of boundary values such as 0, 1, -1, MIN, MAX, powers of two and their neighbours, byte-level mutations, and exhaustive enumeration of small scopes such as all inputs of 1-2 bytes or all graphs of up to 4 nodes). Choose a trigger that such testing is UNLIKELY to reach: a rare conjunction of two or three independent conditions, a specific non-boundary magic value or size (beyond a few hundred elements / a few kilobytes), a particular ordering or repetition, state carried over from an earlier operation, or a path that only unusual-but-legal inputs take. Estimate in meta.json (key `rarity`) how likely a random well-formed input is to trigger it." if hard else ""}
Deliver in {wt}/seed_demo/: `patch.diff` (output of `git -C {wt} diff -- androguard` — source changes only), `demo.py`, and `meta.json` with keys: property ("{pid}"), summary (one sentence: what was changed), needs (what specific input/sequence/condition is required for the violation to manifest), files (changed files), ran (the commands you ran and their outcome, including the test results with and without the change). Verify (c) both ways yourself with `git diff -- androguard > seed_demo/patch.diff; git checkout -- androguard; …; git apply seed_demo/patch.diff` (NEVER use `git stash`: the stash is shared with other worktrees of this repository). Leave the worktree with the change APPLIED and seed_demo/ present. Final message: the contents of meta.json. Do not commit.""")
