#!/bin/bash
# tools/reseed.sh <Cxx> <seed-name> : re-run our check against a kept seeded change (after strengthening)
set -e
id=$1; nm=$2; wt=/tmp/re-$nm
git -C /repo worktree add -q --detach $wt main
mkdir -p $wt/seed_demo; cp /verif/seeded/$nm/patch.diff /verif/seeded/$nm/demo.py /verif/seeded/$nm/meta.json $wt/seed_demo/
# meta.json in seeded/ already carries our fields; strip them so seedtest re-derives them but keeps history
python3 /verif/tools/seedtest.py $id $nm $wt --no-suite | tail -1 | sed "s/^/$nm /"
git -C /repo worktree remove --force $wt
