#!/usr/bin/env python3
"""run every registered check (MANIFEST.json) and summarise. usage: tools/runall.py [quick|thorough] [-j N] [Cxx ...]"""
import json, os, subprocess, sys, time
from concurrent.futures import ThreadPoolExecutor
V = os.path.dirname(os.path.dirname(os.path.abspath(__file__)))
args = sys.argv[1:]
tier = "quick"
j = 4
ids = []
while args:
    a = args.pop(0)
    if a in ("quick", "thorough"): tier = a
    elif a == "-j": j = int(args.pop(0))
    else: ids.append(a)
man = json.load(open(os.path.join(V, "MANIFEST.json")))
checks = [c for c in man["checks"] if not ids or c["property_id"] in ids]
def run(c):
    t = time.time()
    cmd = c["quick_cmd"] if tier == "quick" else c.get("thorough_cmd", c["quick_cmd"])
    p = subprocess.run(cmd, shell=True, cwd=V, capture_output=True, text=True)
    lines = [l for l in p.stdout.split("\n") if l.startswith(("VIOLATION", "KNOWN-FINDING"))]
    return c["property_id"], p.returncode, round(time.time() - t), lines, p.stdout[-300:] if p.returncode not in (0,) else ""
with ThreadPoolExecutor(j) as ex:
    for pid, rc, dt, lines, tail in ex.map(run, checks):
        print(f"{pid} rc={rc} {dt}s " + " | ".join(lines)[:200], flush=True)
        if rc not in (0, 1): print("   ", tail.replace("\n", "\n    "))
