"""dexmodel -- random DEX *class models* on top of the independent writer harness.dexasm.

Import-safe: imports only the standard library and harness.dexasm, never androguard.

A *model* is a plain JSON-able dict (so it can be stored in a replay file / corpus):

    {"classes": [ {"name": "LFoo;", "super": "Ljava/lang/Object;" | None, "interfaces": [...],
                   "access": int, "source": str | None,
                   "sfields": [[name, type, access, init | None], ...],     # static
                   "ifields": [[name, type, access, None], ...],            # instance
                   "dmethods": [[name, ret, [params], access, code | None], ...],   # direct
                   "vmethods": [...],                                       # virtual
                   "annotate": bool}, ...],
     "extra_fields": [[cls, name, type], ...],       # pool entries nobody defines: index gaps
     "extra_methods": [[cls, name, ret, [params]], ...],
     "extra_strings": [...],
     "build": {"leb_pad": 0..2, "shared_handlers": bool, "version": "035".."041", "map_order": None | [types],
               "extra_map": [[type, size, offset | "map", position (-1 = last)], ...]}}   # extra map entries,
                                                            # e.g. of a type code no format version assigns

  code = {"regs": int, "ins": int, "outs": int, "insns": hex (opaque: may hold undecodable units), "tries": [[start, count, [[type, addr], ...],
          catch_all | None], ...], "debug": None | [line_start, [param names | None]] | [line_start, [names], [[opcode, operands ...], ...]]}
  init = [value_type, value]   (only int-like / string / null values)

API
    gen_model(rng, max_classes=4, adversarial=None) -> model
    build(model, **override_build_kwargs)          -> (bytes, DexBuilder)
    expected_line(model, builder)                  -> the canonical one-line view the *writer intended*
                                                      (same format as lean/Driver/C05.lean `showDex` and
                                                      harness.props.c05.real_line), incl. the lookups
    expected_view(model, builder)                  -> the same as nested Python data
    hx(s) / canon helpers                          -> hex of the MUTF-8 encoding of a str ("-" if empty)
    permute_map(data, order)                       -> bytes with the map_list entries rearranged
                                                      (order = list of positions) and checksums fixed
    read_map(data)                                 -> [(type, size, offset), ...] as stored in the file

Identifiers deliberately include non-ASCII (2- and 3-byte MUTF-8, supplementary code points =
surrogate pairs), `$`, `-`, `<init>`/`<clinit>`, names that end in `L`/`I` and classes whose simple
name starts with `L` (so that `name + descriptor` concatenations are ambiguous: field `aL` of type
`Lb;` vs field `a` of type `LLb;`).
"""
import struct

from harness import dexasm as A

PRIMS = ["Z", "B", "S", "C", "I", "J", "F", "D"]
SIMPLE = ["a", "b", "x", "foo", "Bar", "aL", "L", "Lb", "I", "aI", "J", "get$1", "v-1", "_", "é", "名前",
          "\U00010400k", "ñandú", "Zz", "data", "m", "run", "D", "LLb", "bL", "q9"]
PKGS = ["", "", "com/", "com/ex/", "a/b/c/", "π/"]
SOURCES = [None, "A.java", "Foo.kt", "файл.java", "", "x"]
EXTERNAL = ["Ljava/lang/Object;", "Ljava/lang/String;", "Ljava/util/List;", "Ljava/lang/Runnable;",
            "Ljava/io/Serializable;", "Ljava/lang/Exception;"]
FIELD_FLAGS = [0x0, 0x1, 0x2, 0x4, 0x10, 0x12, 0x40, 0x80, 0x1000, 0x4000, 0x1011]
METHOD_FLAGS = [0x1, 0x2, 0x4, 0x11, 0x20, 0x40, 0x80, 0x1000, 0x1001, 0x20001]
# junk after the reachable code: unused opcodes, an instruction cut off by the end of the code,
# payloads that claim more data than there is
UNDECODABLE = ["3e00", "4100", "7300", "7a00", "3e0000000000", "7900", "1400", "1801", "2400", "6e10",
               "000164000000", "00020a00", "00030400ffff0000"]
SIMPLE_INSNS = ["0e00", "12000f00", "1200110000", "0000", "00000e00", "12011210900201000f00",
                "1a000000", "22000000", "6e1000000000", "0d002700"]


def hx(s) -> str:
    """hex of the MUTF-8 bytes of a str, '-' for the empty string"""
    b = A.mutf8_encode(A.norm_str(s))
    return b.hex() if b else "-"


def _cls_name(rng, used):
    for _ in range(50):
        n = "L" + rng.choice(PKGS) + rng.choice(SIMPLE) + (str(rng.randrange(100)) if rng.random() < 0.3 else "") + ";"
        if n not in used:
            used.add(n)
            return n
    n = "Lgen/C%d;" % len(used)
    used.add(n)
    return n


def _type(rng, classes, depth_ok=True):
    r = rng.random()
    if r < 0.45:
        t = rng.choice(PRIMS)
    elif r < 0.75 and classes:
        t = rng.choice(classes)
    else:
        t = rng.choice(EXTERNAL + ["Lb;", "LLb;", "LI;", "LaL;"])
    if depth_ok and rng.random() < 0.2:
        t = "[" * rng.randrange(1, 4) + t
    return t


def _flags(rng, base, force=0):
    f = rng.choice(base) | force
    if rng.random() < 0.07:
        f = rng.randrange(1 << 32)            # any 32-bit value is a legal uleb128 payload
    return f


def _code(rng, params, static, classes):
    ins_words = sum(2 if p in ("J", "D") else 1 for p in params) + (0 if static else 1)
    regs = ins_words + rng.randrange(0, 6)
    r = rng.random()
    if r < 0.2:
        insns = bytes(rng.randrange(256) for _ in range(2 * rng.randrange(1, 12))).hex()
    elif r < 0.4:
        # decodable prefix, then a code unit no disassembler accepts (code is opaque to the class
        # model: the file still declares exactly these bytes), at the end or in the middle
        insns = "".join(rng.choice(SIMPLE_INSNS) for _ in range(rng.randrange(1, 3)))
        if len(insns) % 4:
            insns += "00"
        insns += rng.choice(UNDECODABLE)
        if rng.random() < 0.4:
            insns += rng.choice(["0e00", "00000000", "0000"])
    else:
        insns = "".join(rng.choice(SIMPLE_INSNS) for _ in range(rng.randrange(1, 5)))
        if len(insns) % 4:
            insns += "00"
    n_units = len(insns) // 4
    tries = []
    if rng.random() < 0.3:
        for _ in range(rng.randrange(1, 4)):
            hs = [[rng.choice(EXTERNAL + classes), rng.randrange(n_units + 1)] for _ in range(rng.randrange(0, 3))]
            ca = rng.randrange(n_units + 1) if (rng.random() < 0.4 or not hs) else None
            tries.append([rng.randrange(n_units), rng.randrange(1, n_units + 1), hs, ca])
    debug = None
    if rng.random() < 0.2:
        debug = [rng.randrange(1, 500), [rng.choice([None, "p", "arg"]) for _ in params]]
        if rng.random() < 0.6:             # state machine bytecodes: [opcode, operand values ...] (DBG_KINDS)
            ops = []
            for _ in range(rng.randrange(1, 7)):
                op = rng.choice([1, 2, 3, 4, 5, 6, 7, 8, 9, 10, 0x40, 0xff])
                args = []
                for k in DBG_KINDS.get(op, ""):
                    if k == "u":
                        args.append(rng.choice([0, 1, 5, 200, 70000]))
                    elif k == "s":
                        args.append(rng.choice([0, 1, -1, -64, 63, 64, -65, 5000, -5000]))
                    else:
                        args.append(rng.choice([-1, 0, 1, 300]))
                ops.append([op] + args)
            debug.append(ops)
    return {"regs": regs, "ins": ins_words, "outs": rng.randrange(0, 4), "insns": insns, "tries": tries,
            "debug": debug}


def _init(rng, t):
    if t == "I":
        return [A.VALUE_INT, rng.choice([0, 1, -1, 127, -128, 65535, -2 ** 31, 2 ** 31 - 1])]
    if t == "J":
        return [A.VALUE_LONG, rng.choice([0, -1, 2 ** 40, -2 ** 63])]
    if t == "Z":
        return [A.VALUE_BOOLEAN, rng.random() < 0.5]
    if t == "B":
        return [A.VALUE_BYTE, rng.randrange(-128, 128)]
    if t == "S":
        return [A.VALUE_SHORT, rng.randrange(-2 ** 15, 2 ** 15)]
    if t == "C":
        return [A.VALUE_CHAR, rng.randrange(0, 2 ** 16)]
    if t == "Ljava/lang/String;":
        return [A.VALUE_STRING, rng.choice(["", "hi", "é", "名"])]
    if t[0] in "L[":
        return [A.VALUE_NULL, None]
    return None


def gen_model(rng, max_classes=4, adversarial=None):
    """a random class model; `adversarial` (None = 25%) adds members whose name+descriptor
    concatenations collide"""
    n = rng.choice([0, 1, 1, 2, 2, 3, max_classes]) if max_classes > 0 else 0
    used = set()
    names = [_cls_name(rng, used) for _ in range(n)]
    classes = []
    extra_fields, extra_methods = [], []
    for ci, name in enumerate(names):
        others = names[:ci]            # supertypes are defined earlier: no cycles
        is_iface = rng.random() < 0.2
        access = (0x601 if is_iface else rng.choice([0x1, 0x11, 0x401, 0x0, 0x4011]))
        if rng.random() < 0.05:
            access = rng.randrange(1 << 32)
        sup = None if rng.random() < 0.05 else rng.choice(EXTERNAL[:1] * 3 + others + EXTERNAL)
        ifs = []
        for _ in range(rng.choice([0, 0, 0, 1, 2, 3])):
            c = rng.choice(EXTERNAL[3:5] + others)
            if c not in ifs:
                ifs.append(c)
        c = {"name": name, "super": sup, "interfaces": ifs, "access": access, "source": rng.choice(SOURCES),
             "sfields": [], "ifields": [], "dmethods": [], "vmethods": [], "annotate": rng.random() < 0.1}
        empty = rng.random() < 0.12
        seen_f, seen_m = set(), set()

        def add_field(lst, nm, ty, static):
            if (nm, ty) in seen_f:
                return
            seen_f.add((nm, ty))
            init = _init(rng, ty) if static and rng.random() < 0.3 else None
            lst.append([nm, ty, _flags(rng, FIELD_FLAGS, 0x8 if static else 0), init])

        def add_method(lst, nm, ret, params, direct):
            key = (nm, ret, tuple(params))
            if key in seen_m:
                return
            seen_m.add(key)
            if direct:
                fl = _flags(rng, [0x8, 0x9, 0x2, 0xa, 0x1a])
                if nm in ("<init>", "<clinit>"):
                    fl = 0x10001 if nm == "<init>" else 0x10008
            else:
                fl = _flags(rng, METHOD_FLAGS)
            nocode = (not direct and is_iface) or rng.random() < 0.2
            if nocode:
                fl |= rng.choice([0x400, 0x100])
                code = None
            else:
                code = _code(rng, params, bool(fl & 0x8), names)
            lst.append([nm, ret, list(params), fl, code])

        if not empty:
            for _ in range(rng.randrange(0, 4)):
                add_field(c["sfields"], rng.choice(SIMPLE), _type(rng, names), True)
            for _ in range(rng.randrange(0, 5)):
                add_field(c["ifields"], rng.choice(SIMPLE), _type(rng, names), False)
            for _ in range(rng.randrange(0, 4)):
                nm = rng.choice(["<init>", "<clinit>", "main"] + SIMPLE)
                params = [] if nm == "<clinit>" else [_type(rng, names) for _ in range(rng.choice([0, 0, 1, 2, 3, 6]))]
                ret = "V" if nm.startswith("<") else rng.choice(["V", "V"] + [_type(rng, names)])
                add_method(c["dmethods"], nm, ret, params, True)
            for _ in range(rng.randrange(0, 5)):
                params = [_type(rng, names) for _ in range(rng.choice([0, 0, 1, 2, 3]))]
                add_method(c["vmethods"], rng.choice(SIMPLE), rng.choice(["V"] + [_type(rng, names)]), params, False)
            adv = rng.random() < 0.25 if adversarial is None else adversarial
            if adv:
                base, s = rng.choice(["a", "x", "é", "foo"]), rng.choice(["b", "Q", "名"])
                static = rng.random() < 0.5
                lst = c["sfields"] if static else c["ifields"]
                add_field(lst, base + "L", "L" + s + ";", static)
                add_field(lst, base, "LL" + s + ";", static)
                if rng.random() < 0.5:   # the same trick across the static / instance lists
                    add_field(c["sfields"], base + "LL", "L" + s + ";", True)
                    add_field(c["ifields"], base + "L", "LL" + s + ";", False)
            # index gaps: pool entries of this class that the class does not define
            for _ in range(rng.choice([0, 0, 1, 2])):
                extra_fields.append([name, rng.choice(SIMPLE), _type(rng, names)])
            for _ in range(rng.choice([0, 0, 1, 2])):
                extra_methods.append([name, rng.choice(SIMPLE), rng.choice(["V", "I"]), [_type(rng, names)]])
        classes.append(c)
    # the pools must not contain a declared member twice in different roles: extra entries that
    # coincide with declared members are harmless (same pool entry)
    for _ in range(rng.choice([0, 0, 1, 3])):
        extra_methods.append([rng.choice(EXTERNAL), rng.choice(SIMPLE), "V", []])
        extra_fields.append([rng.choice(EXTERNAL), rng.choice(SIMPLE), rng.choice(PRIMS)])
    build = {"leb_pad": rng.choice([0, 0, 0, 1, 2]), "shared_handlers": rng.random() < 0.5,
             "version": rng.choice(["035", "035", "037", "038", "039", "040", "041"]), "map_order": None}
    return {"classes": classes, "extra_fields": extra_fields, "extra_methods": extra_methods,
            "extra_strings": [rng.choice(SIMPLE + ["", "\x00", "\ud800", "a b"]) for _ in range(rng.choice([0, 0, 2]))],
            "build": build}


# --------------------------------------------------------------------------- building

# operands of the debug_info state machine bytecodes (format document): u = uleb128, s = sleb128, p = uleb128p1
DBG_KINDS = {1: "u", 2: "s", 3: "upp", 4: "uppp", 5: "u", 6: "u", 9: "p"}


def debug_opcodes(ops):
    """bytes of the bytecodes [[opcode, operands ...], ...] followed by DBG_END_SEQUENCE"""
    out = b""
    for o in ops:
        out += bytes([o[0]])
        for k, v in zip(DBG_KINDS.get(o[0], ""), o[1:]):
            out += A.uleb128(v) if k == "u" else (A.sleb128(v) if k == "s" else A.uleb128p1(v))
    return out + b"\x00"


def _mk_code(c):
    if c is None:
        return None
    tries = [A.Try(t[0], t[1], [(h[0], h[1]) for h in t[2]], t[3]) for t in c["tries"]]
    dbg = None
    if c.get("debug") is not None:
        line, pnames = c["debug"][:2]
        opc = debug_opcodes(c["debug"][2]) if len(c["debug"]) > 2 else b'\x00'
        dbg = (lambda line, pnames, opc: (lambda b: A.debug_info_item(line, pnames, opc, b)))(line, pnames, opc)
    return A.Code(c["regs"], c["ins"], c["outs"], bytes.fromhex(c["insns"]), tries=tries, debug_info=dbg)


def build(model, **kw):
    """serialise the model with the independent writer.  Returns (bytes, DexBuilder)."""
    b = A.DexBuilder()
    for s in model.get("extra_strings", ()):
        b.extra_strings.append(s)
    for c in model["classes"]:
        for m in c["dmethods"] + c["vmethods"]:
            if m[4] is not None and m[4].get("debug") is not None:
                for p in m[4]["debug"][1]:
                    if p is not None:
                        b.extra_strings.append(p)
    for f in model.get("extra_fields", ()):
        b.extra_fields.append(tuple(f))
    for m in model.get("extra_methods", ()):
        b.extra_methods.append((m[0], m[1], m[2], tuple(m[3])))
    for c in model["classes"]:
        ann = None
        if c.get("annotate"):
            ann = {"class": [A.Annotation(1, "Ljava/lang/Deprecated;", [])]}
        sv = None
        if c.get("xann") or c.get("xstatic") is not None:      # harness/dexx.py: explicit static values / annotations
            from harness import dexx as X
            if c.get("xann"):
                ann = X.to_annotations(c["xann"])
            if c.get("xstatic") is not None:
                sv = [X.to_tuple(v) for v in c["xstatic"]]
        b.add_class(
            c["name"], superclass=c["super"], interfaces=c["interfaces"], access=c["access"],
            source_file=c["source"],
            static_fields=[A.Field(f[0], f[1], f[2], init=None if f[3] is None else tuple(f[3])) for f in c["sfields"]],
            instance_fields=[A.Field(f[0], f[1], f[2]) for f in c["ifields"]],
            direct_methods=[A.Method(m[0], m[1], tuple(m[2]), m[3], _mk_code(m[4])) for m in c["dmethods"]],
            virtual_methods=[A.Method(m[0], m[1], tuple(m[2]), m[3], _mk_code(m[4])) for m in c["vmethods"]],
            annotations=ann, static_values=sv)
    opts = dict(model.get("build", {}))
    opts.update(kw)
    em = opts.pop("extra_map", None)
    if em:
        def order(es, em=em):
            es = list(es)
            for t, size, off, pos in em:
                o = next(e[2] for e in es if e[0] == A.TYPE_MAP_LIST) if off == "map" else off
                es.insert(len(es) if pos < 0 else min(pos, len(es)), (t, size, o))
            return es
        opts["map_order"] = order
    ver = opts.pop("version", "035")
    opts["version"] = ver.encode() if isinstance(ver, str) else ver
    data = b.build(**opts)
    return data, b


# --------------------------------------------------------------------------- the intended view

def _desc(ret, params):
    """androguard's method descriptor: parameters separated by one space"""
    return "(" + " ".join(params) + ")" + ret


def expected_view(model, b):
    """what the file declares, from the generator's model and the writer's pool indices:
    {"strings": [...], "classes": [ {name, super, interfaces, access, source, sf, if, dm, vm} ]}
    field = (idx, cls, name, type, flags); method = (idx, cls, name, desc, flags, code | None),
    code = (regs, ins, outs, ntries, debug_off, insns_size, insns hex)"""
    by_name = {}
    for c in model["classes"]:
        by_name.setdefault(A.norm_str(c["name"]), c)
    out = []
    for cd in b.class_order:
        c = by_name[cd.name]

        def fld(f):
            return (b.field_idx(cd.name, f[0], f[1]), cd.name, A.norm_str(f[0]), A.norm_str(f[1]), f[2])

        def mth(m):
            ref = (cd.name, A.norm_str(m[0]), A.norm_str(m[1]), tuple(A.norm_str(p) for p in m[2]))
            code = None
            if m[4] is not None:
                k = m[4]
                code = (k["regs"], k["ins"], k["outs"], len(k["tries"]), b.layout["debug_info"].get(ref, 0),
                        len(k["insns"]) // 4, k["insns"] or "-")
            return (b.method_idx(*ref), cd.name, ref[1], _desc(ref[2], ref[3]), m[3], code)
        out.append({"name": cd.name, "super": c["super"], "interfaces": list(c["interfaces"]),
                    "access": c["access"] & 0xFFFFFFFF, "source": c["source"],
                    "sf": sorted(map(fld, c["sfields"])), "if": sorted(map(fld, c["ifields"])),
                    "dm": sorted(map(mth, c["dmethods"]), key=lambda m: m[0]),
                    "vm": sorted(map(mth, c["vmethods"]), key=lambda m: m[0])})
    return {"strings": list(b.strings), "classes": out}


INVALID_TYPE = "AG:ITI: invalid type"     # what androguard reports for NO_INDEX as a type index


def _show_code(code):
    if code is None:
        return "-"
    return "%d.%d.%d.%d.%d.%d.%s" % code


def _show_field(f):
    return "%d:%s:%s:%s:%d" % (f[0], hx(f[1]), hx(f[2]), hx(f[3]), f[4])


def _show_method(m):
    return "%d:%s:%s:%s:%d:%s" % (m[0], hx(m[1]), hx(m[2]), hx(m[3]), m[4], _show_code(m[5]))


def _show_class(c):
    src = "~" if c["source"] is None else hx(c["source"])
    sup = INVALID_TYPE if c["super"] is None else c["super"]
    return ";".join([hx(c["name"]), hx(sup), ",".join(hx(i) for i in c["interfaces"]), str(c["access"]), src,
                     "F(" + "/".join(map(_show_field, c["sf"])) + ")", "F(" + "/".join(map(_show_field, c["if"])) + ")",
                     "M(" + "/".join(map(_show_method, c["dm"])) + ")", "M(" + "/".join(map(_show_method, c["vm"])) + ")"])


def shift(t):
    """the triple with the same concatenation, one character moved from descriptor to name
    (on MUTF-8 bytes, like the Lean driver: the first *byte* of the descriptor is ASCII)"""
    c, n, d = t
    return (c, n + d[:1], d[1:])


def lookups_line(view):
    """the lookups the PROPERTY demands ("exactly the matching items"), computed from the view by
    plain search: all classes/members whose (class, name, descriptor) equal the query."""
    ms = [m for c in view["classes"] for m in c["dm"] + c["vm"]]
    fs = [f for c in view["classes"] for f in c["sf"] + c["if"]]

    def mr(m):
        return "none" if m is None else "%d.%d" % (m[0], m[4])

    def one(items, pred):
        hits = [x for x in items if pred(x)]
        return hits[-1] if hits else None      # members are unique in a well-formed file: at most one hit

    def first(items, pred):
        for x in items:
            if pred(x):
                return x
        return None
    parts = []
    parts.append("gc=" + ",".join(
        (lambda k: "%d.%d.%d" % (k["access"], len(k["dm"] + k["vm"]), len(k["sf"] + k["if"])))(
            first(view["classes"], lambda k: k["name"] == c["name"])) for c in view["classes"]))
    parts.append("md=" + ",".join(mr(one(ms, lambda x: x[1:4] == m[1:4])) for m in ms))
    parts.append("fd=" + ",".join(mr(one(fs, lambda x: x[1:4] == f[1:4])) for f in fs))
    parts.append("ms=" + ",".join(mr(one(ms, lambda x: x[1:4] == shift(m[1:4]))) for m in ms))
    parts.append("fs=" + ",".join(mr(one(fs, lambda x: x[1:4] == shift(f[1:4]))) for f in fs))
    parts.append("mi=" + ",".join(mr(one(ms, lambda x: x[0] == m[0])) for m in ms))
    parts.append("cm=" + ",".join(mr(first(ms, lambda x: x[2] == m[2] and x[1] == m[1])) for m in ms))
    parts.append("mc=" + ",".join("+".join(mr(x) for x in ms if x[1] == c["name"]) for c in view["classes"]))
    parts.append("fc=" + ",".join("+".join(mr(x) for x in fs if x[1] == c["name"]) for c in view["classes"]))
    parts.append("mn=" + ",".join("+".join(mr(x) for x in ms if x[2] == m[2]) for m in ms))
    parts.append("fn=" + ",".join("+".join(mr(x) for x in fs if x[2] == f[2]) for f in fs))
    return " ".join(parts)


def view_line(view):
    return ("ok S[" + ",".join(hx(s) for s in view["strings"]) + "] C[" +
            "|".join(_show_class(c) for c in view["classes"]) + "] L[" + lookups_line(view) + "]")


def expected_line(model, b):
    return view_line(expected_view(model, b))


# --------------------------------------------------------------------------- map list surgery

def read_map(data):
    """[(type, size, offset)] of the map_list as stored"""
    off = struct.unpack_from("<I", data, 0x34)[0]
    n = struct.unpack_from("<I", data, off)[0]
    return [(lambda t, _u, s, o: (t, s, o))(*struct.unpack_from("<HHII", data, off + 4 + 12 * i)) for i in range(n)]


def permute_map(data, order):
    """rearrange the map entries: new entry i = old entry order[i]; signature and checksum re-fixed"""
    off = struct.unpack_from("<I", data, 0x34)[0]
    n = struct.unpack_from("<I", data, off)[0]
    assert sorted(order) == list(range(n)), (order, n)
    ents = [bytes(data[off + 4 + 12 * i: off + 16 + 12 * i]) for i in range(n)]
    b = bytearray(data)
    b[off + 4: off + 4 + 12 * n] = b"".join(ents[i] for i in order)
    return A.fix_checksum(bytes(b))


UNASSIGNED_MAP_TYPES = [0x2007, 0x0009, 0x1004, 0x3000, 0xFFFF, 0x00FF]


WITNESS_KEY_COLLISION = {
    "classes": [{"name": "LA;", "super": "Ljava/lang/Object;", "interfaces": [], "access": 1, "source": None,
                 "sfields": [["aL", "Lb;", 9, None], ["a", "LLb;", 9, None]], "ifields": [],
                 "dmethods": [], "vmethods": [["f", "V", [], 1, {"regs": 1, "ins": 1, "outs": 0, "insns": "0e00",
                                                               "tries": [], "debug": None}]],
                 "annotate": False}],
    "extra_fields": [], "extra_methods": [], "extra_strings": [],
    "build": {"leb_pad": 0, "shared_handlers": False, "version": "035", "map_order": None}}
