"""C22 worker: runs in a FRESH python process (its own PYTHONHASHSEED / ANDROGUARD_VERIF_HASHSALT) and
drives the REAL androguard decompiler.  Shares nothing with the Lean model.

    python -m harness.c22_worker <spec.json> <out.json>

mode "decompile" (default)
  spec = {"file": path, "classes": [class names] | null, "order": "M"|"Mrev"|"C"|"MC"|"CM"|"C2",
          "want": [keys whose full text is returned], "lazy": bool,
          "sample": {"seed": str, "n": int, "include": [class names]}   (instead of "classes")}
  keys:  "M <class> <method><descriptor>"  one method decompiled on its own (fresh DvMethod: what
                                            DecompilerDAD.get_source_method does)
         "K <class> <method><descriptor>"  the same method as part of DvClass.process()
         "C <class>"                       DvClass.get_source() of the whole class
         "R <class>"                       DvClass.get_source() after a second DvClass.process() on the
                                            same object (order "C2")
         "F <class> <method><descriptor>"  source of the method after an ABORTED process() on the same DvMethod
                                            (phase F: seeded injected exception / small recursion limit, then retry)
         "A <class> <method><descriptor>"  JSON AST of one method (fresh DvMethod, process(doAST=True))
         "X <class>"                       JSON AST of one class (fresh DvClass, process(doAST=True))
  orders: any string over M C A X = phases run one after the other over all requested classes
          (e.g. "AM": every method in AST mode first, then every method as source; "MX", "XC", "AXC", ...);
          M methods alone in file order · Mrev methods alone, reverse order · C whole classes ·
          MC methods alone then classes · CM classes then methods alone · C2 classes, processed twice
  lazy: build MethodAnalysis objects only for the requested classes (same objects Analysis.add would
        build; saves the analysis of the other 99% of a big APK)
mode "sites"
  spec = {"mode": "sites", "cases": [{"op": ..., ...}]}: each case builds a small scenario out of the real
  classes (Node, Interval, Graph, CondBlock, Variable, …), calls the real function and reports one
  canonical line (see harness/props/c22.py for the request format shared with the Lean driver).
"""
import hashlib
import json
import os
import sys
import time


def sha(s):
    return hashlib.sha256(s.encode("utf-8", "surrogatepass")).hexdigest()[:20]


class LazyVMA:
    """stand-in for analysis.Analysis that creates the MethodAnalysis of a method on first use"""

    def __init__(self, owner):
        self.owner = owner          # EncodedMethod -> DEX
        self.cache = {}

    def get_method(self, m):
        from androguard.core.analysis import analysis
        ma = self.cache.get(m)
        if ma is None:
            ma = self.cache[m] = analysis.MethodAnalysis(self.owner[m], m)
        return ma


def load(path, lazy):
    """-> (list of (class name, ClassDefItem)) in file order, vma"""
    from androguard.core import apk, dex, androconf
    from androguard.core.analysis import analysis
    ftype = androconf.is_android(path)
    if ftype == "APK":
        blobs = list(apk.APK(path).get_all_dex())
        vms = [dex.DEX(b) for b in blobs]
    elif ftype == "DEX":
        with open(path, "rb") as f:
            vms = [dex.DEX(f.read())]
    elif ftype == "DEY":
        with open(path, "rb") as f:
            vms = [dex.ODEX(f.read())]
    else:
        raise ValueError("not a DEX/APK: %r" % ftype)
    classes = []
    for vm in vms:
        for c in vm.get_classes():
            classes.append((c.get_name(), c, vm))
    if lazy:
        owner = {}
        for _, c, vm in classes:
            for m in c.get_methods():
                owner[m] = vm
        vma = LazyVMA(owner)
    else:
        vma = analysis.Analysis()
        for vm in vms:
            vma.add(vm)
    return [(n, c) for n, c, _ in classes], vma


def decompile_mode(spec, out):
    from androguard.decompiler import decompile
    t0 = time.time()
    want = set(spec.get("want") or [])
    classes, dx = load(spec["file"], bool(spec.get("lazy")))
    out["load_s"] = round(time.time() - t0, 2)
    byname = {}
    for n, c in classes:
        byname.setdefault(n, c)
    names = spec.get("classes")
    smp = spec.get("sample")
    if names is None and smp is not None:
        # seeded sample, the same in every configuration (the seed is part of the spec), biased towards
        # classes with much code (loops, conditions, many locals); `include` is always taken
        import random
        rng = random.Random(smp["seed"])
        pool, weights = [], []
        for n, c in byname.items():
            w = 0
            for m in c.get_methods():
                code = m.get_code()
                if code is not None:
                    w += int(getattr(code, "insns_size", 0) or 0)
            if w:
                pool.append(n); weights.append(w)
        chosen = [n for n in smp.get("include", []) if n in byname]
        k = min(int(smp["n"]), len(pool))
        keys = sorted(((rng.random() ** (1.0 / w), n) for n, w in zip(pool, weights)), reverse=True)
        extra = [n for _, n in keys if n not in chosen][:k]
        names = chosen + extra
    if names is None:
        names = list(byname)
    names = [n for n in names if n in byname]
    out["classes"] = len(names)
    res, srcs = out["results"], out["sources"]

    def put(key, text):
        res[key] = sha(text)
        if key in want:
            srcs[key] = text

    def mkey(kind, cname, m):
        return "%s %s %s%s" % (kind, cname, m.get_name(), m.get_descriptor())

    def do_methods(order, rev=False):
        for cname in order:
            meths = list(byname[cname].get_methods())
            if rev:
                meths = meths[::-1]
            for m in meths:
                key = mkey("M", cname, m)
                try:
                    z = decompile.DvMethod(dx.get_method(m))
                    z.process()
                    put(key, z.get_source())
                except Exception as e:  # noqa: the exception type is part of the observable outcome
                    put(key, "EXC:" + type(e).__name__)

    def do_classes(order, twice=False):
        for cname in order:
            cls = byname[cname]
            try:
                c = decompile.DvClass(cls, dx)
                c.process()
                put("C " + cname, c.get_source())
                for orig, m in zip(cls.get_methods(), c.methods):
                    key = mkey("K", cname, orig)
                    put(key, m.get_source() if isinstance(m, decompile.DvMethod) else "EXC:not-processed")
                if twice:
                    c.process()
                    put("R " + cname, c.get_source())
            except Exception as e:  # noqa
                put("C " + cname, "EXC:" + type(e).__name__)

    def ast_text(a):
        """canonical JSON text of an AST (never the repr of an object: that would carry addresses)"""
        return json.dumps(a, sort_keys=True, default=lambda o: "<%s>" % type(o).__name__)

    def do_ast_methods(order, rev=False):
        # what DecompilerDAD.get_ast_method does: a fresh DvMethod processed in AST mode
        for cname in order:
            meths = list(byname[cname].get_methods())
            for m in (meths[::-1] if rev else meths):
                key = mkey("A", cname, m)
                try:
                    z = decompile.DvMethod(dx.get_method(m))
                    z.process(doAST=True)
                    put(key, ast_text(z.get_ast()))
                except Exception as e:  # noqa
                    put(key, "EXC:" + type(e).__name__)

    FAULTS = ["ast.visit_ins", "ast.get_ast.pre", "src.visit_ins", "split_variables.post", "identify_structures.post",
              "place_declarations.post", "reclimit.ast", "reclimit.src"]

    class Injected(Exception):
        pass

    def do_fault_retry(order):
        """fault then retry: process() of a fresh DvMethod is ABORTED by an exception raised at a seeded point
        (monkeypatch inside this process only), the exception is swallowed as DvClass.process() swallows it,
        then process() is called again on the SAME object; its source text is reported under key
        "F <class> <method>" and must equal the text a fresh object gives (keys M/K of any configuration)"""
        import random
        from androguard.decompiler import dast, writer
        stats = out.setdefault("faults", {})
        for cname in order:
            for m in byname[cname].get_methods():
                key = mkey("F", cname, m)
                rng = random.Random("%s/%s" % (spec.get("fault_seed", 0), key))
                kind = rng.choice(FAULTS)
                nth = rng.randrange(1, 6)
                ctor = m.get_name() in ("<init>", "<clinit>")
                if ctor and kind.startswith("ast."):
                    # NOT judged: on the unchanged tree JSONWriter.get_ast removes 'constructor' from the access
                    # list of the DvMethod it writes (in place), so a later source request on the SAME object
                    # prints `void <init>` with or without a fault; only source-mode faults for constructors
                    kind = "src.visit_ins"
                count = [0]
                undo = []

                def patch(obj, name, fn):
                    orig = getattr(obj, name)
                    setattr(obj, name, fn(orig))
                    undo.append((obj, name, orig))

                def nth_call(orig):
                    def f(*a, **k):
                        count[0] += 1
                        if count[0] >= nth:
                            raise Injected(kind)
                        return orig(*a, **k)
                    return f

                def after(orig):
                    def f(*a, **k):
                        orig(*a, **k)
                        raise Injected(kind)
                    return f

                def before(orig):
                    def f(*a, **k):
                        raise Injected(kind)
                    return f
                do_ast = (kind.startswith("ast.") or kind == "reclimit.ast" or (
                    kind.endswith(".post") and rng.random() < .5)) and not (
                    ctor and kind in ("reclimit.ast", "place_declarations.post", "identify_structures.post"))
                fired = "no"
                try:
                    z = decompile.DvMethod(dx.get_method(m))
                    old_limit = sys.getrecursionlimit()
                    try:
                        if kind == "ast.visit_ins":
                            patch(dast.JSONWriter, "visit_ins", nth_call)
                        elif kind == "ast.get_ast.pre":
                            patch(dast.JSONWriter, "get_ast", before)
                        elif kind == "src.visit_ins":
                            patch(writer.Writer, "visit_ins", nth_call)
                        elif kind.endswith(".post"):
                            patch(decompile, kind[:-5], after)
                        else:                     # a small recursion limit: RecursionError somewhere inside
                            import inspect
                            sys.setrecursionlimit(len(inspect.stack()) + 12 + 6 * nth)
                        try:
                            z.process(doAST=do_ast)
                        except Exception as e:    # noqa: what DvClass.process() does with it
                            fired = type(e).__name__
                    finally:
                        sys.setrecursionlimit(old_limit)
                        for obj, name, orig in undo:
                            setattr(obj, name, orig)
                    z.process()
                    put(key, z.get_source())
                except Exception as e:  # noqa
                    put(key, "EXC:" + type(e).__name__)
                k2 = kind + ("" if fired != "no" else ":not-fired")
                stats[k2] = stats.get(k2, 0) + 1

    def do_ast_classes(order):
        # what DecompilerDAD.get_ast_class does: a fresh DvClass processed in AST mode
        for cname in order:
            try:
                c = decompile.DvClass(byname[cname], dx)
                c.process(doAST=True)
                put("X " + cname, ast_text(c.get_ast()))
            except Exception as e:  # noqa
                put("X " + cname, "EXC:" + type(e).__name__)

    o = spec["order"]
    if o == "Mrev":
        do_methods(names[::-1], rev=True)
    elif o == "C2":
        do_classes(names, twice=True)
    elif o and all(ch in "MCAXaxF" for ch in o):
        # phases, each over all requested classes: M methods alone (source), C whole classes (source),
        # A methods alone in AST mode, X whole classes in AST mode; every request uses a fresh DvMethod/DvClass
        # a / x: the AST phases in reverse order (another method / class is the first one to be processed)
        for ch in o:
            if ch == "a":
                do_ast_methods(names[::-1], rev=True)
            elif ch == "x":
                do_ast_classes(names[::-1])
            else:
                {"M": do_methods, "C": do_classes, "A": do_ast_methods, "X": do_ast_classes,
                 "F": do_fault_retry}[ch](names)
    else:
        raise ValueError(o)


# ------------------------------------------------------------------------------------------ sites
def site_case(c):
    from androguard.decompiler import basic_blocks as bb, control_flow as cf, graph as gr, node as nd
    from androguard.decompiler import instruction as ins, util
    op = c["op"]
    names = lambda xs: ",".join(str(x.name) for x in xs) or "-"   # noqa
    if op == "cend":
        allv = sorted(set(c["ins"]) | {a for a, b in c["edges"]} | {b for a, b in c["edges"]})
        nodes = {i: bb.StatementBlock(str(i), []) for i in allv}
        g = gr.Graph()
        for i in allv:
            g.add_node(nodes[i])
        for a, b in c["edges"]:
            g.add_edge(nodes[a], nodes[b])
        iv = nd.Interval(nodes[c["ins"][0]])
        for x in c["ins"][1:]:
            iv.add_node(nodes[x])
        iv.compute_end(g)
        return str(iv.end.name)
    if op == "loopn":
        allv = sorted(set(c["loop"]) | set(map(int, c["nmap"])) | set(c["nmap"].values()))
        nodes = {i: nd.Node(str(i)) for i in allv}
        n = nd.Node("self")
        n.loop_nodes = [nodes[i] for i in c["loop"]]
        n.update_attribute_with({nodes[int(a)]: nodes[int(b)] for a, b in c["nmap"].items()})
        return names(n.loop_nodes)
    if op == "decl":
        vs = {i: ins.Variable(i) for i in set(c["adds"])}
        b = bb.StatementBlock("b", [])
        for v in c["adds"]:
            b.add_variable_declaration(vs[v])
        return names(b.var_to_declare)
    if op == "used":
        def mk(v):      # 1000+n stands for the invoke temporary 'tmpn'
            return ins.Variable("tmp%d" % (v - 1000) if v >= 1000 else v)
        back = lambda v: str(1000 + int(v[3:])) if isinstance(v, str) else str(v)   # noqa
        args = [mk(v) for v in c["args"]]
        kind = c["kind"]
        if kind == "filled":
            e = ins.FilledArrayExpression(len(args), "[I", args)
        elif kind == "static":
            e = ins.InvokeStaticInstruction("LX;", "m", ins.BaseClass("LX;"), "V", ["I"] * len(args), args,
                                            ("LX;", "m", "()V"))
        elif kind == "invoke":      # lused = args then base
            e = ins.InvokeInstruction("LX;", "m", args[-1], "V", ["I"] * (len(args) - 1), args[:-1],
                                      ("LX;", "m", "()V"))
        else:
            e = ins.BinaryExpression("+", args[0], args[1], "I")
        return ",".join(back(v) for v in e.get_used_vars()) or "-"
    if op == "merge":
        # E.. -> A(cond); pattern decides which of A's branches is the inner conditional B
        ids = c["nodes"]            # {"A":1,"B":2,"X":3,"Y":4,"P":[5,6,..]}
        A, B = bb.CondBlock(str(ids["A"]), []), bb.CondBlock(str(ids["B"]), [])
        X, Y = bb.StatementBlock(str(ids["X"]), []), bb.ReturnBlock(str(ids["Y"]), [])
        P = [bb.StatementBlock(str(i), []) for i in ids["P"]]
        obj = {ids["A"]: A, ids["B"]: B, ids["X"]: X, ids["Y"]: Y}
        obj.update({i: p for i, p in zip(ids["P"], P)})
        g = gr.Graph()
        for i in c["order"]:
            g.add_node(obj[i])
        pat = c["pattern"]
        if pat == 0:      # then.false is els : A && B
            A.true, A.false, B.true, B.false = B, X, Y, X
        elif pat == 1:    # then.true is els  : !A || B
            A.true, A.false, B.true, B.false = B, X, X, Y
        elif pat == 2:    # els.false is then : !A && B
            A.true, A.false, B.true, B.false = X, B, Y, X
        else:             # els.true is then  : A || B
            A.true, A.false, B.true, B.false = X, B, X, Y
        for a, b in c["edges"]:
            g.add_edge(obj[a], obj[b])
        g.entry = P[0]
        g.compute_rpo()
        idom = {n: None for n in g.nodes}
        cf.short_circuit_struct(g, idom, {})
        new = [n for n in g.nodes if isinstance(n, bb.ShortCircuitBlock)]
        if len(new) != 1:
            return "merged:%d" % len(new)
        new = new[0]
        return names(g.reverse_edges.get(new, [])) + "|" + names(g.edges.get(new, []))
    if op == "cdom":
        par = c["parents"]
        nodes = {i: bb.StatementBlock(str(i), []) for i in range(1, len(par))}
        for i, n in nodes.items():
            n.num = i
        idom = {nodes[i]: nodes.get(par[i]) for i in nodes}
        def_nodes = set(nodes[i] for i in c["nodes"])
        common = def_nodes.pop()                       # dataflow.place_declarations, lines 490-494
        for d in def_nodes:
            common = util.common_dom(idom, common, d)
        return str(common.name)
    if op == "cdomg":
        # general form: node ids differ from the numbers; a root has idom None; "err" = KeyError / None.num
        nodes = {int(i): bb.StatementBlock(str(i), []) for i in c["nums"]}
        for i, n in nodes.items():
            n.num = c["nums"][str(i)]
        idom = {nodes[int(i)]: (None if p is None else nodes[p]) for i, p in c["parents"].items()}
        def_nodes = set(nodes[i] for i in c["nodes"])
        try:
            common = def_nodes.pop()                   # dataflow.place_declarations, lines 490-494
            for d in def_nodes:
                common = util.common_dom(idom, common, d)
        except (KeyError, AttributeError):
            return "err"
        return str(common.name)
    if op == "lfollow":
        objs = {}
        for n, (iscond, t, f) in c["info"].items():
            objs[int(n)] = bb.CondBlock(n, []) if iscond else bb.StatementBlock(n, [])
        for n in set(c["nums"]) - set(c["info"]):
            objs[int(n)] = bb.StatementBlock(n, [])
        for n, num in c["nums"].items():
            objs[int(n)].num = num
        for n, (iscond, t, f) in c["info"].items():
            if iscond:
                objs[int(n)].true, objs[int(n)].false = objs[t], objs[f]
        loop = [objs[i] for i in c["loop"]]
        start = loop[0]
        cf.loop_follow(start, loop[-1], loop)
        fol = start.follow["loop"]
        return "none" if fol is None else str(fol.name)
    if op == "post":
        allv = sorted({c["entry"]} | {a for a, b in c["edges"]} | {b for a, b in c["edges"]})
        nodes = {i: bb.StatementBlock(str(i), []) for i in allv}
        g = gr.Graph()
        for i in allv:
            g.add_node(nodes[i])
        for a, b in c["edges"]:
            g.add_edge(nodes[a], nodes[b])
        g.entry = nodes[c["entry"]]
        return names(list(g.post_order()))
    if op == "intv":
        allv = c["nodes"]
        nodes = {i: bb.StatementBlock(str(i), []) for i in allv}
        g = gr.Graph()
        for i in allv:
            g.add_node(nodes[i])
        for a, b in c["edges"]:
            g.add_edge(nodes[a], nodes[b])
        g.entry = nodes[c["entry"]]
        g.compute_rpo()
        _ig, heads = cf.intervals(g)
        return ";".join("%s:%s" % (h.name, ".".join(n.name for n in iv.content)) for h, iv in heads.items())
    if op == "ifst":
        # the real if_struct on a graph with chosen conditional nodes, numbers and idoms dict (insertion order given)
        allv = sorted(int(k) for k in c["nums"])
        conds = set(c["conds"])
        nodes = {i: (bb.CondBlock(str(i), []) if i in conds else bb.StatementBlock(str(i), [])) for i in allv}
        g = gr.Graph()
        for i in allv:
            g.add_node(nodes[i])
        for a, b in c["edges"]:
            g.add_edge(nodes[a], nodes[b])
        g.entry = nodes[c["entry"]]
        for k, v in c["nums"].items():
            nodes[int(k)].num = v
        idoms = {}
        for n, d in c["idoms"]:
            idoms[nodes[n]] = nodes[d]
        unres = cf.if_struct(g, idoms)
        fol = ",".join("%d>%s" % (i, nodes[i].follow["if"].name) for i in allv if nodes[i].follow["if"] is not None) or "-"
        return fol + " U " + (",".join(str(i) for i in sorted(int(x.name) for x in unres)) or "-")
    if op == "swst":
        # the real switch_struct; switch nodes are SwitchBlock objects whose `switch` has no values (order_cases
        # then only moves the first case to `default`)
        class _NoValues:
            def get_values(self):
                return []
        allv = sorted(int(k) for k in c["nums"])
        sws = set(c["switches"])
        nodes = {i: (bb.SwitchBlock(str(i), _NoValues(), []) if i in sws else bb.StatementBlock(str(i), [])) for i in allv}
        g = gr.Graph()
        for i in allv:
            g.add_node(nodes[i])
        for a, b in c["edges"]:
            g.add_edge(nodes[a], nodes[b])
            if a in sws:
                nodes[a].add_case(nodes[b])
        g.entry = nodes[c["entry"]]
        for k, v in c["nums"].items():
            nodes[int(k)].num = v
        idoms = {}
        for n, d in c["idoms"]:
            idoms[nodes[n]] = nodes[d] if d else None
        try:
            cf.switch_struct(g, idoms)          # returns nothing: its set `unresolved` is local
        except (KeyError, AttributeError):
            return "err"
        return ",".join("%d>%s" % (i, nodes[i].follow["switch"].name) for i in allv if nodes[i].follow["switch"] is not None) or "-"
    if op == "uattr":
        # the real update_attribute_with of Node / CondBlock / SwitchBlock on one node; 0 = None
        objs = {i: bb.StatementBlock(str(i), []) for i in range(1, c["n"] + 1)}
        o = lambda i: objs[i] if i else None   # noqa
        if c["kind"] == "c":
            x = bb.CondBlock("x", [])
            x.true, x.false = o(c["tf"][0]), o(c["tf"][1])
        elif c["kind"] == "s":
            x = bb.SwitchBlock("x", None, [])
            x.cases = [objs[i] for i in c["cases"]]
            for k, vs in c["ntc"]:
                x.node_to_case[objs[k]] = list(vs)
        else:
            x = bb.StatementBlock("x", [])
        x.latch = o(c["latch"])
        for key, v in zip(list(x.follow), c["follow"]):
            x.follow[key] = o(v)
        x.loop_nodes = [objs[i] for i in c["loop_nodes"]]
        x.update_attribute_with({objs[a]: objs[b] for a, b in c["nmap"]})
        nm = lambda v: v.name if v is not None else "0"   # noqa
        tf = "%s,%s" % (nm(x.true), nm(x.false)) if c["kind"] == "c" else "0,0"
        cases = (",".join(n.name for n in x.cases) or "-") if c["kind"] == "s" else "-"
        ntc = (";".join("%s:%s" % (k.name, ".".join(str(v) for v in vs)) for k, vs in x.node_to_case.items()) or "-") \
            if c["kind"] == "s" else "-"
        return "%s|%s|%s|%s|%s|%s" % (nm(x.latch), ",".join(nm(v) for v in x.follow.values()),
                                      ",".join(n.name for n in x.loop_nodes) or "-", tf, cases, ntc)
    if op == "dseq":
        # the real derived_sequence; `intervals` is wrapped only to keep a reference to every interval graph
        # (the last, single-node one is not part of the returned deriv_seq)
        allv = c["nodes"]
        nodes = {i: bb.StatementBlock(str(i), []) for i in allv}
        g = gr.Graph()
        for i in allv:
            g.add_node(nodes[i])
        for a, b in c["edges"]:
            g.add_edge(nodes[a], nodes[b])
        g.entry = nodes[c["entry"]]
        g.compute_rpo()
        seen = []
        real_intervals = cf.intervals

        def recording(graph):
            ig, ih = real_intervals(graph)
            seen.append((graph, ig, ih))
            if len(seen) > c.get("cap", 200):
                raise RuntimeError("derived_sequence does not stop")
            return ig, ih
        cf.intervals = recording
        try:
            dseq, dint = cf.derived_sequence(g)
        finally:
            cf.intervals = real_intervals
        if len(dint) != len(seen) or any(a is not b[2] for a, b in zip(dint, seen)):
            return "other:deriv_interv"
        if len(dseq) != len(seen) or any(a is not b[0] for a, b in zip(dseq, seen)):
            return "other:deriv_seq"
        name = {n: n.name for n in g.nodes}           # canonical names of the nodes of the current level
        steps = []
        for graph, ig, ih in seen:
            pos = {iv: i for i, iv in enumerate(ig.nodes)}
            if list(ih.values()) != ig.nodes:
                return "other:interval_graph.nodes"
            hs = ";".join("%s:%s" % (name[h], ".".join(str(name[n]) for n in iv.content)) for h, iv in ih.items())
            recs = ",".join("%s>%s" % (name[iv.head], name[s.head]) for iv in ig.nodes for s in ig.sucs(iv)) or "-"
            preds = ";".join(",".join(str(pos[p]) for p in ig.all_preds(iv)) or "-" for iv in ig.nodes)
            rpo = ",".join(str(pos[iv]) for iv in ig.rpo) or "-"
            steps.append("%s E %s P %s R %s e %s" % (hs, recs, preds, rpo, pos[ig.entry]))
            name = pos
        return " / ".join(steps)
    raise ValueError(op)


def sites_mode(spec, out):
    replies = []
    for c in spec["cases"]:
        try:
            replies.append(site_case(c))
        except Exception as e:  # noqa
            replies.append("other:" + type(e).__name__)
    out["replies"] = replies


def main(argv):
    spec = json.load(open(argv[0]))
    try:
        from loguru import logger
        logger.remove()
    except Exception:
        pass
    sys.setrecursionlimit(5000)
    t0 = time.time()
    from androguard.decompiler import node
    import androguard.decompiler.decompile  # noqa: also installs the Variable part of the hook
    out = {"hook": list(getattr(node, "_VERIF_HOOK_H2", []) or []),
           "hashseed": os.environ.get("PYTHONHASHSEED"), "salt": os.environ.get("ANDROGUARD_VERIF_HASHSALT"),
           "results": {}, "sources": {}}
    if spec.get("mode") == "sites":
        sites_mode(spec, out)
    else:
        decompile_mode(spec, out)
    out["wall_s"] = round(time.time() - t0, 2)
    with open(argv[1], "w") as f:
        json.dump(out, f)
    return 0


if __name__ == "__main__":
    sys.exit(main(sys.argv[1:]))
