"""dexx -- the extended canonical view of a DEX file: static values (encoded_array_item), the init
values bound to the static fields, the annotations directory of every class and the class
annotation type names.  Same line format as lean/Driver/C05.lean `showDexX` (the part ` X[...]` that
follows the base line of harness.dexmodel).

    real_x(d)                 from an androguard DEX object (imports nothing from androguard itself)
    expected_x(model, b, data) what the independent writer was asked to write (oracle)
    enrich(rng, model)        adds `xstatic` / `xann` to the classes of a dexmodel model: explicit static
                              value lists with every value type (nested arrays / annotations, string /
                              type / field / method / enum references, floats, wide and narrow widths)
                              and class / field / method / parameter annotations

JSON-able value spec: [value_type, payload(, width)]
    payload: int | bool | None | str (STRING, TYPE) | [cls, name, type] (FIELD, ENUM) |
             [cls, name, ret, [params]] (METHOD) | [spec, ...] (ARRAY) | [type, [[name, spec], ...]] (ANNOTATION)
    FLOAT / DOUBLE payloads are IEEE bit patterns (ints)
annotation spec: [visibility, type, [[name, spec], ...]]
xann: {"class": [ann], "fields": [[[name, type], [ann]]], "methods": [[[name, ret, [params]], [ann]]],
       "parameters": [[[name, ret, [params]], [[ann] | None, ...]]]}
"""
import struct

from harness import dexasm as A
from harness.dexmodel import hx


# --------------------------------------------------------------------------- spec -> dexasm tuples

def to_tuple(spec):
    vt, v = spec[0], (spec[1] if len(spec) > 1 else None)
    w = spec[2] if len(spec) > 2 else None
    if vt == A.VALUE_ARRAY:
        v = [to_tuple(x) for x in v]
    elif vt == A.VALUE_ANNOTATION:
        v = (v[0], [(n, to_tuple(x)) for n, x in v[1]])
    elif vt in (A.VALUE_FIELD, A.VALUE_ENUM):
        v = tuple(v)
    elif vt == A.VALUE_METHOD:
        v = (v[0], v[1], v[2], tuple(v[3]))
    return (vt, v) if w is None else (vt, v, w)


def to_annotation(a):
    return A.Annotation(a[0], a[1], [(n, to_tuple(x)) for n, x in a[2]])


def to_annotations(xann):
    if not xann:
        return None
    out = {}
    if xann.get("class"):
        out["class"] = [to_annotation(a) for a in xann["class"]]
    if xann.get("fields"):
        out["fields"] = {tuple(k): [to_annotation(a) for a in v] for k, v in xann["fields"]}
    if xann.get("methods"):
        out["methods"] = {(k[0], k[1], tuple(k[2])): [to_annotation(a) for a in v] for k, v in xann["methods"]}
    if xann.get("parameters"):
        out["parameters"] = {(k[0], k[1], tuple(k[2])): [None if p is None else [to_annotation(a) for a in p] for p in v]
                             for k, v in xann["parameters"]}
    return out


# --------------------------------------------------------------------------- canonical text

def _desc(params):
    return "(" + " ".join(params) + ")"


def show_tuple(t, b):
    """an EncodedValue-like tuple of the writer, references resolved by name (not through the file)"""
    vt = t[0]
    v = t[1] if len(t) > 1 else None
    if vt == A.VALUE_ARRAY:
        return "a[" + ";".join(show_tuple(x, b) for x in v) + "]"
    if vt == A.VALUE_ANNOTATION:
        ty, elems = v
        if isinstance(elems, dict):
            elems = list(elems.items())
        ti = ty if isinstance(ty, int) else b.type_idx(ty)
        el = sorted(((n if isinstance(n, int) else b.string_idx(n)), x) for n, x in elems)
        return "n%d{%s}" % (ti, ";".join("%d=%s" % (n, show_tuple(x, b)) for n, x in el))
    if vt == A.VALUE_NULL:
        return "z"
    if vt == A.VALUE_BOOLEAN:
        return "b1" if v else "b0"
    if vt == A.VALUE_FLOAT:
        bits = struct.unpack("<I", struct.pack("<f", v))[0] if isinstance(v, float) else int(v)
        return "f:%d" % bits
    if vt == A.VALUE_DOUBLE:
        bits = struct.unpack("<Q", struct.pack("<d", v))[0] if isinstance(v, float) else int(v)
        return "d:%d" % bits
    if vt == A.VALUE_STRING:
        return "r%d:%s" % (vt, hx(v if isinstance(v, str) else b.strings[v]))
    if vt == A.VALUE_TYPE:
        return "r%d:%s" % (vt, hx(v if isinstance(v, str) else b.types[v]))
    if vt in (A.VALUE_FIELD, A.VALUE_ENUM):
        c, n, ty = v
        return "r%d:%s" % (vt, ",".join(hx(x) for x in (c, ty, n)))
    if vt == A.VALUE_METHOD:
        c, n, ret, params = v
        return "r%d:%s" % (vt, ",".join(hx(x) for x in (c, n, _desc(params), ret)))
    if vt == A.VALUE_CHAR and isinstance(v, str):
        v = A.utf16_units(v)[0]
    v = int(v)
    if vt in (A.VALUE_BYTE, A.VALUE_SHORT, A.VALUE_INT, A.VALUE_LONG):
        bits = {A.VALUE_BYTE: 8, A.VALUE_SHORT: 16, A.VALUE_INT: 32, A.VALUE_LONG: 64}[vt]
        if v >= 1 << (bits - 1):
            v -= 1 << bits
    return "i%d:%d" % (vt, v)


def _flat(x):
    if isinstance(x, (list, tuple)):
        out = []
        for y in x:
            out += _flat(y)
        return out
    return [x]


def show_real(ev):
    """an androguard EncodedValue"""
    vt = ev.get_value_type()
    v = ev.get_value()
    if vt == 0x1c:
        return "a[" + ";".join(show_real(x) for x in v.get_values()) + "]"
    if vt == 0x1d:
        return "n%d{%s}" % (v.get_type_idx(), ";".join("%d=%s" % (e.get_name_idx(), show_real(e.get_value()))
                                                      for e in v.get_elements()))
    if vt == 0x1e:
        return "z"
    if vt == 0x1f:
        return "b1" if v else "b0"
    if vt == 0x10:
        return "f:%d" % struct.unpack("<I", struct.pack("<f", v))[0]
    if vt == 0x11:
        return "d:%d" % struct.unpack("<Q", struct.pack("<d", v))[0]
    if vt in (0x17, 0x18, 0x19, 0x1a, 0x1b):
        return "r%d:%s" % (vt, ",".join(hx(x) for x in _flat(v)))
    if isinstance(v, int) and not isinstance(v, bool):
        return "i%d:%d" % (vt, v)
    return "u%d" % vt


def _pairs(l, idx):
    return ",".join("%d>%d" % (idx(x), x.get_annotations_off()) for x in l)


def real_x(d):
    """the extended part of the line for an androguard DEX object (may raise what androguard raises)"""
    out = []
    for c in d.get_classes():
        cd = c.get_class_data()
        ini = []
        for f in (cd.get_static_fields() if cd else []):
            iv = f.get_init_value()
            ini.append("-" if iv is None else show_real(iv))
        sv = c.static_values
        st = "-" if sv is None else ";".join(show_real(x) for x in sv.get_value().get_values())
        ad = c.annotations_directory_item
        if ad is None:
            ds = "-"
        else:
            ds = "%d.f:%s.m:%s.p:%s" % (ad.get_class_annotations_off(),
                                        _pairs(ad.get_field_annotations(), lambda x: x.get_field_idx()),
                                        _pairs(ad.get_method_annotations(), lambda x: x.get_method_idx()),
                                        _pairs(ad.get_parameter_annotations(), lambda x: x.get_method_idx()))
        an = ",".join(hx(x) for x in c.get_annotations())
        out.append("I(%s) S(%s) D(%s) A(%s)" % ("/".join(ini), st, ds, an))
    return " X[" + "|".join(out) + "]"


def _read_dir(data, off):
    """independent reader of one annotations_directory_item"""
    co, nf, nm, np_ = struct.unpack_from("<IIII", data, off)
    p = off + 16
    ls = []
    for n in (nf, nm, np_):
        ls.append([struct.unpack_from("<II", data, p + 8 * i) for i in range(n)])
        p += 8 * n
    return "%d.f:%s.m:%s.p:%s" % ((co,) + tuple(",".join("%d>%d" % x for x in l) for l in ls))


def expected_x(model, b, data):
    """oracle: what the writer was asked to write.  Static values = the writer's value list of the
    class; init value of static field i (fields in field_idx order) = value i, None beyond the list
    (format document: 'fewer elements than fields: the remaining fields are initialised with 0 / null',
    i.e. carry no explicit value); directory = the bytes at the offset the class def was given;
    annotations = the types of the class annotations in type_idx order."""
    out = []
    for cd in b.class_order:
        vals = b.static_values_for(cd)
        nsf = len(cd.static_fields)
        if vals is None:
            st, ini = "-", ["-"] * nsf
        else:
            sh = [show_tuple(v, b) for v in vals]
            st = ";".join(sh)
            ini = [(sh[i] if i < len(sh) else "-") for i in range(nsf)] if len(sh) <= nsf else ["-"] * nsf
        off = b.layout["annotations_directory"].get(cd.name)
        ds = "-" if off is None else _read_dir(data, off)
        anns = (cd.annotations or {}).get("class", ()) if cd.annotations else ()
        tys = sorted((an.type if isinstance(an.type, int) else b.type_idx(an.type)) for an in anns)
        an = ",".join(hx(b.types[t]) for t in tys)
        out.append("I(%s) S(%s) D(%s) A(%s)" % ("/".join(ini), st, ds, an))
    return " X[" + "|".join(out) + "]"


# --------------------------------------------------------------------------- generator

ANN_TYPES = ["Ljava/lang/Deprecated;", "Ldalvik/annotation/Signature;", "LAnn;", "Lcom/ex/Marker;", "Lπ/Ж;"]
ELEM_NAMES = ["value", "a", "names", "é", "accessFlags"]
F32 = [0, 0x3F800000, 0xBF800000, 0x7F800000, 0x00000001, 0x40490FDB, 0x80000000, 0x00010000, 0x12000000]
F64 = [0, 0x3FF0000000000000, 0xC000000000000000, 0x7FF0000000000000, 0x400921FB54442D18, 1 << 63, 0x0001000000000000,
       0x1200000000000000]


def gen_value(rng, model, depth=0):
    names = [c["name"] for c in model["classes"]] or ["LFoo;"]
    k = rng.randrange(16 if depth < 2 else 13)
    if k == 0:
        return [A.VALUE_BYTE, rng.randrange(-128, 128)]
    if k == 1:
        v = rng.choice([0, 1, -1, 127, 128, -129, 32767, -32768])
        return [A.VALUE_SHORT, v] if rng.random() < 0.6 else [A.VALUE_SHORT, v, 2]
    if k == 2:
        v = rng.choice([0, 65, 255, 256, 0xD800, 0xFFFF])
        return [A.VALUE_CHAR, v] if rng.random() < 0.6 else [A.VALUE_CHAR, v, 2]
    if k == 3:
        v = rng.choice([0, 1, -1, 127, -128, 128, 65535, -32769, 2 ** 31 - 1, -2 ** 31, 0x7FFFFF, -0x800000])
        return [A.VALUE_INT, v] if rng.random() < 0.6 else [A.VALUE_INT, v, 4]
    if k == 4:
        v = rng.choice([0, -1, 2 ** 40, -2 ** 63, 2 ** 63 - 1, 2 ** 31, -2 ** 31 - 1, 255])
        return [A.VALUE_LONG, v] if rng.random() < 0.6 else [A.VALUE_LONG, v, 8]
    if k == 5:
        return [A.VALUE_FLOAT, rng.choice(F32)]
    if k == 6:
        return [A.VALUE_DOUBLE, rng.choice(F64)]
    if k == 7:
        return [A.VALUE_STRING, rng.choice(["", "hi", "é", "名", "a b", "\U00010400"])]
    if k == 8:
        return [A.VALUE_TYPE, rng.choice(names + ["I", "[J", "Ljava/lang/String;"])]
    if k == 9:
        return [rng.choice([A.VALUE_FIELD, A.VALUE_ENUM]), [rng.choice(names), rng.choice(["a", "X", "é"]), rng.choice(["I", "Ljava/lang/String;"] + names)]]
    if k == 10:
        return [A.VALUE_METHOD, [rng.choice(names), rng.choice(["m", "<init>", "run"]), rng.choice(["V", "I"]),
                                 [rng.choice(["I", "J", "Ljava/lang/String;"]) for _ in range(rng.randrange(0, 3))]]]
    if k == 11:
        return [A.VALUE_NULL, None]
    if k == 12:
        return [A.VALUE_BOOLEAN, rng.random() < 0.5]
    if k in (13, 14):
        return [A.VALUE_ARRAY, [gen_value(rng, model, depth + 1) for _ in range(rng.randrange(0, 4))]]
    return [A.VALUE_ANNOTATION, gen_annotation(rng, model, depth + 1)[1:]]


def gen_annotation(rng, model, depth=0):
    names = rng.sample(ELEM_NAMES, rng.randrange(0, 3))
    return [rng.choice([0, 1, 2]), rng.choice(ANN_TYPES), [[n, gen_value(rng, model, depth + 1)] for n in names]]


def _ann_list(rng, model):
    tys = rng.sample(ANN_TYPES, rng.randrange(1, 3))
    out = []
    for t in tys:
        a = gen_annotation(rng, model)
        a[1] = t
        out.append(a)
    return out


def enrich(rng, model, long_values=False):
    """add explicit static values and annotations to (some of) the classes.  `long_values`: sometimes
    more values than static fields (no init value is bound then; judged by the correspondence only)"""
    for c in model["classes"]:
        nsf = len(c["sfields"])
        if rng.random() < 0.6:
            n = rng.randrange(0, nsf + 1)
            if long_values and rng.random() < 0.3:
                n = nsf + rng.randrange(1, 3)
            c["xstatic"] = [gen_value(rng, model) for _ in range(n)]
        if rng.random() < 0.5:
            xa = {}
            if rng.random() < 0.7:
                xa["class"] = _ann_list(rng, model)
            fs = c["sfields"] + c["ifields"]
            if fs and rng.random() < 0.5:
                xa["fields"] = [[[f[0], f[1]], _ann_list(rng, model)] for f in rng.sample(fs, rng.randrange(1, min(3, len(fs)) + 1))]
            ms = c["dmethods"] + c["vmethods"]
            if ms and rng.random() < 0.5:
                xa["methods"] = [[[m[0], m[1], list(m[2])], _ann_list(rng, model)] for m in rng.sample(ms, rng.randrange(1, min(3, len(ms)) + 1))]
            pm = [m for m in ms if m[2]]
            if pm and rng.random() < 0.4:
                m = rng.choice(pm)
                xa["parameters"] = [[[m[0], m[1], list(m[2])],
                                     [(_ann_list(rng, model) if rng.random() < 0.6 else None) for _ in m[2]]]]
            if xa:
                c["xann"] = xa
                c["annotate"] = False
    return model
