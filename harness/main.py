"""launcher: import fw as harness.fw (one module object, so ToolFailure is one class)"""
import sys, traceback
from harness.fw import main
if __name__ == "__main__":
    try:
        rc = main(sys.argv[1:])
    except Exception:  # the machinery itself failed: never a verdict about androguard
        traceback.print_exc()
        print("TOOL FAILURE (unexpected exception in the harness)", flush=True)
        rc = 2
    sys.exit(rc)
