"""
Runs the REAL androguard resource-table code on resources.arsc bytes and canonicalises what it
observes (used in-process by C28 and as a subprocess worker `python -m harness.arscreal` by C29,
where every resolution runs under a recursion limit and a time limit).

Canonical forms
  configuration   index into `cfgs` (list of the 9-word tuples; index 0 is always the default configuration)
  resolution      {"kind": "ok", "toks": [["P", cfg, text] | ["B", text] | ["O", cfg] | ["X"]]}
                  or {"kind": "recursion" | "timeout" | "value-error" | "other:<Type>"}
  abstract table  what `ARSCParser._analyse` left in `resource_values`, in the form the Lean model
                  `AgVerif.Resolve.Table` takes: {rid: [[cfg, "S"|"C", [item, ...]], ...]},
                  item = ["R", id] | ["L", text]
"""
from __future__ import annotations

import inspect
import json
import signal
import sys


class Cfgs:
    def __init__(self):
        self.words = [(0,) * 9]
        self.index = {(0,) * 9: 0}

    def of(self, config) -> int:
        w = tuple(int(x) for x in config._get_tuple())
        if w not in self.index:
            self.index[w] = len(self.words)
            self.words.append(w)
        return self.index[w]


def make_config(axml, words):
    c = axml.ARSCResTableConfig(None)
    (c.imsi, c.locale, c.screenType, c.input, c.screenSize, c.version, c.screenConfig, c.screenSizeDp,
     c.screenConfig2) = words
    return c


def item_of(axml, ref) -> list:
    """a Res_value object of the parser as an abstract item"""
    if ref.is_reference():
        return ["R", ref.get_data()]
    return ["L", ref.format_value()]


def abstract_table(axml, arsc, cfgs: Cfgs) -> dict:
    arsc._analyse()
    out = {}
    for rid, options in arsc.resource_values.items():
        lst = []
        for config, ate in options.items():
            c = cfgs.of(config)
            if ate.is_complex():
                lst.append([c, "C", [item_of(axml, it) for _, it in ate.item.items]])
            elif ate.is_compact():
                if ate.datatype == 1:
                    lst.append([c, "S", [["R", ate.data]]])
                else:
                    lst.append([c, "S", [["L", axml.format_value(ate.datatype, ate.data,
                                                                  ate.parent.stringpool_main.getString)]]])
            else:
                lst.append([c, "S", [item_of(axml, ate.key)]])
        out[rid] = lst
    return out


def canon_result(result, cfgs: Cfgs) -> list:
    toks = []

    def walk(x):
        if isinstance(x, tuple) and len(x) == 2:
            c = cfgs.of(x[0])
            if isinstance(x[1], list):
                toks.append(["O", c])
                for y in x[1]:
                    walk(y)
                toks.append(["X"])
            else:
                toks.append(["P", c, x[1] if isinstance(x[1], str) else repr(x[1])])
        elif isinstance(x, str):
            toks.append(["B", x])
        else:
            toks.append(["B", "?" + repr(x)])
    for x in result:
        walk(x)
    return toks


class _Timeout(Exception):
    pass


def _alarm(signum, frame):
    raise _Timeout()


def resolve_limited(axml, arsc, rid, wanted, cfgs: Cfgs, levels: int, seconds: float) -> dict:
    """one real `get_resolved_res_configs` under a recursion limit of 3 frames per permitted nesting
    level (+ slack for logging/formatting frames) and a time limit"""
    old = sys.getrecursionlimit()
    depth = len(inspect.stack(0))
    signal.signal(signal.SIGALRM, _alarm)
    signal.setitimer(signal.ITIMER_REAL, seconds)
    try:
        sys.setrecursionlimit(depth + 3 * levels + 45)
        try:
            r = arsc.get_resolved_res_configs(rid, wanted)
        finally:
            sys.setrecursionlimit(max(old, 1000))
            signal.setitimer(signal.ITIMER_REAL, 0)
        return {"kind": "ok", "toks": canon_result(r, cfgs)}
    except RecursionError:
        return {"kind": "recursion"}
    except _Timeout:
        return {"kind": "timeout"}
    except ValueError:
        return {"kind": "value-error"}
    except Exception as e:  # noqa
        return {"kind": "other:" + type(e).__name__}
    finally:
        signal.setitimer(signal.ITIMER_REAL, 0)


def run_case(axml, case: dict) -> dict:
    """case: {"hex": arsc bytes, "queries": [[rid, wanted_words | None], ...], "seconds": float}"""
    cfgs = Cfgs()
    try:
        arsc = axml.ARSCParser(bytes.fromhex(case["hex"]))
        table = abstract_table(axml, arsc, cfgs)
    except Exception as e:  # noqa
        return {"parse": "other:" + type(e).__name__ + ":" + str(e)[:200]}
    levels = len(table) + 2
    results = []
    for rid, wanted in case["queries"]:
        w = None if wanted is None else make_config(axml, tuple(wanted))
        if w is not None:
            cfgs.of(w)
        results.append(resolve_limited(axml, arsc, rid, w, cfgs, levels, case.get("seconds", 5.0)))
    return {"parse": "ok", "table": {str(k): v for k, v in table.items()}, "cfgs": cfgs.words,
            "results": results, "levels": levels}


def main():
    try:
        from loguru import logger
        logger.remove()
    except Exception:
        pass
    from androguard.core import axml
    for line in sys.stdin:
        line = line.strip()
        if not line:
            continue
        sys.stdout.write(json.dumps(run_case(axml, json.loads(line))) + "\n")
        sys.stdout.flush()


if __name__ == "__main__":
    main()
