"""run every translator gen/*.py: generate(repo) -> {GenModuleName: lean text}"""
import glob, importlib, os, sys, traceback
from harness.fw import REPO, VERIF, Check, build_lock, record_gen_modules
def main():
    rc = 0
    ck = Check("setup", "quick", 0)
    for p in sorted(glob.glob(os.path.join(VERIF, "gen", "*.py"))):
        name = os.path.basename(p)[:-3]
        if name.startswith("_"):
            continue
        try:
            mod = importlib.import_module(f"gen.{name}")
            if not hasattr(mod, "generate"):
                continue
            files = mod.generate(REPO)
            with build_lock():
                for n, t in files.items():
                    ck.write_gen(n, t)
                record_gen_modules(name, list(files))
            print(f"gen/{name}.py: {', '.join(files)}")
        except Exception:
            traceback.print_exc(); rc = 1
    return rc
if __name__ == "__main__":
    sys.path.insert(0, REPO)
    sys.exit(main())
