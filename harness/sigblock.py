"""
Independent writer for APK Signing Blocks (APK Signature Scheme v2 / v3 / v3.1), written from the
format description at source.android.com/docs/security/features/apksigning/{v2,v3,v3-1}; shares no
code with androguard.

Abstract values (plain Python, JSON-able after hex()):

    signer (v2)  {"digests": [(alg:int, digest:bytes)...], "certs": [bytes...], "attrs": bytes,
                  "sigs": [(alg:int, sig:bytes)...], "pubkey": bytes}
    signer (v3)  the same plus "min_sdk", "max_sdk" (inside signed data) and
                  "signer_min_sdk", "signer_max_sdk" (in the signer)
    pairs        [(id:int, value:bytes)...]   the ID-value pairs of the block, in order

Layout (all integers little-endian; "lp X" = uint32 length of X followed by X):

    block    = u64 size | pair* | u64 size | "APK Sig Block 42"      size = len(pair*) + 8 + 16
    pair     = u64 (4 + len(value)) | u32 id | value
    v2 value = lp( signer* )            signer      = lp( lp(signed_data) | lp(sigs) | lp(pubkey) )
    signed_data (v2) = lp(digests) | lp(certs) | lp(attrs)
    signed_data (v3) = lp(digests) | lp(certs) | u32 min_sdk | u32 max_sdk | lp(attrs)
    signer (v3)      = lp( lp(signed_data) | u32 min_sdk | u32 max_sdk | lp(sigs) | lp(pubkey) )
    digests / sigs   = ( lp( u32 alg | lp(bytes) ) )*
    certs            = ( lp(cert) )*
"""
from __future__ import annotations

import struct

MAGIC = b"APK Sig Block 42"
ID_V2 = 0x7109871A
ID_V3 = 0xF05368C0
ID_V31 = 0x1B93AD61
ID_PADDING = 0x42726577          # verity padding block, a real "unknown" id
ID_STAMP = 0x6DFF800D            # source stamp


def u32(n: int) -> bytes:
    return struct.pack("<I", n)


def u64(n: int) -> bytes:
    return struct.pack("<Q", n)


def lp(b: bytes) -> bytes:
    return u32(len(b)) + bytes(b)


def encode_alg_seq(items) -> bytes:
    """digests or signatures: the CONTENT of the length-prefixed sequence"""
    return b"".join(lp(u32(alg) + lp(data)) for alg, data in items)


def encode_certs(certs) -> bytes:
    return b"".join(lp(c) for c in certs)


def encode_signed_data(s: dict, v3: bool) -> bytes:
    out = lp(encode_alg_seq(s["digests"])) + lp(encode_certs(s["certs"]))
    if v3:
        out += u32(s["min_sdk"]) + u32(s["max_sdk"])
    return out + lp(s["attrs"])


def encode_signer(s: dict, v3: bool) -> bytes:
    """one signer INCLUDING its own length prefix"""
    body = lp(encode_signed_data(s, v3))
    if v3:
        body += u32(s["signer_min_sdk"]) + u32(s["signer_max_sdk"])
    body += lp(encode_alg_seq(s["sigs"])) + lp(s["pubkey"])
    return lp(body)


def encode_value(signers, v3: bool) -> bytes:
    """the value of a v2 (v3=False) or v3/v3.1 (v3=True) pair"""
    return lp(b"".join(encode_signer(s, v3) for s in signers))


def encode_pair(id_: int, value: bytes) -> bytes:
    return u64(4 + len(value)) + u32(id_) + bytes(value)


def encode_block(pairs) -> bytes:
    body = b"".join(encode_pair(i, v) for i, v in pairs)
    size = len(body) + 24
    return u64(size) + body + u64(size) + MAGIC


# ---------------------------------------------------------------- random abstract values
ALGS = [0x0101, 0x0102, 0x0103, 0x0104, 0x0201, 0x0202, 0x0301, 0x0421, 0, 0xFFFFFFFF]


def rand_bytes(rng, lo, hi) -> bytes:
    return bytes(rng.randrange(256) for _ in range(rng.randint(lo, hi)))


def rand_der(rng) -> bytes:
    """DER-looking blob: SEQUENCE tag, long-form length, random content (the DER getters do not parse it)"""
    body = rand_bytes(rng, 0, 90)
    if len(body) < 128:
        return b"\x30" + bytes([len(body)]) + body
    return b"\x30\x81" + bytes([len(body)]) + body


def rand_alg_seq(rng, lo=0, hi=3):
    return [(rng.choice(ALGS), rand_bytes(rng, 0, 40) if rng.random() < 0.85 else b"")
            for _ in range(rng.randint(lo, hi))]


def rand_signer(rng, v3: bool) -> dict:
    s = {"digests": rand_alg_seq(rng), "certs": [rand_der(rng) for _ in range(rng.randint(0, 3))],
         "attrs": rng.choice([b"", lp(u32(0xBEEFF00D) + u32(3)), rand_bytes(rng, 1, 24)]),
         "sigs": rand_alg_seq(rng), "pubkey": rand_der(rng) if rng.random() < 0.9 else b""}
    if v3:
        lo = rng.choice([0, 24, 28, 33, rng.randrange(2 ** 32)])
        hi = rng.choice([0x7FFFFFFF, 0xFFFFFFFF, 32, lo])
        s.update(min_sdk=lo, max_sdk=hi,
                 signer_min_sdk=lo if rng.random() < 0.8 else rng.randrange(2 ** 32),
                 signer_max_sdk=hi if rng.random() < 0.8 else rng.randrange(2 ** 32))
    return s


def signer_to_json(s: dict) -> dict:
    o = {"digests": [[a, d.hex()] for a, d in s["digests"]], "certs": [c.hex() for c in s["certs"]],
         "attrs": s["attrs"].hex(), "sigs": [[a, d.hex()] for a, d in s["sigs"]], "pubkey": s["pubkey"].hex()}
    for k in ("min_sdk", "max_sdk", "signer_min_sdk", "signer_max_sdk"):
        if k in s:
            o[k] = s[k]
    return o


def signer_from_json(o: dict) -> dict:
    s = {"digests": [(a, bytes.fromhex(d)) for a, d in o["digests"]], "certs": [bytes.fromhex(c) for c in o["certs"]],
         "attrs": bytes.fromhex(o["attrs"]), "sigs": [(a, bytes.fromhex(d)) for a, d in o["sigs"]],
         "pubkey": bytes.fromhex(o["pubkey"])}
    for k in ("min_sdk", "max_sdk", "signer_min_sdk", "signer_max_sdk"):
        if k in o:
            s[k] = o[k]
    return s
