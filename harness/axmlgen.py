"""
Random AXML documents for C26 / C31 (generator side; uses only harness/axmlwriter.py).

  gen_tree(rng, ...)        a well-formed abstract tree (legal names and values, distinct attributes per element,
                            attribute names consistent with their resource ids, every Res_value type)
  gen_hostile_tree(rng)     same shape but with names / values / texts that the printer has to repair or reject
  expected(tree)            the canonical tree the property demands for a well-formed tree (independent oracle):
                            nested tuples ("E", tag, ns, ((ns, name, value|None), ...) sorted, (children...)) / ("T", text);
                            value None = no declared meaning (TYPE_NULL, dynamic references): any string accepted
  vary_layout(rng, tree)    per-element attributeSize (20/24/28/36), idIndex/classIndex/styleIndex, optionally attributeStart > 20
  sys_attrs(repo)           {id: name} of android attribute resources, parsed from public.xml with a regex
"""
import os
import re
import struct

from harness.axmlwriter import (Attr, Element, Text, Val, NS_ANDROID, TYPE_ATTRIBUTE, TYPE_DIMENSION, TYPE_DYNAMIC_ATTRIBUTE,
                                TYPE_DYNAMIC_REFERENCE, TYPE_FLOAT, TYPE_FRACTION, TYPE_INT_BOOLEAN, TYPE_INT_COLOR_ARGB4,
                                TYPE_INT_COLOR_ARGB8, TYPE_INT_COLOR_RGB4, TYPE_INT_COLOR_RGB8, TYPE_INT_DEC, TYPE_INT_HEX,
                                TYPE_NULL, TYPE_REFERENCE, TYPE_STRING)

_SYS = {}


def sys_attrs(repo):
    if repo not in _SYS:
        txt = open(os.path.join(repo, "androguard/core/resources/public.xml"), encoding="utf-8").read()
        fwd = {}
        for m in re.finditer(r"<public\s+([^>]*?)/?>", txt):
            kv = dict(re.findall(r'(\w+)\s*=\s*"([^"]*)"', m.group(1)))
            if kv.get("type") == "attr" and "name" in kv and "id" in kv:
                fwd[kv["name"]] = int(kv["id"], 16)
        _SYS[repo] = {v: k for k, v in fwd.items()}
    return _SYS[repo]


NAME_START = "abcdefghijklmnopqrstuvwxyzABCDEFGHIJKLMNOPQRSTUVWXYZ_"
NAME_REST = NAME_START + "0123456789.-"
COMMON_TAGS = ["manifest", "application", "activity", "service", "receiver", "provider", "intent-filter", "action", "category",
               "uses-permission", "uses-sdk", "meta-data", "LinearLayout", "TextView", "com.example.View", "item", "a", "b"]
PREFIXES = ["android", "app", "tools", "x", "my-ns", "p.q", "_u"]
URIS = [NS_ANDROID, "http://schemas.android.com/apk/res-auto", "http://schemas.android.com/tools", "urn:x", "urn:example:a-b.c",
        "http://example.org/ns/1", "u"]
# characters for values and text: every XML-legal class (plane 15/16 private use is reserved for the harness)
VALUE_CHARS = ["a", "Z", "0", " ", "\t", "\n", "\r", ".", ":", "_", "-", "/", "@", "<", ">", "&", "\"", "'", "\x7f", "\x85", "é", "ß",
               "Ж", "中", "文", "퟿", "", "﻿", "�", "\U00010000", "\U0001f600", "\U000effff"]


def legal_name(rng):
    if rng.random() < 0.5:
        return rng.choice(COMMON_TAGS)
    return rng.choice(NAME_START) + "".join(rng.choice(NAME_REST) for _ in range(rng.choice((0, 1, 2, 5, 9, 14))))


def legal_text(rng, allow_empty=True):
    r = rng.random()
    if r < 0.08 and allow_empty:
        return ""
    if r < 0.5:
        return "".join(rng.choice("abcdefghijklmnopqrstuvwxyz. ") for _ in range(rng.randrange(1, 12)))
    if r < 0.53:
        n = rng.choice((127, 128, 129, 200, 300))
        return "".join(rng.choice("xyzé中") for _ in range(n))
    s = "".join(rng.choice(VALUE_CHARS) for _ in range(rng.randrange(1, 10)))
    return s


BOUNDARY32 = [0, 1, 2, 9, 10, 0x7F, 0x80, 0xFF, 0x100, 0x7FFF, 0x8000, 0xFFFF, 0x10000, 0xFFFFFF, 0x1000000, 0x1000001, 0x1FFFFFF,
              0x2000000, 0x7F010001, 0x7FFFFFFF, 0x80000000, 0x80000001, 0xFFFFFFFE, 0xFFFFFFFF, 0x01010003, 0x0101021B]


def data32(rng):
    return rng.choice(BOUNDARY32) if rng.random() < 0.5 else rng.getrandbits(32)


def legal_value(rng, c27_domain=True):
    """a Res_value of a random type"""
    t = rng.choice([TYPE_STRING] * 6 + [TYPE_INT_DEC] * 3 + [TYPE_INT_HEX, TYPE_INT_BOOLEAN, TYPE_INT_BOOLEAN, TYPE_REFERENCE, TYPE_REFERENCE,
                                       TYPE_ATTRIBUTE, TYPE_FLOAT, TYPE_DIMENSION, TYPE_FRACTION, TYPE_INT_COLOR_ARGB8,
                                       TYPE_INT_COLOR_RGB8, TYPE_INT_COLOR_ARGB4, TYPE_INT_COLOR_RGB4, TYPE_NULL,
                                       TYPE_DYNAMIC_REFERENCE, TYPE_DYNAMIC_ATTRIBUTE, 0x13, 0x1B])
    if t == TYPE_STRING:
        return Val(t, legal_text(rng))
    d = data32(rng)
    if t == TYPE_INT_BOOLEAN:
        d = rng.choice((0, 1, 0xFFFFFFFF, d))
    if t == TYPE_DIMENSION and c27_domain:
        d = (d & ~0xF) | rng.randrange(6)
    if t == TYPE_FRACTION and c27_domain:
        d = (d & ~0xF) | rng.randrange(2)
    if t == TYPE_NULL:
        d = rng.choice((0, 1))
    return Val(t, d)


def gen_tree(rng, max_depth=4, max_children=4, sysattrs=None, text=True, comments=True):
    sysattrs = sysattrs or {}
    sys_ids = sorted(sysattrs)
    decl = [("android", NS_ANDROID)]
    for _ in range(rng.choice((0, 0, 1, 2))):
        p = rng.choice(PREFIXES[1:])
        if p not in [q for q, _ in decl]:
            decl.append((p, rng.choice([u for u in URIS[1:] if u not in [v for _, v in decl]])))

    bound = dict(decl)

    def attr(uris):
        ns = rng.choice([None, NS_ANDROID, NS_ANDROID] + uris)
        r = rng.random()
        if r < 0.45 and sys_ids:
            rid = rng.choice(sys_ids)
            return Attr(ns, sysattrs[rid], legal_value(rng), rid)
        name = legal_name(rng)
        if r < 0.6:
            return Attr(ns, name, legal_value(rng), rng.choice((0x7F010000 + rng.randrange(64), 0x0101FFF0 + rng.randrange(15), 0x01020000)))
        return Attr(ns, name, legal_value(rng), None)

    def elem(depth, uris, nsdecls):
        e = Element(legal_name(rng), rng.choice([None] * 4 + uris), nsdecls=nsdecls, line=rng.randrange(1, 2000))
        seen = set()
        for _ in range(rng.choice((0, 1, 1, 2, 3, 6))):
            a = attr(uris)
            # a well-formed document does not name one attribute twice; an un-namespaced system attribute whose name
            # contains "_" would be split at the "_" when its first part is a declared prefix (never the case here)
            if (a.ns, a.name) in seen:
                continue
            seen.add((a.ns, a.name))
            e.attrs.append(a)
        if comments and rng.random() < 0.05:
            e.comment = "".join(rng.choice("abc xyz") for _ in range(rng.randrange(1, 8)))
        if depth < max_depth:
            for _ in range(rng.randrange(0, max_children + 1)):
                if text and rng.random() < 0.25:
                    e.children.append(Text(legal_text(rng, allow_empty=False)))
                else:
                    extra = []
                    if rng.random() < 0.1:
                        p = rng.choice(PREFIXES[1:])
                        u = rng.choice(URIS[1:])
                        # a prefix stays bound to one URI (and a URI to one prefix) throughout a well-formed document here:
                        # re-binding a prefix that is in use makes lxml serialise the inner element under the wrong URI
                        if bound.get(p, u) == u and all(q == p for q, v in bound.items() if v == u):
                            bound[p] = u
                            extra = [(p, u)]
                    e.children.append(elem(depth + 1, uris + [u for _, u in extra], extra))
        elif text and rng.random() < 0.3:
            e.children.append(Text(legal_text(rng, allow_empty=False)))
        return e

    return elem(0, [u for _, u in decl], decl)


HOSTILE_NAMES = ["9lives", "-dash", ".dot", "a b", "a:b", "android:name", "android:", "x:y", "app:9", "tools:", ":", "::", "a\n", "a$b",
                 "hé", "naïve", "_", "__", "a:b:c", "android:a:b", "A1", "\tx", "a\x00b", "<!--", "a--", "x:",
                 "a.b$c", "x.y z", "com.ex.V!ew", "a-b.c d", "p.q:r.s t", "android:a.b c"]
HOSTILE_VALUES = ["a\x00b", "\x00", "x\x01y", "\x0b", "\x1f", "￾", "￿", "ok\x00\x01", "\x7f\x80", "tab\there", "\x08"]


def gen_hostile_tree(rng, sysattrs=None):
    """a tree in which roughly one item in five is hostile (names to fix, values to clean, duplicate attributes,
    resource ids that contradict the name, text the XML library rejects)"""
    t = gen_tree(rng, sysattrs=sysattrs)
    sys_ids = sorted(sysattrs or {})

    def walk(e):
        if rng.random() < 0.25:
            e.tag = rng.choice(HOSTILE_NAMES + [""])
        for a in e.attrs:
            r = rng.random()
            if r < 0.15:
                a.name = rng.choice(HOSTILE_NAMES)
            elif r < 0.25 and sys_ids:
                a.res_id = rng.choice(sys_ids + [0, 0x01010000])
            elif r < 0.3:
                a.name, a.res_id = "", rng.choice(sys_ids + [0x7F010000]) if sys_ids else 0x7F010000
            if rng.random() < 0.15:
                a.value = Val(TYPE_STRING, rng.choice(HOSTILE_VALUES))
            if rng.random() < 0.05:
                a.ns = rng.choice(["", "u v", "urn:x"])
        if e.attrs and rng.random() < 0.15:
            d = e.attrs[rng.randrange(len(e.attrs))]
            e.attrs.append(Attr(d.ns, d.name, legal_value(rng), d.res_id))
        if rng.random() < 0.1:
            e.nsdecls = e.nsdecls + [rng.choice([("android", "urn:other"), ("", "urn:x"), ("p", ""), ("9p", "urn:x"), ("x", "urn:x"),
                                                 ("x", "urn:x")])]
        for i, c in enumerate(e.children):
            if isinstance(c, Text):
                if rng.random() < 0.1:
                    e.children[i] = Text(rng.choice(HOSTILE_VALUES + [""]))
            else:
                walk(c)
    walk(t)
    return t


def vary_layout(rng, e, start_gap=False):
    """every ResXMLTree_attrExt carries its own attributeStart / attributeSize and three attribute indices: vary them per
    element (the tree a document denotes does not depend on them).  start_gap: also attributeStart > 20."""
    e.attr_size = rng.choice((20, 20, 24, 28, 36))
    n = len(e.attrs)
    e.id_index, e.class_index, e.style_index = (rng.choice((0, 0, rng.randrange(0, n + 1))) for _ in range(3))
    if start_gap and rng.random() < 0.5:
        e.attr_start = rng.choice((24, 28, 40))
    for c in e.children:
        if isinstance(c, Element):
            vary_layout(rng, c, start_gap)
    return e


# ------------------------------------------------------------------ independent expectation
def signed32(d):
    return d - (1 << 32) if d & 0x80000000 else d


def expected_value(v: Val, abstract_fmt):
    """the string an attribute of this type denotes (Android's rendering); None = no declared meaning"""
    t, d = v.type, v.data
    if t == TYPE_STRING:
        return d
    if t == TYPE_INT_DEC:
        return str(signed32(d))
    if t == TYPE_INT_HEX:
        return "0x" + format(d, "08X")
    if t == TYPE_INT_BOOLEAN:
        return "false" if d == 0 else "true"
    if t in (TYPE_REFERENCE, TYPE_ATTRIBUTE):
        return ("@" if t == TYPE_REFERENCE else "?") + ("android:" if (d >> 24) == 1 else "") + format(d, "08X")
    if t in (TYPE_INT_COLOR_ARGB8, TYPE_INT_COLOR_RGB8, TYPE_INT_COLOR_ARGB4, TYPE_INT_COLOR_RGB4):
        return "#" + format(d, "08X")
    if t in (TYPE_FLOAT, TYPE_DIMENSION, TYPE_FRACTION):
        return abstract_fmt(t, d)           # rendering of complex / float values is property C27
    if 0x10 <= t <= 0x1F:
        return str(signed32(d))
    return None


def expected(e, abstract_fmt):
    attrs = tuple(sorted(((a.ns or "", a.name, expected_value(a.value, abstract_fmt)) for a in e.attrs),
                         key=lambda x: ([ord(c) for c in x[0]], [ord(c) for c in x[1]])))
    kids, pending = [], ""
    for c in e.children:
        if isinstance(c, Text):
            pending += c.text
        else:
            if pending:
                kids.append(("T", pending)); pending = ""
            kids.append(expected(c, abstract_fmt))
    if pending:
        kids.append(("T", pending))
    return ("E", e.tag, e.ns or "", attrs, tuple(kids))


def tree_stats(e, st=None):
    st = st if st is not None else {"elements": 0, "attrs": 0, "texts": 0, "depth": 0, "types": set(), "resid": 0}

    def walk(x, d):
        st["elements"] += 1
        st["depth"] = max(st["depth"], d)
        for a in x.attrs:
            st["attrs"] += 1
            st["types"].add(a.value.type)
            st["resid"] += a.res_id is not None
        for c in x.children:
            if isinstance(c, Text):
                st["texts"] += 1
            else:
                walk(c, d + 1)
    walk(e, 1)
    return st
