"""C21: register propagation on one basic block.

Correspondence (leg T): random straight-line blocks are built with the REAL IR classes
(androguard.decompiler.instruction), put into a real Graph with one ReturnBlock, and the real
build_def_use + register_propagation run on it; the instructions left (with the var_map keys) are
printed canonically and compared with Model/Propagate.lean (`prop <block>` of drv_C21).

Search (leg S): an evaluator written here (not the model) runs the block before and after the REAL
pass on a few register files; a difference is a failing input of the pass.
"""
from __future__ import annotations

import importlib
import random

from .fw import REPO

BIN = ["+", "-", "*", "/", "%", "&", "|", "^"]
UN = {"neg": "-", "not": "~", "i2b": "(byte)", "i2s": "(short)", "i2c": "(char)"}
CAST_T = {"i2b": "B", "i2s": "S", "i2c": "C"}

#: the witness of the known finding propagation-past-redefinition: v0 = (char) p10; p10 %= p11; return v0
WITNESS = {"params": [10, 11],
           "stmts": [("a", 0, ("u", "i2c", 10)), ("a", 10, ("b", "%", 10, 11)), ("r", 0)]}
#: division-not-a-side-effect at the level of this pass: `v0 = p10 / p11; v1 = f(p10); return v1 + v0` moves the division behind the call
EXAMPLES = [
    WITNESS,
    {"params": [10, 11], "stmts": [("a", 0, ("b", "+", 10, 11)), ("a", 1, ("b", "*", 0, 0)), ("a", 2, ("b", "-", 1, ("c", 1))), ("r", 2)]},
    {"params": [10, 11], "stmts": [("a", 0, ("u", "i2c", 10)), ("a", 10, ("b", "%", 10, 11)), ("a", 1, ("b", "+", 0, 10)), ("r", 1)]},
    {"params": [10, 11], "stmts": [("a", 0, ("u", "i2c", 10)), ("a", 10, ("b", "%", 10, 11)), ("a", 1, ("b", "+", 10, 0)), ("r", 1)]},
    {"params": [10], "stmts": [("a", 0, ("f", 1, 10)), ("a", 1, ("f", 2, 10)), ("a", 2, ("b", "+", 1, 0)), ("r", 2)]},
    # dead division (the witness of dce_removes_throwing_division_refuted): v0 = p10 / p11; return p10
    {"params": [10, 11], "stmts": [("a", 0, ("b", "/", 10, 11)), ("r", 10)]},
    # the witness of propagation_deletes_used_definition_refuted (known finding declaration-inside-expression)
    {"params": [10],        # (single definitions, but hand-made: kept out of the statistics of the generated ones)
     "stmts": [("a", 0, ("u", "i2c", 10)), ("a", 1, ("b", "+", 10, ("c", 1))), ("a", 2, ("b", "*", 1, ("c", 2))),
               ("a", 3, ("b", "+", 0, ("c", 1))), ("a", 4, ("b", "-", 0, 3)), ("a", 5, ("b", "+", 4, 2)), ("r", 5)]},
    # a dead chain and a call whose result is unused
    {"params": [10, 11], "stmts": [("a", 0, ("b", "+", 10, 11)), ("a", 1, ("u", "neg", 0)), ("a", 2, ("f", 0, 10)), ("a", 3, ("b", "*", 1, 1)), ("r", 11)]},
]


def _mods():
    gt = importlib.import_module("gen.translate")
    gt._load(REPO)
    ir = importlib.import_module("androguard.decompiler.instruction")
    df = importlib.import_module("androguard.decompiler.dataflow")
    gr = importlib.import_module("androguard.decompiler.graph")
    bb = importlib.import_module("androguard.decompiler.basic_blocks")
    return ir, df, gr, bb


# ------------------------------------------------------------------------------------------ generator
def gen_block(rng: random.Random, single=False):
    """single: every register is assigned at most once and parameters never are - what split_variables and
    dead_code_elimination leave of a method that is one basic block"""
    nparams = rng.choice([1, 2, 2, 3])
    params = [10 + k for k in range(nparams)]
    locals_ = list(range(rng.choice([2, 3, 4])))
    defined = list(params)
    stmts = []

    def operand(allow_const=True):
        if allow_const and rng.random() < 0.15:
            return ("c", rng.choice([0, 1, -1, 2, 7, 255, 65536, -2 ** 31]))
        return rng.choice(defined)

    for _ in range(rng.choice([2, 3, 3, 4, 5, 6, 8])):
        lhs = rng.choice(locals_ if rng.random() < 0.8 else params)
        if single:
            lhs = len(stmts)
        k = rng.random()
        if k < 0.08:
            e = ("c", rng.choice([0, 1, 5, -7, 70000]))
        elif k < 0.30:
            e = ("u", rng.choice(list(UN)), rng.choice(defined))
        elif k < 0.42:
            e = ("f", rng.randrange(3), rng.choice(defined))
        elif k < 0.55 and lhs in defined:
            # the /2addr shape: lhs = lhs op x
            e = ("b", rng.choice(BIN), lhs, operand())
        else:
            e = ("b", rng.choice(BIN), operand(False), operand())
        if e[0] == "b" and e[2] == e[3] and not single:
            # `w op w` is ONE shared operand object: BinaryExpression.replace visits it twice, the model once. The two differ only
            # when the replaced register occurs in its own replacement (`x = x op y`), which can then build a cyclic expression
            # (RecursionError in the real pass); single-definition blocks cannot get there, the others leave the shape out
            e = ("b", e[1], e[2], ("c", 3))
        stmts.append(("a", lhs, e))
        if lhs not in defined:
            defined.append(lhs)
    stmts.append(("r", rng.choice(defined if rng.random() < 0.3 else [s[1] for s in stmts[-3:]])))
    return {"params": params, "stmts": stmts, "single": single}


# ------------------------------------------------------------------------------------------ wire form
def _w_operand(o):
    if isinstance(o, tuple):
        return "_ c %d" % o[1]
    return "%d v %d" % (o, o)


def wire(block) -> str:
    ws = ["P", str(len(block["params"]))] + [str(p) for p in block["params"]] + ["S", str(len(block["stmts"]))]
    for s in block["stmts"]:
        if s[0] == "r":
            ws.append("r %d v %d" % (s[1], s[1]))
            continue
        e = s[2]
        if e[0] == "c":
            t = "c %d" % e[1]
        elif e[0] == "u":
            t = "u %s %s" % (e[1], _w_operand(e[2]))
        elif e[0] == "f":
            t = "f %d %s" % (e[1], _w_operand(e[2]))
        else:
            t = "b %s %s %s" % (e[1], _w_operand(e[2]), _w_operand(e[3]))
        ws.append("a %d %s" % (s[1], t))
    return "prop " + " ".join(ws)


# ------------------------------------------------------------------------------------------ the real pass
def build_real(mods, block):
    ir, df, gr, bb = mods
    vmap = {}

    def reg(r):
        if r not in vmap:
            vmap[r] = ir.Param(r, "I") if r in block["params"] else ir.Variable(r)
        return vmap[r]

    def operand(o):
        return ir.Constant(o[1], "I") if isinstance(o, tuple) else reg(o)

    ins = []
    for s in block["stmts"]:
        if s[0] == "r":
            ins.append(ir.ReturnInstruction(reg(s[1])))
            continue
        e = s[2]
        if e[0] == "c":
            rhs = ir.Constant(e[1], "I")
        elif e[0] == "u":
            a = operand(e[2])
            rhs = (ir.CastExpression(UN[e[1]], CAST_T[e[1]], a) if e[1] in CAST_T else ir.UnaryExpression(UN[e[1]], a, "I"))
        elif e[0] == "f":
            name = "f%d" % e[1]
            rhs = ir.InvokeStaticInstruction("LT;", name, ir.BaseClass("T", descriptor="LT;"), "I", ["I"], [operand(e[2])],
                                             ("LT;", name, "(I)I"))
        else:
            rhs = ir.BinaryExpression(e[1], operand(e[2]), operand(e[3]), "I")
        ins.append(ir.AssignExpression(reg(s[1]), rhs))
    g = gr.Graph()
    node = bb.ReturnBlock("b0", ins)
    g.add_node(node)
    g.entry = node
    g.exit = node
    g.compute_rpo()
    g.number_ins()
    return g, node


def show_expr(ir, e) -> str:
    def key(k):
        return str(k) if isinstance(k, int) else "_"
    if isinstance(e, ir.Constant):
        return "c%d" % e.cst
    if isinstance(e, ir.Variable):
        return "v%d" % e.v
    if isinstance(e, ir.InvokeInstruction):
        return "f(%s %s %s)" % (e.name[1:], key(e.args[0]), show_expr(ir, e.var_map[e.args[0]]))
    if isinstance(e, ir.BinaryExpression):
        return "b(%s %s %s %s %s)" % (e.op, key(e.arg1), show_expr(ir, e.var_map[e.arg1]), key(e.arg2), show_expr(ir, e.var_map[e.arg2]))
    if isinstance(e, ir.UnaryExpression):
        op = {v: k for k, v in UN.items()}[e.op]
        return "u(%s %s %s)" % (op, key(e.arg), show_expr(ir, e.var_map[e.arg]))
    raise TypeError(type(e).__name__)


def show_ins(ir, s) -> str:
    if isinstance(s, ir.ReturnInstruction):
        return "return %s %s" % (s.arg if isinstance(s.arg, int) else "_", show_expr(ir, s.var_map[s.arg]))
    return "%s = %s" % ("_" if s.lhs is None else s.lhs, show_expr(ir, s.rhs))


def _left(ir, node):
    left = list(node.get_loc_with_ins())
    return " ; ".join("%d: %s" % (loc, show_ins(ir, s)) for loc, s in left), [show_ins(ir, s) for _, s in left]


def real_pass(mods, block):
    """register_propagation alone: (instruction texts before, canonical text after, instruction texts after)"""
    ir, df, gr, bb = mods
    g, node = build_real(mods, block)
    before = [show_ins(ir, s) for _, s in node.get_loc_with_ins()]
    ud, du = df.build_def_use(g, list(block["params"]))
    df.register_propagation(g, du, ud)
    return (before,) + _left(ir, node)


def real_dce(mods, block):
    """dead_code_elimination, then register_propagation on the same chains (the order of the pipeline):
    (canonical text after the first, texts after the first, canonical text after both, texts after both)"""
    ir, df, gr, bb = mods
    g, node = build_real(mods, block)
    ud, du = df.build_def_use(g, list(block["params"]))
    df.dead_code_elimination(g, du, ud)
    t1, l1 = _left(ir, node)
    try:
        df.register_propagation(g, du, ud)
        t2, l2 = _left(ir, node)
    except Exception as e:  # noqa
        t2, l2 = "raised:" + type(e).__name__, None
    return t1, l1, t2, l2


# ------------------------------------------------------------------------------------------ independent evaluator
def _wrap(x):
    return (x + 2 ** 31) % 2 ** 32 - 2 ** 31


class _Throw(Exception):
    pass


def _tokens(text):
    return text.replace("(", " ( ").replace(")", " ) ").split()


def _eval_tokens(ts, pos, env, calls):
    t = ts[pos]
    if t[0] == "v":
        return env[int(t[1:])], pos + 1
    if t[0] == "c":
        return int(t[1:]), pos + 1
    kind = t  # u / b / f followed by "("
    assert ts[pos + 1] == "("
    op = ts[pos + 2]
    if kind == "b":
        a, p = _eval_tokens(ts, pos + 4, env, calls)
        b, p = _eval_tokens(ts, p + 1, env, calls)
        assert ts[p] == ")"
        if op in "/%" and b == 0:
            raise _Throw()
        if op == "/":
            q = abs(a) // abs(b)
            r = q if (a < 0) == (b < 0) else -q
        elif op == "%":
            r = abs(a) % abs(b)
            r = r if a >= 0 else -r
        else:
            r = {"+": a + b, "-": a - b, "*": a * b, "&": a & b, "|": a | b, "^": a ^ b}[op]
        return _wrap(r), p + 1
    a, p = _eval_tokens(ts, pos + 4, env, calls)
    assert ts[p] == ")"
    if kind == "f":
        calls.append((int(op), a))
        return _wrap(a + len(calls) - 1), p + 1
    r = {"neg": _wrap(-a), "not": ~a, "i2b": (a + 128) % 256 - 128, "i2s": (a + 32768) % 65536 - 32768, "i2c": a % 65536}[op]
    return r, p + 1


def evaluate(stmts, env0):
    """stmts: canonical instruction texts; -> ('ret', v, calls) | ('throw', calls) | ('fell', calls)"""
    env = dict(env0)
    calls = []
    try:
        for s in stmts:
            if s.startswith("return "):
                ts = _tokens(s.split(" ", 2)[2])
                v, _ = _eval_tokens(ts, 0, env, calls)
                return ("ret", v, tuple(calls))
            lhs, rhs = s.split(" = ", 1)
            v, _ = _eval_tokens(_tokens(rhs), 0, env, calls)
            if lhs != "_":
                env[int(lhs)] = v
    except _Throw:
        return ("throw", tuple(calls))
    return ("fell", tuple(calls))


#: register r holds vals[r % 8]: p10, p11, p12 are vals[2..4], v0..v3 are vals[0..3]
ENVS = [[13, 0, 7, 4, -3, 65537, 100000, -2 ** 31], [1, 0, 70001, 0, -1, 2, 3, 5], [-70000, 9, -256, 255, 65535, 2 ** 31 - 1, -1, 9],
        [0, 0, -2 ** 31, -1, 1, 0, 0, 0]]


def _has(block, pred):
    return any(s[0] == "a" and pred(s[2]) for s in block["stmts"])


def reads_undefined(params, after) -> bool:
    """the instructions left read a register that is neither a parameter nor assigned before"""
    import re
    have = set(params)
    for t in after:
        lhs, rhs = (None, t.split(" ", 2)[2]) if t.startswith("return ") else t.split(" = ", 1)
        if any(int(r) not in have for r in re.findall(r"\bv(\d+)", rhs)):
            return True
        if lhs not in (None, "_"):
            have.add(int(lhs))
    return False


def classify(block, after=None):
    """known-finding key of a block the pass changes the meaning of"""
    if after is not None and not reads_undefined(block["params"], [show for show in _before_texts(block)]) \
            and reads_undefined(block["params"], after):
        # a definition deleted while it is still read: the Writer prints its declaration inside the expression
        return "declaration-inside-expression"
    calls = _has(block, lambda e: e[0] == "f")
    divs = _has(block, lambda e: e[0] == "b" and e[1] in "/%")
    # r := f(q) ... q redefined ... r read, r not redefined in between
    st = block["stmts"]
    for a, s in enumerate(st):
        if s[0] != "a":
            continue
        us = {o for o in s[2][2:] if isinstance(o, int)} if s[2][0] != "c" else set()
        stale = False
        for t in st[a + 1:]:
            reads = ({t[1]} if t[0] == "r" else ({o for o in t[2][2:] if isinstance(o, int)} if t[2][0] != "c" else set()))
            if stale and s[1] in reads:
                return "propagation-past-redefinition"
            if t[0] == "a" and t[1] == s[1]:
                break
            if t[0] == "a" and t[1] in us:
                stale = True
    if divs and calls:
        return "division-not-a-side-effect"
    return None


def _before_texts(block):
    out = []
    for s_ in block["stmts"]:
        if s_[0] == "r":
            out.append("return %d v%d" % (s_[1], s_[1]))
        else:
            regs = [o for o in s_[2][2:] if isinstance(o, int)] if s_[2][0] != "c" else []
            out.append("%d = x(%s)" % (s_[1], " ".join("v%d" % r for r in regs)))
    return out


# ------------------------------------------------------------------------------------------ the leg
def leg(ck, drv, n):
    mods = _mods()
    rng = random.Random("C21-prop/%d" % ck.seed)
    blocks = list(EXAMPLES) + [gen_block(rng, single=(i % 2 == 1)) for i in range(n)]
    reqs = [wire(b) for b in blocks]
    replies = drv.ask(reqs)
    real, model = [], []
    st = {"propagation_blocks": len(blocks), "propagation_blocks_changed": 0, "propagation_blocks_changed_and_SafeBlock": 0,
          "propagation_blocks_meaning_changed": 0, "propagation_single_definition_blocks": 0,
          "propagation_single_definition_SafeBlock": 0, "propagation_single_definition_meaning_changed": 0,
          "propagation_single_definition_no_invoke_blocks": 0, "propagation_single_definition_no_invoke_SafeBlock": 0,
          "propagation_single_definition_pure_blocks": 0, "propagation_single_definition_pure_SafeBlock": 0,
          "propagation_meaning_changed_unclassified": 0}
    unclassified = []
    for b, rq, rep in zip(blocks, reqs, replies):
        model.append(rep.split(" | ")[0])
        try:
            before, text, after = real_pass(mods, b)
        except Exception as e:  # noqa
            real.append("raised:" + type(e).__name__)
            continue
        real.append("ins=" + text)
        is_safe = " | safe=true" in rep
        st["propagation_blocks_changed"] += before != after
        st["propagation_blocks_changed_and_SafeBlock"] += is_safe and before != after
        st["propagation_single_definition_blocks"] += bool(b.get("single"))
        st["propagation_single_definition_SafeBlock"] += bool(b.get("single")) and is_safe
        pure = not _has(b, lambda e: e[0] == "f" or (e[0] == "b" and e[1] in "/%"))
        noinv = not _has(b, lambda e: e[0] == "f")
        st["propagation_single_definition_no_invoke_blocks"] += bool(b.get("single")) and noinv
        st["propagation_single_definition_no_invoke_SafeBlock"] += bool(b.get("single")) and noinv and is_safe
        st["propagation_single_definition_pure_blocks"] += bool(b.get("single")) and pure
        st["propagation_single_definition_pure_SafeBlock"] += bool(b.get("single")) and pure and is_safe
        # leg S on the real pass alone (an evaluator of the canonical text, written here)
        bad = None
        for vals in ENVS:
            env = {r: vals[r % len(vals)] for r in range(32)}
            o1, o2 = evaluate(before, env), evaluate(after, env)
            if o1 != o2:
                bad = (vals, o1, o2)
                break
        if not bad:
            continue
        st["propagation_blocks_meaning_changed"] += 1
        st["propagation_single_definition_meaning_changed"] += bool(b.get("single"))
        if is_safe:
            ck.fail({"kind": "propagation-safe-block", "request": rq, "registers": bad[0]},
                    "the model calls the block SafeBlock (propagate_sound_partial applies) but the real pass changes what it computes",
                    None, expected=list(bad[1]), observed={"after": after, "outcome": list(bad[2])})
            continue
        key = classify(b, after)
        if key is None:
            # not a failing input of C21: either an invoke is involved (outside the int/long subset of the property) or the block
            # is one split_variables + dead_code_elimination never leave; counted, shown in the notes
            st["propagation_meaning_changed_unclassified"] += 1
            if len(unclassified) < 3:
                unclassified.append({"request": rq, "after": after, "registers": bad[0], "before_outcome": list(bad[1]),
                                     "after_outcome": list(bad[2])})
            continue
        ck.fail({"kind": "propagation-block", "block": {"params": b["params"], "stmts": b["stmts"]}, "request": rq, "registers": bad[0]},
                "register_propagation run alone on one basic block (real IR classes, real build_def_use) changes what the block computes",
                key, expected=list(bad[1]), observed={"after": after, "outcome": list(bad[2])})
    ck.compare("register_propagation on one basic block (real IR, real chains)", reqs, real, model)
    # dead_code_elimination alone, and the two passes in the order of the pipeline
    reqs_d = ["dce" + r[4:] for r in reqs]
    reqs_p = ["dceprop" + r[4:] for r in reqs]
    rep_d, rep_p = drv.ask(reqs_d), drv.ask(reqs_p)
    real_d, real_p = [], []
    st.update({"dce_blocks_changed": 0, "dce_blocks_changed_and_safe": 0, "dce_meaning_changed": 0, "dce_then_propagation_meaning_changed": 0,
               "dce_then_propagation_single_definition_meaning_changed": 0})
    for b, rq, rd in zip(blocks, reqs_d, rep_d):
        try:
            g, node = build_real(mods, b)
            before = [show_ins(mods[0], s) for _, s in node.get_loc_with_ins()]
            t1, l1, t2, l2 = real_dce(mods, b)
        except Exception as e:  # noqa
            real_d.append("raised:" + type(e).__name__)
            real_p.append("raised:" + type(e).__name__)
            continue
        real_d.append("ins=" + t1)
        real_p.append("ins=" + t2 if l2 is not None else t2)
        is_safe = " | safe=true" in rd
        st["dce_blocks_changed"] += before != l1
        st["dce_blocks_changed_and_safe"] += is_safe and before != l1
        for stage, after in (("dce", l1), ("dceprop", l2)):
            if after is None:
                continue
            bad = None
            for vals in ENVS:
                env = {r: vals[r % len(vals)] for r in range(32)}
                o1, o2 = evaluate(before, env), evaluate(after, env)
                if o1 != o2:
                    bad = (vals, o1, o2)
                    break
            if not bad:
                continue
            has_div = _has(b, lambda e: e[0] == "b" and e[1] in "/%")
            if stage == "dce":
                st["dce_meaning_changed"] += 1
                if is_safe:
                    ck.fail({"kind": "dce-safe-block", "request": rq, "registers": bad[0]},
                            "the model calls every deletion of dead_code_elimination on the block justified but the real pass changes "
                            "what it computes", None, expected=list(bad[1]), observed={"after": after, "outcome": list(bad[2])})
                else:
                    ck.fail({"kind": "dce-block", "block": {"params": b["params"], "stmts": b["stmts"]}, "request": rq, "registers": bad[0]},
                            "dead_code_elimination on one basic block (real IR classes, real build_def_use) changes what the block computes",
                            "division-not-a-side-effect" if has_div else None,
                            expected=list(bad[1]), observed={"after": after, "outcome": list(bad[2])})
                break
            st["dce_then_propagation_meaning_changed"] += 1
            st["dce_then_propagation_single_definition_meaning_changed"] += bool(b.get("single"))
            if not has_div and not _has(b, lambda e: e[0] == "f") and not b.get("single"):
                # a register assigned twice: not what split_variables hands over for one block; counted (the lost cast of
                # `p10 = (byte) p10; v1 = - p10` after `p10 = ...`: a cast of a Param is_const() and replace() overwrites it)
                st["dce_then_propagation_multi_definition_pure_meaning_changed"] = st.get(
                    "dce_then_propagation_multi_definition_pure_meaning_changed", 0) + 1
            elif not has_div and not _has(b, lambda e: e[0] == "f"):
                # single definitions, within the int subset of the property and no division: a failing input
                key = classify(b, after)
                if key is not None and " | safe=true" not in rep_p[reqs_d.index(rq)]:
                    ck.fail({"kind": "dce-propagation-block", "block": {"params": b["params"], "stmts": b["stmts"]}, "registers": bad[0]},
                            "dead_code_elimination then register_propagation on one basic block change what the block computes",
                            key, expected=list(bad[1]), observed={"after": after, "outcome": list(bad[2])})
                else:
                    ck.fail({"kind": "dce-propagation-block", "block": {"params": b["params"], "stmts": b["stmts"]}, "registers": bad[0]},
                            "dead_code_elimination then register_propagation change what a block without invoke and division computes",
                            None, expected=list(bad[1]), observed={"after": after, "outcome": list(bad[2])})
    ck.compare("dead_code_elimination on one basic block (real IR, real chains)", reqs_d, real_d, [r.split(" | ")[0] for r in rep_d])
    ck.compare("dead_code_elimination then register_propagation on one basic block", reqs_p, real_p, [r.split(" | ")[0] for r in rep_p])
    if unclassified:
        ck.notes.append("register_propagation run alone on generated one-block inputs changed the meaning of %d blocks that match no "
                        "known-finding key of C21 (an invoke is reordered with another invoke, is duplicated - `x = f(); y = x + x` becomes "
                        "`f() + f()`, the single use is counted per instruction - or loses a cast: outside the int/long "
                        "subset of the property); first: %s" % (st["propagation_meaning_changed_unclassified"], unclassified[0]))
    ck.cover(evaluations=len(blocks), distinct=(r for r in reqs), samples=[{"request": reqs[0], "real": real[0]}], dist=st)



# ------------------------------------------------------------------------------------------ blocks of the real pipeline
GBIN = {"/": "/", "%": "%", "+": "+", "-": "-", "*": "*", "&": "&", "|": "|", "^": "^"}


def _g_un(ir, e):
    return "i2c" if isinstance(e, ir.CastExpression) else {"-": "neg", "~": "not"}.get(e.op, "neg")


def g_show_expr(ir, e) -> str:
    """canonical text with the operators mapped to the ones of the model (the passes do not look at the operator
    beyond cast / division): any cast is i2c, any binary operator but / and % that the model has not is +"""
    def key(k):
        return str(k) if isinstance(k, int) else "_"
    if isinstance(e, ir.Constant):
        return "c%d" % e.cst2
    if isinstance(e, ir.Variable):
        return "v%d" % e.v
    if isinstance(e, ir.BinaryExpression):
        return "b(%s %s %s %s %s)" % (GBIN.get(e.op, "+"), key(e.arg1), g_show_expr(ir, e.var_map[e.arg1]), key(e.arg2),
                                      g_show_expr(ir, e.var_map[e.arg2]))
    if isinstance(e, ir.UnaryExpression):
        return "u(%s %s %s)" % (_g_un(ir, e), key(e.arg), g_show_expr(ir, e.var_map[e.arg]))
    raise TypeError(type(e).__name__)


def g_show_ins(ir, s) -> str:
    if isinstance(s, ir.ReturnInstruction):
        return "return %s %s" % (s.arg if isinstance(s.arg, int) else "_", g_show_expr(ir, s.var_map[s.arg]))
    if type(s) is ir.AssignExpression:
        return "%s = %s" % ("_" if s.lhs is None else s.lhs, g_show_expr(ir, s.rhs))
    raise TypeError(type(s).__name__)


def g_wire(ir, params, inss):
    """wire form of a block of the real pipeline whose operands are still registers and constants; TypeError outside"""
    def atom(o):
        if isinstance(o, ir.Constant) and isinstance(o.cst2, int):
            return "_ c %d" % o.cst2
        if isinstance(o, ir.Variable) and isinstance(o.v, int):
            return "%d v %d" % (o.v, o.v)
        raise TypeError(type(o).__name__)
    ws = ["P", str(len(params))] + [str(p) for p in params] + ["S", str(len(inss))]
    for s in inss:
        if isinstance(s, ir.ReturnInstruction):
            if s.arg is None:
                raise TypeError("return-void")
            a = s.var_map[s.arg]
            if not (isinstance(a, ir.Variable) and isinstance(a.v, int)):
                raise TypeError("return of " + type(a).__name__)
            ws.append("r %d v %d" % (a.v, a.v))
            continue
        if type(s) is not ir.AssignExpression or s.lhs is None or not isinstance(s.lhs, int):
            raise TypeError(type(s).__name__)
        e = s.rhs
        if isinstance(e, ir.Constant) and isinstance(e.cst2, int):
            t = "c %d" % e.cst2
        elif isinstance(e, ir.BinaryExpression):
            t = "b %s %s %s" % (GBIN.get(e.op, "+"), atom(e.var_map[e.arg1]), atom(e.var_map[e.arg2]))
        elif isinstance(e, ir.UnaryExpression):
            t = "u %s %s" % (_g_un(ir, e), atom(e.var_map[e.arg]))
        else:
            raise TypeError(type(e).__name__)
        ws.append("a %d %s" % (s.lhs, t))
    return " ".join(ws)


def leg_pipeline(ck, drv, n_methods):
    """straight-line generated methods through the REAL pipeline (construct, build_def_use, split_variables); the block
    it hands to dead_code_elimination is given to the model, the block register_propagation leaves is compared"""
    from . import javagen, c21diff
    ir, df, gr, bb = _mods()
    DEX = importlib.import_module("androguard.core.dex").DEX
    Analysis = importlib.import_module("androguard.core.analysis.analysis").Analysis
    dec = importlib.import_module("androguard.decompiler.decompile")
    rng = random.Random("C21-prop-pipeline/%d" % ck.seed)
    snap = {}
    real_dce, real_prop = dec.dead_code_elimination, dec.register_propagation

    def prop_hook(graph, du, ud):
        r = real_prop(graph, du, ud)
        if snap.get("wire"):
            try:
                left = list(graph.rpo[0].get_loc_with_ins())
                snap["after"] = " ; ".join("%d: %s" % (loc, g_show_ins(ir, i)) for loc, i in left)
            except TypeError as e:
                snap["skip"] = "after:" + str(e)
        return r

    reqs, real = [], []
    skipped = {}
    nm = 0
    dec.register_propagation = prop_hook
    try:
        for start in range(0, n_methods, 50):
            ms = [javagen.gen_method(rng, "m%d" % i, level=0) for i in range(min(50, n_methods - start))]
            data, _codes = c21diff.build_dex(ms)
            d = DEX(data)
            dx = Analysis(d)
            for m in (m for c in d.get_classes() for m in c.get_methods()):
                try:
                    dv = dec.DvMethod(dx.get_method(m))

                    def dce_hook(graph, du, ud, _p=list(dv.lparams)):
                        snap.clear()
                        nodes = list(graph.rpo)
                        if len(nodes) == 1:
                            try:
                                snap["wire"] = g_wire(ir, _p, [i for _, i in nodes[0].get_loc_with_ins()])
                            except TypeError as e:
                                snap["skip"] = str(e)
                        else:
                            snap["skip"] = "several nodes"
                        return real_dce(graph, du, ud)
                    dec.dead_code_elimination = dce_hook
                    snap.clear()
                    dv.process()
                except Exception as ex:  # noqa
                    skipped["decompiler:" + type(ex).__name__] = skipped.get("decompiler:" + type(ex).__name__, 0) + 1
                    continue
                nm += 1
                if snap.get("wire") and snap.get("after") is not None:
                    reqs.append("dceprop " + snap["wire"])
                    real.append("ins=" + snap["after"])
                else:
                    k = snap.get("skip", "no snapshot")
                    skipped[k] = skipped.get(k, 0) + 1
    finally:
        dec.dead_code_elimination, dec.register_propagation = real_dce, real_prop
    replies = drv.ask(reqs) if reqs else []
    ck.compare("dead_code_elimination + register_propagation on the blocks of decompiled straight-line methods", reqs, real,
               [r.split(" | ")[0] for r in replies])
    safe = sum(1 for r in replies if " | safe=true" in r)
    ck.cover(evaluations=len(reqs), distinct=(r for r in reqs), samples=[{"request": reqs[0], "real": real[0]}] if reqs else [],
             dist={"pipeline_blocks_methods": nm, "pipeline_blocks_in_model": len(reqs), "pipeline_blocks_all_changes_checked": safe,
                   "pipeline_blocks_skipped": skipped})


#: the functions Model/Propagate.lean transliterates (appended to the PINS of harness/props/c21.py)
PINS = [
    ("androguard/decompiler/dataflow.py", "register_propagation"),
    ("androguard/decompiler/dataflow.py", "clear_path"),
    ("androguard/decompiler/dataflow.py", "clear_path_node"),
    ("androguard/decompiler/dataflow.py", "build_def_use"),
    ("androguard/decompiler/dataflow.py", "BasicReachDef"),
    ("androguard/decompiler/graph.py", "Graph.remove_ins"),
    ("androguard/decompiler/basic_blocks.py", "BasicBlock.remove_ins"),
    ("androguard/decompiler/basic_blocks.py", "BasicBlock.get_loc_with_ins"),
    ("androguard/decompiler/instruction.py", "IRForm"),
    ("androguard/decompiler/instruction.py", "Param.is_const"),
    ("androguard/decompiler/instruction.py", "AssignExpression"),
    ("androguard/decompiler/instruction.py", "ReturnInstruction.replace"),
    ("androguard/decompiler/instruction.py", "ReturnInstruction.get_used_vars"),
    ("androguard/decompiler/instruction.py", "BinaryExpression.replace"),
    ("androguard/decompiler/instruction.py", "BinaryExpression.has_side_effect"),
    ("androguard/decompiler/instruction.py", "BinaryExpression.get_used_vars"),
    ("androguard/decompiler/instruction.py", "UnaryExpression.replace"),
    ("androguard/decompiler/instruction.py", "UnaryExpression.get_used_vars"),
    ("androguard/decompiler/instruction.py", "CastExpression.is_const"),
    ("androguard/decompiler/instruction.py", "InvokeInstruction.replace"),
    ("androguard/decompiler/instruction.py", "InvokeInstruction.has_side_effect"),
    ("androguard/decompiler/instruction.py", "InvokeStaticInstruction.get_used_vars"),
]
