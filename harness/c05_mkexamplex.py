"""One-off generator of lean/AgVerif/Proof/DexXExampleR.lean: a DEX file written by harness/dexasm.py with
static values and annotations, its extended tables read off the bytes (own few lines of struct parsing)
and the proof terms showing `EncodesX file L TX` and `WFX TX L` — the non-vacuity witness of C05's
parse_encode_static_values / parse_encode_annotations on a real writer's layout.  Not run by the check;
the Lean kernel checks every claim, so nothing here is trusted.  Usage, from /verif:

    /venv/bin/python harness/c05_mkexamplex.py
"""
import os, struct, sys
sys.path.insert(0, os.path.dirname(os.path.dirname(os.path.abspath(__file__))))
from harness.dexasm import (DexBuilder, Field, Method, Annotation, VALUE_INT, VALUE_STRING, VALUE_BOOLEAN, VALUE_TYPE)

_b = DexBuilder()
_b.add_class('LFoo;', access=0x401, source_file='Foo.java',
             static_fields=[Field('X', 'I', 0x19, init=(VALUE_INT, 7)),
                            Field('S', 'Ljava/lang/String;', 0x19, init=(VALUE_STRING, 'hi')),
                            Field('Z', 'Z', 0x19)],
             virtual_methods=[Method('run', 'V', (), 0x401, None)],
             annotations={'class': [Annotation(1, 'Ljava/lang/Deprecated;', []),
                                    Annotation(2, 'LAnn;', [('value', (VALUE_INT, 300)), ('on', (VALUE_BOOLEAN, True))])],
                          'fields': {('X', 'I'): [Annotation(1, 'LAnn;', [('value', (VALUE_TYPE, 'LFoo;'))])]}})
d = _b.build(leb_pad=0)
u16 = lambda o: struct.unpack_from('<H', d, o)[0]
u32 = lambda o: struct.unpack_from('<I', d, o)[0]


def uleb(o):
    v = 0; s = 0; st = o
    while True:
        b = d[o]; o += 1
        v |= (b & 0x7f) << s; s += 7
        if b < 0x80:
            break
    return v, o, list(d[st:o])


map_off = u32(0x34)
n = u32(map_off)
entries = [(u16(map_off + 4 + 12 * i), u32(map_off + 4 + 12 * i + 4), u32(map_off + 4 + 12 * i + 8)) for i in range(n)]
sec = {t: (s, o) for t, s, o in entries}
assert 0x1001 not in sec and 0x2001 not in sec and 0x1002 not in sec, sorted(map(hex, sec))
L = lambda xs: '[' + ', '.join(str(x) for x in xs) + ']'
strings = []
s, o = sec[0x2002]
for _ in range(s):
    v, o2, item = uleb(o)
    e = d.index(0, o2)
    strings.append((item, list(d[o2:e]))); o = e + 1
s, o = sec[1]; string_ids = [u32(o + 4 * i) for i in range(s)]
s, o = sec[2]; type_ids = [u32(o + 4 * i) for i in range(s)]
s, o = sec[3]; protos = [(u32(o + 12 * i), u32(o + 12 * i + 4), u32(o + 12 * i + 8)) for i in range(s)]
s, o = sec[4]; fields = [(u16(o + 8 * i), u16(o + 8 * i + 2), u32(o + 8 * i + 4)) for i in range(s)]
s, o = sec[5]; methods = [(u16(o + 8 * i), u16(o + 8 * i + 2), u32(o + 8 * i + 4)) for i in range(s)]
s, o = sec[6]; cdefs = [tuple(u32(o + 32 * i + 4 * k) for k in range(8)) for i in range(s)]
# class data (one item)
s, o = sec[0x2000]
assert s == 1
st = o
ns, hdr = [], []
for _ in range(4):
    v, o, it = uleb(o); ns.append(v); hdr.append(it)
lists = []
for k in range(4):
    prev = 0; rows = []
    for _ in range(ns[k]):
        dv, o, di = uleb(o); fl, o, fi = uleb(o)
        if k >= 2:
            co, o, ci = uleb(o); prev += dv; rows.append((prev, fl, co, di, fi, ci))
        else:
            prev += dv; rows.append((prev, fl, di, fi))
    lists.append(rows)
cd_bytes = list(d[st:o])


def value(o):
    """one scalar encoded_value at o -> (lean SValue text, header type, arg, payload bytes, end)"""
    h = d[o]; t, a = h & 0x1f, h >> 5
    if t in (0x1e, 0x1f):
        p = []
    else:
        p = list(d[o + 1:o + 2 + a])
    le = sum(b << (8 * i) for i, b in enumerate(p))
    if t == 0x04:
        bits = 8 * (a + 1)
        v = le - (1 << bits) if le >> (bits - 1) else le
        txt = '.int %s' % ('(%d)' % v if v < 0 else str(v))
    elif t == 0x17:
        txt = '.string %d' % le
    elif t == 0x18:
        txt = '.type %d' % le
    elif t == 0x1f:
        txt = '.boolean %s' % ('true' if a == 1 else 'false')
    else:
        raise SystemExit('value type 0x%x not handled by this generator' % t)
    return txt, t, a, p, o + 1 + len(p)


def scalar_proof(t, a, p):
    return '.scalar 0x%02x %d %s _ (by decide) (by decide) (by decide) rfl' % (t, a, L(p))


arrays = []
s, o = sec[0x2005]
for _ in range(s):
    st = o
    cnt, o, item = uleb(o)
    parts = []
    for _ in range(cnt):
        txt, t, a, p, o2 = value(o)
        parts.append((txt, t, a, p, list(d[o:o2]))); o = o2
    arrays.append((item, parts, list(d[st:o])))
items = []
item_offs = []
s, o = sec[0x2004]
for _ in range(s):
    st = o
    item_offs.append(o)
    vis = d[o]; o += 1
    ty, o, tyi = uleb(o)
    cnt, o, ci = uleb(o)
    els = []
    for _ in range(cnt):
        nm, o, ni = uleb(o)
        txt, t, a, p, o2 = value(o)
        els.append((nm, ni, txt, t, a, p, list(d[o:o2]))); o = o2
    items.append((vis, ty, tyi, ci, els, list(d[st:o])))
sets = []
s, o = sec[0x1003]
for _ in range(s):
    k = u32(o); sets.append([u32(o + 4 + 4 * i) for i in range(k)]); o += 4 + 4 * k
dirs = []
s, o = sec[0x2006]
for _ in range(s):
    co, nf, nm, np_ = struct.unpack_from('<IIII', d, o); o += 16
    ls = []
    for k in (nf, nm, np_):
        ls.append([struct.unpack_from('<II', d, o + 8 * i) for i in range(k)]); o += 8 * k
    dirs.append((co, ls))

out = []
w = out.append
w("""/-
GENERATED by harness/c05_mkexamplex.py from a DEX file written by harness/dexasm.py (%d bytes): abstract class
`LFoo;` with static fields `X : I = 7`, `S : Ljava/lang/String; = "hi"`, `Z : Z` (no value), an abstract
method, the class annotations `@Ljava/lang/Deprecated;` and `@LAnn;(value = 300, on = true)` and a field
annotation `@LAnn;(value = LFoo;.class)` on `X`.  The extended tables `TX` and the layout `L` were read off
the bytes; every claim is checked by the kernel.  Non-vacuity witness of `parse_encode_static_values` /
`parse_encode_annotations` (Props/C05.lean) on the layout of a real writer.
-/
import AgVerif.Proof.DexXView
import AgVerif.Proof.DexExample
namespace AgVerif.C05.ExampleR
open AgVerif.DexFile AgVerif.LoadOrder AgVerif.DexX AgVerif.C05 AgVerif.C05.Example
open AgVerif.Spec.EncodedValue (SValue)
open AgVerif.Spec.DexFile (EncFields EncMethods)
""" % len(d))
w('def file : Bytes := ' + L(list(d)) + '\n')
w('def L : Layout := ⟨%d, [%s]⟩\n' % (map_off, ', '.join('⟨0x%x, %d, %d⟩' % e for e in entries)))
w('def T : Tables :=')
w('  { strings := [' + ', '.join('(%s, %s)' % (L(a), L(b)) for a, b in strings) + ']')
w('    stringIds := ' + L(string_ids))
w('    typeIds := ' + L(type_ids))
w('    protoIds := [' + ', '.join('⟨%d, %d, %d⟩' % p for p in protos) + ']')
w('    fieldIds := [' + ', '.join('⟨%d, %d, %d⟩' % p for p in fields) + ']')
w('    methodIds := [' + ', '.join('⟨%d, %d, %d⟩' % p for p in methods) + ']')
w('    typeLists := []')
f_ = lambda rows: '[' + ', '.join('⟨%d, %d⟩' % (r[0], r[1]) for r in rows) + ']'
m_ = lambda rows: '[' + ', '.join('⟨%d, %d, %d⟩' % (r[0], r[1], r[2]) for r in rows) + ']'
w('    classData := [(⟨%s, %s, %s, %s⟩, %s)]' % (f_(lists[0]), f_(lists[1]), m_(lists[2]), m_(lists[3]), L(cd_bytes)))
w('    codes := []')
w('    classDefs := [' + ', '.join('⟨%d, %d, %d, %d, %d, %d, %d, %d⟩' % c for c in cdefs) + '] }\n')
w('def TX : TablesX :=')
w('  { base := T')
w('    encArrays := [' + ', '.join('([%s], %s)' % (', '.join(p[0] for p in parts), L(bs)) for _, parts, bs in arrays) + ']')
w('    annItems := [' + ', '.join('(⟨%d, %d, [%s]⟩, %s)' % (vis, ty, ', '.join('(%d, %s)' % (e[0], e[2]) for e in els), L(bs))
                                   for vis, ty, _, _, els, bs in items) + ']')
w('    annSets := [' + ', '.join(L(x) for x in sets) + ']')
w('    annRefs := []')
w('    annDirs := [' + ', '.join('⟨%d, %s, %s, %s⟩' % ((co,) + tuple('[' + ', '.join('(%d, %d)' % p for p in l) + ']' for l in ls))
                                  for co, ls in dirs) + '] }\n')


def encf(rows, prev='0'):
    if not rows:
        return '(.nil %s)' % prev
    idx, fl, di, fi = rows[0]
    return ('(.cons %s %d %d %s %s _ _ (by decide) ⟨by decide, by decide, by decide⟩ ⟨by decide, by decide, by decide⟩ %s)'
            % (prev, idx, fl, L(di), L(fi), encf(rows[1:], str(idx))))


def encm(rows, prev='0'):
    if not rows:
        return '(.nil %s)' % prev
    idx, fl, co, di, fi, ci = rows[0]
    return ('(.cons %s %d %d %d %s %s %s _ _ (by decide) ⟨by decide, by decide, by decide⟩ ⟨by decide, by decide, by decide⟩ '
            '⟨by decide, by decide, by decide⟩ %s)' % (prev, idx, fl, co, L(di), L(fi), L(ci), encm(rows[1:], str(idx))))


fb = lambda rows: sum((r[2] + r[3] for r in rows), [])
mb = lambda rows: sum((r[3] + r[4] + r[5] for r in rows), [])
w('theorem cdEnc : ∀ c ∈ T.classData,')
w('    Spec.DexFile.EncClassData (c.1.sf.map fun f => (f.idx, f.flags)) (c.1.inf.map fun f => (f.idx, f.flags))')
w('      (c.1.dm.map fun m => (m.idx, m.flags, m.codeOff)) (c.1.vm.map fun m => (m.idx, m.flags, m.codeOff)) c.2 := by')
w('  intro c hc')
w('  simp only [T, List.mem_singleton] at hc')
w('  subst hc')
w('  exact ⟨%s, %s, %s, %s, %s, %s, %s, %s,' % tuple([L(x) for x in hdr] + [L(fb(lists[0])), L(fb(lists[1])), L(mb(lists[2])), L(mb(lists[3]))]))
w('    ⟨by decide, by decide, by decide⟩, ⟨by decide, by decide, by decide⟩, ⟨by decide, by decide, by decide⟩,')
w('    ⟨by decide, by decide, by decide⟩,')
w('    ' + encf(lists[0]) + ',')
w('    ' + encf(lists[1]) + ',')
w('    ' + encm(lists[2]) + ',')
w('    ' + encm(lists[3]) + ',')
w('    by decide⟩\n')
w('theorem section_none {file : Bytes} {L : Layout} {t n : Nat} {bytes : Bytes} {al : Bool}')
w('    (h : L.sec t = none) (hn : n = 0) : Section file L t n bytes al := by')
w('  unfold Section; rw [h]; exact hn\n')
dk = '(by decide +kernel)'
w('theorem encodesBase : Encodes file L T where')
w('  mapOff_ne := by decide')
w('  mapOff_lt := by decide')
w('  header := at_intro _ _ _ %s %s' % (dk, dk))
w('  mapLen := by decide')
w('  mapAt := at_intro _ _ _ %s %s' % (dk, dk))
w('  nodup := by decide +kernel')
w('  members := by decide +kernel')
w('  ranges := by decide +kernel')
w('  strItem := strItem_dec _ (by decide +kernel)')
w('  tlPad := by decide +kernel')
w('  cdEnc := cdEnc')
w('  codeRest := by intro p hp; cases hp')
for name, t in (('strings', 0x2002), ('stringIds', 1), ('typeIds', 2), ('protoIds', 3), ('fieldIds', 4), ('methodIds', 5),
                ('typeLists', 0x1001), ('classData', 0x2000), ('codes', 0x2001), ('classDefs', 6)):
    if t in sec:
        w('  %s := section_intro ⟨0x%x, %d, %d⟩ %s %s %s %s %s' % (name, t, sec[t][0], sec[t][1], dk, dk, dk, dk, dk))
    else:
        w('  %s := section_none (by decide +kernel) (by decide)' % name)
w('')
w('theorem arraysOk : ∀ p ∈ TX.encArrays, EncArray p.2 p.1 := by')
w('  intro p hp')
w('  simp only [TX, List.mem_cons, List.not_mem_nil, or_false] at hp')
w('  rcases hp with ' + ' | '.join(['rfl'] * len(arrays)))
for item, parts, bs in arrays:
    w('  · refine ⟨%s, [%s], by decide, by decide, by decide, ?_, by decide, rfl⟩' %
      (L(item), ', '.join('(%s, %s)' % (L(p[4]), p[0]) for p in parts)))
    w('    intro q hq')
    w('    simp only [List.mem_cons, List.not_mem_nil, or_false] at hq')
    if parts:
        w('    rcases hq with ' + ' | '.join(['rfl'] * len(parts)))
        for p in parts:
            w('    · exact ' + scalar_proof(p[1], p[2], p[3]))
w('')
w('theorem annItemsOk : ∀ p ∈ TX.annItems, EncAnnItem p.2 p.1.visibility p.1.typeIdx p.1.elems := by')
w('  intro p hp')
w('  simp only [TX, List.mem_cons, List.not_mem_nil, or_false] at hp')
w('  rcases hp with ' + ' | '.join(['rfl'] * len(items)))
for vis, ty, tyi, ci, els, bs in items:
    w('  · refine ⟨%s, rfl, ?_⟩' % L(bs[1:]))
    w('    exact Spec.EncodedValue.Encodes.annotation %s %s %d [%s]' %
      (L(tyi), L(ci), ty, ', '.join('⟨%s, %d, %s, %s⟩' % (L(e[1]), e[0], L(e[6]), e[2]) for e in els)))
    w('      (by decide) (by decide) (by decide) (by decide) (by decide) (by decide)')
    if els:
        w('      (by')
        w('        intro q hq')
        w('        simp only [List.mem_cons, List.not_mem_nil, or_false] at hq')
        w('        rcases hq with ' + ' | '.join(['rfl'] * len(els)) + ' <;> exact ⟨by decide, by decide, by decide⟩)')
        w('      (by')
        w('        intro q hq')
        w('        simp only [List.mem_cons, List.not_mem_nil, or_false] at hq')
        w('        rcases hq with ' + ' | '.join(['rfl'] * len(els)))
        for e in els:
            w('        · exact ' + scalar_proof(e[3], e[4], e[5]))
        w('        )')
    else:
        w('      (by intro q hq; cases hq) (by intro q hq; cases hq)')
w('')
w('theorem encodes : EncodesX file L TX where')
w('  base := encodesBase')
w('  arrays := arraysOk')
w('  items := annItemsOk')
for name, t in (('encArrays', 0x2005), ('annItems', 0x2004), ('annSets', 0x1003), ('annRefs', 0x1002), ('annDirs', 0x2006)):
    if t in sec:
        w('  %s := section_intro ⟨0x%x, %d, %d⟩ %s %s %s %s %s' % (name, t, sec[t][0], sec[t][1], dk, dk, dk, dk, dk))
    else:
        w('  %s := section_none (by decide +kernel) (by decide)' % name)
w('')
w('theorem wf : WFX TX L := by decide +kernel\n')
w('def valInt : EncodedValue.Value → Option Int')
w('  | .int _ v => some v')
w('  | _ => none')
w('def valRef : EncodedValue.Value → Option (List String)')
w('  | .ref _ l => some l')
w('  | _ => none\n')
w('end AgVerif.C05.ExampleR')
path = os.path.join(os.path.dirname(os.path.dirname(os.path.abspath(__file__))), 'lean', 'AgVerif', 'Proof', 'DexXExampleR.lean')
open(path, 'w').write('\n'.join(out) + '\n')
print('wrote', path, len(d), 'bytes of DEX; map', [hex(e[0]) for e in entries])
print('item offsets', item_offs, 'sets', sets, 'dirs', dirs)
