"""Independent oracle for C10 / C11 / C12 / C40 (leg S).

Works from the method's raw code bytes and its try table only.  Instruction boundaries, branch
operands and payload contents come from the specification decoder `harness.dalvik_spec`
(written from the Dalvik documents; shares nothing with androguard or with the Lean model);
control-transfer opcodes are recognised by their mnemonic in that decoder's table; try coverage
is plain interval intersection.  Everything is in BYTE offsets.

`Facts(code, tries)` computes what the specification says about the method;
`judge_c10 / c11 / c12 / c40(facts, view)` compare it with what androguard reported (`view`, a plain
dict built by harness.cfg_common.real_view) and return a list of
(what, key, expected, observed) failures.  `key` is None except for the one listed defect shape.
"""
from harness import dalvik_spec as DS

KEY_D6 = "try-ends-inside-later-block"


def flow_of(name):
    if name is None:
        return "fall"
    if name.startswith("return") or name == "throw":
        return "exit"
    if name.startswith("goto"):
        return "goto"
    if name.startswith("if-"):
        return "cond"
    if name in ("packed-switch", "sparse-switch"):
        return "switch"
    return "fall"


XREF_KIND = {"meth": lambda n: n.startswith("invoke-") and not n.startswith("invoke-polymorphic")
             and not n.startswith("invoke-custom"),
             "str": lambda n: n.startswith("const-string"),
             "cls": lambda n: n in ("const-class", "new-instance"),
             "fld": lambda n: n[:4] in ("iget", "iput", "sget", "sput")}


class Facts:
    """tries: list of (start_units, count_units, [(type_token, addr_units)…]) where the catch-all is
    already appended as (THROWABLE, addr)"""

    def __init__(self, code: bytes, tries):
        self.code = bytes(code)
        self.codelen = len(self.code)
        items, status = DS.sweep(self.code)
        self.sweep_ok = status == "done"
        self.items = items
        self.at = {o: d for o, d in items}
        self.offsets = [o for o, _ in items]
        self.offset_set = set(self.offsets)
        self.tries = [(2 * s, 2 * (s + c) - 1, [(t, 2 * a) for t, a in hs]) for s, c, hs in tries]
        self.flow = {}
        self.targets = {}          # offset of a control instruction -> list of byte targets (spec)
        self.payload_of = {}       # offset of 0x26/0x2b/0x2c -> encoded payload offset
        wf = self.sweep_ok
        why = None if wf else "sweep"
        self.payload_ok = True      # every payload reference hits a payload of the right kind, 4-byte aligned

        def bad(reason):
            nonlocal wf, why
            if wf:
                wf, why = False, reason
        for o, d in items:
            if "kind" in d and d.get("name") is None and d.get("kind") in ("packed", "sparse", "fill"):
                self.flow[o] = "payload"
                continue
            name = d.get("name")
            f = flow_of(name)
            self.flow[o] = f
            nxt = o + d["length"]
            if name in ("packed-switch", "sparse-switch", "fill-array-data"):
                p = o + 2 * d["off"]
                self.payload_of[o] = p
                pd = self.at.get(p)
                want = {"packed-switch": "packed", "sparse-switch": "sparse", "fill-array-data": "fill"}[name]
                if pd is None or pd.get("name") is not None or pd.get("kind") != want:
                    bad("payload-not-at-encoded-offset")
                    self.payload_ok = False
                elif p % 4:
                    bad("payload-misaligned")
                    self.payload_ok = False
            if f == "exit":
                self.targets[o] = []
            elif f == "goto":
                self.targets[o] = [o + 2 * d["off"]]
            elif f == "cond":
                self.targets[o] = [nxt, o + 2 * d["off"]]
            elif f == "switch":
                pd = self.at.get(o + 2 * d["off"])
                tg = pd.get("targets", []) if pd is not None and pd.get("name") is None else []
                self.targets[o] = [nxt] + [o + 2 * t for t in tg]
            else:
                self.targets[o] = [nxt]
            if f in ("goto", "cond", "switch"):
                for t in self.targets[o]:
                    if t not in self.offset_set:
                        bad("target-not-an-instruction")
        # a non-exit last real instruction falls off the end: the verifier rejects it; blocks are still judged
        srt = sorted(self.tries)
        for (s, e, hs) in self.tries:
            if s not in self.offset_set:
                bad("try-start-not-an-instruction")
            if e < s:
                bad("empty-try")
            for _, a in hs:
                if a not in self.offset_set:
                    bad("handler-not-an-instruction")
        for (s1, e1, _), (s2, e2, _) in zip(srt, srt[1:]):
            if s2 <= e1:
                bad("tries-overlap")
        self.wf, self.why = wf, why
        lead = {0}
        for o, ts in self.targets.items():
            if self.flow[o] != "fall":
                lead.update(ts)
                lead.add(o + self.at[o]["length"])
        for s, e, hs in self.tries:
            lead.add(s)
            lead.update(a for _, a in hs)
        self.leaders = {x for x in lead if x in self.offset_set}

    def block_offsets(self, start, end):
        return [o for o in self.offsets if start <= o < end]

    def covering(self, offs):
        return [t for t in self.tries if any(t[0] <= o <= t[1] for o in offs)]


def judge_c10(F: Facts, view):
    out = []
    blocks = view["blocks"]          # [(start, end, nb)]
    if not F.sweep_ok:
        return out
    pos = 0
    for (s, e, nb) in blocks:
        if s != pos or e <= s:
            out.append(("blocks are not contiguous / in order / non-empty", None, f"block starting at {pos}", [s, e]))
            return out
        if s not in F.offset_set:
            out.append(("a block starts inside an instruction", None, "instruction offset", s))
        if nb != len(F.block_offsets(s, e)):
            out.append(("block instruction count differs from the instructions in its range", None,
                        len(F.block_offsets(s, e)), nb))
        pos = e
    if pos != F.codelen:
        out.append(("blocks do not cover the whole method", None, F.codelen, pos))
    starts = {s for s, _, _ in blocks}
    for l in sorted(F.leaders if F.payload_ok else ()):
        if l not in starts:
            out.append(("a branch target / try start / handler / instruction after a branch does not begin a block",
                        None, f"block starting at {l}", sorted(starts)))
            break
    for (s, e, _) in blocks:
        offs = F.block_offsets(s, e)
        for o in offs[:-1]:
            if F.flow[o] in ("exit", "goto", "cond", "switch"):
                out.append(("a branching instruction is not the last of its block", None,
                            f"block ends after {o}", [s, e]))
                break
    return out


def judge_c11(F: Facts, view):
    out = []
    if not F.wf:
        return out
    blocks = view["blocks"]
    starts = {s for s, _, _ in blocks}
    succ = {}
    for (s, e, _), ch in zip(blocks, view["childs"]):
        offs = F.block_offsets(s, e)
        if not offs:
            continue
        last = offs[-1]
        got = sorted({c for _, _, c in ch})
        succ[s] = set(got)
        if F.flow[last] == "payload":
            continue                          # data, never executed: outside the statement
        exp = sorted({t for t in F.targets[last] if 0 <= t < F.codelen})
        if exp != got:
            out.append(("successors differ from the in-method targets of the last instruction", None, exp, got))
            continue
        for (src, dst, c) in ch:
            if src != last or dst != c or c not in starts:
                out.append(("child entry does not carry (offset of last instruction, target, block at target)", None,
                            [last, "t", "t"], [src, dst, c]))
                break
    for (s, e, _), fa in zip(blocks, view["fathers"]):
        exp = sorted(b for b, cs in succ.items() if s in cs)
        got = sorted({f for _, _, f in fa})
        if exp != got:
            out.append(("predecessors are not the inverse of the successor relation", None, exp, got))
        exp_n = sum(1 for (bs, _, _), ch in zip(blocks, view["childs"]) for (_, _, c) in ch if c == s)
        if exp_n != len(fa):
            out.append(("predecessor list length differs from the number of incoming edges", None, exp_n, len(fa)))
    return out


def judge_c12(F: Facts, view):
    out = []
    if not F.wf:
        return out
    blocks = view["blocks"]
    starts = {s for s, _, _ in blocks}
    for (s, e, _), ea in zip(blocks, view["exc"]):
        cov = F.covering(F.block_offsets(s, e))
        if not cov:
            if ea is not None:
                out.append(("a block reports a try range that covers none of its instructions", None, None, ea))
            continue
        t = cov[0]
        exp = [t[0], t[1], [(ty, a, a if a in starts else None) for ty, a in t[2]]]
        if ea is None:
            d6 = t[0] < s and t[1] < e - 1
            out.append(("a block with an instruction inside a try range reports no handlers",
                        KEY_D6 if d6 else None, exp, None))
            continue
        got = [ea[0], ea[1], [tuple(h) for h in ea[2]]]
        if got != exp:
            out.append(("a block reports the wrong try range / handlers", None, exp, got))
    return out


def judge_c40(F: Facts, view):
    out = []
    if not F.sweep_ok:
        return out
    for (s, e, _) in view["blocks"]:
        if s not in F.offset_set or (e not in F.offset_set and e != F.codelen):
            out.append(("a block boundary is not an instruction offset", None, "instruction offset", [s, e]))
    for cat, offs in view["xref"].items():
        for o in offs:
            d = F.at.get(o)
            if d is None or d.get("name") is None or not XREF_KIND[cat](d["name"]):
                out.append((f"a {cat} cross-reference is recorded at an offset where the disassembly has no such "
                            f"instruction", None, cat, [o, d and d.get("name")]))
    special = view["special"]        # {idx: payload offset | None | "foreign"}
    for o, p in F.payload_of.items():
        exp = p if p in F.offset_set else None
        if o not in special:
            out.append(("a payload-using instruction has no payload link", None, exp, "missing"))
        elif special[o] != exp:
            out.append(("the linked payload is not the instruction at the encoded offset", None, exp, special[o]))
    for o in special:
        if o not in F.payload_of:
            out.append(("a payload link is recorded for an instruction that has none", None, None, o))
    return out


JUDGES = {"C10": judge_c10, "C11": judge_c11, "C12": judge_c12, "C40": judge_c40}
