"""
Independent writer for Android `resources.arsc` files (ResTable), used by the checks of C28/C29.

It is written from the Android format (frameworks/base/libs/androidfw/include/androidfw/ResourceTypes.h:
ResChunk_header, ResTable_header, ResStringPool_header, ResTable_package, ResTable_typeSpec,
ResTable_type, ResTable_config, ResTable_entry / ResTable_map_entry / ResTable_map, Res_value,
ResTable_sparseTypeEntry) and shares no code with androguard.

Abstract resource model
-----------------------
    ResTable(packages=[Package, ...])
    Package(id, name, types=[ResType, ...])            type id of types[i] is i+1
    ResType(name, entry_count, chunks=[TypeChunk, ...]) one ResTable_typeSpec + one ResTable_type per chunk
    TypeChunk(config, entries={entry_index: Entry}, layout)   layout in {"plain", "sparse", "offset16"}
    Config(language, region, density, sdk, orientation, mcc, mnc, ...)    a ResTable_config
    Entry(key, kind, value, items, parent, public, weak)
        kind "simple"  : ResTable_entry + one Res_value                         (value)
        kind "complex" : ResTable_map_entry + `items` ResTable_map (name, Res_value) (items, parent)
        kind "compact" : ResTable_entry with FLAG_COMPACT: key index in `size`, data type in the
                         high byte of `flags`, data in the `key` field                (value)
    Value: one of
        Str(text)                     Res_value TYPE_STRING, data = index of `text` in the global pool
        Ref(res_id)                   Res_value TYPE_REFERENCE, data = res_id (0 = @null)
        Raw(data_type, data)          any other Res_value

The resource id of entry `e` of type `t` (1-based) in package `p` is  p.id << 24 | t << 16 | e.

    encode_arsc(model, **layout_options) -> bytes

Layout options (all optional; they change the bytes, never the meaning of the table)
    global_utf8 / type_utf8 / key_utf8 : bool   UTF-8 instead of UTF-16 for the global / type-name / key-name pool (default False)
    config_size     : one of 28, 32, 36, 48, 52, 56, 64            size of every ResTable_config (default 64)
    typespec        : bool     emit a ResTable_typeSpec before the type chunks of each type (default True)
    spec_per_chunk  : bool     repeat the typeSpec before every type chunk (default False)
    force_layout    : None | "plain" | "sparse" | "offset16"       override TypeChunk.layout
    shuffle_bodies  : random.Random | None     store the entry bodies of a chunk in a shuffled order
    extra_chunk     : bool     put a RES_TABLE_LIBRARY_TYPE chunk at the end of every package (default False)
    pkg_header_size : 284 | 288  (288 adds typeIdOffset, as modern aapt2 does; default 288)
    global_extra    : list[str]  strings placed at the front of the global pool that nothing refers to
    pool_order      : random.Random | None   shuffle the order of the strings of the global pool
    trailing        : bytes appended after the table chunk (default b"")
    package_count   : int | None   value of ResTable_header.packageCount (default len(packages))

Everything is little endian.
"""
from __future__ import annotations

import struct
from dataclasses import dataclass, field
from typing import Dict, List, Optional, Tuple, Union

RES_STRING_POOL_TYPE = 0x0001
RES_TABLE_TYPE = 0x0002
RES_TABLE_PACKAGE_TYPE = 0x0200
RES_TABLE_TYPE_TYPE = 0x0201
RES_TABLE_TYPE_SPEC_TYPE = 0x0202
RES_TABLE_LIBRARY_TYPE = 0x0203

TYPE_NULL, TYPE_REFERENCE, TYPE_ATTRIBUTE, TYPE_STRING = 0, 1, 2, 3
TYPE_FLOAT, TYPE_DIMENSION, TYPE_FRACTION = 4, 5, 6
TYPE_INT_DEC, TYPE_INT_HEX, TYPE_INT_BOOLEAN = 0x10, 0x11, 0x12
TYPE_INT_COLOR_ARGB8, TYPE_INT_COLOR_RGB8, TYPE_INT_COLOR_ARGB4, TYPE_INT_COLOR_RGB4 = 0x1C, 0x1D, 0x1E, 0x1F

FLAG_COMPLEX, FLAG_PUBLIC, FLAG_WEAK, FLAG_COMPACT = 1, 2, 4, 8
TYPE_FLAG_SPARSE, TYPE_FLAG_OFFSET16 = 1, 2
NO_ENTRY32, NO_ENTRY16 = 0xFFFFFFFF, 0xFFFF
UTF8_FLAG = 1 << 8


# ------------------------------------------------------------------------------------------ model
@dataclass(frozen=True)
class Str:
    text: str


@dataclass(frozen=True)
class Ref:
    res_id: int


@dataclass(frozen=True)
class Raw:
    data_type: int
    data: int


Value = Union[Str, Ref, Raw]


@dataclass(frozen=True)
class Config:
    """a ResTable_config; every field 0/"" is the default ("any") configuration"""
    language: str = ""       # "", two letters (ISO-639-1) or three letters (ISO-639-2, packed)
    region: str = ""         # "", two letters/digits or three digits (UN M.49, packed)
    density: int = 0
    sdk: int = 0
    orientation: int = 0
    mcc: int = 0
    mnc: int = 0
    touchscreen: int = 0
    keyboard: int = 0
    navigation: int = 0
    input_flags: int = 0
    screen_width: int = 0
    screen_height: int = 0
    minor_version: int = 0
    screen_layout: int = 0
    ui_mode: int = 0
    smallest_width_dp: int = 0
    screen_width_dp: int = 0
    screen_height_dp: int = 0
    screen_layout2: int = 0
    color_mode: int = 0

    def words(self) -> Tuple[int, ...]:
        """the nine 32-bit words (imsi, locale, screenType, input, screenSize, version, screenConfig,
        screenSizeDp, screenConfig2) as little-endian integers"""
        b = config_bytes(self, 64)
        w = struct.unpack("<16I", b)
        return (w[1], w[2], w[3], w[4], w[5], w[6], w[7], w[8], w[12])


@dataclass
class Entry:
    key: str
    kind: str = "simple"                       # "simple" | "complex" | "compact"
    value: Optional[Value] = None              # simple / compact
    items: List[Tuple[int, Value]] = field(default_factory=list)   # complex: (name attr id, value)
    parent: int = 0                            # complex: parent style id
    public: bool = False
    weak: bool = False


@dataclass
class TypeChunk:
    config: Config
    entries: Dict[int, Entry]
    layout: str = "plain"                      # "plain" | "sparse" | "offset16"


@dataclass
class ResType:
    name: str
    entry_count: int
    chunks: List[TypeChunk]


@dataclass
class Package:
    id: int
    name: str
    types: List[ResType]


@dataclass
class ResTable:
    packages: List[Package]


def res_id(pkg_id: int, type_id: int, entry: int) -> int:
    return (pkg_id << 24) | (type_id << 16) | entry


# ------------------------------------------------------------------------------------- primitives
def u8(x): return struct.pack("<B", x)
def u16(x): return struct.pack("<H", x)
def u32(x): return struct.pack("<I", x)


def chunk(type_: int, header_rest: bytes, body: bytes) -> bytes:
    """ResChunk_header {u16 type, u16 headerSize, u32 size} + rest of the header + body"""
    hs = 8 + len(header_rest)
    return u16(type_) + u16(hs) + u32(hs + len(body)) + header_rest + body


def _pack_lang_or_region(s: str, base: str) -> bytes:
    """AOSP ResTable_config::packLanguageOrRegion"""
    if not s:
        return b"\0\0"
    if len(s) == 2:
        return bytes([ord(s[0]), ord(s[1])])
    assert len(s) == 3, s
    f, se, t = [(ord(c) - ord(base)) & 0x7F for c in s]
    return bytes([0x80 | (t << 2) | (se >> 3), ((se << 5) | f) & 0xFF])


def config_bytes(c: Config, size: int = 64) -> bytes:
    b = bytearray()
    b += u32(size)
    b += u16(c.mcc) + u16(c.mnc)
    b += _pack_lang_or_region(c.language, "a") + _pack_lang_or_region(c.region, "0")
    b += u8(c.orientation) + u8(c.touchscreen) + u16(c.density)
    b += u8(c.keyboard) + u8(c.navigation) + u8(c.input_flags) + u8(0)
    b += u16(c.screen_width) + u16(c.screen_height)
    b += u16(c.sdk) + u16(c.minor_version)
    b += u8(c.screen_layout) + u8(c.ui_mode) + u16(c.smallest_width_dp)      # 32
    b += u16(c.screen_width_dp) + u16(c.screen_height_dp)                    # 36
    b += b"\0" * 4                                                          # localeScript   40
    b += b"\0" * 8                                                          # localeVariant  48
    b += u8(c.screen_layout2) + u8(c.color_mode) + u16(0)                    # 52
    b += b"\0" * 4                                                          # localeScriptWasComputed + pad 56
    b += b"\0" * 8                                                          # localeNumberingSystem 64
    assert len(b) == 64
    assert size in (28, 32, 36, 48, 52, 56, 64), size
    out = bytes(b[:size])
    # a shorter config cannot carry the later fields: the caller must not ask for them
    assert not any(b[size:]), "config field set beyond the chosen config size"
    return out


def _len8(n: int) -> bytes:
    return bytes([n]) if n < 0x80 else bytes([0x80 | (n >> 8), n & 0xFF])


def _len16(n: int) -> bytes:
    return u16(n) if n < 0x8000 else u16(0x8000 | (n >> 16)) + u16(n & 0xFFFF)


def string_pool(strings: List[str], utf8: bool) -> bytes:
    """ResStringPool chunk without styles"""
    data = bytearray()
    offsets = []
    for s in strings:
        offsets.append(len(data))
        if utf8:
            enc = s.encode("utf-8")
            n16 = len(s.encode("utf-16-le")) // 2
            data += _len8(n16) + _len8(len(enc)) + enc + b"\0"
        else:
            enc = s.encode("utf-16-le")
            data += _len16(len(enc) // 2) + enc + b"\0\0"
    while len(data) % 4:
        data += b"\0"
    n = len(strings)
    strings_start = 28 + 4 * n
    header_rest = u32(n) + u32(0) + u32(UTF8_FLAG if utf8 else 0) + u32(strings_start) + u32(0)
    body = b"".join(u32(o) for o in offsets) + bytes(data)
    return chunk(RES_STRING_POOL_TYPE, header_rest, body)


def res_value(v: Value, gidx) -> bytes:
    """Res_value {u16 size=8, u8 res0=0, u8 dataType, u32 data}"""
    t, d = value_type_data(v, gidx)
    return u16(8) + u8(0) + u8(t) + u32(d)


def value_type_data(v: Value, gidx) -> Tuple[int, int]:
    if isinstance(v, Str):
        return TYPE_STRING, gidx(v.text)
    if isinstance(v, Ref):
        return TYPE_REFERENCE, v.res_id
    return v.data_type, v.data


def entry_bytes(e: Entry, key_index: int, gidx) -> bytes:
    flags = (FLAG_PUBLIC if e.public else 0) | (FLAG_WEAK if e.weak else 0)
    if e.kind == "simple":
        return u16(8) + u16(flags) + u32(key_index) + res_value(e.value, gidx)
    if e.kind == "complex":
        b = u16(16) + u16(flags | FLAG_COMPLEX) + u32(key_index) + u32(e.parent) + u32(len(e.items))
        for name, v in e.items:
            b += u32(name) + res_value(v, gidx)
        return b
    if e.kind == "compact":
        t, d = value_type_data(e.value, gidx)
        assert key_index <= 0xFFFF
        return u16(key_index) + u16(flags | FLAG_COMPACT | (t << 8)) + u32(d)
    raise ValueError(e.kind)


def type_chunk(type_id: int, entry_count: int, tc: TypeChunk, kidx, gidx, config_size: int,
               layout: str, shuffle=None) -> bytes:
    idxs = sorted(tc.entries)
    assert all(0 <= i < entry_count for i in idxs)
    order = list(idxs)
    if shuffle is not None:
        shuffle.shuffle(order)
    bodies, off = {}, 0
    blob = bytearray()
    for i in order:
        bodies[i] = off
        eb = entry_bytes(tc.entries[i], kidx(tc.entries[i].key), gidx)
        assert len(eb) % 4 == 0
        blob += eb
        off += len(eb)
    if layout == "plain":
        flags, count = 0, entry_count
        table = b"".join(u32(bodies[i]) if i in bodies else u32(NO_ENTRY32) for i in range(entry_count))
    elif layout == "offset16":
        flags, count = TYPE_FLAG_OFFSET16, entry_count
        assert all(o // 4 < 0xFFFF for o in bodies.values())
        table = b"".join(u16(bodies[i] // 4) if i in bodies else u16(NO_ENTRY16) for i in range(entry_count))
        if len(table) % 4:
            table += b"\0\0"
    elif layout == "sparse":
        flags, count = TYPE_FLAG_SPARSE, len(idxs)
        assert all(o // 4 <= 0xFFFF for o in bodies.values())
        table = b"".join(u16(i) + u16(bodies[i] // 4) for i in idxs)
    else:
        raise ValueError(layout)
    cfg = config_bytes(tc.config, config_size)
    header_size = 8 + 12 + len(cfg)
    entries_start = header_size + len(table)
    header_rest = u8(type_id) + u8(flags) + u16(0) + u32(count) + u32(entries_start) + cfg
    return chunk(RES_TABLE_TYPE_TYPE, header_rest, table + bytes(blob))


def typespec_chunk(type_id: int, entry_count: int) -> bytes:
    header_rest = u8(type_id) + u8(0) + u16(0) + u32(entry_count)
    return chunk(RES_TABLE_TYPE_SPEC_TYPE, header_rest, b"".join(u32(0) for _ in range(entry_count)))


def package_chunk(p: Package, gidx, opts) -> bytes:
    type_names = [t.name for t in p.types]
    keys: List[str] = []
    for t in p.types:
        for tc in t.chunks:
            for i in sorted(tc.entries):
                if tc.entries[i].key not in keys:
                    keys.append(tc.entries[i].key)
    kpos = {k: i for i, k in enumerate(keys)}
    type_pool = string_pool(type_names, opts.get("type_utf8", False))
    key_pool = string_pool(keys, opts.get("key_utf8", False))
    hsize = opts.get("pkg_header_size", 288)
    assert hsize in (284, 288)
    name16 = p.name.encode("utf-16-le")
    assert len(name16) < 256
    name16 = name16 + b"\0" * (256 - len(name16))
    body = bytearray()
    body += type_pool + key_pool
    for ti, t in enumerate(p.types):
        tid = ti + 1
        if opts.get("typespec", True) and not opts.get("spec_per_chunk", False):
            body += typespec_chunk(tid, t.entry_count)
        for tc in t.chunks:
            if opts.get("typespec", True) and opts.get("spec_per_chunk", False):
                body += typespec_chunk(tid, t.entry_count)
            layout = opts.get("force_layout") or tc.layout
            body += type_chunk(tid, t.entry_count, tc, kpos.__getitem__, gidx,
                               opts.get("config_size", 64), layout, opts.get("shuffle_bodies"))
    if opts.get("extra_chunk", False):
        body += chunk(RES_TABLE_LIBRARY_TYPE, u32(0), b"")
    header_rest = (u32(p.id) + name16 + u32(hsize) + u32(len(type_names)) +
                   u32(hsize + len(type_pool)) + u32(len(keys)))
    if hsize == 288:
        header_rest += u32(0)                                   # typeIdOffset
    assert 8 + len(header_rest) == hsize
    return chunk(RES_TABLE_PACKAGE_TYPE, header_rest, bytes(body))


def global_strings(model: ResTable, extra=(), order=None) -> List[str]:
    out: List[str] = []

    def add(v):
        if isinstance(v, Str) and v.text not in out:
            out.append(v.text)
    for p in model.packages:
        for t in p.types:
            for tc in t.chunks:
                for i in sorted(tc.entries):
                    e = tc.entries[i]
                    if e.kind == "complex":
                        for _, v in e.items:
                            add(v)
                    else:
                        add(e.value)
    if order is not None:
        order.shuffle(out)
    pre = [s for s in extra if s not in out]
    return pre + out


def encode_arsc(model: ResTable, **opts) -> bytes:
    """serialise the abstract resource table `model`; see the module documentation for `opts`"""
    gs = global_strings(model, opts.get("global_extra", ()), opts.get("pool_order"))
    gpos = {s: i for i, s in enumerate(gs)}
    body = string_pool(gs, opts.get("global_utf8", False))
    for p in model.packages:
        body += package_chunk(p, gpos.__getitem__, opts)
    pc = opts.get("package_count")
    table = chunk(RES_TABLE_TYPE, u32(len(model.packages) if pc is None else pc), body)
    return table + opts.get("trailing", b"")
