"""Independent reference model of the Dalvik instruction set (DEX <= 039).

Written from the official "Dalvik bytecode" and "Dalvik executable instruction
formats" documents only; it shares no code or table with androguard and is used
as the oracle that judges androguard's decoder.

Conventions
- An instruction is seen as ONE little-endian integer N = sum(byte[i] << 8*i);
  code unit k occupies bits 16k..16k+15.  A field is (name, start_bit, width,
  signed, role), role in {"op","pad","reg","count","lit","off","idx","idx2"}.
- Field names are the letters of the layout column of the formats document:
  the 32-bit "AAAAlo AAAAhi" of 30t is the field "AAAA" (width 32), the 32/64-bit
  "BBBBlo .. BBBBhi" of 31i/31t/31c/51l is the field "BBBB"; the must-be-zero
  byte written OO (O-slash) in the document is the field "pad".
- Fields are listed in the order of the assembly syntax (after "op"), so the
  register list of an instruction is its "reg" fields in table order.
- All offsets/lengths returned by sweep/random_program are BYTE offsets; branch
  offsets ("off") are in 16-bit code units, as in the specification.
"""
import random
import struct

_OP = ("op", 0, 8, False, "op")
_PAD = ("pad", 8, 8, False, "pad")


def _fmt(units, *fields):
    return dict(units=units, fields=[_OP] + list(fields))


def _r(n, s, w): return (n, s, w, False, "reg")
def _l(n, s, w): return (n, s, w, True, "lit")
def _o(n, s, w): return (n, s, w, True, "off")
def _i(n, s, w): return (n, s, w, False, "idx")


_A4, _B4, _AA = _r("A", 8, 4), _r("B", 12, 4), _r("AA", 8, 8)
_35 = [("A", 12, 4, False, "count"), _i("BBBB", 16, 16), _r("C", 32, 4), _r("D", 36, 4),
       _r("E", 40, 4), _r("F", 44, 4), _r("G", 8, 4)]
_3R = [("AA", 8, 8, False, "count"), _i("BBBB", 16, 16), _r("CCCC", 32, 16)]
_HH = ("HHHH", 48, 16, False, "idx2")

FORMATS = {
    "10x": _fmt(1, _PAD),                                       # OO|op
    "12x": _fmt(1, _A4, _B4),                                   # B|A|op
    "11n": _fmt(1, _A4, _l("B", 12, 4)),                        # B|A|op        vA, #+B
    "11x": _fmt(1, _AA),                                        # AA|op
    "10t": _fmt(1, _o("AA", 8, 8)),                             # AA|op         +AA
    "20t": _fmt(2, _PAD, _o("AAAA", 16, 16)),                   # OO|op AAAA    +AAAA
    "20bc": _fmt(2, ("AA", 8, 8, False, "lit"), _i("BBBB", 16, 16)),  # AA|op BBBB (no opcode)
    "22x": _fmt(2, _AA, _r("BBBB", 16, 16)),                    # AA|op BBBB    vAA, vBBBB
    "21t": _fmt(2, _AA, _o("BBBB", 16, 16)),                    # vAA, +BBBB
    "21s": _fmt(2, _AA, _l("BBBB", 16, 16)),                    # vAA, #+BBBB
    "21h": _fmt(2, _AA, _l("BBBB", 16, 16)),                    # vAA, #+BBBB0000[00000000]
    "21c": _fmt(2, _AA, _i("BBBB", 16, 16)),                    # vAA, kind@BBBB
    "23x": _fmt(2, _AA, _r("BB", 16, 8), _r("CC", 24, 8)),      # AA|op CC|BB   vAA, vBB, vCC
    "22b": _fmt(2, _AA, _r("BB", 16, 8), _l("CC", 24, 8)),      # vAA, vBB, #+CC
    "22t": _fmt(2, _A4, _B4, _o("CCCC", 16, 16)),               # B|A|op CCCC   vA, vB, +CCCC
    "22s": _fmt(2, _A4, _B4, _l("CCCC", 16, 16)),               # vA, vB, #+CCCC
    "22c": _fmt(2, _A4, _B4, _i("CCCC", 16, 16)),               # vA, vB, kind@CCCC
    "22cs": _fmt(2, _A4, _B4, _i("CCCC", 16, 16)),              # vA, vB, fieldoff@CCCC (no opcode)
    "30t": _fmt(3, _PAD, _o("AAAA", 16, 32)),                   # OO|op AAAAlo AAAAhi
    "32x": _fmt(3, _PAD, _r("AAAA", 16, 16), _r("BBBB", 32, 16)),  # OO|op AAAA BBBB
    "31i": _fmt(3, _AA, _l("BBBB", 16, 32)),                    # AA|op BBBBlo BBBBhi
    "31t": _fmt(3, _AA, _o("BBBB", 16, 32)),
    "31c": _fmt(3, _AA, _i("BBBB", 16, 32)),
    "35c": _fmt(3, *_35),                                       # A|G|op BBBB F|E|D|C
    "35ms": _fmt(3, *_35),                                      # (no opcode)
    "35mi": _fmt(3, *_35),                                      # (no opcode)
    "3rc": _fmt(3, *_3R),                                       # AA|op BBBB CCCC
    "3rms": _fmt(3, *_3R),                                      # (no opcode)
    "3rmi": _fmt(3, *_3R),                                      # (no opcode)
    "45cc": _fmt(4, *_35, _HH),                                 # A|G|op BBBB F|E|D|C HHHH
    "4rcc": _fmt(4, *_3R, _HH),                                 # AA|op BBBB CCCC HHHH
    "51l": _fmt(5, _AA, _l("BBBB", 16, 64)),                    # AA|op BBBBlo BBBB BBBB BBBBhi
}
VAR5 = frozenset(("35c", "35ms", "35mi", "45cc"))    # {vC, vD, vE, vF, vG} with count A
RANGE = frozenset(("3rc", "3rms", "3rmi", "4rcc"))   # {vCCCC .. vNNNN} with count AA

OPCODES = {}


def _run(start, fmt, kind, names):
    for k, name in enumerate(names.split()):
        assert start + k not in OPCODES, hex(start + k)
        OPCODES[start + k] = (name, fmt, kind)


_run(0x00, "10x", None, "nop")
_run(0x01, "12x", None, "move")
_run(0x02, "22x", None, "move/from16")
_run(0x03, "32x", None, "move/16")
_run(0x04, "12x", None, "move-wide")
_run(0x05, "22x", None, "move-wide/from16")
_run(0x06, "32x", None, "move-wide/16")
_run(0x07, "12x", None, "move-object")
_run(0x08, "22x", None, "move-object/from16")
_run(0x09, "32x", None, "move-object/16")
_run(0x0a, "11x", None, "move-result move-result-wide move-result-object move-exception")
_run(0x0e, "10x", None, "return-void")
_run(0x0f, "11x", None, "return return-wide return-object")
_run(0x12, "11n", None, "const/4")
_run(0x13, "21s", None, "const/16")
_run(0x14, "31i", None, "const")
_run(0x15, "21h", None, "const/high16")
_run(0x16, "21s", None, "const-wide/16")
_run(0x17, "31i", None, "const-wide/32")
_run(0x18, "51l", None, "const-wide")
_run(0x19, "21h", None, "const-wide/high16")
_run(0x1a, "21c", "string", "const-string")
_run(0x1b, "31c", "string", "const-string/jumbo")
_run(0x1c, "21c", "type", "const-class")
_run(0x1d, "11x", None, "monitor-enter monitor-exit")
_run(0x1f, "21c", "type", "check-cast")
_run(0x20, "22c", "type", "instance-of")
_run(0x21, "12x", None, "array-length")
_run(0x22, "21c", "type", "new-instance")
_run(0x23, "22c", "type", "new-array")
_run(0x24, "35c", "type", "filled-new-array")
_run(0x25, "3rc", "type", "filled-new-array/range")
_run(0x26, "31t", None, "fill-array-data")
_run(0x27, "11x", None, "throw")
_run(0x28, "10t", None, "goto")
_run(0x29, "20t", None, "goto/16")
_run(0x2a, "30t", None, "goto/32")
_run(0x2b, "31t", None, "packed-switch sparse-switch")
_run(0x2d, "23x", None, "cmpl-float cmpg-float cmpl-double cmpg-double cmp-long")
_run(0x32, "22t", None, "if-eq if-ne if-lt if-ge if-gt if-le")
_run(0x38, "21t", None, "if-eqz if-nez if-ltz if-gez if-gtz if-lez")
_KINDS7 = " -wide -object -boolean -byte -char -short".split(" ")
_run(0x44, "23x", None, " ".join("aget" + s for s in _KINDS7) + " " + " ".join("aput" + s for s in _KINDS7))
_run(0x52, "22c", "field", " ".join("iget" + s for s in _KINDS7) + " " + " ".join("iput" + s for s in _KINDS7))
_run(0x60, "21c", "field", " ".join("sget" + s for s in _KINDS7) + " " + " ".join("sput" + s for s in _KINDS7))
_INVOKE = "invoke-virtual invoke-super invoke-direct invoke-static invoke-interface"
_run(0x6e, "35c", "method", _INVOKE)
_run(0x74, "3rc", "method", " ".join(n + "/range" for n in _INVOKE.split()))
_run(0x7b, "12x", None, "neg-int not-int neg-long not-long neg-float neg-double "
     "int-to-long int-to-float int-to-double long-to-int long-to-float long-to-double "
     "float-to-int float-to-long float-to-double double-to-int double-to-long double-to-float "
     "int-to-byte int-to-char int-to-short")
_INTOPS = "add sub mul div rem and or xor shl shr ushr".split()
_BINOPS = ([o + "-int" for o in _INTOPS] + [o + "-long" for o in _INTOPS]
           + [o + "-float" for o in _INTOPS[:5]] + [o + "-double" for o in _INTOPS[:5]])
_run(0x90, "23x", None, " ".join(_BINOPS))
_run(0xb0, "12x", None, " ".join(o + "/2addr" for o in _BINOPS))
_run(0xd0, "22s", None, "add-int/lit16 rsub-int mul-int/lit16 div-int/lit16 rem-int/lit16 "
     "and-int/lit16 or-int/lit16 xor-int/lit16")
_run(0xd8, "22b", None, "add-int/lit8 rsub-int/lit8 mul-int/lit8 div-int/lit8 rem-int/lit8 "
     "and-int/lit8 or-int/lit8 xor-int/lit8 shl-int/lit8 shr-int/lit8 ushr-int/lit8")
_run(0xfa, "45cc", "method+proto", "invoke-polymorphic")        # DEX 038
_run(0xfb, "4rcc", "method+proto", "invoke-polymorphic/range")  # DEX 038
_run(0xfc, "35c", "call_site", "invoke-custom")                 # DEX 038
_run(0xfd, "3rc", "call_site", "invoke-custom/range")           # DEX 038
_run(0xfe, "21c", "method_handle", "const-method-handle")       # DEX 039
_run(0xff, "21c", "proto", "const-method-type")                 # DEX 039

UNUSED = frozenset(list(range(0x3e, 0x44)) + [0x73, 0x79, 0x7a] + list(range(0xe3, 0xfa)))
assert UNUSED == frozenset(range(256)) - frozenset(OPCODES) and len(OPCODES) == 224
_OPS = sorted(OPCODES)


def decode(buf, fmt=None):
    """Decode the instruction at the start of buf.  `fmt` forces a format (only
    useful for the formats no opcode uses: 20bc 22cs 35ms 35mi 3rms 3rmi)."""
    buf = bytes(buf)
    if not buf:
        return {"status": "short"}
    op = buf[0]
    name, ofmt, kind = OPCODES.get(op, (None, None, None))
    if fmt is None:
        if op not in OPCODES:
            return {"status": "unused", "op": op}
        fmt = ofmt
    F = FORMATS[fmt]
    units = F["units"]
    d = {"status": "ok", "op": op, "name": name, "fmt": fmt, "kind": kind,
         "units": units, "length": 2 * units}
    if len(buf) < 2 * units:
        d["status"] = "short"
        return d
    n = int.from_bytes(buf[:2 * units], "little")
    v, by = {}, {}
    for nm, s, w, sg, role in F["fields"]:
        x = (n >> s) & ((1 << w) - 1)
        if sg and x >> (w - 1):
            x -= 1 << w
        v[nm] = x
        by.setdefault(role, []).append(x)
    first = lambda role: by[role][0] if role in by else None
    regs, count, lit = by.get("reg", []), first("count"), first("lit")
    if fmt in VAR5:
        regs = regs[:count]                     # first A of [C, D, E, F, G]
        if count > 5:
            d["status"] = "undefined"
    elif fmt in RANGE:
        regs = list(range(v["CCCC"], v["CCCC"] + count))   # may exceed 0xffff: not wrapped
    if fmt == "21h":
        lit *= 1 << (48 if op == 0x19 else 16)
    if fmt == "20bc":
        d["aa"], lit = v["AA"], None
    if any(by.get("pad", [])):
        d["status"] = "badpad"
    d.update(regs=regs, lit=lit, off=first("off"), idx=first("idx"), idx2=first("idx2"),
             count=count, raw=buf[:2 * units], fields=v)
    return d


def encode(op, fmt=None, **fields):
    """Build an instruction from field values by FORMATS name; missing fields are 0."""
    if fmt is None:
        if op not in OPCODES:
            raise ValueError("unused opcode 0x%02x" % op)
        fmt = OPCODES[op][1]
    F = FORMATS[fmt]
    fields = dict(fields, op=op)
    unknown = set(fields) - {f[0] for f in F["fields"]}
    if unknown:
        raise ValueError("format %s has no field %s" % (fmt, sorted(unknown)))
    n = 0
    for nm, s, w, sg, role in F["fields"]:
        x = fields.get(nm, 0)
        lo, hi = (-(1 << (w - 1)), (1 << (w - 1)) - 1) if sg else (0, (1 << w) - 1)
        if not isinstance(x, int) or not lo <= x <= hi:
            raise ValueError("%s.%s=%r not in [%d, %d]" % (fmt, nm, x, lo, hi))
        n |= (x & ((1 << w) - 1)) << s
    return n.to_bytes(2 * F["units"], "little")


def _bvals(w):
    m, s = (1 << w) - 1, 1 << (w - 1)
    return (0, 1, m, m - 1, s, s | 1, s - 1)   # as raw bit patterns


def random_insn(rng, op=None, boundary=False):
    """Random VALID instruction (defined opcode, zero pad, A <= 5)."""
    if op is None:
        op = rng.choice(_OPS)
    fmt, vals = OPCODES[op][1], {}
    for nm, s, w, sg, role in FORMATS[fmt]["fields"]:
        if role in ("op", "pad"):
            continue
        if role == "count" and fmt in VAR5:
            x = rng.choice((0, 1, 4, 5)) if boundary else rng.randint(0, 5)
        else:
            x = rng.choice(_bvals(w)) if boundary else rng.getrandbits(w)
        vals[nm] = x - (1 << w) if sg and x >> (w - 1) else x
    return encode(op, **vals)


# ---------------------------------------------------------------- payloads
IDENTS = {0x0100: "packed", 0x0200: "sparse", 0x0300: "fill"}


def payload_decode(buf):
    buf = bytes(buf)
    if len(buf) < 2:
        return {"status": "short"}
    kind = IDENTS.get(buf[0] | buf[1] << 8)
    if kind is None:
        return {"status": "notpayload"}
    d = {"status": "short", "kind": kind}
    if len(buf) < (8 if kind == "fill" else 4):
        return d
    size = buf[2] | buf[3] << 8
    ints = lambda off, k: list(struct.unpack_from("<%di" % k, buf, off))
    if kind == "packed":
        d["length"] = (size * 2 + 4) * 2
    elif kind == "sparse":
        d["length"] = (size * 4 + 2) * 2
    else:
        width, size = size, struct.unpack_from("<I", buf, 4)[0]
        d["length"] = ((size * width + 1) // 2 + 4) * 2
        d["element_width"] = width
    d["size"] = size
    if len(buf) < d["length"]:
        return d
    if kind == "packed":
        d["first_key"], d["targets"] = ints(4, 1)[0], ints(8, size)
    elif kind == "sparse":
        d["keys"], d["targets"] = ints(4, size), ints(4 + 4 * size, size)
        d["keys_sorted"] = all(a < b for a, b in zip(d["keys"], d["keys"][1:]))  # spec: low-to-high
    else:
        d["data"] = buf[8:8 + size * width]
        d["padbyte"] = buf[8 + size * width] if (size * width) & 1 else None
    d["status"], d["raw"] = "ok", buf[:d["length"]]
    return d


def payload_encode(kind, first_key=0, targets=(), keys=(), element_width=1, data=b"", size=None):
    """packed: first_key, targets; sparse: keys, targets; fill: element_width, data[, size]."""
    try:
        if kind == "packed":
            return struct.pack("<HHi%di" % len(targets), 0x0100, len(targets), first_key, *targets)
        if kind == "sparse":
            if len(keys) != len(targets):
                raise ValueError("keys/targets length mismatch")
            return struct.pack("<HH%di" % (2 * len(keys)), 0x0200, len(keys), *keys, *targets)
        if kind == "fill":
            data = bytes(data)
            if size is None:
                size = len(data) // element_width if element_width else 0
            if size * element_width != len(data):
                raise ValueError("len(data) != size * element_width")
            return struct.pack("<HHI", 0x0300, element_width, size) + data + b"\0" * (len(data) & 1)
    except struct.error as e:
        raise ValueError(str(e))
    raise ValueError("unknown payload kind %r" % (kind,))


def random_payload(rng, max_size=6, kind=None):
    kind = kind or rng.choice(("packed", "sparse", "fill"))
    size = rng.randint(0, max_size)
    i32 = lambda: rng.choice((0, 1, -1, 2**31 - 1, -2**31, rng.randint(-2**31, 2**31 - 1)))
    if kind == "packed":
        return payload_encode(kind, first_key=i32(), targets=[i32() for _ in range(size)])
    if kind == "sparse":
        keys = sorted(rng.sample(range(-2**31, 2**31), size))
        return payload_encode(kind, keys=keys, targets=[i32() for _ in range(size)])
    width = rng.choice((1, 2, 4, 8))
    return payload_encode(kind, element_width=width, data=bytes(rng.getrandbits(8) for _ in range(size * width)))


# ---------------------------------------------------------------- sweep / programs
def sweep(buf):
    """Reference linear sweep.  -> (items, status); items = [(byte_offset, decoded dict)],
    status = "done" | "odd" | ("invalid", byte_offset, reason)."""
    buf = bytes(buf)
    if len(buf) & 1:
        return [], "odd"
    items, o = [], 0
    while o < len(buf):
        if (buf[o] | buf[o + 1] << 8) in IDENTS:
            d = payload_decode(buf[o:])
            d["aligned"] = o % 4 == 0       # the spec requires it; the sweep only records it
        else:
            d = decode(buf[o:])
        if d["status"] != "ok":
            return items, ("invalid", o, d["status"])
        items.append((o, d))
        o += d["length"]
    return items, "done"


def random_program(rng, n_items, with_payloads=True):
    """n_items random valid items (+ the nops used to (mis)align payloads).
    -> (code bytes, [(byte_offset, raw bytes of the item)])."""
    out, items = bytearray(), []

    def put(b):
        items.append((len(out), bytes(b)))
        out.extend(b)
    for _ in range(n_items):
        if with_payloads and rng.random() < 0.2:
            want_aligned = rng.random() < 0.5
            if (len(out) % 4 == 0) != want_aligned:
                put(b"\x00\x00")
            put(random_payload(rng))
        else:
            put(random_insn(rng, boundary=rng.random() < 0.3))
    return bytes(out), items


# ---------------------------------------------------------------- self-test
def _selftest():
    rng = random.Random(20260921)
    assert len(FORMATS) == 32 and {f for _, f, _ in OPCODES.values()} == set(FORMATS) - {
        "20bc", "22cs", "35ms", "35mi", "3rms", "3rmi"}
    for fid, F in FORMATS.items():          # the fields tile the instruction exactly
        bits = sorted(b for _, s, w, _, _ in F["fields"] for b in range(s, s + w))
        assert bits == list(range(16 * F["units"])) and F["units"] == int(fid[0]), fid
    known = [   # hand-assembled vectors: (hex, name, regs, lit, off, idx, idx2)
        ("12f0", "const/4", [0], -1, None, None, None),
        ("1203", "const/4", [3], 0, None, None, None),
        ("13000080", "const/16", [0], -32768, None, None, None),
        ("1501ff7f", "const/high16", [1], 0x7fff0000, None, None, None),
        ("15010080", "const/high16", [1], -0x80000000, None, None, None),
        ("19010040", "const-wide/high16", [1], 0x4000 << 48, None, None, None),
        ("1402ffffffff", "const", [2], -1, None, None, None),
        ("180500000000000000" + "80", "const-wide", [5], -2**63, None, None, None),
        ("1bfffeffffff", "const-string/jumbo", [255], None, None, 0xfffffffe, None),
        ("0121", "move", [1, 2], None, None, None, None),
        ("02103412", "move/from16", [0x10, 0x1234], None, None, None, None),
        ("030034127856", "move/16", [0x1234, 0x5678], None, None, None, None),
        ("28fd", "goto", [], None, -3, None, None),
        ("2900f6ff", "goto/16", [], None, -10, None, None),
        ("2a0000000080", "goto/32", [], None, -2**31, None, None),
        ("32210500", "if-eq", [1, 2], None, 5, None, None),
        ("3907feff", "if-nez", [7], None, -2, None, None),
        ("2b0310000000", "packed-switch", [3], None, 16, None, None),
        ("90000102", "add-int", [0, 1, 2], None, None, None, None),
        ("d80001ff", "add-int/lit8", [0, 1], -1, None, None, None),
        ("d1210080", "rsub-int", [1, 2], -32768, None, None, None),
        ("52100700", "iget", [0, 1], None, None, 7, None),
        ("6e2034121000", "invoke-virtual", [0, 1], None, None, 0x1234, None),
        ("715934125476", "invoke-static", [4, 5, 6, 7, 9], None, None, 0x1234, None),
        ("7000ffff0000", "invoke-direct", [], None, None, 0xffff, None),
        ("770305000a00", "invoke-static/range", [10, 11, 12], None, None, 5, None),
        ("fa20030021000700", "invoke-polymorphic", [1, 2], None, None, 3, 7),
        ("fb0203000a000700", "invoke-polymorphic/range", [10, 11], None, None, 3, 7),
        ("fc1001000200", "invoke-custom", [2], None, None, 1, None),
        ("fe050100", "const-method-handle", [5], None, None, 1, None),
        ("ffff0200", "const-method-type", [255], None, None, 2, None),
    ]
    for hx, name, regs, lit, off, idx, idx2 in known:
        d = decode(bytes.fromhex(hx))
        assert d["status"] == "ok" and d["length"] == len(hx) // 2, hx
        assert (d["name"], d["regs"], d["lit"], d["off"], d["idx"], d["idx2"]) == (
            name, regs, lit, off, idx, idx2), (hx, d)
    assert decode(b"")["status"] == "short" and decode(b"\x14\x00\x00\x00")["status"] == "short"
    assert decode(b"\x3e\x00")["status"] == "unused" and decode(b"\x00\x01")["status"] == "badpad"
    assert decode(bytes.fromhex("6e6000000000"))["status"] == "undefined"
    assert decode(bytes.fromhex("030100000000"))["status"] == "badpad"
    d = decode(bytes.fromhex("ed073412"), fmt="20bc")
    assert (d["status"], d["aa"], d["idx"], d["lit"], d["regs"]) == ("ok", 7, 0x1234, None, [])
    assert encode(0xed, fmt="20bc", AA=7, BBBB=0x1234) == bytes.fromhex("ed073412")
    for bad in (dict(op=0x12, A=16), dict(op=0x12, B=8), dict(op=0x12, B=-9), dict(op=0x3e),
                dict(op=0x13, BBBB=0x8000), dict(op=0x1a, BBBB=-1), dict(op=0x00, AA=1)):
        try:
            encode(**bad)
        except ValueError:
            continue
        raise AssertionError(bad)
    for op in _OPS:
        name, fmt, kind = OPCODES[op]
        for k in range(2000):
            b = random_insn(rng, op, boundary=k & 1)
            tail = bytes(rng.getrandbits(8) for _ in range(rng.randint(0, 3)))
            d = decode(b + tail)
            assert d["status"] == "ok" and d["op"] == op and d["fmt"] == fmt, (op, b.hex())
            assert d["length"] == 2 * FORMATS[fmt]["units"] == len(b) and d["raw"] == b
            f = dict(d["fields"])
            assert encode(f.pop("op"), **f) == b
            assert decode(b[:-1])["status"] == "short"
            if fmt in VAR5 | RANGE:
                assert len(d["regs"]) == d["count"]
    for kind in ("packed", "sparse", "fill"):
        for _ in range(2000):
            b = random_payload(rng, kind=kind)
            d = payload_decode(b + b"\xaa\xbb")
            assert d["status"] == "ok" and d["kind"] == kind and d["raw"] == b and len(b) % 2 == 0
            c = {k: d[k] for k in ("first_key", "targets", "keys", "element_width", "data") if k in d}
            assert payload_encode(kind, **c) == b
            assert payload_decode(b[:-1])["status"] == "short"
    assert payload_decode(b"\x00\x04")["status"] == "notpayload"
    assert payload_encode("fill", element_width=1, data=b"abc") == bytes.fromhex("0003010003000000") + b"abc\0"
    assert payload_encode("packed", first_key=-1, targets=[2]) == bytes.fromhex("00010100ffffffff02000000")
    assert payload_encode("sparse", keys=[1], targets=[-2]) == bytes.fromhex("0002010001000000feffffff")
    assert sweep(b"\x00\x05")[1] == ("invalid", 0, "badpad") and sweep(b"\xff\x05\x01\x00")[1] == "done"
    assert sweep(b"\x00")[1] == "odd" and sweep(b"")== ([], "done")
    assert sweep(b"\x00\x00\x14\x00")[1] == ("invalid", 2, "short")
    assert sweep(b"\x0e\x00\x00\x01\x01\x00")[1] == ("invalid", 2, "short")
    aligned = set()
    for _ in range(300):
        code, items = random_program(rng, rng.randint(0, 40))
        got, st = sweep(code)
        assert st == "done" and [(o, d["raw"]) for o, d in got] == items
        aligned |= {d["aligned"] for _, d in got if "aligned" in d}
    assert aligned == {True, False}
    print("ok")


if __name__ == "__main__":
    _selftest()
