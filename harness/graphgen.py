"""Graph families for the decompiler-graph properties (C18 dominators, C19 RPO; reusable by C20).

Import-safe: importing this module imports nothing from androguard; `build_real` does so lazily.

A graph is a tuple  G = (n, entry, edges, catch)  with nodes 0..n-1 (= position in Graph.nodes),
`edges[u]` / `catch[u]` the successor lists of u *in insertion order* (the order drives every DFS).
`all_sucs(G, u)` = edges[u] + catch[u], as `Graph.all_sucs` does.
"""
from __future__ import annotations

import random


# ------------------------------------------------------------------ basics
def all_sucs(G, u):
    return G[2][u] + G[3][u]


def encode(G) -> str:
    """protocol fields `<n> <entry> e=<adj> c=<adj>` (see lean/Driver/GraphProto.lean)"""
    n, entry, edges, catch = G
    return "%d %d e=%s c=%s" % (n, entry, ";".join(",".join(map(str, l)) for l in edges),
                                ";".join(",".join(map(str, l)) for l in catch))


def decode(s: str):
    n, entry, e, c = s.split(" ")
    par = lambda t: [[int(x) for x in grp.split(",")] if grp else [] for grp in t[2:].split(";")]
    return (int(n), int(entry), par(e), par(c))


def from_mask(n: int, mask: int, entry: int = 0):
    """digraph on n labelled nodes from an n*n-bit adjacency mask (bit u*n+v = edge u->v), successors ascending"""
    edges = [[v for v in range(n) if mask >> (u * n + v) & 1] for u in range(n)]
    return (n, entry, edges, [[] for _ in range(n)])


def all_digraphs(n: int, lo: int = 0, hi: int | None = None):
    """all 2^(n*n) digraphs on n labelled nodes (self loops included), entry 0; masks lo..hi-1"""
    hi = (1 << (n * n)) if hi is None else hi
    for mask in range(lo, hi):
        yield from_mask(n, mask)


def reachable(G, avoid=None):
    n, entry = G[0], G[1]
    if entry == avoid:
        return set()
    seen, todo = {entry}, [entry]
    while todo:
        u = todo.pop()
        for v in all_sucs(G, u):
            if v != avoid and v not in seen:
                seen.add(v)
                todo.append(v)
    return seen


def is_rooted(G) -> bool:
    return len(reachable(G)) == G[0]


# ------------------------------------------------------------------ real objects
def build_real(G):
    """the real androguard `Graph` with real `Node` objects (stub subclass: a name, a catch type).
    returns (graph, nodes) with nodes[i] the Node at position i of graph.nodes"""
    from androguard.decompiler import graph as ag_graph
    from androguard.decompiler import node as ag_node

    class StubNode(ag_node.Node):
        def __init__(self, name):
            super().__init__(name)
            self.catch_type = None

        def set_catch_type(self, t):
            self.catch_type = t

        def __str__(self):
            return "%s(%d)" % (self.name, self.num)

    n, entry, edges, catch = G
    g = ag_graph.Graph()
    nodes = [StubNode("n%d" % i) for i in range(n)]
    for x in nodes:
        g.add_node(x)
    for u in range(n):
        for v in edges[u]:
            g.add_edge(nodes[u], nodes[v])
        for v in catch[u]:
            g.add_catch_edge(nodes[u], nodes[v])
    g.entry = nodes[entry]
    return g, nodes


def normalise(G):
    """what add_edge/add_catch_edge keep: duplicates inside one list are dropped (first occurrence stays)"""
    n, entry, edges, catch = G
    ded = lambda l: list(dict.fromkeys(l))
    return (n, entry, [ded(l) for l in edges], [ded(l) for l in catch])


# ------------------------------------------------------------------ random families
def _empty(n):
    return [[] for _ in range(n)], [[] for _ in range(n)]


def _finish(rng, n, entry, pairs, catch_share=0.0, shuffle=True):
    edges, catch = _empty(n)
    if shuffle:
        rng.shuffle(pairs)
    for u, v in pairs:
        (catch if rng.random() < catch_share else edges)[u].append(v)
    return normalise((n, entry, edges, catch))


def fam_gnp(rng, n, p=None, **kw):
    """Erdos-Renyi digraph with self loops; usually has unreachable nodes"""
    p = p if p is not None else rng.choice((0.5, 1.0, 1.5, 2.5, 4.0)) / max(n, 1)
    pairs = [(u, v) for u in range(n) for v in range(n) if rng.random() < p]
    return _finish(rng, n, rng.randrange(n), pairs, **kw)


def fam_rooted(rng, n, extra=None, **kw):
    """random spanning arborescence from the entry (so every node is reachable) + extra random edges
    (forward, cross, back, self loops: irreducible with high probability)"""
    order = list(range(n))
    rng.shuffle(order)
    pairs = [(order[rng.randrange(i)], order[i]) for i in range(1, n)]
    extra = extra if extra is not None else rng.choice((0, n // 4, n // 2, n, 2 * n))
    pairs += [(rng.randrange(n), rng.randrange(n)) for _ in range(extra)]
    return _finish(rng, n, order[0], pairs, **kw)


def fam_structured(rng, n, **kw):
    """reducible CFG-like: a chain with if-diamonds, while/do-while back edges and breaks; rooted"""
    pairs = []
    i = 0
    while i < n - 1:
        k = rng.choice(("seq", "if", "ifelse", "loop", "self"))
        if k == "seq" or i + 3 >= n:
            pairs.append((i, i + 1)); i += 1
        elif k == "if":
            pairs += [(i, i + 1), (i, i + 2), (i + 1, i + 2)]; i += 2
        elif k == "ifelse":
            pairs += [(i, i + 1), (i, i + 2), (i + 1, i + 3), (i + 2, i + 3)]; i += 3
        elif k == "loop":
            m = min(n - 1, i + rng.randrange(1, 5))
            pairs += [(j, j + 1) for j in range(i, m)]
            pairs.append((m, i))
            if m + 1 < n and rng.random() < 0.5:
                pairs.append((rng.randrange(i, m + 1), m + 1))
            i = m
        else:
            pairs += [(i, i), (i, i + 1)]; i += 1
    return _finish(rng, n, 0, pairs, shuffle=rng.random() < 0.5, **kw)


def fam_irreducible(rng, n, **kw):
    """structured skeleton + jumps into the middle of loops (multiple-entry loops) + unreachable tail"""
    G = fam_structured(rng, n)
    pairs = [(u, v) for u in range(n) for v in G[2][u]]
    for _ in range(max(1, n // 5)):
        a, b = sorted((rng.randrange(n), rng.randrange(n)))
        pairs += [(a, b), (b, a)]
        if a > 0:
            pairs.append((rng.randrange(a), rng.randrange(a, b + 1)))
    return _finish(rng, n, 0, pairs, **kw)


def fam_chain_ladder(rng, n, **kw):
    """long chain with dense back/forward rungs (deep recursion, long ancestor chains for path compression)"""
    pairs = [(i, i + 1) for i in range(n - 1)]
    for _ in range(n):
        a, b = rng.randrange(n), rng.randrange(n)
        pairs.append((a, b))
    return _finish(rng, n, 0, pairs, shuffle=rng.random() < 0.7, **kw)


def fam_tarjan_like(rng, n, **kw):
    """several parallel chains from the root joined by cross edges at random depths (the shape of the
    Lengauer-Tarjan paper's example: semidominator != immediate dominator occurs often)"""
    k = rng.randrange(2, 5)
    chains = [[] for _ in range(k)]
    for v in range(1, n):
        chains[rng.randrange(k)].append(v)
    pairs = []
    for ch in chains:
        prev = 0
        for v in ch:
            pairs.append((prev, v)); prev = v
    for _ in range(max(2, n // 2)):
        a, b = rng.randrange(1, max(2, n)), rng.randrange(1, max(2, n))
        if a < n and b < n:
            pairs.append((a, b))
    return _finish(rng, n, 0, pairs, **kw)


FAMILIES = {
    "gnp": fam_gnp, "arbor": fam_rooted, "structured": fam_structured, "irreducible": fam_irreducible,
    "ladder": fam_chain_ladder, "tarjan": fam_tarjan_like,
}


def random_graph(rng: random.Random, max_n: int = 300):
    """one random graph; returns (family name, G).  Sizes are skewed to small graphs, with a tail to max_n."""
    name = rng.choice(sorted(FAMILIES))
    r = rng.random()
    n = rng.randrange(1, 9) if r < 0.3 else rng.randrange(9, 41) if r < 0.75 else rng.randrange(41, max(42, max_n + 1))
    n = min(n, max_n)
    catch_share = rng.choice((0.0, 0.0, 0.15, 0.4))
    G = FAMILIES[name](rng, n, catch_share=catch_share)
    if rng.random() < 0.15 and n > 1:
        # add nodes that nothing reaches (and that may point back into the graph)
        k = rng.randrange(1, 4)
        n2 = n + k
        edges = [list(l) for l in G[2]] + [[rng.randrange(n2)] for _ in range(k)]
        catch = [list(l) for l in G[3]] + [[] for _ in range(k)]
        G = normalise((n2, G[1], edges, catch))
        name += "+unreach"
    return name, G


def features(G) -> dict:
    """cheap classification used for the evidence distribution"""
    n = G[0]
    m = sum(len(all_sucs(G, u)) for u in range(n))
    return {
        "rooted": is_rooted(G),
        "self_loop": any(u in all_sucs(G, u) for u in range(n)),
        "catch": any(G[3][u] for u in range(n)),
        "dup_suc": any(len(set(all_sucs(G, u))) != len(all_sucs(G, u)) for u in range(n)),
        "n": n, "m": m,
    }


# ------------------------------------------------------------------ large graphs (size cliffs)
# Deterministic families of graphs with thousands of nodes.  Every family is rooted, has edges INTO the entry
# (normal and/or catch: "the method starts with a loop header / the first block is inside a try"), and has a
# bounded DFS depth so that the recursive code of androguard stays below the recursion limit it sets
# (androguard/decompiler/__init__.py: sys.setrecursionlimit(5000)).  A graph is named by (family, n, seed).
def _kary_parent(i, k=3):
    return (i - 1) // k


def _shuffle_adj(rng, n, pairs, catch_pairs=()):
    edges, catch = _empty(n)
    rng.shuffle(pairs)
    for u, v in pairs:
        edges[u].append(v)
    for u, v in catch_pairs:
        catch[u].append(v)
    return normalise((n, 0, edges, catch))


def big_chain_loop(rng, n):
    """one chain 0->1->...->n-1 (DFS depth n), last node and ~n/100 others jump back to the entry / earlier nodes"""
    pairs = [(i, i + 1) for i in range(n - 1)] + [(n - 1, 0)]
    for _ in range(max(3, n // 100)):
        pairs.append((rng.randrange(1, n), 0))
        a = rng.randrange(1, n)
        pairs.append((a, rng.randrange(a + 1)))
    return _shuffle_adj(rng, n, pairs)


def big_tree_back_entry(rng, n):
    """ternary tree (depth ~ log3 n); 200 nodes jump back to the entry, 300 random cross/back/forward edges"""
    pairs = [(_kary_parent(i), i) for i in range(1, n)]
    pairs += [(rng.randrange(1, n), 0) for _ in range(200)]
    pairs += [(rng.randrange(n), rng.randrange(n)) for _ in range(300)]
    return _shuffle_adj(rng, n, pairs)


def big_comb_loop_entry(rng, n):
    """the entry is a loop header with ~n/40 bodies: 0 -> head_k, each body a chain of 40 with a diamond, body end -> 0"""
    L = 40
    pairs = []
    for h in range(1, n, L):
        end = min(n, h + L) - 1
        pairs.append((0, h))
        pairs += [(i, i + 1) for i in range(h, end)]
        if end - h >= 3:
            pairs.append((h, h + 2))
        pairs.append((end, 0))
    return _shuffle_adj(rng, n, pairs)


def big_catch_into_entry(rng, n):
    """chain of depth min(n, 1500) with ternary bushes hanging off it; every 7th node has a catch edge to the entry
    and to a common handler (the last node): the first block lies inside the try range"""
    D = min(n - 1, 1500)
    pairs = [(i, i + 1) for i in range(D - 1)]
    for i in range(D, n - 1):
        j = i - D
        pairs.append((rng.randrange(D) if j < 200 else D + (j - 200) // 3, i))
    pairs.append((D - 1, n - 1))
    catch_pairs = []
    for i in range(1, n - 1, 7):
        catch_pairs += [(i, 0), (i, n - 1)]
    return _shuffle_adj(rng, n, pairs, catch_pairs)


def big_dense_tail(rng, n):
    """ternary tree on the first n-60 nodes; the last 60 nodes form a dense random subgraph (p = 0.5, self loops)
    entered from a leaf, whose nodes also jump back to the entry"""
    t = n - 60
    pairs = [(_kary_parent(i), i) for i in range(1, t)]
    pairs.append((t - 1, t))
    pairs += [(t + i, t + i + 1) for i in range(59)]
    for a in range(t, n):
        for b in range(t, n):
            if rng.random() < 0.5:
                pairs.append((a, b))
        if rng.random() < 0.3:
            pairs.append((a, 0))
    return _shuffle_adj(rng, n, pairs)


def big_deep_bushy(rng, n):
    """spine of depth min(n, 2000) with small bushes on random spine nodes; spine end and 50 bush nodes jump to the
    entry, 100 random back edges along the spine (long ancestor chains for path compression)"""
    D = min(n, 2000)
    pairs = [(i, i + 1) for i in range(D - 1)] + [(D - 1, 0)]
    for i in range(D, n):
        pairs.append((rng.randrange(D) if (i - D) % 4 == 0 else i - 1, i))
    pairs += [(rng.randrange(1, n), 0) for _ in range(50)]
    for _ in range(100):
        a = rng.randrange(1, D)
        pairs.append((a, rng.randrange(a)))
    return _shuffle_adj(rng, n, pairs)


LARGE_FAMILIES = {
    "chain_loop": big_chain_loop, "tree_back_entry": big_tree_back_entry, "comb_loop_entry": big_comb_loop_entry,
    "catch_into_entry": big_catch_into_entry, "dense_tail": big_dense_tail, "deep_bushy": big_deep_bushy,
}


def large_graph(family: str, n: int, seed):
    """the graph named (family, n, seed); deterministic"""
    return LARGE_FAMILIES[family](random.Random("large/%s/%d/%s" % (family, n, seed)), n)


def dfs_depth(G) -> int:
    """maximal stack depth of the DFS from the entry in all_sucs order (= recursion depth of the recursive code)"""
    entry = G[1]
    seen = {entry}
    stack = [(entry, iter(all_sucs(G, entry)))]
    best = 1
    while stack:
        u, it = stack[-1]
        for v in it:
            if v not in seen:
                seen.add(v)
                stack.append((v, iter(all_sucs(G, v))))
                if len(stack) > best:
                    best = len(stack)
                break
        else:
            stack.pop()
    return best
