"""
Independent writer for Android binary XML (AXML, `ResXMLTree`), written from the format definition in
frameworks/base/libs/androidfw/include/androidfw/ResourceTypes.h.  It shares no code with androguard.

Abstract document type
----------------------
    Element(tag, ns=None, attrs=[...], children=[...], nsdecls=[(prefix, uri), ...], line=1, comment=None)
    Text(text)                                   # a CDATA chunk; may appear anywhere in `children`
    Attr(ns, name, value, res_id=None, raw=None) # ns: namespace URI or None
    value = Val(type, data)                      # a Res_value: type is one of the TYPE_* below,
                                                 # data is a 32-bit unsigned int, or a `str` for TYPE_STRING
    helpers: S("text") string value, I(5) decimal int, B(True) boolean, Ref(0x7f010001), Hex(0x10) ...

`raw` is the attribute's raw-string field (`ResXMLTree_attribute.rawValue`): None -> 0xFFFFFFFF, except for
TYPE_STRING values where it defaults to the string itself (what aapt emits).  `res_id` is the attribute's
resource id; attributes that have one get a slot in the resource map (their name strings come first in the pool).

API
---
    encode_axml(root, utf8=False, wide_lengths=False, ...) -> bytes
    encode_axml_ex(...) -> (bytes, info)   info = {"strings": [...], "resource_map": [...], "chunks": [(type, offset, size)]}

File layout produced
--------------------
    ResXMLTree_header   type=0x0003 headerSize=8   size=<file size>
    ResStringPool       type=0x0001 headerSize=28  size, stringCount, styleCount=0, flags(UTF8=0x100), stringsStart, stylesStart=0
                        uint32 offsets[stringCount]; string data; zero padding to a multiple of 4
        UTF-8  string:  len16 (utf-16 units: 1 byte, or 2 bytes `0x80|hi, lo` when > 0x7f), len8 (bytes, same scheme), bytes, 0x00
        UTF-16 string:  len (units: 1 uint16, or 2 uint16 `0x8000|hi, lo` when > 0x7fff), units little endian, 0x0000
        `wide_lengths=True` uses the two-unit form of the length prefix for every string (legal: high part zero).
    ResXMLTree resource map   type=0x0180 headerSize=8 size, uint32 ids[]          (omitted when no attribute has a res_id)
    nodes, each   type, headerSize=16, size, lineNumber, comment(string index or 0xFFFFFFFF), then
        0x0100 START_NAMESPACE  prefix, uri
        0x0102 START_ELEMENT    ns, name, attributeStart=0x14, attributeSize=0x14, attributeCount, idIndex, classIndex, styleIndex,
                                then per attribute: ns, name, rawValue, Res_value{size=8,res0=0,dataType,data}
                                (per element: Element.attr_size > 20 pads every attribute, Element.attr_start > 20 leaves a gap
                                before the attribute array, Element.id_index/class_index/style_index fill the three indices)
        0x0104 CDATA            data(string index), Res_value{8,0,0,0}
        0x0103 END_ELEMENT      ns, name
        0x0101 END_NAMESPACE    prefix, uri
    Namespace declarations of an element are opened before its START_ELEMENT and closed (reverse order) after its END_ELEMENT.
"""
from __future__ import annotations

import struct
from dataclasses import dataclass, field
from typing import List, Optional, Tuple, Union

# Res_value data types
TYPE_NULL = 0x00
TYPE_REFERENCE = 0x01
TYPE_ATTRIBUTE = 0x02
TYPE_STRING = 0x03
TYPE_FLOAT = 0x04
TYPE_DIMENSION = 0x05
TYPE_FRACTION = 0x06
TYPE_DYNAMIC_REFERENCE = 0x07
TYPE_DYNAMIC_ATTRIBUTE = 0x08
TYPE_INT_DEC = 0x10
TYPE_INT_HEX = 0x11
TYPE_INT_BOOLEAN = 0x12
TYPE_INT_COLOR_ARGB8 = 0x1C
TYPE_INT_COLOR_RGB8 = 0x1D
TYPE_INT_COLOR_ARGB4 = 0x1E
TYPE_INT_COLOR_RGB4 = 0x1F
ALL_TYPES = [TYPE_NULL, TYPE_REFERENCE, TYPE_ATTRIBUTE, TYPE_STRING, TYPE_FLOAT, TYPE_DIMENSION, TYPE_FRACTION,
             TYPE_DYNAMIC_REFERENCE, TYPE_DYNAMIC_ATTRIBUTE, TYPE_INT_DEC, TYPE_INT_HEX, TYPE_INT_BOOLEAN,
             TYPE_INT_COLOR_ARGB8, TYPE_INT_COLOR_RGB8, TYPE_INT_COLOR_ARGB4, TYPE_INT_COLOR_RGB4]

RES_STRING_POOL_TYPE = 0x0001
RES_XML_TYPE = 0x0003
RES_XML_START_NAMESPACE_TYPE = 0x0100
RES_XML_END_NAMESPACE_TYPE = 0x0101
RES_XML_START_ELEMENT_TYPE = 0x0102
RES_XML_END_ELEMENT_TYPE = 0x0103
RES_XML_CDATA_TYPE = 0x0104
RES_XML_RESOURCE_MAP_TYPE = 0x0180
NO_ENTRY = 0xFFFFFFFF
UTF8_FLAG = 0x100

NS_ANDROID = "http://schemas.android.com/apk/res/android"


@dataclass(frozen=True)
class Val:
    type: int
    data: Union[int, str]


def S(s: str) -> Val: return Val(TYPE_STRING, s)
def I(n: int) -> Val: return Val(TYPE_INT_DEC, n & 0xFFFFFFFF)
def Hex(n: int) -> Val: return Val(TYPE_INT_HEX, n & 0xFFFFFFFF)
def B(b: bool) -> Val: return Val(TYPE_INT_BOOLEAN, 0xFFFFFFFF if b else 0)
def Ref(n: int) -> Val: return Val(TYPE_REFERENCE, n & 0xFFFFFFFF)


@dataclass
class Attr:
    ns: Optional[str]
    name: str
    value: Val
    res_id: Optional[int] = None
    raw: Optional[str] = None


@dataclass
class Text:
    text: str


@dataclass
class Element:
    tag: str
    ns: Optional[str] = None
    attrs: List[Attr] = field(default_factory=list)
    children: List[Union["Element", Text]] = field(default_factory=list)
    nsdecls: List[Tuple[str, str]] = field(default_factory=list)
    line: int = 1
    comment: Optional[str] = None
    # layout of this element's ResXMLTree_attrExt (aapt writes 20 / 20 / 0 / 0 / 0)
    attr_size: int = 20        # attributeSize: bytes per attribute (>= 20; the rest is padding after each attribute)
    attr_start: int = 20       # attributeStart: offset of the attribute array from the start of attrExt (>= 20: gap before it)
    id_index: int = 0          # idIndex / classIndex / styleIndex: 1-based index of the id / class / style attribute, 0 = none
    class_index: int = 0
    style_index: int = 0


# ----------------------------------------------------------------------------- string pool
def utf16_units(s: str) -> List[int]:
    out = []
    for ch in s:
        c = ord(ch)
        if c >= 0x10000:
            c -= 0x10000
            out += [0xD800 | (c >> 10), 0xDC00 | (c & 0x3FF)]
        else:
            out.append(c)
    return out


def utf8_bytes(s: str) -> bytes:
    out = bytearray()
    for ch in s:
        c = ord(ch)
        if c < 0x80:
            out.append(c)
        elif c < 0x800:
            out += bytes([0xC0 | c >> 6, 0x80 | c & 0x3F])
        elif c < 0x10000:
            out += bytes([0xE0 | c >> 12, 0x80 | (c >> 6) & 0x3F, 0x80 | c & 0x3F])
        else:
            out += bytes([0xF0 | c >> 18, 0x80 | (c >> 12) & 0x3F, 0x80 | (c >> 6) & 0x3F, 0x80 | c & 0x3F])
    return bytes(out)


def _len8(n: int, wide: bool) -> bytes:
    if n > 0x7FFF:
        raise ValueError("UTF-8 pool string too long: %d" % n)
    if n > 0x7F or wide:
        return bytes([0x80 | (n >> 8), n & 0xFF])
    return bytes([n])


def _len16(n: int, wide: bool) -> bytes:
    if n > 0x7FFFFFFF:
        raise ValueError("UTF-16 pool string too long")
    if n > 0x7FFF or wide:
        return struct.pack("<HH", 0x8000 | (n >> 16), n & 0xFFFF)
    return struct.pack("<H", n)


def encode_pool_string(s: str, utf8: bool, wide: bool = False) -> bytes:
    """one string of the pool's data section, with its length prefix and terminator"""
    if utf8:
        b = utf8_bytes(s)
        return _len8(len(utf16_units(s)), wide) + _len8(len(b), wide) + b + b"\x00"
    u = utf16_units(s)
    return _len16(len(u), wide) + b"".join(struct.pack("<H", x) for x in u) + b"\x00\x00"


def encode_string_pool(strings: List[str], utf8: bool, wide_lengths: bool = False) -> bytes:
    """a complete ResStringPool chunk (no styles)"""
    data, offsets = bytearray(), []
    for s in strings:
        offsets.append(len(data))
        data += encode_pool_string(s, utf8, wide_lengths)
    while len(data) % 4:
        data.append(0)
    strings_start = 28 + 4 * len(strings)
    size = strings_start + len(data)
    hdr = struct.pack("<HHIIIIII", RES_STRING_POOL_TYPE, 28, size, len(strings), 0,
                      UTF8_FLAG if utf8 else 0, strings_start, 0)
    return hdr + b"".join(struct.pack("<I", o) for o in offsets) + bytes(data)


class _Pool:
    """attribute names that carry a resource id come first (index i <-> resource map slot i);
    every other string is allocated after them and never shares a slot with them"""

    def __init__(self):
        self.res: List[Tuple[str, int]] = []
        self.other: List[str] = []

    def collect_res(self, e: Element):
        for a in e.attrs:
            if a.res_id is not None and (a.name, a.res_id) not in self.res:
                self.res.append((a.name, a.res_id))
        for c in e.children:
            if isinstance(c, Element):
                self.collect_res(c)

    def attr_name(self, a: Attr) -> int:
        if a.res_id is not None:
            return self.res.index((a.name, a.res_id))
        return self.plain(a.name)

    def plain(self, s: Optional[str]) -> int:
        if s is None:
            return NO_ENTRY
        if s not in self.other:
            self.other.append(s)
        return len(self.res) + self.other.index(s)

    def strings(self) -> List[str]:
        return [n for n, _ in self.res] + self.other


def _node(typ: int, line: int, comment: int, body: bytes) -> bytes:
    return struct.pack("<HHIII", typ, 16, 16 + len(body), line & 0xFFFFFFFF, comment) + body


def _filler(n: int, seed: int) -> bytes:
    """padding bytes that do not look like zeros or like string indices"""
    return bytes(((seed + 37 * i) & 0xFF) | 0x80 for i in range(n))


def _emit(e: Element, pool: _Pool, out: List[bytes]):
    for prefix, uri in e.nsdecls:
        out.append(_node(RES_XML_START_NAMESPACE_TYPE, e.line, NO_ENTRY,
                         struct.pack("<II", pool.plain(prefix), pool.plain(uri))))
    if e.attr_size < 20 or e.attr_start < 20:
        raise ValueError("attributeSize and attributeStart are at least 20")
    body = struct.pack("<IIHHHHHH", pool.plain(e.ns), pool.plain(e.tag), e.attr_start, e.attr_size, len(e.attrs),
                       e.id_index, e.class_index, e.style_index)
    body += _filler(e.attr_start - 20, 0x5A)
    for a in e.attrs:
        v = a.value
        if v.type == TYPE_STRING and isinstance(v.data, str):
            data = pool.plain(v.data)
            raw = data if a.raw is None else pool.plain(a.raw)
        else:
            data = int(v.data) & 0xFFFFFFFF
            raw = pool.plain(a.raw)
        body += struct.pack("<IIIHBBI", pool.plain(a.ns), pool.attr_name(a), raw, 8, 0, v.type & 0xFF, data)
        body += _filler(e.attr_size - 20, 0xA5)
    out.append(_node(RES_XML_START_ELEMENT_TYPE, e.line, pool.plain(e.comment), body))
    for c in e.children:
        if isinstance(c, Text):
            out.append(_node(RES_XML_CDATA_TYPE, e.line, NO_ENTRY,
                             struct.pack("<IHBBI", pool.plain(c.text), 8, 0, 0, 0)))
        else:
            _emit(c, pool, out)
    out.append(_node(RES_XML_END_ELEMENT_TYPE, e.line, NO_ENTRY, struct.pack("<II", pool.plain(e.ns), pool.plain(e.tag))))
    for prefix, uri in reversed(e.nsdecls):
        out.append(_node(RES_XML_END_NAMESPACE_TYPE, e.line, NO_ENTRY,
                         struct.pack("<II", pool.plain(prefix), pool.plain(uri))))


def encode_axml_ex(root: Element, utf8: bool = False, wide_lengths: bool = False, resource_map: Optional[bool] = None,
                   trailing: bytes = b""):
    """Serialise `root`.  resource_map: None = emit when some attribute has a res_id; True = always; False = never
    (then res_ids are dropped).  `trailing` bytes are appended after the declared file size."""
    pool = _Pool()
    if resource_map is not False:
        pool.collect_res(root)
    nodes: List[bytes] = []
    # two passes are not needed: indices are allocated while emitting, the pool is written afterwards
    if resource_map is False:
        root = _strip_res_ids(root)
    _emit(root, pool, nodes)
    strings = pool.strings()
    sp = encode_string_pool(strings, utf8, wide_lengths)
    rm = b""
    ids = [rid for _, rid in pool.res]
    if ids or resource_map is True:
        rm = struct.pack("<HHI", RES_XML_RESOURCE_MAP_TYPE, 8, 8 + 4 * len(ids)) + b"".join(struct.pack("<I", i & 0xFFFFFFFF) for i in ids)
    body = sp + rm + b"".join(nodes)
    data = struct.pack("<HHI", RES_XML_TYPE, 8, 8 + len(body)) + body
    chunks, off = [], 8
    for c in [sp] + ([rm] if rm else []) + nodes:
        chunks.append((struct.unpack("<H", c[:2])[0], off, len(c)))
        off += len(c)
    return data + trailing, {"strings": strings, "resource_map": ids, "chunks": chunks}


def encode_axml(root: Element, utf8: bool = False, wide_lengths: bool = False, resource_map: Optional[bool] = None,
                trailing: bytes = b"") -> bytes:
    return encode_axml_ex(root, utf8, wide_lengths, resource_map, trailing)[0]


def _strip_res_ids(e: Element) -> Element:
    return Element(e.tag, e.ns, [Attr(a.ns, a.name, a.value, None, a.raw) for a in e.attrs],
                   [c if isinstance(c, Text) else _strip_res_ids(c) for c in e.children], list(e.nsdecls), e.line, e.comment,
                   e.attr_size, e.attr_start, e.id_index, e.class_index, e.style_index)
