"""C22: generated DEX files with control flow that exercises the structuring passes of the decompiler
(nested loops with several exits, short-circuit conditions, endless loops, many locals declared at one
node, invoke results, try/catch).  Built with the shared independent writer harness/dexasm.py.
Deterministic given the rng."""
from harness.dexasm import DexBuilder, Method, Code, MethodRef, Try

CMP = ["if-eq", "if-ne", "if-lt", "if-ge", "if-gt", "if-le"]
CMPZ = ["if-eqz", "if-nez", "if-ltz", "if-gez", "if-gtz", "if-lez"]
NLOC = 6          # v0..v5 locals, v6,v7 parameters
HELP = MethodRef("Lgen/H;", "h", "I", ("I", "I"))


class Gen:
    def __init__(self, rng):
        self.rng = rng
        self.items = []
        self.nlabel = 0
        self.budget = 0
        self.loop_ends = []

    def label(self, p):
        self.nlabel += 1
        return "%s%d" % (p, self.nlabel)

    def reg(self):
        return self.rng.randrange(0, NLOC + 2)

    def loc(self):
        return self.rng.randrange(0, NLOC)

    def cond_jump(self, target):
        r = self.rng
        if r.random() < .5:
            self.items.append((r.choice(CMP), self.reg(), self.reg(), target))
        else:
            self.items.append((r.choice(CMPZ), self.reg(), target))

    def simple(self):
        r = self.rng
        k = r.randrange(6)
        if k == 0:
            self.items.append(("const/16", self.loc(), r.randrange(-300, 300)))
        elif k == 1:
            self.items.append((r.choice(["add-int", "sub-int", "mul-int", "xor-int"]), self.loc(), self.reg(), self.reg()))
        elif k == 2:
            self.items.append(("add-int/lit8", self.loc(), self.reg(), r.randrange(-5, 6)))
        elif k == 3:
            self.items.append(("invoke-static", (self.reg(), self.reg()), HELP))
            if r.random() < .8:
                self.items.append(("move-result", self.loc()))
        elif k == 4:
            self.items.append(("move", self.loc(), self.reg()))
        else:
            a = self.loc()
            self.items.append(("add-int/lit8", a, a, 1))

    def block(self, depth):
        r = self.rng
        for _ in range(r.randrange(1, 4)):
            if self.budget <= 0:
                break
            self.budget -= 1
            k = r.random()
            if depth >= 3 or k < .35:
                self.simple()
            elif k < .55:                      # if / else, possibly short-circuit
                els, end = self.label("else"), self.label("fi")
                if r.random() < .3:            # `a || b`
                    then = self.label("then")
                    self.cond_jump(then)
                    self.cond_jump(els)
                    self.items.append(then + ":")
                else:                          # `a && b && c`
                    for _c in range(r.choice([1, 1, 2, 2, 3])):
                        self.cond_jump(els)
                self.block(depth + 1)
                if r.random() < .6:
                    self.items.append(("goto", end))
                    self.items.append(els + ":")
                    self.block(depth + 1)
                    self.items.append(end + ":")
                else:
                    self.items.append(els + ":")
            elif k < .75:                      # while (pre-tested), several exits
                top, end = self.label("top"), self.label("end")
                self.items.append(top + ":")
                for _c in range(r.choice([1, 1, 2])):
                    self.cond_jump(end)
                self.loop_ends.append(end)
                self.block(depth + 1)
                self.loop_ends.pop()
                self.items.append(("goto", top))
                self.items.append(end + ":")
            elif k < .87:                      # do … while / endless loop with breaks
                top, end = self.label("do"), self.label("od")
                self.items.append(top + ":")
                self.loop_ends.append(end)
                self.block(depth + 1)
                for _b in range(r.choice([0, 1, 2])):
                    self.cond_jump(end)
                    self.simple()
                self.loop_ends.pop()
                if r.random() < .5:
                    self.cond_jump(top)
                else:
                    self.items.append(("goto", top))
                self.items.append(end + ":")
            elif self.loop_ends and k < .95:   # break out of an enclosing loop
                skip = self.label("nb")
                self.cond_jump(skip)
                self.items.append(("goto", r.choice(self.loop_ends)))
                self.items.append(skip + ":")
            else:
                self.simple()

    def method(self, name, size):
        self.items, self.nlabel, self.budget, self.loop_ends = [], 0, size, []
        for i in range(NLOC):                 # every local defined on every path
            self.items.append(("const/4", i, i))
        self.block(0)
        self.items.append(("return", self.reg()))
        tries = ()
        if self.rng.random() < .25:
            # wrap the whole body: catch-all handler returning a register
            self.items = ["t0:"] + self.items[:-1] + ["t1:", self.items[-1], "hnd:", ("move-exception", 0),
                                                      ("const/4", 1, 0), ("return", 1)]
            tries = [Try("t0", "t1", [("Ljava/lang/RuntimeException;", "hnd")], None)]
        return Method(name, "I", ("I", "I"), 0x9, Code(NLOC + 2, 2, 2, self.items, tries=tries))


def generate(rng, nfiles, methods_per_class=12, classes=3):
    """-> list of DEX file contents (bytes)"""
    out = []
    for f in range(nfiles):
        b = DexBuilder()
        g = Gen(rng)
        b.add_class("Lgen/H;", direct_methods=[Method("h", "I", ("I", "I"), 0x9, Code(3, 2, 0, [
            ("add-int", 0, 1, 2), ("return", 0)]))])
        for c in range(classes):
            ms = [g.method("m%d" % i, rng.choice([4, 8, 14, 22])) for i in range(methods_per_class)]
            b.add_class("Lgen/C%d_%d;" % (f, c), direct_methods=ms)
        out.append(bytes(b.build()))
    return out
