"""C21 print_parse tie: random IR expression trees built with the REAL instruction classes, printed with the REAL
Writer, lexed into Java lexemes and compared with `print` of lean/AgVerif/Model/JExpr.lean on the same tree
(driver request `jexpr <tree in prefix form>`)."""
import re

BIN = ["*", "/", "%", "+", "-", "<<", ">>", ">>>", "&", "^", "|"]
REL = ["<", ">", "<=", ">=", "==", "!="]
PRIMS = {"I": "int", "J": "long", "B": "byte", "S": "short", "C": "char", "F": "float", "D": "double", "Z": "boolean"}
CLASSES = ["Ljava/lang/String;", "Ljava/lang/Object;", "Lfoo/Bar;", "La/b/c/D$e;", "LTop;", "Ljava/lang/ref/Ref;", "Ljava/util/List;"]
KEYWORDS = set("""abstract assert boolean break byte case catch char class const continue default do double else enum extends
final finally float for goto if implements import instanceof int interface long native new package private protected public return
short static strictfp super switch synchronized this throw throws transient try void volatile while true false null""".split())

_LEX = re.compile(r"""\s*(?:
    (?P<n>\d+L?(?![\w$.]))
  | (?P<i>[A-Za-z_$][\w$]*)
  | (?P<s>"(?:[^"\\\n]|\\.)*")
  | (?P<o>>>>|>>|<<|[=!<>]=|&&|\|\||[-+*/%&|^~<>!()\[\].,?:=])
)""", re.X)


def lex(text):
    """JLS 3 lexemes of an expression text, tagged with their kind; None when the text is not lexically Java"""
    out, i = [], 0
    text = text.rstrip()
    while i < len(text):
        m = _LEX.match(text, i)
        if not m or m.end() == i:
            return None
        kind = m.lastgroup
        t = m.group(kind)
        if kind == "i" and t in KEYWORDS:
            kind = "k"
        out.append(kind + ":" + t)
        i = m.end()
    return out


def dotted(desc):
    """the Java name of a class descriptor (what util.get_type is expected to give)"""
    body = desc[1:-1]
    if body.startswith("java/lang/") and "/" not in body[10:]:
        return body[10:]
    return body.replace("/", ".")


class Gen:
    """builds (real IR object, prefix words) pairs; placeholders are replaced through var_map the way register
    propagation nests expressions"""

    def __init__(self, ir, util, rng):
        self.ir, self.util, self.rng = ir, util, rng
        self.n = 0

    def ph(self):
        self.n += 1
        return self.ir.Variable("ph%d" % self.n)

    def nest(self, parent, ph, child):
        parent.var_map[ph.v] = child

    def leaf(self, want):
        ir, rng = self.ir, self.rng
        k = rng.randrange(10)
        if want == "ref":
            k = rng.choice((2, 3, 4, 5))
        if k <= 1 and want != "ref":
            v = rng.choice((0, 1, -1, 2, -2, 7, -128, 127, 255, 32767, -32768, 2 ** 31 - 1, -2 ** 31, rng.randrange(-2 ** 31, 2 ** 31)))
            long = rng.random() < 0.3
            if long:
                v = rng.choice((v, 2 ** 63 - 1, -2 ** 63, rng.randrange(-2 ** 63, 2 ** 63)))
            return ir.Constant(v, "J" if long else "I"), ["const", str(v), "1" if long else "0"]
        if k <= 5:
            n = rng.choice((0, 1, 2, 3, 15, 255, "tmp1", "tmp12"))
            x = ir.Variable(n)
            x.declared = True
            x.type = {"ref": rng.choice(CLASSES), "bool": "Z"}.get(want, rng.choice("IJ"))
            return x, ["var", str(n)]
        if k <= 7:
            n = rng.choice((0, 1, 2, 9))
            return ir.Param(n, {"ref": rng.choice(CLASSES), "bool": "Z"}.get(want, "I")), ["param", str(n)]
        if k == 8:
            return ir.ThisParam(0, "Lfoo/Bar;"), ["this"]
        cls = rng.choice(CLASSES)
        return ir.StaticExpression(cls, "I", rng.choice(("f", "count", "MAX_VALUE"))), ["gets", dotted(cls), None]

    def tree(self, depth, want="num", wild=False, root=True):
        """want: num | ref | bool | any; wild: also produce shapes DAD itself never nests (bare comparisons as operands)"""
        ir, rng = self.ir, self.rng
        if depth <= 0 or rng.random() < 0.15:
            o, w = self.leaf(want)
            if w[0] == "gets":
                w = ["gets", w[1], o.name]
            return o, w
        sub = lambda want2="num": self.tree(depth - 1, want2, wild, False)  # noqa: E731
        kinds = ["bin", "bin", "bin", "un", "cast", "aload", "alen", "getf", "invoke", "invoke_static", "cmp"]
        if want == "ref":
            # NewArrayExpression.is_propagable() is False: DAD never nests an array creation inside another expression
            kinds = ["ccast", "getf", "invoke", "new", "aload"] + (["newarr"] if root or wild else [])
        if want == "bool":
            # a comparison is never an operand in DAD's trees (it is built for the test of an if only)
            kinds = ["getf", "invoke"] + (["cond", "condz"] if root or wild else [])
        if want == "top":
            kinds = ["cond", "cond", "condz", "condz", "condz_cmp"]
        if wild and rng.random() < 0.2:
            kinds = ["cond", "condz", "cmpf", "bin", "ccast", "un"]
        k = rng.choice(kinds)
        if k == "bin":
            op = rng.choice(BIN)
            a, wa = sub(); b, wb = sub()  # noqa: E702
            p1, p2 = self.ph(), self.ph()
            cls = rng.choice((ir.BinaryExpression, ir.BinaryExpression2Addr))
            e = cls(op, p1, p2, "I")
            if rng.random() < 0.2 and wb[0] == "const" and wb[2] == "0":
                e = ir.BinaryExpressionLit(op, p1, p2)
            self.nest(e, p1, a); self.nest(e, p2, b)  # noqa: E702
            return e, ["bin", op] + wa + wb
        if k == "un":
            op = rng.choice("-~")
            a, wa = sub()
            p = self.ph()
            e = ir.UnaryExpression(op, p, "I")
            self.nest(e, p, a)
            return e, ["un", op] + wa
        if k == "cast":
            t = rng.choice("IJBSC")
            a, wa = sub()
            p = self.ph()
            e = ir.CastExpression("(%s)" % PRIMS[t], t, p)
            self.nest(e, p, a)
            return e, ["cast", PRIMS[t]] + wa
        if k == "ccast":
            cls = rng.choice(CLASSES)
            a, wa = sub("ref") if not wild else sub("any")
            p = self.ph()
            e = ir.CheckCastExpression(p, cls, descriptor=cls)
            self.nest(e, p, a)
            return e, ["ccast", dotted(cls)] + wa
        if k in ("cond", "condz_cmp") and k == "cond":
            op = rng.choice(REL)
            a, wa = sub(); b, wb = sub()  # noqa: E702
            p1, p2 = self.ph(), self.ph()
            e = ir.ConditionalExpression(op, p1, p2)
            self.nest(e, p1, a); self.nest(e, p2, b)  # noqa: E702
            return e, ["cond", op] + wa + wb
        if k in ("cmp", "cmpf"):
            long = k == "cmp"
            a, wa = sub(); b, wb = sub()  # noqa: E702
            p1, p2 = self.ph(), self.ph()
            e = ir.BinaryCompExpression("cmp", p1, p2, "J" if long else "F")
            self.nest(e, p1, a); self.nest(e, p2, b)  # noqa: E702
            return e, ["cmp", "1" if long else "0"] + wa + wb
        if k in ("condz", "condz_cmp"):
            op = rng.choice(REL if k == "condz_cmp" or rng.random() < 0.5 else ["==", "!="])
            if k == "condz_cmp":
                a, wa = self.tree(1, "num", wild, False)
                while wa[0] != "cmp":
                    x, wx = sub(); y, wy = sub()  # noqa: E702
                    p1, p2 = self.ph(), self.ph()
                    a = ir.BinaryCompExpression("cmp", p1, p2, rng.choice("JF"))
                    self.nest(a, p1, x); self.nest(a, p2, y)  # noqa: E702
                    wa = ["cmp", "1" if a.type == "J" else "0"] + wx + wy
            else:
                a, wa = sub(rng.choice(("num", "ref", "bool")))
            try:
                t = str(a.get_type())
            except Exception:  # noqa   (e.g. an array load from an untyped expression: the Writer would fail the same way)
                a, wa = self.leaf("num")
                if wa[0] == "gets":
                    wa = ["gets", wa[1], a.name]
                t = str(a.get_type())
            kind = "bool" if t == "Z" else ("num" if t in "VBSCIJFD" else "ref")
            p = self.ph()
            e = ir.ConditionalZExpression(op, p)
            self.nest(e, p, a)
            if isinstance(a, ir.BinaryCompExpression):
                return e, ["condzcmp", op] + wa[2:]
            return e, ["condz", op, kind] + wa
        if k == "getf":
            a, wa = sub("ref")
            p = self.ph()
            name = rng.choice(("f", "next", "value", "length"))
            ft = {"ref": rng.choice(CLASSES), "bool": "Z"}.get(want, "I")
            e = ir.InstanceExpression(p, "Lfoo/Bar;", ft, name)
            self.nest(e, p, a)
            return e, ["getf", name] + wa
        if k == "aload":
            a, wa = sub("ref"); i, wi = sub()  # noqa: E702
            p1, p2 = self.ph(), self.ph()
            e = ir.ArrayLoadExpression(p1, p2, "I")
            self.nest(e, p1, a); self.nest(e, p2, i)  # noqa: E702
            return e, ["aload"] + wa + wi
        if k == "alen":
            a, wa = sub("ref")
            p = self.ph()
            e = ir.ArrayLengthExpression(p)
            self.nest(e, p, a)
            return e, ["alen"] + wa
        if k == "newarr":
            et = rng.choice(["I", "J", "B"] + CLASSES)
            n, wn = sub()
            p = self.ph()
            e = ir.NewArrayExpression(p, "[" + et)
            self.nest(e, p, n)
            return e, ["newarr", PRIMS.get(et) or dotted(et)] + wn
        if k in ("invoke", "invoke_static", "new"):
            nargs = rng.choice((0, 1, 1, 2, 3))
            args = [sub(rng.choice(("num", "num", "ref"))) for _ in range(nargs)]
            phs = [self.ph() for _ in range(nargs)]
            name = rng.choice(("get", "size", "compareTo", "m", "valueOf"))
            cls = rng.choice(CLASSES)
            rt = {"ref": cls, "bool": "Z"}.get(want, "I")
            words = []
            for _, w in args:
                words += w
            if k == "invoke":
                b, wb = sub("ref")
                pb = self.ph()
                e = rng.choice((ir.InvokeInstruction, ir.InvokeDirectInstruction))(cls, name, pb, rt, [], list(phs), (cls, name, "()I"))
                self.nest(e, pb, b)
                out = ["invoke", name, str(nargs)] + wb + words
            elif k == "invoke_static":
                b = ir.BaseClass(self.util.get_type(cls), descriptor=cls)
                e = ir.InvokeStaticInstruction(cls, name, b, rt, [], list(phs), (cls, name, "()I"))
                out = ["invoke", name, str(nargs), "base", dotted(cls)] + words
            else:
                pb = self.ph()
                e = ir.InvokeDirectInstruction(cls, "<init>", pb, "V", [], list(phs), (cls, "<init>", "()V"))
                self.nest(e, pb, ir.NewInstance(cls))
                out = ["new", dotted(cls), str(nargs)] + words
            for p, (a, _) in zip(phs, args):
                self.nest(e, p, a)
            return e, out
        raise ValueError(k)


def real_text(wr, e):
    w = wr.Writer(None, None)
    e.visit(w)
    return str(w)


def gen_condition(g, bb, depth):
    """a real basic_blocks.Condition over real CondBlocks (leaf: one comparison) and ShortCircuitBlocks (nested Condition)"""
    ir, rng = g.ir, g.rng

    def leaf():
        while True:
            e, _w = g.tree(rng.choice((1, 2, 2, 3)), "top", False)
            if isinstance(e, (ir.ConditionalExpression, ir.ConditionalZExpression)):
                g.n += 1
                return bb.CondBlock("c%d" % g.n, [e])

    def operand(d):
        if d <= 0 or rng.random() < 0.5:
            return leaf()
        g.n += 1
        return bb.ShortCircuitBlock("s%d" % g.n, gen_condition(g, bb, d - 1))
    return bb.Condition(operand(depth), operand(depth), rng.random() < 0.5, rng.random() < 0.4)


def cond_words(ir, bb, c):
    if isinstance(c, bb.Condition):
        return ["scc", "&&" if c.isand else "||"] + cond_words(ir, bb, c.cond1) + cond_words(ir, bb, c.cond2)
    if isinstance(getattr(c, "cond", None), bb.Condition):        # ShortCircuitBlock (a CondBlock without instructions)
        return cond_words(ir, bb, c.cond)
    if isinstance(c, bb.CondBlock) and c.ins:
        return words_of(ir, c.ins[-1])
    raise Unsupported(type(c).__name__)


def cond_expected(ir, bb, c):
    if isinstance(c, bb.Condition):
        return "(bin %s (paren %s) (paren %s))" % ("&&" if c.isand else "||", cond_expected(ir, bb, c.cond1), cond_expected(ir, bb, c.cond2))
    if isinstance(getattr(c, "cond", None), bb.Condition):
        return cond_expected(ir, bb, c.cond)
    if isinstance(c, bb.CondBlock) and c.ins:
        return expected_tree(ir, c.ins[-1])
    raise NoTree()


# ---------------------------------------------------------------------------------------------------------------
# oracle: what javac's parser makes of the real text, against the tree the IR expression is (independent of the model)

_DUMP_JAVA = r"""
import com.sun.source.tree.*; import com.sun.source.util.*; import javax.tools.*; import java.util.*; import java.io.*; import java.net.URI;
import java.math.BigInteger;
public class ExprDump {
  static String lit(String k, Object v) {
    BigInteger b = new BigInteger(v.toString());
    return b.signum() < 0 ? "(un - (" + k + " " + b.negate() + "))" : "(" + k + " " + b + ")";
  }
  static String ty(Tree t) {
    switch (t.getKind()) {
      case PRIMITIVE_TYPE: return ((PrimitiveTypeTree) t).getPrimitiveTypeKind().toString().toLowerCase();
      case IDENTIFIER: return ((IdentifierTree) t).getName().toString();
      case MEMBER_SELECT: return ty(((MemberSelectTree) t).getExpression()) + "." + ((MemberSelectTree) t).getIdentifier();
      case ARRAY_TYPE: return ty(((ArrayTypeTree) t).getType()) + "[]";
      default: return "?" + t.getKind();
    }
  }
  static String args(List<? extends Tree> l) { StringBuilder b = new StringBuilder(); for (Tree x : l) b.append(" ").append(d(x)); return b.toString(); }
  static final Map<Tree.Kind, String> BIN = new EnumMap<>(Tree.Kind.class), UN = new EnumMap<>(Tree.Kind.class);
  static {
    BIN.put(Tree.Kind.MULTIPLY, "*"); BIN.put(Tree.Kind.DIVIDE, "/"); BIN.put(Tree.Kind.REMAINDER, "%"); BIN.put(Tree.Kind.PLUS, "+");
    BIN.put(Tree.Kind.MINUS, "-"); BIN.put(Tree.Kind.LEFT_SHIFT, "<<"); BIN.put(Tree.Kind.RIGHT_SHIFT, ">>");
    BIN.put(Tree.Kind.UNSIGNED_RIGHT_SHIFT, ">>>"); BIN.put(Tree.Kind.LESS_THAN, "<"); BIN.put(Tree.Kind.GREATER_THAN, ">");
    BIN.put(Tree.Kind.LESS_THAN_EQUAL, "<="); BIN.put(Tree.Kind.GREATER_THAN_EQUAL, ">="); BIN.put(Tree.Kind.EQUAL_TO, "==");
    BIN.put(Tree.Kind.NOT_EQUAL_TO, "!="); BIN.put(Tree.Kind.AND, "&"); BIN.put(Tree.Kind.XOR, "^"); BIN.put(Tree.Kind.OR, "|");
    BIN.put(Tree.Kind.CONDITIONAL_AND, "&&"); BIN.put(Tree.Kind.CONDITIONAL_OR, "||");
    UN.put(Tree.Kind.UNARY_MINUS, "-"); UN.put(Tree.Kind.UNARY_PLUS, "+"); UN.put(Tree.Kind.BITWISE_COMPLEMENT, "~");
    UN.put(Tree.Kind.LOGICAL_COMPLEMENT, "!");
  }
  static String d(Tree t) {
    Tree.Kind k = t.getKind();
    if (BIN.containsKey(k)) { BinaryTree b = (BinaryTree) t; return "(bin " + BIN.get(k) + " " + d(b.getLeftOperand()) + " " + d(b.getRightOperand()) + ")"; }
    if (UN.containsKey(k)) return "(un " + UN.get(k) + " " + d(((UnaryTree) t).getExpression()) + ")";
    switch (k) {
      case PARENTHESIZED: return "(paren " + d(((ParenthesizedTree) t).getExpression()) + ")";
      case INT_LITERAL: return lit("int", ((LiteralTree) t).getValue());
      case LONG_LITERAL: return lit("long", ((LiteralTree) t).getValue());
      case NULL_LITERAL: return "null";
      case IDENTIFIER: { String n = ((IdentifierTree) t).getName().toString(); return n.equals("this") ? "this" : "(id " + n + ")"; }
      case MEMBER_SELECT: return "(sel " + d(((MemberSelectTree) t).getExpression()) + " " + ((MemberSelectTree) t).getIdentifier() + ")";
      case ARRAY_ACCESS: return "(idx " + d(((ArrayAccessTree) t).getExpression()) + " " + d(((ArrayAccessTree) t).getIndex()) + ")";
      case METHOD_INVOCATION: return "(call " + d(((MethodInvocationTree) t).getMethodSelect()) + args(((MethodInvocationTree) t).getArguments()) + ")";
      case NEW_CLASS: return "(new " + ty(((NewClassTree) t).getIdentifier()) + args(((NewClassTree) t).getArguments()) + ")";
      case NEW_ARRAY: return "(newarr " + ty(((NewArrayTree) t).getType()) + args(((NewArrayTree) t).getDimensions()) + ")";
      case TYPE_CAST: return "(cast " + ty(((TypeCastTree) t).getType()) + " " + d(((TypeCastTree) t).getExpression()) + ")";
      default: return "?" + k;
    }
  }
  public static void main(String[] a) throws Exception {
    BufferedReader in = new BufferedReader(new InputStreamReader(System.in, "UTF-8"));
    List<String> lines = new ArrayList<>(); for (String s; (s = in.readLine()) != null; ) lines.add(s);
    JavaCompiler c = ToolProvider.getSystemJavaCompiler();
    PrintStream out = new PrintStream(System.out, false, "UTF-8");
    for (int i = 0; i < lines.size(); i++) {
      final String src = "class T { Object f() { return\n" + lines.get(i) + "\n; } }";
      JavaFileObject fo = new SimpleJavaFileObject(URI.create("string:///T.java"), JavaFileObject.Kind.SOURCE) {
        public CharSequence getCharContent(boolean b) { return src; } };
      DiagnosticCollector<JavaFileObject> dc = new DiagnosticCollector<>();
      String r;
      try {
        JavacTask task = (JavacTask) c.getTask(null, null, dc, null, null, Collections.singletonList(fo));
        CompilationUnitTree u = task.parse().iterator().next();
        boolean err = false; for (Diagnostic<?> x : dc.getDiagnostics()) if (x.getKind() == Diagnostic.Kind.ERROR) err = true;
        if (err) r = "syntax-error";
        else {
          MethodTree m = (MethodTree) ((ClassTree) u.getTypeDecls().get(0)).getMembers().get(0);
          List<? extends StatementTree> st = m.getBody().getStatements();
          r = st.size() == 1 && st.get(0) instanceof ReturnTree ? d(((ReturnTree) st.get(0)).getExpression()) : "not-one-expression";
        }
      } catch (Exception e) { r = "exception:" + e.getClass().getSimpleName(); }
      out.println(r);
    }
    out.flush();
  }
}
"""


def javac_trees(workdir, texts):
    """the javac parser's tree of each expression text, as an S-expression ('syntax-error' when it is not an expression)"""
    import os
    import subprocess
    from harness.fw import ToolFailure
    src = os.path.join(workdir, "ExprDump.java")
    if not os.path.exists(os.path.join(workdir, "ExprDump.class")):
        open(src, "w").write(_DUMP_JAVA)
        p = subprocess.run(["javac", "-nowarn", "-d", workdir, src], capture_output=True, text=True, timeout=600)
        if p.returncode != 0:
            raise ToolFailure("javac ExprDump: " + p.stderr[-400:])
    p = subprocess.run(["java", "-cp", workdir, "ExprDump"], input="\n".join(t.replace("\n", " ") for t in texts) + "\n",
                       capture_output=True, text=True, timeout=1800)
    out = p.stdout.splitlines()
    if p.returncode != 0 or len(out) != len(texts):
        raise ToolFailure("ExprDump: rc=%s lines=%d/%d %s" % (p.returncode, len(out), len(texts), p.stderr[-300:]))
    return out


def _qn_tree(name):
    parts = name.split(".")
    t = "(id %s)" % parts[0]
    for x in parts[1:]:
        t = "(sel %s %s)" % (t, x)
    return t


class NoTree(Exception):
    pass


def expected(ir, e):
    """expected_tree, or None where the property defines no Java expression (float compare as a value, `<init>` on a variable)"""
    try:
        return expected_tree(ir, e)
    except Exception:  # noqa   NoTree, or an IR object whose own get_type() fails
        return None


def expected_tree(ir, e, zop=None):
    """the Java expression an IR expression is, read off the IR objects (property side: no model, no Writer).
    Parentheses the decompiler adds are part of the tree; what matters is that every operator keeps its operands."""
    vm = getattr(e, "var_map", {})
    sub = lambda key: expected_tree(ir, vm[key])  # noqa: E731
    if isinstance(e, ir.Constant):
        v = e.get_int_value()
        k = "long" if e.type == "J" else "int"
        return "(un - (%s %d))" % (k, -v) if v < 0 else "(%s %d)" % (k, v)
    if isinstance(e, ir.ThisParam):
        return "this"
    if isinstance(e, ir.Param):
        return "(id p%s)" % e.v
    if isinstance(e, ir.Variable):
        return "(id v%s)" % e.name
    if isinstance(e, ir.BaseClass):
        return _qn_tree(e.cls)
    if isinstance(e, ir.BinaryCompExpression):
        if zop is not None:                       # folded into an if-<test>z: the comparison itself
            return "(bin %s %s %s)" % (zop, sub(e.arg1), sub(e.arg2))
        if e.type == "J":
            return "(call (sel (id Long) compare) %s %s)" % (sub(e.arg1), sub(e.arg2))
        raise NoTree()                            # float/double compare as a value: no Java expression is defined here
    if isinstance(e, ir.BinaryExpression):
        return "(paren (bin %s %s %s))" % (e.op, sub(e.arg1), sub(e.arg2))
    if isinstance(e, ir.CastExpression):
        return "(paren (cast %s %s))" % (e.op.strip("()"), sub(e.arg))
    if isinstance(e, ir.UnaryExpression):
        return "(paren (un %s %s))" % (e.op, sub(e.arg))
    if isinstance(e, ir.CheckCastExpression):
        return "(paren (cast %s %s))" % (dotted(e.type), sub(e.arg))
    if isinstance(e, ir.ConditionalExpression):
        return "(bin %s %s %s)" % (e.op, sub(e.arg1), sub(e.arg2))
    if isinstance(e, ir.ConditionalZExpression):
        a = vm[e.arg]
        if isinstance(a, ir.BinaryCompExpression):
            return expected_tree(ir, a, zop=e.op)
        t = str(a.get_type())
        if t == "Z":
            return "(un ! %s)" % sub(e.arg) if e.op == "==" else sub(e.arg)
        return "(bin %s %s %s)" % (e.op, sub(e.arg), "(int 0)" if t in PRIMS else "null")
    if isinstance(e, ir.InstanceExpression):
        return "(sel %s %s)" % (sub(e.arg), e.name)
    if isinstance(e, ir.StaticExpression):
        return "(sel %s %s)" % (_qn_tree(dotted(e.clsdesc)), e.name)
    if isinstance(e, ir.ArrayLoadExpression):
        return "(idx %s %s)" % (sub(e.array), sub(e.idx))
    if isinstance(e, ir.ArrayLengthExpression):
        return "(sel %s length)" % sub(e.array)
    if isinstance(e, ir.NewArrayExpression):
        et = e.type[1:]
        return "(newarr %s %s)" % (PRIMS.get(et) or dotted(et), sub(e.size))
    if isinstance(e, ir.InvokeInstruction):
        args = "".join(" " + sub(a) for a in e.args)
        base = vm[e.base]
        if e.name == "<init>":
            if isinstance(base, ir.NewInstance):
                return "(new %s%s)" % (dotted(base.type), args)
            raise NoTree()
        return "(call (sel %s %s)%s)" % (expected_tree(ir, base), e.name, args)
    raise NoTree()


def parse_reply(line):
    """'wf=1 level=15 parse=ok ;; tree=… ;; toks=…' -> dict"""
    d = {}
    parts = line.split(" ;; ")
    for part in parts[0].split():
        k, _, v = part.partition("=")
        d[k] = v
    for part in parts[1:]:
        k, _, v = part.partition("=")
        d[k] = v.strip()
    return d


def stream(ck_seed, n, start=0):
    """the deterministic sequence of (index, real IR object, prefix words, wild) of one run"""
    import importlib
    import random
    from gen import translate as gt
    from harness.fw import REPO
    _dex, _oi, ir, wr = gt._load(REPO)
    util = importlib.import_module("androguard.decompiler.util")
    bb = importlib.import_module("androguard.decompiler.basic_blocks")
    rng = random.Random("c21-jexpr-%d" % ck_seed)
    g = Gen(ir, util, rng)
    for i in range(n):
        wild = i % 5 == 4
        if i % 7 == 6:
            # a compound condition: printed by Condition.visit -> visit_short_circuit_condition; the words are read off
            # the objects AFTER printing (printing negates cond1 when isnot is set)
            e, words, wild = gen_condition(g, bb, rng.choice((0, 1, 1, 2))), None, False
        else:
            want = rng.choice(("num", "num", "ref", "top", "top", "bool"))
            depth = rng.choice((1, 2, 2, 3, 3, 4))
            e, words = g.tree(depth, want, wild)
        if i >= start:
            yield i, ir, wr, e, words, wild


def observe(ir, wr, e):
    """(expected tree computed BEFORE printing (the Writer mutates a folded compare), real text, lexemes)"""
    exp = expected(ir, e)
    try:
        text = real_text(wr, e)
    except Exception as ex:  # noqa
        return exp, None, "other:" + type(ex).__name__
    toks = lex(text)
    return exp, text, (" ".join(toks) if toks is not None else "not-java:" + text)


def observe_condition(ir, wr, c):
    """(words, expected tree, real text, lexemes) of a basic_blocks.Condition; words and expectation describe the state AFTER
    printing: visit_short_circuit_condition negates cond1 when isnot is set, every time it prints"""
    import importlib
    bb = importlib.import_module("androguard.decompiler.basic_blocks")
    try:
        text = real_text(wr, c)
    except Exception as ex:  # noqa
        return None, None, None, "other:" + type(ex).__name__
    try:
        exp = cond_expected(ir, bb, c)
    except Exception:  # noqa
        exp = None
    try:
        words = cond_words(ir, bb, c)
    except Unsupported:
        words = None
    toks = lex(text)
    return words, exp, text, (" ".join(toks) if toks is not None else "not-java:" + text)


def leg(ck, drv, n, workdir):
    reqs, real, texts, exps, wilds = [], [], [], [], []
    for i, ir, wr, e, words, wild in stream(ck.seed, n):
        if words is None:
            words, exp, text, r = observe_condition(ir, wr, e)
            if words is None:
                words = ["this"]
        else:
            exp, text, r = observe(ir, wr, e)
        reqs.append("jexpr " + " ".join(words))
        real.append(r); texts.append(text); exps.append(exp); wilds.append(wild)  # noqa: E702
    replies = drv.ask(reqs)
    parsed = [parse_reply(x) for x in replies]
    jtrees = javac_trees(workdir, [t if t is not None else "?" for t in texts])
    real2, model = [], []
    nwf = 0
    for i, (p, x, r) in enumerate(zip(parsed, replies, real)):
        if p.get("wf") not in ("0", "1") or "toks" not in p:
            real2.append(r); model.append(x)  # noqa: E702
            continue
        if r.startswith("not-java:") and p["wf"] == "0":
            real2.append(r); model.append(r)       # e.g. `0.length`: not lexically Java, and the model says: not well-formed  # noqa: E702
            continue
        if p["wf"] == "1":
            nwf += 1
            # three-way: the real text lexes to the model's lexemes, and javac's parser reads the real text as the model's tree
            real2.append(r + " || " + jtrees[i])
            model.append(p["toks"] + " || " + p.get("tree", "?"))
            if p.get("parse") != "ok":
                ck.fail({"kind": "jexpr-model", "request": reqs[i]}, "the model's parser does not return the tree of a well-formed "
                        "expression (instance of theorem print_parse)", None, expected="parse=ok", observed=p.get("parse"))
        else:
            real2.append(r); model.append(p["toks"])  # noqa: E702
    ck.compare("writer expression lexemes and javac tree (print_parse)", reqs, real2, model)
    # oracle (leg S): independent of the model
    nor = 0
    for i in range(len(reqs)):
        if wilds[i] or exps[i] is None:
            continue
        nor += 1
        if jtrees[i] != exps[i]:
            ck.fail({"kind": "jexpr", "seed": ck.seed, "index": i, "tree": reqs[i][6:]},
                    "the Java expression text printed for an IR expression does not parse (javac) to that expression", None,
                    expected=exps[i], observed={"text": texts[i], "javac": jtrees[i]})
    ck.cover(evaluations=len(reqs) + nor, distinct=set(reqs),
             samples=[{"request": reqs[i], "text": texts[i], "javac": jtrees[i], "model": replies[i]} for i in (0, len(reqs) // 2)],
             dist={"well-formed": nwf, "not well-formed (bare comparison as operand, a cmp b ...)": len(reqs) - nwf, "judged by the javac oracle": nor})


def leg_fragment(ck, drv, name, reqs, texts):
    """ties JExpr.ofExpr: for the requests of an existing stream (eval / ctx / ctx2) the real Writer's text, lexed, must be the
    lexemes of `print (ofExpr e)` of the model's expression e, and that IR tree must be well formed and re-parse to its tree"""
    reqs2 = ["jx" + r for r in reqs]
    replies = drv.ask(reqs2)
    real, model = [], []
    for rq, t, x in zip(reqs2, texts, replies):
        toks = lex(t) if isinstance(t, str) and not t.startswith("other:") else None
        real.append("wf=1 parse=ok ;; " + (" ".join(toks) if toks is not None else "not-java:%s" % t))
        p = parse_reply(x)
        model.append("wf=%s parse=%s ;; %s" % (p.get("wf"), p.get("parse"), p.get("toks")) if "toks" in p else x)
    ck.compare(name, reqs2, real, model)


# ---------------------------------------------------------------------------------------------------------------
# the trees the REAL pipeline builds: every expression of decompiled generated methods must be well formed (the
# hypothesis of print_parse), print to the model's lexemes and parse (javac) to the tree it is

class Unsupported(Exception):
    pass


def words_of(ir, e):
    """prefix words (the driver's `jexpr` notation) of a real IR expression"""
    vm = getattr(e, "var_map", {})
    sub = lambda key: words_of(ir, vm[key])  # noqa: E731
    if isinstance(e, ir.Constant):
        if e.type in ("Z", "Ljava/lang/Class;") or isinstance(e.cst, str) or isinstance(e.cst, float) or isinstance(e.cst2, float):
            raise Unsupported("constant of type %s" % e.type)
        v = e.cst2 if e.type in "IJB" else e.cst
        return ["const", str(int(v)), "1" if e.type == "J" else "0"]
    if isinstance(e, ir.ThisParam):
        return ["this"]
    if isinstance(e, ir.Param):
        return ["param", str(e.v)]
    if isinstance(e, ir.Variable):
        return ["var", str(e.name)]
    if isinstance(e, ir.BaseClass):
        return ["base", e.cls]
    if isinstance(e, ir.BinaryCompExpression):
        if e.op == "cmp":
            return ["cmp", "1" if e.type == "J" else "0"] + sub(e.arg1) + sub(e.arg2)
        return ["cond", e.op] + sub(e.arg1) + sub(e.arg2)       # op already replaced by a printed if-<test>z
    if isinstance(e, ir.BinaryExpression):
        return ["bin", e.op] + sub(e.arg1) + sub(e.arg2)
    if isinstance(e, ir.CastExpression):
        t = e.op.strip("()")
        if t not in PRIMS.values():
            raise Unsupported("cast " + e.op)
        return ["cast", t] + sub(e.arg)
    if isinstance(e, ir.UnaryExpression):
        return ["un", e.op] + sub(e.arg)
    if isinstance(e, ir.CheckCastExpression):
        return ["ccast", dotted(e.type)] + sub(e.arg)
    if isinstance(e, ir.ConditionalExpression):
        return ["cond", e.op] + sub(e.arg1) + sub(e.arg2)
    if isinstance(e, ir.ConditionalZExpression):
        a = vm[e.arg]
        if isinstance(a, ir.BinaryCompExpression):
            return ["condzcmp", e.op] + words_of(ir, a.var_map[a.arg1]) + words_of(ir, a.var_map[a.arg2])
        t = str(a.get_type())
        return ["condz", e.op, "bool" if t == "Z" else ("num" if t in "VBSCIJFD" else "ref")] + sub(e.arg)
    if isinstance(e, ir.InstanceExpression):
        return ["getf", e.name] + sub(e.arg)
    if isinstance(e, ir.StaticExpression):
        return ["gets", e.cls, e.name]
    if isinstance(e, ir.ArrayLoadExpression):
        return ["aload"] + sub(e.array) + sub(e.idx)
    if isinstance(e, ir.ArrayLengthExpression):
        return ["alen"] + sub(e.array)
    if isinstance(e, ir.NewArrayExpression):
        et = e.type[1:]
        return ["newarr", PRIMS.get(et) or dotted(et)] + sub(e.size)
    if isinstance(e, ir.InvokeInstruction):
        args = []
        for a in e.args:
            args += sub(a)
        base = vm[e.base]
        if e.name == "<init>":
            if isinstance(base, ir.NewInstance):
                return ["new", dotted(base.type), str(len(e.args))] + args
            raise Unsupported("<init> on " + type(base).__name__)
        return ["invoke", e.name, str(len(e.args))] + words_of(ir, base) + args
    raise Unsupported(type(e).__name__)


def statement_expressions(ir, ins):
    """the top-level expressions of one IR statement"""
    vm = getattr(ins, "var_map", {})
    if isinstance(ins, ir.AssignExpression):
        return [ins.rhs]
    if isinstance(ins, ir.MoveExpression):
        return [vm[ins.rhs]]
    if isinstance(ins, ir.ReturnInstruction):
        return [vm[ins.arg]] if ins.arg is not None else []
    if isinstance(ins, (ir.ConditionalExpression, ir.ConditionalZExpression)):
        return [ins]
    if isinstance(ins, ir.SwitchExpression):
        return [vm[ins.src]]
    return []


def leg_pipeline(ck, drv, workdir, n_methods):
    import importlib
    from gen import translate as gt
    from harness import javagen, c21diff
    from harness.fw import REPO
    _dex, _oi, ir, wr = gt._load(REPO)
    DEX = importlib.import_module("androguard.core.dex").DEX
    Analysis = importlib.import_module("androguard.core.analysis.analysis").Analysis
    DvMethod = importlib.import_module("androguard.decompiler.decompile").DvMethod
    bb = importlib.import_module("androguard.decompiler.basic_blocks")
    import random
    ncond = 0
    rng = random.Random("c21-pipeline-%d" % ck.seed)
    reqs, real, texts, exps, where = [], [], [], [], []
    skipped = {}
    nm = 0
    for start in range(0, n_methods, 50):
        ms = [javagen.gen_method(rng, "m%d" % i, level=rng.choice((0, 1, 1, 2))) for i in range(min(50, n_methods - start))]
        data, _codes = c21diff.build_dex(ms)
        d = DEX(data)
        dx = Analysis(d)
        for m in (m for c in d.get_classes() for m in c.get_methods()):
            try:
                dv = DvMethod(dx.get_method(m))
                dv.process()
                dv.get_source()
                nodes = list(dv.graph.nodes) if getattr(dv, "graph", None) is not None else []
            except Exception as ex:  # noqa   (crashes of the decompiler are the differential leg's business)
                skipped["decompiler:" + type(ex).__name__] = skipped.get("decompiler:" + type(ex).__name__, 0) + 1
                continue
            nm += 1
            seen = set()
            for node in nodes:
                c = getattr(node, "cond", None)
                if isinstance(c, bb.Condition) and id(c) not in seen:
                    seen.add(id(c))
                    words, exp, text, r = observe_condition(ir, wr, c)
                    if words is None:
                        skipped["condition"] = skipped.get("condition", 0) + 1
                    else:
                        reqs.append("jexpr " + " ".join(words))
                        real.append(r); texts.append(text); exps.append(exp)  # noqa: E702
                        where.append((start, str(m.get_name())))
                        ncond += 1
                try:
                    inss = list(node.get_ins())
                except Exception:  # noqa
                    continue
                for ins in inss:
                    for e in statement_expressions(ir, ins):
                        if id(e) in seen:
                            continue
                        seen.add(id(e))
                        try:
                            words = words_of(ir, e)
                        except Unsupported as u:
                            skipped[str(u)] = skipped.get(str(u), 0) + 1
                            continue
                        exp, text, r = observe(ir, wr, e)
                        reqs.append("jexpr " + " ".join(words))
                        real.append(r); texts.append(text); exps.append(exp)  # noqa: E702
                        where.append((start, str(m.get_name())))
    if not reqs:
        return
    replies = drv.ask(reqs)
    parsed = [parse_reply(x) for x in replies]
    jtrees = javac_trees(workdir, [t if t is not None else "?" for t in texts])
    real2, model = [], []
    notwf = 0
    for i, (p, x, r) in enumerate(zip(parsed, replies, real)):
        real2.append("wf=1 ;; " + r + " || " + jtrees[i])
        model.append("wf=%s ;; %s || %s" % (p.get("wf"), p.get("toks"), p.get("tree")) if "toks" in p else x)
        if p.get("wf") != "1":
            notwf += 1
        if exps[i] is not None and jtrees[i] != exps[i]:
            ck.fail({"kind": "jexpr-pipeline", "tree": reqs[i][6:], "method": where[i][1]},
                    "an expression of a decompiled method is printed as text that does not parse (javac) to that expression", None,
                    expected=exps[i], observed={"text": texts[i], "javac": jtrees[i]})
    # a tree of the real pipeline outside WF is a mismatch of this stream (the model's hypothesis would not cover real output)
    ck.compare("expression trees of decompiled methods: well formed, lexemes, javac tree", reqs, real2, model)
    ck.cover(evaluations=len(reqs), distinct=set(reqs),
             samples=[{"request": reqs[i], "text": texts[i], "model": replies[i]} for i in (0, len(reqs) // 2)],
             dist={"pipeline_methods": nm, "pipeline_expression_trees": len(reqs), "pipeline_compound_conditions": ncond, "pipeline_trees_not_wf": notwf,
                   "pipeline_skipped": skipped})


def replay(ck, c):
    import tempfile
    import shutil
    for i, ir, wr, e, words, wild in stream(c["seed"], c["index"] + 1, start=c["index"]):
        if words is None:
            words, exp, text, r = observe_condition(ir, wr, e)
        else:
            exp, text, r = observe(ir, wr, e)
        d = tempfile.mkdtemp(prefix="c21-jx-")
        try:
            jt = javac_trees(d, [text if text is not None else "?"])[0]
        finally:
            shutil.rmtree(d, ignore_errors=True)
        print("IR tree :", " ".join(words))
        print("text    :", text)
        print("expected:", exp)
        print("javac   :", jt)
        return 0 if jt == exp else 1
    return 0
