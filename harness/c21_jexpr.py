"""C21 print_parse tie: random IR expression trees built with the REAL instruction classes, printed with the REAL
Writer, lexed into Java lexemes and compared with `print` of lean/AgVerif/Model/JExpr.lean on the same tree
(driver request `jexpr <tree in prefix form>`)."""
import re

BIN = ["*", "/", "%", "+", "-", "<<", ">>", ">>>", "&", "^", "|"]
REL = ["<", ">", "<=", ">=", "==", "!="]
PRIMS = {"I": "int", "J": "long", "B": "byte", "S": "short", "C": "char", "F": "float", "D": "double", "Z": "boolean"}
CLASSES = ["Ljava/lang/String;", "Ljava/lang/Object;", "Lfoo/Bar;", "La/b/c/D$e;", "LTop;", "Ljava/lang/ref/Ref;", "Ljava/util/List;"]
KEYWORDS = set("""abstract assert boolean break byte case catch char class const continue default do double else enum extends
final finally float for goto if implements import instanceof int interface long native new package private protected public return
short static strictfp super switch synchronized this throw throws transient try void volatile while true false null""".split())

_LEX = re.compile(r"""\s*(?:
    (?P<n>\d+L?(?![\w$.]))
  | (?P<i>[A-Za-z_$][\w$]*)
  | (?P<s>"(?:[^"\\\n]|\\.)*")
  | (?P<o>>>>|>>|<<|[=!<>]=|&&|\|\||[-+*/%&|^~<>!()\[\].,?:=])
)""", re.X)


def lex(text):
    """JLS 3 lexemes of an expression text, tagged with their kind; None when the text is not lexically Java"""
    out, i = [], 0
    text = text.rstrip()
    while i < len(text):
        m = _LEX.match(text, i)
        if not m or m.end() == i:
            return None
        kind = m.lastgroup
        t = m.group(kind)
        if kind == "i" and t in KEYWORDS:
            kind = "k"
        out.append(kind + ":" + t)
        i = m.end()
    return out


def dotted(desc):
    """the Java name of a class descriptor (what util.get_type is expected to give)"""
    body = desc[1:-1]
    if body.startswith("java/lang/") and "/" not in body[10:]:
        return body[10:]
    return body.replace("/", ".")


class Gen:
    """builds (real IR object, prefix words) pairs; placeholders are replaced through var_map the way register
    propagation nests expressions"""

    def __init__(self, ir, util, rng):
        self.ir, self.util, self.rng = ir, util, rng
        self.n = 0

    def ph(self):
        self.n += 1
        return self.ir.Variable("ph%d" % self.n)

    def nest(self, parent, ph, child):
        parent.var_map[ph.v] = child

    def leaf(self, want):
        ir, rng = self.ir, self.rng
        k = rng.randrange(10)
        if want == "ref":
            k = rng.choice((2, 3, 4, 5))
        if k <= 1 and want != "ref":
            v = rng.choice((0, 1, -1, 2, -2, 7, -128, 127, 255, 32767, -32768, 2 ** 31 - 1, -2 ** 31, rng.randrange(-2 ** 31, 2 ** 31)))
            long = rng.random() < 0.3
            if long:
                v = rng.choice((v, 2 ** 63 - 1, -2 ** 63, rng.randrange(-2 ** 63, 2 ** 63)))
            return ir.Constant(v, "J" if long else "I"), ["const", str(v), "1" if long else "0"]
        if k <= 5:
            n = rng.choice((0, 1, 2, 3, 15, 255, "tmp1", "tmp12"))
            x = ir.Variable(n)
            x.declared = True
            x.type = {"ref": rng.choice(CLASSES), "bool": "Z"}.get(want, rng.choice("IJ"))
            return x, ["var", str(n)]
        if k <= 7:
            n = rng.choice((0, 1, 2, 9))
            return ir.Param(n, {"ref": rng.choice(CLASSES), "bool": "Z"}.get(want, "I")), ["param", str(n)]
        if k == 8:
            return ir.ThisParam(0, "Lfoo/Bar;"), ["this"]
        cls = rng.choice(CLASSES)
        return ir.StaticExpression(cls, "I", rng.choice(("f", "count", "MAX_VALUE"))), ["gets", dotted(cls), None]

    def tree(self, depth, want="num", wild=False):
        """want: num | ref | bool | any; wild: also produce shapes DAD itself never nests (bare comparisons as operands)"""
        ir, rng = self.ir, self.rng
        if depth <= 0 or rng.random() < 0.15:
            o, w = self.leaf(want)
            if w[0] == "gets":
                w = ["gets", w[1], o.name]
            return o, w
        sub = lambda want2="num": self.tree(depth - 1, want2, wild)  # noqa: E731
        kinds = ["bin", "bin", "bin", "un", "cast", "aload", "alen", "getf", "invoke", "invoke_static", "cmp"]
        if want == "ref":
            kinds = ["ccast", "getf", "invoke", "new", "newarr", "aload"]
        if want == "bool":
            kinds = ["getf", "invoke", "cond", "condz"]
        if want == "top":
            kinds = ["cond", "cond", "condz", "condz", "condz_cmp"]
        if wild and rng.random() < 0.2:
            kinds = ["cond", "condz", "cmpf", "bin", "ccast", "un"]
        k = rng.choice(kinds)
        if k == "bin":
            op = rng.choice(BIN)
            a, wa = sub(); b, wb = sub()  # noqa: E702
            p1, p2 = self.ph(), self.ph()
            cls = rng.choice((ir.BinaryExpression, ir.BinaryExpression2Addr))
            e = cls(op, p1, p2, "I")
            if rng.random() < 0.2 and wb[0] == "const" and wb[2] == "0":
                e = ir.BinaryExpressionLit(op, p1, p2)
            self.nest(e, p1, a); self.nest(e, p2, b)  # noqa: E702
            return e, ["bin", op] + wa + wb
        if k == "un":
            op = rng.choice("-~")
            a, wa = sub()
            p = self.ph()
            e = ir.UnaryExpression(op, p, "I")
            self.nest(e, p, a)
            return e, ["un", op] + wa
        if k == "cast":
            t = rng.choice("IJBSC")
            a, wa = sub()
            p = self.ph()
            e = ir.CastExpression("(%s)" % PRIMS[t], t, p)
            self.nest(e, p, a)
            return e, ["cast", PRIMS[t]] + wa
        if k == "ccast":
            cls = rng.choice(CLASSES)
            a, wa = sub("ref") if not wild else sub("any")
            p = self.ph()
            e = ir.CheckCastExpression(p, cls, descriptor=cls)
            self.nest(e, p, a)
            return e, ["ccast", dotted(cls)] + wa
        if k in ("cond", "condz_cmp") and k == "cond":
            op = rng.choice(REL)
            a, wa = sub(); b, wb = sub()  # noqa: E702
            p1, p2 = self.ph(), self.ph()
            e = ir.ConditionalExpression(op, p1, p2)
            self.nest(e, p1, a); self.nest(e, p2, b)  # noqa: E702
            return e, ["cond", op] + wa + wb
        if k in ("cmp", "cmpf"):
            long = k == "cmp"
            a, wa = sub(); b, wb = sub()  # noqa: E702
            p1, p2 = self.ph(), self.ph()
            e = ir.BinaryCompExpression("cmp", p1, p2, "J" if long else "F")
            self.nest(e, p1, a); self.nest(e, p2, b)  # noqa: E702
            return e, ["cmp", "1" if long else "0"] + wa + wb
        if k in ("condz", "condz_cmp"):
            op = rng.choice(REL if k == "condz_cmp" or rng.random() < 0.5 else ["==", "!="])
            if k == "condz_cmp":
                a, wa = self.tree(1, "num", wild)
                while wa[0] != "cmp":
                    x, wx = sub(); y, wy = sub()  # noqa: E702
                    p1, p2 = self.ph(), self.ph()
                    a = ir.BinaryCompExpression("cmp", p1, p2, rng.choice("JF"))
                    self.nest(a, p1, x); self.nest(a, p2, y)  # noqa: E702
                    wa = ["cmp", "1" if a.type == "J" else "0"] + wx + wy
            else:
                a, wa = sub(rng.choice(("num", "ref", "bool")))
            t = str(a.get_type())
            kind = "bool" if t == "Z" else ("num" if t in "VBSCIJFD" else "ref")
            p = self.ph()
            e = ir.ConditionalZExpression(op, p)
            self.nest(e, p, a)
            if isinstance(a, ir.BinaryCompExpression):
                return e, ["condzcmp", op] + wa[2:]
            return e, ["condz", op, kind] + wa
        if k == "getf":
            a, wa = sub("ref")
            p = self.ph()
            name = rng.choice(("f", "next", "value", "length"))
            ft = {"ref": rng.choice(CLASSES), "bool": "Z"}.get(want, "I")
            e = ir.InstanceExpression(p, "Lfoo/Bar;", ft, name)
            self.nest(e, p, a)
            return e, ["getf", name] + wa
        if k == "aload":
            a, wa = sub("ref"); i, wi = sub()  # noqa: E702
            p1, p2 = self.ph(), self.ph()
            e = ir.ArrayLoadExpression(p1, p2, "I")
            self.nest(e, p1, a); self.nest(e, p2, i)  # noqa: E702
            return e, ["aload"] + wa + wi
        if k == "alen":
            a, wa = sub("ref")
            p = self.ph()
            e = ir.ArrayLengthExpression(p)
            self.nest(e, p, a)
            return e, ["alen"] + wa
        if k == "newarr":
            et = rng.choice(["I", "J", "B"] + CLASSES)
            n, wn = sub()
            p = self.ph()
            e = ir.NewArrayExpression(p, "[" + et)
            self.nest(e, p, n)
            return e, ["newarr", PRIMS.get(et) or dotted(et)] + wn
        if k in ("invoke", "invoke_static", "new"):
            nargs = rng.choice((0, 1, 1, 2, 3))
            args = [sub(rng.choice(("num", "num", "ref"))) for _ in range(nargs)]
            phs = [self.ph() for _ in range(nargs)]
            name = rng.choice(("get", "size", "compareTo", "m", "valueOf"))
            cls = rng.choice(CLASSES)
            rt = {"ref": cls, "bool": "Z"}.get(want, "I")
            words = []
            for _, w in args:
                words += w
            if k == "invoke":
                b, wb = sub("ref")
                pb = self.ph()
                e = rng.choice((ir.InvokeInstruction, ir.InvokeDirectInstruction))(cls, name, pb, rt, [], list(phs), (cls, name, "()I"))
                self.nest(e, pb, b)
                out = ["invoke", name, str(nargs)] + wb + words
            elif k == "invoke_static":
                b = ir.BaseClass(self.util.get_type(cls), descriptor=cls)
                e = ir.InvokeStaticInstruction(cls, name, b, rt, [], list(phs), (cls, name, "()I"))
                out = ["invoke", name, str(nargs), "base", dotted(cls)] + words
            else:
                pb = self.ph()
                e = ir.InvokeDirectInstruction(cls, "<init>", pb, "V", [], list(phs), (cls, "<init>", "()V"))
                self.nest(e, pb, ir.NewInstance(cls))
                out = ["new", dotted(cls), str(nargs)] + words
            for p, (a, _) in zip(phs, args):
                self.nest(e, p, a)
            return e, out
        raise ValueError(k)


def real_text(wr, e):
    w = wr.Writer(None, None)
    e.visit(w)
    return str(w)


def parse_reply(line):
    """'wf=1 level=15 parse=ok toks=…' -> dict"""
    d = {}
    head, _, toks = line.partition(" toks=")
    for part in head.split():
        k, _, v = part.partition("=")
        d[k] = v
    d["toks"] = toks.strip()
    return d


def leg(ck, drv, n):
    from gen import translate as gt
    from harness.fw import REPO
    import importlib
    _dex, _oi, ir, wr = gt._load(REPO)
    util = importlib.import_module("androguard.decompiler.util")
    g = Gen(ir, util, ck.rng)
    reqs, real, shapes = [], [], []
    for i in range(n):
        wild = i % 5 == 4
        want = ck.rng.choice(("num", "num", "ref", "top", "top", "bool"))
        depth = ck.rng.choice((1, 2, 2, 3, 3, 4))
        e, words = g.tree(depth, want, wild)
        try:
            text = real_text(wr, e)
            toks = lex(text)
            r = " ".join(toks) if toks is not None else "not-java:" + text
        except Exception as ex:  # noqa
            text, r = None, "other:" + type(ex).__name__
        reqs.append("jexpr " + " ".join(words))
        real.append(r)
        shapes.append((words[0], depth, wild))
    replies = drv.ask(reqs)
    parsed = [parse_reply(x) for x in replies]
    model = []
    for p, x, r in zip(parsed, replies, real):
        if p.get("wf") not in ("0", "1"):
            model.append(x)
        elif r.startswith("not-java:") and p["wf"] == "0":
            model.append(r)       # e.g. `0.length`: not lexically Java, and the model says the tree is not well-formed
        else:
            model.append(p["toks"])
    ck.compare("writer expression lexemes (print_parse)", reqs, real, model)
    nwf = 0
    for rq, p in zip(reqs, parsed):
        if p.get("wf") == "1":
            nwf += 1
            if p.get("parse") != "ok":
                ck.fail({"kind": "jexpr", "request": rq}, "the model's parser does not return the tree of a well-formed expression "
                        "(instance of theorem print_parse)", None, expected="parse=ok", observed=p.get("parse"))
    ck.cover(evaluations=len(reqs), distinct=set(reqs), samples=[{"request": reqs[i], "real": real[i], "model": replies[i]} for i in (0, len(reqs) // 2)],
             dist={"well-formed": nwf, "not well-formed (bare comparison as operand, a cmp b …)": len(reqs) - nwf})
    return reqs, real, parsed
