"""Chunked, multi-process correspondence + oracle sweep over graph families (used by C18 and C19).

A property module `mod` provides
    mod.CMD, mod.EXE
    mod.evaluate(G) -> (real_reply: str, failures: list[dict(case, what, key, expected, observed)], tags: list[str])
    mod.canon_model(reply: str) -> str            (drops ghost fields of the model's reply)
    mod.certified(reply: str) -> bool | None      (optional: the kernel-verified checker's verdict in the model reply)
Each worker runs the real code and the oracle on its graphs, pipes the same requests through the native
Lean driver, and returns only counts, the first few mismatches/failures and a few samples.
"""
from __future__ import annotations

import hashlib
import importlib
import multiprocessing
import os
import random
from collections import Counter

from harness import graphgen
from harness.fw import Driver

NPROC = min(16, os.cpu_count() or 1)


class BigCount(set):
    """a set that can also account for elements that are known to be distinct without storing them"""

    def __init__(self, *a):
        super().__init__(*a)
        self.extra = 0

    def __len__(self):
        return super().__len__() + self.extra


def task_graphs(task):
    kind = task["kind"]
    if kind == "exh":
        n = task["n"]
        for mask in range(task["lo"], task["hi"]):
            yield "exh%d" % n, graphgen.from_mask(n, mask)
    elif kind == "random":
        rng = random.Random(task["seed"])
        for _ in range(task["count"]):
            yield graphgen.random_graph(rng, task["max_n"])
    elif kind == "large":
        for fam, n, seed in task["items"]:
            yield "large", (fam, n, seed)
    elif kind == "history":
        for seed, index in task["items"]:
            yield "history", (seed, index)
    elif kind == "list":
        for name, G in task["graphs"]:
            yield name, G
    else:
        raise ValueError(kind)


def short_diff(a: str, b: str) -> tuple:
    """two long replies -> two short strings naming the first differing field/position"""
    if a == b or max(len(a), len(b)) <= 300:
        return a, b
    fa, fb = a.split("|"), b.split("|")
    for k, (x, y) in enumerate(zip(fa, fb)):
        if x != y:
            xs, ys = x.split(","), y.split(",")
            for i, (p, q) in enumerate(zip(xs, ys)):
                if p != q:
                    return ("field %d item %d: %s (… %d items)" % (k, i, ",".join(xs[i:i + 6]), len(xs)),
                            "field %d item %d: %s (… %d items)" % (k, i, ",".join(ys[i:i + 6]), len(ys)))
            return "field %d: %d items" % (k, len(xs)), "field %d: %d items" % (k, len(ys))
    return a[:120] + " … (%d fields)" % len(fa), b[:120] + " … (%d fields)" % len(fb)


def recursion_limit() -> int:
    """the limit the code under test sets: androguard/decompiler/__init__.py calls sys.setrecursionlimit at import"""
    import sys
    import androguard.decompiler  # noqa: F401
    return sys.getrecursionlimit()


def run_task(task):
    from harness.fw import quiet_androguard
    quiet_androguard()
    mod = importlib.import_module(task["module"])
    reqs, reals, fails, tags = [], [], [], Counter()
    nontrivial = 0
    keys = []
    exh = task["kind"] == "exh"
    samples = []
    labels, large_info = [], []
    canons = []
    for fam, G in task_graphs(task):
        if fam == "history":
            from harness import graphhist
            recs = graphhist.run(mod, *G)
            tags["histories"] += 1
            for rec in recs:
                reqs.append(rec["request"]); labels.append(rec["label"]); reals.append(rec["real"])
                canons.append(mod.canon_model_hist)
                tags["history_queries"] += 1
                for t in rec["tags"]:
                    tags[t] += 1
                keys.append(hashlib.blake2b(rec["request"].encode(), digest_size=8).digest())
                if len(fails) < 5:
                    fails.extend(rec["fails"][: 5 - len(fails)])
            if recs and len(samples) < 1:
                samples.append({"request": recs[-1]["label"], "real": recs[-1]["real"][:200]})
            continue
        canons.append(mod.canon_model)
        if fam == "large":
            lf, ln, lseed = G
            desc = {"family": lf, "n": ln, "seed": lseed}
            G = graphgen.large_graph(lf, ln, lseed)
            depth = graphgen.dfs_depth(G)
            limit = recursion_limit()
            if depth > limit - 400:
                # the unchanged recursive code cannot walk this one (RecursionError): outside the stated sizes
                tags["large_skipped_dfs_depth_near_recursion_limit"] += 1
                canons.pop()
                continue
            req = getattr(mod, "CMD_LARGE", mod.CMD) + " " + graphgen.encode(G)
            label = "%s large family=%s n=%d seed=%s" % (mod.CMD, lf, ln, lseed)
            real, fl, tg = mod.evaluate(G, desc)
            large_info.append("%s n=%d seed=%s: edges=%d dfs_depth=%d request_bytes=%d" % (
                lf, ln, lseed, sum(len(graphgen.all_sucs(G, u)) for u in range(ln)), depth, len(req)))
            tags["large_n=%d" % ln] += 1
        else:
            req = mod.CMD + " " + graphgen.encode(G)
            label = req
            real, fl, tg = mod.evaluate(G)
        reqs.append(req)
        labels.append(label)
        reals.append(real)
        tags[fam] += 1
        for t in tg:
            tags[t] += 1
        if "nontrivial" in tg:
            if exh:
                nontrivial += 1          # masks are distinct by construction
            else:
                keys.append(hashlib.blake2b(req.encode(), digest_size=8).digest())
        if len(fails) < 5:
            fails.extend(fl[: 5 - len(fails)])
        if len(samples) < 1 and "nontrivial" in tg:
            samples.append({"request": label, "real": short_diff(real, "")[0][:300]})
    model_raw = Driver(mod.EXE).ask(reqs)
    mism, nmism, ncert, nuncert = [], 0, 0, 0
    cert = getattr(mod, "certified", None)
    for rq, a, mr, canon in zip(labels, reals, model_raw, canons):
        b = canon(mr)
        if a != b:
            nmism += 1
            if len(mism) < 5:
                mism.append((rq,) + short_diff(a, b))
        if cert is not None:
            c = cert(mr)
            if c is True:
                ncert += 1
            elif c is False:
                nuncert += 1
                if len(mism) < 5:
                    mism.append((rq, short_diff(a, "")[0][:300], "model answer NOT certified by checkDomTree: " + mr[:300]))
                    nmism += 1
    return {"count": len(reqs), "mism": mism, "nmism": nmism, "fails": fails, "tags": dict(tags),
            "nontrivial": nontrivial, "keys": keys, "samples": samples, "certified": ncert, "uncertified": nuncert, "large_info": large_info}


def large_items(escalated: bool):
    """(family, n, seed) names of the large-size stream, placed around the size cliffs a recursive implementation
    invites: half the recursion limit, the limit itself, and plain 'big'.  Returns (items, limit)."""
    L = recursion_limit()
    h = L // 2
    fams = sorted(graphgen.LARGE_FAMILIES)
    base = [(h - 100, ["chain_loop", "comb_loop_entry", "catch_into_entry"]),
            (h - 1, ["chain_loop", "tree_back_entry", "dense_tail"]),
            (h, fams),
            (h + 1, ["comb_loop_entry", "deep_bushy", "catch_into_entry"]),
            (h + 100, fams), (3000, fams), (L + 100, fams)]
    items = [(f, n, 0) for n, fs in base for f in fs]
    if escalated:
        sizes = [n for n, _ in base] + [L - 1, L, L + 1]
        items += [(f, n, sd) for n in sizes for f in fams for sd in (0, 1, 2)]
    return list(dict.fromkeys(items)), L


def large_tasks(module: str, escalated: bool):
    items, L = large_items(escalated)
    return [{"kind": "large", "items": [it], "module": module} for it in items], L


def history_tasks(module: str, seed, count: int, per_task: int = 25):
    return [{"kind": "history", "items": [("%s" % seed, i) for i in range(lo, min(count, lo + per_task))], "module": module}
            for lo in range(0, count, per_task)]


HISTORY_NOTE = ("history stream: seeded sequences of <= 15 operations (add_node/add_edge/add_catch_edge/remove_node/compute_rpo/"
                "immediate_dominators, and direct pokes that bypass the mutators: in-place retarget / swap / remove-one-append-another "
                "of successors in g.edges[n] or g.catch_edges[n], g.edges[n] = new list, rebinding g.edges / g.catch_edges / g.nodes, "
                "g.entry = x, del g.edges[leaf]) on ONE real Graph object; after every query the answer is compared with the model and judged by "
                "the oracle, both evaluated on the node/edge sets read off the Graph object at that moment - the model is a pure "
                "function of the current graph, so any dependence of an answer on the history (stale caches, numbers left over from "
                "an earlier state) shows up as a divergence; scripted shapes include query, remove a reachable block that is not "
                "RPO-numbered, query")


def sweep(ck, stream, tasks, processes=NPROC):
    """run tasks in a process pool; fold the results into the Check. returns the merged tag counter."""
    if not isinstance(ck.distinct, BigCount):
        ck.distinct = BigCount(ck.distinct)
    tags = Counter()
    total = {"count": 0, "certified": 0, "uncertified": 0, "large_info": []}
    if processes > 1 and len(tasks) > 1:
        with multiprocessing.Pool(processes) as pool:
            results = pool.map(run_task, tasks, chunksize=1)
    else:
        results = [run_task(t) for t in tasks]
    for r in results:
        rq = [m[0] for m in r["mism"]]
        ck.compare(stream, rq, [m[1] for m in r["mism"]], [m[2] for m in r["mism"]])
        extra = r["count"] - len(rq)
        ck.corr_cases += extra
        ck.corr_streams[stream] = ck.corr_streams.get(stream, 0) + extra
        for f in r["fails"]:
            ck.fail(f["case"], f["what"], f.get("key"), f.get("expected"), f.get("observed"))
        ck.cover(evaluations=r["count"], samples=r["samples"])
        ck.distinct.extra += r["nontrivial"]
        ck.distinct.update(r["keys"])
        tags.update(r["tags"])
        for k in total:
            total[k] += r.get(k, 0 if k != "large_info" else [])
    return tags, total
