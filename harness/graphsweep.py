"""Chunked, multi-process correspondence + oracle sweep over graph families (used by C18 and C19).

A property module `mod` provides
    mod.CMD, mod.EXE
    mod.evaluate(G) -> (real_reply: str, failures: list[dict(case, what, key, expected, observed)], tags: list[str])
    mod.canon_model(reply: str) -> str            (drops ghost fields of the model's reply)
    mod.certified(reply: str) -> bool | None      (optional: the kernel-verified checker's verdict in the model reply)
Each worker runs the real code and the oracle on its graphs, pipes the same requests through the native
Lean driver, and returns only counts, the first few mismatches/failures and a few samples.
"""
from __future__ import annotations

import hashlib
import importlib
import multiprocessing
import os
import random
from collections import Counter

from harness import graphgen
from harness.fw import Driver

NPROC = min(16, os.cpu_count() or 1)


class BigCount(set):
    """a set that can also account for elements that are known to be distinct without storing them"""

    def __init__(self, *a):
        super().__init__(*a)
        self.extra = 0

    def __len__(self):
        return super().__len__() + self.extra


def task_graphs(task):
    kind = task["kind"]
    if kind == "exh":
        n = task["n"]
        for mask in range(task["lo"], task["hi"]):
            yield "exh%d" % n, graphgen.from_mask(n, mask)
    elif kind == "random":
        rng = random.Random(task["seed"])
        for _ in range(task["count"]):
            yield graphgen.random_graph(rng, task["max_n"])
    elif kind == "list":
        for name, G in task["graphs"]:
            yield name, G
    else:
        raise ValueError(kind)


def run_task(task):
    from harness.fw import quiet_androguard
    quiet_androguard()
    mod = importlib.import_module(task["module"])
    reqs, reals, fails, tags = [], [], [], Counter()
    nontrivial = 0
    keys = []
    exh = task["kind"] == "exh"
    samples = []
    for fam, G in task_graphs(task):
        req = mod.CMD + " " + graphgen.encode(G)
        real, fl, tg = mod.evaluate(G)
        reqs.append(req)
        reals.append(real)
        tags[fam] += 1
        for t in tg:
            tags[t] += 1
        if "nontrivial" in tg:
            if exh:
                nontrivial += 1          # masks are distinct by construction
            else:
                keys.append(hashlib.blake2b(req.encode(), digest_size=8).digest())
        if len(fails) < 5:
            fails.extend(fl[: 5 - len(fails)])
        if len(samples) < 1 and "nontrivial" in tg:
            samples.append({"request": req, "real": real})
    model_raw = Driver(mod.EXE).ask(reqs)
    mism, nmism, ncert, nuncert = [], 0, 0, 0
    cert = getattr(mod, "certified", None)
    for rq, a, mr in zip(reqs, reals, model_raw):
        b = mod.canon_model(mr)
        if a != b:
            nmism += 1
            if len(mism) < 5:
                mism.append((rq, a, b))
        if cert is not None:
            c = cert(mr)
            if c is True:
                ncert += 1
            elif c is False:
                nuncert += 1
                if len(mism) < 5:
                    mism.append((rq, a, "model answer NOT certified by checkDomTree: " + mr))
                    nmism += 1
    return {"count": len(reqs), "mism": mism, "nmism": nmism, "fails": fails, "tags": dict(tags),
            "nontrivial": nontrivial, "keys": keys, "samples": samples, "certified": ncert, "uncertified": nuncert}


def sweep(ck, stream, tasks, processes=NPROC):
    """run tasks in a process pool; fold the results into the Check. returns the merged tag counter."""
    if not isinstance(ck.distinct, BigCount):
        ck.distinct = BigCount(ck.distinct)
    tags = Counter()
    total = {"count": 0, "certified": 0, "uncertified": 0}
    if processes > 1 and len(tasks) > 1:
        with multiprocessing.Pool(processes) as pool:
            results = pool.map(run_task, tasks, chunksize=1)
    else:
        results = [run_task(t) for t in tasks]
    for r in results:
        rq = [m[0] for m in r["mism"]]
        ck.compare(stream, rq, [m[1] for m in r["mism"]], [m[2] for m in r["mism"]])
        extra = r["count"] - len(rq)
        ck.corr_cases += extra
        ck.corr_streams[stream] = ck.corr_streams.get(stream, 0) + extra
        for f in r["fails"]:
            ck.fail(f["case"], f["what"], f.get("key"), f.get("expected"), f.get("observed"))
        ck.cover(evaluations=r["count"], samples=r["samples"])
        ck.distinct.extra += r["nontrivial"]
        ck.distinct.update(r["keys"])
        tags.update(r["tags"])
        for k in total:
            total[k] += r[k]
    return tags, total
